#!/usr/bin/env python3
"""matrix.py [--only C05,C07] : runs `./check <ID> quick --mutant <patch>` for every patch under
mutants/c<id>/ and every seeded/<name>/patch.diff whose meta.json names property <ID> (or that is
listed for the check in EXTRA below), in a separate build directory, sequentially, and writes the
outcome table into DESIGN.md between <!--matrix--> markers (results are cached in
tools/matrix_results.json; delete an entry to re-run it)."""
import json, os, subprocess, sys, glob, re, time

root = os.path.dirname(os.path.dirname(os.path.abspath(__file__)))
os.chdir(root)
only = None
if '--only' in sys.argv:
    only = set(sys.argv[sys.argv.index('--only') + 1].split(','))
respath = 'tools/matrix_results.json'
res = json.load(open(respath)) if os.path.exists(respath) else {}
claimed = [c['property_id'] for c in json.load(open('tools/checks.json'))['checks']]
if only:
    claimed = sorted(set(claimed) | only)
# a change seeded for one property is also run against checks of closely related properties
EXTRA = {'C03': ['C01', 'C04'], 'C04': ['C03', 'C01'], 'C05': ['C07', 'C06'], 'C07': ['C05'], 'C06': ['C05'], 'C01': ['C03'], 'C13': [], 'C02': ['C15']}
jobs = []
for pid in claimed:
    for p in sorted(glob.glob(f'mutants/{pid.lower()}/*.patch')):
        if os.path.basename(p).startswith('fix_'):
            continue
        jobs.append((pid, p))
for d in sorted(glob.glob('seeded/*/')):
    name = os.path.basename(d.rstrip('/'))
    try:
        meta = json.load(open(d + 'meta.json'))
    except Exception:
        continue
    prop = meta.get('property', name[:3])
    for pid in [prop] + EXTRA.get(prop, []):
        if pid in claimed and os.path.exists(d + 'patch.diff'):
            jobs.append((pid, d + 'patch.diff'))
for pid, patch in jobs:
    key = f'{pid} {patch}'
    if only and pid not in only:
        continue
    if key in res:
        continue
    t0 = time.time()
    env = dict(os.environ, VERIF_BUILD=f'/tmp/vbm-{pid}')
    r = subprocess.run(['./check', pid, 'quick', '--mutant', patch], capture_output=True, text=True, env=env)
    viol = [l for l in r.stdout.splitlines() if l.startswith('VIOLATION')]
    first = ''
    lines = r.stdout.splitlines()
    for i, l in enumerate(lines):
        if l.startswith('VIOLATION') and i + 1 < len(lines):
            first = lines[i + 1].strip()[:300]
            break
    res[key] = {'exit': r.returncode, 'violations': len(viol), 'first': first, 'wall_s': round(time.time() - t0), 'err': (r.stderr[-300:] if r.returncode == 2 else '')}
    json.dump(res, open(respath, 'w'), indent=1)
    print(key, res[key]['exit'], len(viol), flush=True)
# table
rows = ['| check | change | written for | result | first observation |', '|---|---|---|---|---|']
for key in sorted(res):
    pid, patch = key.split(' ', 1)
    if not os.path.exists(patch):
        continue
    v = res[key]
    own = pid
    if patch.startswith('seeded/'):
        try:
            own = json.load(open(os.path.dirname(patch) + '/meta.json')).get('property', pid)
        except Exception:
            pass
    verdict = 'caught (exit 1)' if v['exit'] == 1 and v['violations'] > 0 else ('HARNESS-ERROR / build error (exit 2)' if v['exit'] == 2 else 'NOT caught (exit 0)')
    if own != pid and verdict.startswith('NOT'):
        verdict = 'not caught (cross-run for information: the change breaks ' + own + ', not ' + pid + ')'
    rows.append(f"| {pid} | `{patch}` | {own} | {verdict} | {v['first'].replace('|', '/')[:220]} |")
s = open('DESIGN.md').read()
table = '<!--matrix-->\n' + '\n'.join(rows) + '\n<!--/matrix-->'
s = re.sub(r'<!--matrix-->.*?<!--/matrix-->', lambda m: table, s, flags=re.S)
open('DESIGN.md', 'w').write(s)
