#!/usr/bin/env python3
"""confirm_seed.py <name> [<agent worktree>]
Copies a sub-agent's _seed deliverables to /verif/seeded/<name>/ and confirms, in a fresh scratch
worktree of /repo HEAD: the patch applies and builds, the repository's baseline tests still pass
with it, the demonstration fails with it and passes without it. Writes the outcome into meta.json
("confirmed") and removes the scratch worktree."""
import json, os, subprocess, sys, shutil, re, glob

name = sys.argv[1]
src = sys.argv[2] if len(sys.argv) > 2 else f'/tmp/seed/{name}'
dst = f'/verif/seeded/{name}'
os.makedirs(dst, exist_ok=True)
if os.path.isdir(f'{src}/_seed'):
    for f in os.listdir(f'{src}/_seed'):
        shutil.copy(f'{src}/_seed/{f}', dst)
meta = json.load(open(f'{dst}/meta.json'))
env = dict(os.environ, GOFLAGS='-mod=mod', GOPROXY='off', GOSUMDB='off', GOTOOLCHAIN='local')
W = f'/tmp/confirm/{name}'
subprocess.run(['git', '-C', '/repo', 'worktree', 'remove', '--force', W], capture_output=True)
os.makedirs('/tmp/confirm', exist_ok=True)
subprocess.check_call(['git', '-C', '/repo', 'worktree', 'add', '--detach', '-q', W, 'HEAD'])
res = {}
try:
    def sh(cmd, **kw):
        return subprocess.run(cmd, shell=True, cwd=W, env=env, capture_output=True, text=True, **kw)
    r = sh(f'git apply {dst}/patch.diff')
    res['applies'] = r.returncode == 0
    if not res['applies']:
        res['apply_err'] = r.stderr[-500:]
        raise SystemExit
    files = [l[6:] for l in open(f'{dst}/patch.diff') if l.startswith('+++ b/')]
    pkgs = sorted({'./' + os.path.dirname(f) for f in files if f.endswith('.go')})
    r = sh('go build ' + ' '.join(pkgs))
    res['builds'] = r.returncode == 0
    # baseline with the change
    r = sh('go test -json -vet=off -count=1 -timeout 25m ./... 2>/dev/null')
    passed = set()
    failed = set()
    for l in r.stdout.splitlines():
        try:
            e = json.loads(l)
        except Exception:
            continue
        if e.get('Test') and e.get('Action') in ('pass', 'fail'):
            k = e['Package'] + '::' + e['Test']
            (passed if e['Action'] == 'pass' else failed).add(k)
    base = set(json.load(open('/root/.vp/BASELINE.json'))['stable_pass'])
    missing = sorted(base - passed)
    res['baseline_pass'] = len(base & passed)
    res['baseline_missing'] = missing[:10]
    res['baseline_ok'] = not missing
    # demo
    demos = [f for f in os.listdir(dst) if f.endswith('_test.go')]
    ddir = (meta.get('demo_pkg_dir', '').split() or [''])[0].strip('/').replace('./', '')
    for d in demos:
        shutil.copy(f'{dst}/{d}', f'{W}/{ddir}/zz_seed_{d}')
    run = f'go test -count=1 -vet=off ./{ddir}/ -run "Seed|seed|Demo|demo"'
    r = sh(run)
    res['demo_fails_with_change'] = r.returncode != 0 and 'FAIL' in (r.stdout + r.stderr) and '[build failed]' not in r.stdout
    res['demo_fail_excerpt'] = '\n'.join([l for l in r.stdout.splitlines() if 'FAIL' in l or 'zz_seed' in l][:6])
    sh(f'git apply -R {dst}/patch.diff')
    r = sh(run)
    res['demo_passes_without_change'] = r.returncode == 0
    if r.returncode != 0:
        res['demo_unchanged_out'] = (r.stdout + r.stderr)[-800:]
finally:
    subprocess.run(['git', '-C', '/repo', 'worktree', 'remove', '--force', W], capture_output=True)
    res['repo_head'] = subprocess.run(['git', '-C', '/repo', 'rev-parse', '--short', 'HEAD'], capture_output=True, text=True).stdout.strip()
    meta['confirmed'] = res
    meta['confirmed_ok'] = bool(res.get('applies') and res.get('builds') and res.get('baseline_ok') and res.get('demo_fails_with_change') and res.get('demo_passes_without_change'))
    json.dump(meta, open(f'{dst}/meta.json', 'w'), indent=1)
    print(name, 'CONFIRMED' if meta['confirmed_ok'] else 'NOT CONFIRMED', json.dumps(res)[:600])
