module verif/mkoverlay

go 1.23
