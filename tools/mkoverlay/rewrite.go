package main

import (
	"go/ast"
	"go/parser"
	"go/token"
	"os"
	"path/filepath"
	"sort"
	"strconv"
	"strings"
)

// rewritePkg applies a source-to-source rewrite `kind` to copies of the
// non-test Go files of repo package directory `pkg` (relative to the repo
// root) and maps the copies over the originals in the overlay. The copy is
// taken from whatever currently stands for the file (a mutant copy if the
// mutant patch touched it), so rewrites compose with --mutant.
//
// kinds:
//
//	vsync   import "sync"        -> sync   "<module>/verif_h/vsync"
//	        import "sync/atomic" -> atomic "<module>/verif_h/vsync/atomic"
//	        The local package name is kept (an explicit alias is preserved), so
//	        no other token of the file changes; the splice is done on the bytes
//	        of the import spec only (positions from go/parser), so line numbers
//	        in the copy equal those of the original.
//	vrange  spec "vrange:<pkgdir>=<expr>[+<expr>...]": every `for ... := range <expr>`
//	        whose range operand is textually one of the listed expressions (which
//	        must be maps) becomes `range sync.RangeMap(<expr>)`: under the
//	        cooperative scheduler the map is walked in sorted key order (Go's
//	        randomised map order would make schedules irreproducible); outside it
//	        the native order is used. The file must import "sync" (apply after
//	        vsync so that sync is package vsync). Same-line splice.
func rewritePkg(ov *overlay, gen, kind, pkg string) {
	switch kind {
	case "vsync":
		rewriteImports(ov, gen, pkg, map[string][2]string{
			"sync":        {"sync", modulePath() + "/verif_h/vsync"},
			"sync/atomic": {"atomic", modulePath() + "/verif_h/vsync/atomic"},
		})
	case "vrange":
		kv := strings.SplitN(pkg, "=", 2)
		if len(kv) != 2 {
			die("vrange needs <pkgdir>=<expr>[+<expr>]")
		}
		rewriteRanges(ov, gen, kv[0], strings.Split(kv[1], "+"))
	default:
		die("rewrite %q not implemented", kind)
	}
}

func modulePath() string {
	b, err := os.ReadFile(filepath.Join(*repo, "go.mod"))
	must(err)
	for _, l := range strings.Split(string(b), "\n") {
		f := strings.Fields(l)
		if len(f) == 2 && f[0] == "module" {
			return f[1]
		}
	}
	die("module path not found in go.mod")
	return ""
}

type splice struct {
	from, to int
	text     string
}

// rewriteImports replaces import paths in every non-test .go file of pkg.
// imports maps old path -> {default local name, new path}.
func rewriteImports(ov *overlay, gen, pkg string, imports map[string][2]string) {
	dir := filepath.Join(*repo, pkg)
	ents, err := os.ReadDir(dir)
	if err != nil {
		die("rewrite: %v", err)
	}
	nfiles, nspecs := 0, 0
	for _, e := range ents {
		n := e.Name()
		if e.IsDir() || !strings.HasSuffix(n, ".go") || strings.HasSuffix(n, "_test.go") {
			continue
		}
		rel := filepath.Join(pkg, n)
		abs := filepath.Join(*repo, rel)
		if r, ok := ov.Replace[abs]; ok && r == "" {
			continue // deleted by an earlier overlay step
		}
		from := src(ov, rel)
		b, err := os.ReadFile(from)
		must(err)
		fset := token.NewFileSet()
		f, err := parser.ParseFile(fset, from, b, parser.ImportsOnly)
		if err != nil {
			die("rewrite: parse %s: %v", from, err)
		}
		var sp []splice
		for _, im := range f.Imports {
			p, err := strconv.Unquote(im.Path.Value)
			if err != nil {
				continue
			}
			to, ok := imports[p]
			if !ok {
				continue
			}
			name := to[0]
			if im.Name != nil {
				name = im.Name.Name
			}
			sp = append(sp, splice{fset.Position(im.Pos()).Offset, fset.Position(im.End()).Offset,
				name + " " + strconv.Quote(to[1])})
		}
		if len(sp) == 0 {
			continue
		}
		sort.Slice(sp, func(i, j int) bool { return sp[i].from > sp[j].from })
		for _, s := range sp {
			b = append(append(append([]byte{}, b[:s.from]...), s.text...), b[s.to:]...)
		}
		dst := filepath.Join(gen, "rewrite", rel)
		must(os.MkdirAll(filepath.Dir(dst), 0o755))
		must(os.WriteFile(dst, b, 0o644))
		ov.Replace[abs] = dst
		nfiles++
		nspecs += len(sp)
	}
	if nfiles == 0 {
		die("rewrite: no file of %s imports any of the rewritten packages (wrong package dir?)", pkg)
	}
}

// rewriteRanges wraps the operand of matching range statements (see rewritePkg).
func rewriteRanges(ov *overlay, gen, pkg string, exprs []string) {
	dir := filepath.Join(*repo, pkg)
	ents, err := os.ReadDir(dir)
	if err != nil {
		die("rewrite: %v", err)
	}
	want := map[string]bool{}
	for _, e := range exprs {
		want[e] = true
	}
	nsites := 0
	for _, e := range ents {
		n := e.Name()
		if e.IsDir() || !strings.HasSuffix(n, ".go") || strings.HasSuffix(n, "_test.go") {
			continue
		}
		rel := filepath.Join(pkg, n)
		abs := filepath.Join(*repo, rel)
		if r, ok := ov.Replace[abs]; ok && r == "" {
			continue
		}
		from := src(ov, rel)
		b, err := os.ReadFile(from)
		must(err)
		fset := token.NewFileSet()
		f, err := parser.ParseFile(fset, from, b, 0)
		if err != nil {
			die("rewrite: parse %s: %v", from, err)
		}
		var sp []splice
		ast.Inspect(f, func(nd ast.Node) bool {
			rs, ok := nd.(*ast.RangeStmt)
			if !ok {
				return true
			}
			lo, hi := fset.Position(rs.X.Pos()).Offset, fset.Position(rs.X.End()).Offset
			if txt := string(b[lo:hi]); want[txt] {
				sp = append(sp, splice{lo, hi, "sync.RangeMap(" + txt + ")"})
			}
			return true
		})
		if len(sp) == 0 {
			continue
		}
		hasSync := false
		for _, im := range f.Imports {
			if (im.Name == nil && (im.Path.Value == `"sync"` || strings.HasSuffix(im.Path.Value, `/vsync"`))) || (im.Name != nil && im.Name.Name == "sync") {
				hasSync = true
			}
		}
		if !hasSync {
			die("rewrite vrange: %s has a matching range site but does not import sync", rel)
		}
		sort.Slice(sp, func(i, j int) bool { return sp[i].from > sp[j].from })
		for _, s := range sp {
			b = append(append(append([]byte{}, b[:s.from]...), s.text...), b[s.to:]...)
		}
		dst := filepath.Join(gen, "rewrite", rel)
		must(os.MkdirAll(filepath.Dir(dst), 0o755))
		must(os.WriteFile(dst, b, 0o644))
		ov.Replace[abs] = dst
		nsites += len(sp)
	}
	if nsites == 0 {
		die("rewrite vrange: no range site over %v found in %s", exprs, pkg)
	}
}
