package main

import (
	"bytes"
	"crypto/sha256"
	"encoding/json"
	"fmt"
	"go/ast"
	"go/parser"
	"go/token"
	"os"
	"os/exec"
	"path/filepath"
	"regexp"
	"sort"
	"strconv"
	"strings"
)

// rewritePkg applies a source-to-source rewrite `kind` to copies of the
// non-test Go files of repo package directory `pkg` (relative to the repo
// root) and maps the copies over the originals in the overlay. The copy is
// taken from whatever currently stands for the file (a mutant copy if the
// mutant patch touched it), so rewrites compose with --mutant.
//
// kinds:
//
//	vsync   import "sync"        -> sync   "<module>/verif_h/vsync"
//	        import "sync/atomic" -> atomic "<module>/verif_h/vsync/atomic"
//	        The local package name is kept (an explicit alias is preserved), so
//	        no other token of the file changes; the splice is done on the bytes
//	        of the import spec only (positions from go/parser), so line numbers
//	        in the copy equal those of the original.
//	vrange  spec "vrange:<pkgdir>=<expr>[+<expr>...]": every `for ... := range <expr>`
//	        whose range operand is textually one of the listed expressions (which
//	        must be maps) becomes `range sync.RangeMap(<expr>)`: under the
//	        cooperative scheduler the map is walked in sorted key order (Go's
//	        randomised map order would make schedules irreproducible); outside it
//	        the native order is used. The file must import "sync" (apply after
//	        vsync so that sync is package vsync). Same-line splice.
func rewritePkg(ov *overlay, gen, kind, pkg string) {
	switch kind {
	case "vsync":
		rewriteImports(ov, gen, pkg, map[string][2]string{
			"sync":        {"sync", modulePath() + "/verif_h/vsync"},
			"sync/atomic": {"atomic", modulePath() + "/verif_h/vsync/atomic"},
		})
	case "vrange":
		kv := strings.SplitN(pkg, "=", 2)
		if len(kv) != 2 {
			die("vrange needs <pkgdir>=<expr>[+<expr>]")
		}
		rewriteRanges(ov, gen, kv[0], strings.Split(kv[1], "+"))
	case "vorder":
		rewriteVorder(ov, gen, pkg)
	default:
		die("rewrite %q not implemented", kind)
	}
}

func modulePath() string {
	b, err := os.ReadFile(filepath.Join(*repo, "go.mod"))
	must(err)
	for _, l := range strings.Split(string(b), "\n") {
		f := strings.Fields(l)
		if len(f) == 2 && f[0] == "module" {
			return f[1]
		}
	}
	die("module path not found in go.mod")
	return ""
}

type splice struct {
	from, to int
	text     string
}

// rewriteImports replaces import paths in every non-test .go file of pkg.
// imports maps old path -> {default local name, new path}.
func rewriteImports(ov *overlay, gen, pkg string, imports map[string][2]string) {
	dir := filepath.Join(*repo, pkg)
	ents, err := os.ReadDir(dir)
	if err != nil {
		die("rewrite: %v", err)
	}
	nfiles, nspecs := 0, 0
	for _, e := range ents {
		n := e.Name()
		if e.IsDir() || !strings.HasSuffix(n, ".go") || strings.HasSuffix(n, "_test.go") {
			continue
		}
		rel := filepath.Join(pkg, n)
		abs := filepath.Join(*repo, rel)
		if r, ok := ov.Replace[abs]; ok && r == "" {
			continue // deleted by an earlier overlay step
		}
		from := src(ov, rel)
		b, err := os.ReadFile(from)
		must(err)
		fset := token.NewFileSet()
		f, err := parser.ParseFile(fset, from, b, parser.ImportsOnly)
		if err != nil {
			die("rewrite: parse %s: %v", from, err)
		}
		var sp []splice
		for _, im := range f.Imports {
			p, err := strconv.Unquote(im.Path.Value)
			if err != nil {
				continue
			}
			to, ok := imports[p]
			if !ok {
				continue
			}
			name := to[0]
			if im.Name != nil {
				name = im.Name.Name
			}
			sp = append(sp, splice{fset.Position(im.Pos()).Offset, fset.Position(im.End()).Offset,
				name + " " + strconv.Quote(to[1])})
		}
		if len(sp) == 0 {
			continue
		}
		sort.Slice(sp, func(i, j int) bool { return sp[i].from > sp[j].from })
		for _, s := range sp {
			b = append(append(append([]byte{}, b[:s.from]...), s.text...), b[s.to:]...)
		}
		dst := filepath.Join(gen, "rewrite", rel)
		must(os.MkdirAll(filepath.Dir(dst), 0o755))
		must(os.WriteFile(dst, b, 0o644))
		ov.Replace[abs] = dst
		nfiles++
		nspecs += len(sp)
	}
	if nfiles == 0 {
		die("rewrite: no file of %s imports any of the rewritten packages (wrong package dir?)", pkg)
	}
}

// rewriteRanges wraps the operand of matching range statements (see rewritePkg).
func rewriteRanges(ov *overlay, gen, pkg string, exprs []string) {
	dir := filepath.Join(*repo, pkg)
	ents, err := os.ReadDir(dir)
	if err != nil {
		die("rewrite: %v", err)
	}
	want := map[string]bool{}
	for _, e := range exprs {
		want[e] = true
	}
	nsites := 0
	for _, e := range ents {
		n := e.Name()
		if e.IsDir() || !strings.HasSuffix(n, ".go") || strings.HasSuffix(n, "_test.go") {
			continue
		}
		rel := filepath.Join(pkg, n)
		abs := filepath.Join(*repo, rel)
		if r, ok := ov.Replace[abs]; ok && r == "" {
			continue
		}
		from := src(ov, rel)
		b, err := os.ReadFile(from)
		must(err)
		fset := token.NewFileSet()
		f, err := parser.ParseFile(fset, from, b, 0)
		if err != nil {
			die("rewrite: parse %s: %v", from, err)
		}
		var sp []splice
		ast.Inspect(f, func(nd ast.Node) bool {
			rs, ok := nd.(*ast.RangeStmt)
			if !ok {
				return true
			}
			lo, hi := fset.Position(rs.X.Pos()).Offset, fset.Position(rs.X.End()).Offset
			if txt := string(b[lo:hi]); want[txt] {
				sp = append(sp, splice{lo, hi, "sync.RangeMap(" + txt + ")"})
			}
			return true
		})
		if len(sp) == 0 {
			continue
		}
		hasSync := false
		for _, im := range f.Imports {
			if (im.Name == nil && (im.Path.Value == `"sync"` || strings.HasSuffix(im.Path.Value, `/vsync"`))) || (im.Name != nil && im.Name.Name == "sync") {
				hasSync = true
			}
		}
		if !hasSync {
			die("rewrite vrange: %s has a matching range site but does not import sync", rel)
		}
		sort.Slice(sp, func(i, j int) bool { return sp[i].from > sp[j].from })
		for _, s := range sp {
			b = append(append(append([]byte{}, b[:s.from]...), s.text...), b[s.to:]...)
		}
		dst := filepath.Join(gen, "rewrite", rel)
		must(os.MkdirAll(filepath.Dir(dst), 0o755))
		must(os.WriteFile(dst, b, 0o644))
		ov.Replace[abs] = dst
		nsites += len(sp)
	}
	if nsites == 0 {
		die("rewrite vrange: no range site over %v found in %s", exprs, pkg)
	}
}


// rewriteVorder ("vorder:<pkgdir>"): every `range X` whose operand is a map
// becomes `range vorder.Map(X)` (package verif_h/vorder). Which operands are
// maps is decided by the compiler: all range sites are wrapped with the
// map-only generic function, the package is compiled, the sites the compiler
// rejects are reverted, until it compiles. The set of reverted sites is cached
// by a hash of the package sources.
func rewriteVorder(ov *overlay, gen, pkg string) {
	dir := filepath.Join(*repo, pkg)
	ents, err := os.ReadDir(dir)
	must(err)
	type fileInfo struct {
		rel, abs, from string
		src            []byte
	}
	var files []*fileInfo
	h := sha256.New()
	for _, e := range ents {
		n := e.Name()
		if e.IsDir() || !strings.HasSuffix(n, ".go") || strings.HasSuffix(n, "_test.go") {
			continue
		}
		rel := filepath.Join(pkg, n)
		abs := filepath.Join(*repo, rel)
		if r, ok := ov.Replace[abs]; ok && r == "" {
			continue
		}
		from := src(ov, rel)
		b, err := os.ReadFile(from)
		must(err)
		if bytes.Contains(b, []byte("import \"C\"")) {
			continue
		}
		files = append(files, &fileInfo{rel, abs, from, b})
		h.Write([]byte(rel))
		h.Write(b)
	}
	key := fmt.Sprintf("%x", h.Sum(nil)[:12])
	cachePath := filepath.Join(*out, "vorder-cache.json")
	cache := map[string][]string{}
	if cb, err := os.ReadFile(cachePath); err == nil {
		json.Unmarshal(cb, &cache)
	}
	reverted := map[string]bool{} // "rel:line"
	cached := false
	if l, ok := cache[key]; ok {
		cached = true
		for _, s := range l {
			reverted[s] = true
		}
	}
	vpath := modulePath() + "/verif_h/vorder"
	write := func() int {
		nsites := 0
		for _, fi := range files {
			fset := token.NewFileSet()
			f, err := parser.ParseFile(fset, fi.from, fi.src, 0)
			if err != nil {
				die("vorder: parse %s: %v", fi.from, err)
			}
			var sp []splice
			ast.Inspect(f, func(nd ast.Node) bool {
				rs, ok := nd.(*ast.RangeStmt)
				if !ok {
					return true
				}
				line := fset.Position(rs.X.Pos()).Line
				if reverted[fmt.Sprintf("%s:%d", fi.rel, line)] {
					return true
				}
				// skip obvious non-maps cheaply: composite slice literals, calls to make([]..), integer literals
				if _, isLit := rs.X.(*ast.BasicLit); isLit {
					return true
				}
				lo, hi := fset.Position(rs.X.Pos()).Offset, fset.Position(rs.X.End()).Offset
				sp = append(sp, splice{lo, hi, "vorder__.Map(" + string(fi.src[lo:hi]) + ")"})
				return true
			})
			dst := filepath.Join(gen, "rewrite", fi.rel)
			if len(sp) == 0 {
				delete(ov.Replace, fi.abs)
				if fi.from != fi.abs {
					ov.Replace[fi.abs] = fi.from
				}
				continue
			}
			b := append([]byte{}, fi.src...)
			sort.Slice(sp, func(i, j int) bool { return sp[i].from > sp[j].from })
			for _, s := range sp {
				b = append(append(append([]byte{}, b[:s.from]...), s.text...), b[s.to:]...)
			}
			// add the import on the line of the package clause (keeps line numbers)
			pkgEnd := fset.Position(f.Name.End()).Offset
			b = append(append(append([]byte{}, b[:pkgEnd]...), []byte("; import vorder__ \""+vpath+"\"")...), b[pkgEnd:]...)
			must(os.MkdirAll(filepath.Dir(dst), 0o755))
			must(os.WriteFile(dst, b, 0o644))
			ov.Replace[fi.abs] = dst
			nsites += len(sp)
		}
		return nsites
	}
	nsites := write()
	if !cached {
		// the harness package vorder must be visible to the compiler
		ov.Replace[filepath.Join(*repo, "verif_h", "vorder", "vorder.go")] = filepath.Join(*verif, "harness", "vorder", "vorder.go")
		re := regexp.MustCompile(`(?m)^([^\s:]+\.go):(\d+):\d+: `)
		for iter := 0; iter < 40; iter++ {
			tmp := filepath.Join(*out, "overlay-vorder.json")
			ob, _ := json.Marshal(ov)
			must(os.WriteFile(tmp, ob, 0o644))
			cmd := exec.Command("go", "build", "-overlay", tmp, "-tags", "verif", "-gcflags=-e", "./"+pkg)
			cmd.Dir = *repo
			o, err := cmd.CombinedOutput()
			if err == nil {
				break
			}
			found := 0
			for _, m := range re.FindAllStringSubmatch(string(o), -1) {
				p := m[1]
				if !filepath.IsAbs(p) {
					p = filepath.Join(*repo, p)
				}
				for _, fi := range files {
					if p == fi.abs || p == filepath.Join(gen, "rewrite", fi.rel) {
						k := fmt.Sprintf("%s:%s", fi.rel, m[2])
						if !reverted[k] {
							reverted[k] = true
							found++
						}
					}
				}
			}
			if found == 0 {
				die("vorder: %s does not compile and no range site explains it:\n%s", pkg, o)
			}
			nsites = write()
		}
		var l []string
		for k := range reverted {
			l = append(l, k)
		}
		sort.Strings(l)
		cache[key] = l
		cb, _ := json.MarshalIndent(cache, "", " ")
		os.WriteFile(cachePath, cb, 0o644)
	}
	fmt.Fprintf(os.Stderr, "mkoverlay: vorder %s: %d map range sites rewritten, %d range sites left native\n", pkg, nsites, len(reverted))
}
