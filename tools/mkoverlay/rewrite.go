package main

import (
	"bytes"
	"crypto/sha256"
	"encoding/json"
	"fmt"
	"go/ast"
	"go/parser"
	"go/token"
	"os"
	"os/exec"
	"path/filepath"
	"regexp"
	"sort"
	"strconv"
	"strings"
)

// rewritePkg applies a source-to-source rewrite `kind` to copies of the
// non-test Go files of repo package directory `pkg` (relative to the repo
// root) and maps the copies over the originals in the overlay. The copy is
// taken from whatever currently stands for the file (a mutant copy if the
// mutant patch touched it), so rewrites compose with --mutant.
//
// kinds:
//
//	vsync   import "sync"        -> sync   "<module>/verif_h/vsync"
//	        import "sync/atomic" -> atomic "<module>/verif_h/vsync/atomic"
//	        The local package name is kept (an explicit alias is preserved), so
//	        no other token of the file changes; the splice is done on the bytes
//	        of the import spec only (positions from go/parser), so line numbers
//	        in the copy equal those of the original.
//	vrange  spec "vrange:<pkgdir>=<expr>[+<expr>...]": every `for ... := range <expr>`
//	        whose range operand is textually one of the listed expressions (which
//	        must be maps) becomes `range sync.RangeMap(<expr>)`: under the
//	        cooperative scheduler the map is walked in sorted key order (Go's
//	        randomised map order would make schedules irreproducible); outside it
//	        the native order is used. The file must import "sync" (apply after
//	        vsync so that sync is package vsync). Same-line splice.
//	fakec   spec "fakec:<pkgdir>=<support dir>": un-cgo a package (see rewriteFakeC).
func rewritePkg(ov *overlay, gen, kind, pkg string) {
	switch kind {
	case "vsync":
		rewriteImports(ov, gen, pkg, map[string][2]string{
			"sync":        {"sync", modulePath() + "/verif_h/vsync"},
			"sync/atomic": {"atomic", modulePath() + "/verif_h/vsync/atomic"},
		})
	case "vrange":
		kv := strings.SplitN(pkg, "=", 2)
		if len(kv) != 2 {
			die("vrange needs <pkgdir>=<expr>[+<expr>]")
		}
		rewriteRanges(ov, gen, kv[0], strings.Split(kv[1], "+"))
	case "vorder":
		rewriteVorder(ov, gen, pkg)
	case "vgo":
		rewriteVgo(ov, gen, pkg)
	case "vtime":
		kv := strings.SplitN(pkg, "=", 2)
		if len(kv) != 2 {
			die("vtime needs <pkgdir>=<file>[+<file>]")
		}
		rewriteVtime(ov, gen, kv[0], strings.Split(kv[1], "+"))
	case "fakec":
		kv := strings.SplitN(pkg, "=", 2)
		if len(kv) != 2 {
			die("fakec needs <pkgdir>=<support dir relative to the verif root>")
		}
		rewriteFakeC(ov, gen, kv[0], kv[1])
	default:
		die("rewrite %q not implemented", kind)
	}
}

func modulePath() string {
	b, err := os.ReadFile(filepath.Join(*repo, "go.mod"))
	must(err)
	for _, l := range strings.Split(string(b), "\n") {
		f := strings.Fields(l)
		if len(f) == 2 && f[0] == "module" {
			return f[1]
		}
	}
	die("module path not found in go.mod")
	return ""
}

type splice struct {
	from, to int
	text     string
}

// rewriteImports replaces import paths in every non-test .go file of pkg.
// imports maps old path -> {default local name, new path}.
func rewriteImports(ov *overlay, gen, pkg string, imports map[string][2]string) {
	dir := filepath.Join(*repo, pkg)
	ents, err := os.ReadDir(dir)
	if err != nil {
		die("rewrite: %v", err)
	}
	nfiles, nspecs := 0, 0
	for _, e := range ents {
		n := e.Name()
		if e.IsDir() || !strings.HasSuffix(n, ".go") || strings.HasSuffix(n, "_test.go") {
			continue
		}
		rel := filepath.Join(pkg, n)
		abs := filepath.Join(*repo, rel)
		if r, ok := ov.Replace[abs]; ok && r == "" {
			continue // deleted by an earlier overlay step
		}
		from := src(ov, rel)
		b, err := os.ReadFile(from)
		must(err)
		fset := token.NewFileSet()
		f, err := parser.ParseFile(fset, from, b, parser.ImportsOnly)
		if err != nil {
			die("rewrite: parse %s: %v", from, err)
		}
		var sp []splice
		for _, im := range f.Imports {
			p, err := strconv.Unquote(im.Path.Value)
			if err != nil {
				continue
			}
			to, ok := imports[p]
			if !ok {
				continue
			}
			name := to[0]
			if im.Name != nil {
				name = im.Name.Name
			}
			sp = append(sp, splice{fset.Position(im.Pos()).Offset, fset.Position(im.End()).Offset,
				name + " " + strconv.Quote(to[1])})
		}
		if len(sp) == 0 {
			continue
		}
		sort.Slice(sp, func(i, j int) bool { return sp[i].from > sp[j].from })
		for _, s := range sp {
			b = append(append(append([]byte{}, b[:s.from]...), s.text...), b[s.to:]...)
		}
		dst := filepath.Join(gen, "rewrite", rel)
		must(os.MkdirAll(filepath.Dir(dst), 0o755))
		must(os.WriteFile(dst, b, 0o644))
		ov.Replace[abs] = dst
		nfiles++
		nspecs += len(sp)
	}
	if nfiles == 0 {
		die("rewrite: no file of %s imports any of the rewritten packages (wrong package dir?)", pkg)
	}
}

// rewriteRanges wraps the operand of matching range statements (see rewritePkg).
func rewriteRanges(ov *overlay, gen, pkg string, exprs []string) {
	dir := filepath.Join(*repo, pkg)
	ents, err := os.ReadDir(dir)
	if err != nil {
		die("rewrite: %v", err)
	}
	want := map[string]bool{}
	for _, e := range exprs {
		want[e] = true
	}
	nsites := 0
	for _, e := range ents {
		n := e.Name()
		if e.IsDir() || !strings.HasSuffix(n, ".go") || strings.HasSuffix(n, "_test.go") {
			continue
		}
		rel := filepath.Join(pkg, n)
		abs := filepath.Join(*repo, rel)
		if r, ok := ov.Replace[abs]; ok && r == "" {
			continue
		}
		from := src(ov, rel)
		b, err := os.ReadFile(from)
		must(err)
		fset := token.NewFileSet()
		f, err := parser.ParseFile(fset, from, b, 0)
		if err != nil {
			die("rewrite: parse %s: %v", from, err)
		}
		var sp []splice
		ast.Inspect(f, func(nd ast.Node) bool {
			rs, ok := nd.(*ast.RangeStmt)
			if !ok {
				return true
			}
			lo, hi := fset.Position(rs.X.Pos()).Offset, fset.Position(rs.X.End()).Offset
			if txt := string(b[lo:hi]); want[txt] {
				sp = append(sp, splice{lo, hi, "sync.RangeMap(" + txt + ")"})
			}
			return true
		})
		if len(sp) == 0 {
			continue
		}
		hasSync := false
		for _, im := range f.Imports {
			if (im.Name == nil && (im.Path.Value == `"sync"` || strings.HasSuffix(im.Path.Value, `/vsync"`))) || (im.Name != nil && im.Name.Name == "sync") {
				hasSync = true
			}
		}
		if !hasSync {
			die("rewrite vrange: %s has a matching range site but does not import sync", rel)
		}
		sort.Slice(sp, func(i, j int) bool { return sp[i].from > sp[j].from })
		for _, s := range sp {
			b = append(append(append([]byte{}, b[:s.from]...), s.text...), b[s.to:]...)
		}
		dst := filepath.Join(gen, "rewrite", rel)
		must(os.MkdirAll(filepath.Dir(dst), 0o755))
		must(os.WriteFile(dst, b, 0o644))
		ov.Replace[abs] = dst
		nsites += len(sp)
	}
	if nsites == 0 {
		die("rewrite vrange: no range site over %v found in %s", exprs, pkg)
	}
}


// rewriteVorder ("vorder:<pkgdir>"): every `range X` whose operand is a map
// becomes `range vorder.Map(X)` (package verif_h/vorder). Which operands are
// maps is decided by the compiler: all range sites are wrapped with the
// map-only generic function, the package is compiled, the sites the compiler
// rejects are reverted, until it compiles. The set of reverted sites is cached
// by a hash of the package sources.
func rewriteVorder(ov *overlay, gen, pkg string) {
	dir := filepath.Join(*repo, pkg)
	ents, err := os.ReadDir(dir)
	must(err)
	type fileInfo struct {
		rel, abs, from string
		src            []byte
	}
	var files []*fileInfo
	h := sha256.New()
	for _, e := range ents {
		n := e.Name()
		if e.IsDir() || !strings.HasSuffix(n, ".go") || strings.HasSuffix(n, "_test.go") {
			continue
		}
		rel := filepath.Join(pkg, n)
		abs := filepath.Join(*repo, rel)
		if r, ok := ov.Replace[abs]; ok && r == "" {
			continue
		}
		from := src(ov, rel)
		b, err := os.ReadFile(from)
		must(err)
		if bytes.Contains(b, []byte("import \"C\"")) {
			continue
		}
		files = append(files, &fileInfo{rel, abs, from, b})
		h.Write([]byte(rel))
		h.Write(b)
	}
	key := fmt.Sprintf("%x", h.Sum(nil)[:12])
	cachePath := filepath.Join(*out, "vorder-cache.json")
	cache := map[string][]string{}
	if cb, err := os.ReadFile(cachePath); err == nil {
		json.Unmarshal(cb, &cache)
	}
	reverted := map[string]bool{} // "rel:line"
	cached := false
	if l, ok := cache[key]; ok {
		cached = true
		for _, s := range l {
			reverted[s] = true
		}
	}
	vpath := modulePath() + "/verif_h/vorder"
	write := func() int {
		nsites := 0
		for _, fi := range files {
			fset := token.NewFileSet()
			f, err := parser.ParseFile(fset, fi.from, fi.src, 0)
			if err != nil {
				die("vorder: parse %s: %v", fi.from, err)
			}
			var sp []splice
			ast.Inspect(f, func(nd ast.Node) bool {
				rs, ok := nd.(*ast.RangeStmt)
				if !ok {
					return true
				}
				line := fset.Position(rs.X.Pos()).Line
				if reverted[fmt.Sprintf("%s:%d", fi.rel, line)] {
					return true
				}
				// skip obvious non-maps cheaply: composite slice literals, calls to make([]..), integer literals
				if _, isLit := rs.X.(*ast.BasicLit); isLit {
					return true
				}
				lo, hi := fset.Position(rs.X.Pos()).Offset, fset.Position(rs.X.End()).Offset
				sp = append(sp, splice{lo, hi, "vorder__.Map(" + string(fi.src[lo:hi]) + ")"})
				return true
			})
			dst := filepath.Join(gen, "rewrite", fi.rel)
			if len(sp) == 0 {
				delete(ov.Replace, fi.abs)
				if fi.from != fi.abs {
					ov.Replace[fi.abs] = fi.from
				}
				continue
			}
			b := append([]byte{}, fi.src...)
			sort.Slice(sp, func(i, j int) bool { return sp[i].from > sp[j].from })
			for _, s := range sp {
				b = append(append(append([]byte{}, b[:s.from]...), s.text...), b[s.to:]...)
			}
			// add the import on the line of the package clause (keeps line numbers)
			pkgEnd := fset.Position(f.Name.End()).Offset
			b = append(append(append([]byte{}, b[:pkgEnd]...), []byte("; import vorder__ \""+vpath+"\"")...), b[pkgEnd:]...)
			must(os.MkdirAll(filepath.Dir(dst), 0o755))
			must(os.WriteFile(dst, b, 0o644))
			ov.Replace[fi.abs] = dst
			nsites += len(sp)
		}
		return nsites
	}
	nsites := write()
	if !cached {
		// the harness package vorder must be visible to the compiler
		ov.Replace[filepath.Join(*repo, "verif_h", "vorder", "vorder.go")] = filepath.Join(*verif, "harness", "vorder", "vorder.go")
		re := regexp.MustCompile(`(?m)^([^\s:]+\.go):(\d+):\d+: `)
		for iter := 0; iter < 40; iter++ {
			tmp := filepath.Join(*out, "overlay-vorder.json")
			ob, _ := json.Marshal(ov)
			must(os.WriteFile(tmp, ob, 0o644))
			cmd := exec.Command("go", "build", "-overlay", tmp, "-tags", "verif", "-gcflags=-e", "./"+pkg)
			cmd.Dir = *repo
			o, err := cmd.CombinedOutput()
			if err == nil {
				break
			}
			found := 0
			for _, m := range re.FindAllStringSubmatch(string(o), -1) {
				p := m[1]
				if !filepath.IsAbs(p) {
					p = filepath.Join(*repo, p)
				}
				for _, fi := range files {
					if p == fi.abs || p == filepath.Join(gen, "rewrite", fi.rel) {
						k := fmt.Sprintf("%s:%s", fi.rel, m[2])
						if !reverted[k] {
							reverted[k] = true
							found++
						}
					}
				}
			}
			if found == 0 {
				die("vorder: %s does not compile and no range site explains it:\n%s", pkg, o)
			}
			nsites = write()
		}
		var l []string
		for k := range reverted {
			l = append(l, k)
		}
		sort.Strings(l)
		cache[key] = l
		cb, _ := json.MarshalIndent(cache, "", " ")
		os.WriteFile(cachePath, cb, 0o644)
	}
	fmt.Fprintf(os.Stderr, "mkoverlay: vorder %s: %d map range sites rewritten, %d range sites left native\n", pkg, nsites, len(reverted))
}

// rewriteFakeC ("fakec:<pkgdir>=<support dir>") turns the cgo package <pkgdir>
// into a pure-Go package that still consists of its real Go sources:
//
//   - every non-test .go file of the package that is not listed under "drop" in
//     <support dir>/FAKEC.json is put (back) into the build; in the files that
//     `import "C"` the import is blanked out and every selector `C.xyz` becomes
//     the package-local identifier `C_xyz` (a one-byte splice, so positions in
//     the copy equal those of the original). Imports listed under
//     "drop_imports" are blanked out as well (packages that are cgo themselves;
//     the support files define a package-level variable of the same name);
//   - *.c / *.h and the dropped files stay deleted;
//   - overlay-added files listed under "remove_added" (the stub VM) are removed;
//   - every .go file of <support dir> is added to the package: they bind the
//     C_xyz identifiers to a pure-Go fake and stub what was dropped.
//
// The copy is taken from the mutant copy of a file if the mutant patch touched
// it, so the rewrite composes with --mutant. Guards and all other logic of the
// rewritten files are compiled from the repo text; nothing is re-implemented.
func rewriteFakeC(ov *overlay, gen, pkg, support string) {
	sdir := filepath.Join(*verif, support)
	var cfg struct {
		Drop        []string `json:"drop"`
		DropImports []string `json:"drop_imports"`
		RemoveAdded []string `json:"remove_added"`
	}
	cb, err := os.ReadFile(filepath.Join(sdir, "FAKEC.json"))
	if err != nil {
		die("fakec: %v", err)
	}
	if err := json.Unmarshal(cb, &cfg); err != nil {
		die("fakec: %s/FAKEC.json: %v", sdir, err)
	}
	drop := map[string]bool{}
	for _, d := range cfg.Drop {
		drop[d] = true
	}
	dropImp := map[string]bool{}
	for _, d := range cfg.DropImports {
		dropImp[d] = true
	}
	dir := filepath.Join(*repo, pkg)
	ents, err := os.ReadDir(dir)
	if err != nil {
		die("fakec: %v", err)
	}
	nfiles, nsel := 0, 0
	pkgName := ""
	var expNames []string
	expParams := map[string][]string{}
	expFile := map[string]string{}
	for _, e := range ents {
		n := e.Name()
		if e.IsDir() || !strings.HasSuffix(n, ".go") || strings.HasSuffix(n, "_test.go") {
			continue
		}
		rel := filepath.Join(pkg, n)
		abs := filepath.Join(*repo, rel)
		if drop[n] {
			ov.Replace[abs] = ""
			continue
		}
		// what currently stands for the file: an earlier transform's copy, the
		// mutant copy (the package-contract step maps cgo files to "" and thereby
		// forgets the mutant mapping), or the repo file
		from := abs
		if r, ok := ov.Replace[abs]; ok && r != "" {
			from = r
		} else if m := filepath.Join(gen, "mutant", rel); fileExists(m) {
			from = m
		}
		b, err := os.ReadFile(from)
		must(err)
		fset := token.NewFileSet()
		f, err := parser.ParseFile(fset, from, b, parser.ParseComments)
		if err != nil {
			die("fakec: parse %s: %v", from, err)
		}
		off := func(p token.Pos) int { return fset.Position(p).Offset }
		blank := func(lo, hi int) {
			for i := lo; i < hi; i++ {
				if b[i] != '\n' {
					b[i] = ' '
				}
			}
		}
		changed := false
		for _, d := range f.Decls {
			gd, ok := d.(*ast.GenDecl)
			if !ok || gd.Tok != token.IMPORT {
				continue
			}
			left := 0
			for _, sp := range gd.Specs {
				is := sp.(*ast.ImportSpec)
				p, _ := strconv.Unquote(is.Path.Value)
				if p == "C" || dropImp[p] {
					blank(off(is.Pos()), off(is.End()))
					changed = true
				} else {
					left++
				}
			}
			if left == 0 {
				blank(off(gd.Pos()), off(gd.End()))
			}
		}
		ast.Inspect(f, func(nd ast.Node) bool {
			se, ok := nd.(*ast.SelectorExpr)
			if !ok {
				return true
			}
			if id, ok := se.X.(*ast.Ident); ok && id.Name == "C" && id.Obj == nil {
				dot := off(id.End())
				if b[dot] != '.' || off(se.Sel.Pos()) != dot+1 {
					die("fakec: %s: unexpected layout of a C selector at %v", rel, fset.Position(se.Pos()))
				}
				b[dot] = '_'
				nsel++
				changed = true
			}
			return true
		})
		// the //export-ed functions (the host API called from C), with their
		// parameter lists as written in the (rewritten) source
		pkgName = f.Name.Name
		for _, d := range f.Decls {
			fd, ok := d.(*ast.FuncDecl)
			if !ok || fd.Doc == nil || fd.Recv != nil {
				continue
			}
			exported := false
			for _, c := range fd.Doc.List {
				if fl := strings.Fields(c.Text); len(fl) == 2 && fl[0] == "//export" && fl[1] == fd.Name.Name {
					exported = true
				}
			}
			if !exported {
				continue
			}
			var ps []string
			for _, fld := range fd.Type.Params.List {
				ty := string(b[off(fld.Type.Pos()):off(fld.Type.End())])
				if len(fld.Names) == 0 {
					ps = append(ps, "_ "+ty)
				}
				for _, nm := range fld.Names {
					ps = append(ps, nm.Name+" "+ty)
				}
			}
			expNames = append(expNames, fd.Name.Name)
			expParams[fd.Name.Name] = ps
			expFile[fd.Name.Name] = n
		}
		if !changed {
			// a pure Go file: (re-)admit it as it is
			if from == abs {
				delete(ov.Replace, abs)
			} else {
				ov.Replace[abs] = from
			}
			continue
		}
		dst := filepath.Join(gen, "rewrite", rel)
		must(os.MkdirAll(filepath.Dir(dst), 0o755))
		must(os.WriteFile(dst, b, 0o644))
		ov.Replace[abs] = dst
		nfiles++
	}
	if nfiles == 0 {
		die("fakec: no file of %s imports \"C\" (wrong package dir?)", pkg)
	}
	for _, n := range cfg.RemoveAdded {
		delete(ov.Replace, filepath.Join(dir, n))
	}
	addDir(ov, sdir, dir)
	// table of the exported callbacks, regenerated from the sources on every run
	sort.Strings(expNames)
	var tb bytes.Buffer
	fmt.Fprintf(&tb, "//go:build verif\n\n// Code generated by mkoverlay (fakec) from the //export comments. DO NOT EDIT.\npackage %s\n\n", pkgName)
	fmt.Fprintf(&tb, "var verifExported = map[string]interface{}{\n")
	for _, nm := range expNames {
		fmt.Fprintf(&tb, "\t%q: %s,\n", nm, nm)
	}
	fmt.Fprintf(&tb, "}\n\nvar verifExportedParams = map[string][]string{\n")
	for _, nm := range expNames {
		fmt.Fprintf(&tb, "\t%q: {%q", nm, "@"+expFile[nm])
		for _, p := range expParams[nm] {
			fmt.Fprintf(&tb, ", %q", p)
		}
		fmt.Fprintf(&tb, "},\n")
	}
	fmt.Fprintf(&tb, "}\n")
	tdst := filepath.Join(gen, "rewrite", pkg, "zz_fakec_exports_verif.go")
	must(os.MkdirAll(filepath.Dir(tdst), 0o755))
	must(os.WriteFile(tdst, tb.Bytes(), 0o644))
	ov.Replace[filepath.Join(dir, "zz_fakec_exports_verif.go")] = tdst
	fmt.Fprintf(os.Stderr, "mkoverlay: fakec %s: %d cgo files rewritten (%d C selectors), %d exported callbacks\n", pkg, nfiles, nsel, len(expNames))
}

func fileExists(p string) bool {
	st, err := os.Stat(p)
	return err == nil && !st.IsDir()
}


// rewriteVgo ("vgo:<pkgdir>"): `go f(args)` becomes `vsched__.Go(func() { f(args) })` and every
// receive expression `<-ch` becomes `vsched__.Recv(ch)` (package verif_h/vsched), so that the
// goroutines a package starts and their joins are threads and blocking points of the cooperative
// scheduler. Same-line splices; the import is added on the line of the package clause. Apply
// before vsync for the same package (both work on the current copy of a file).
func rewriteVgo(ov *overlay, gen, pkg string) {
	dir := filepath.Join(*repo, pkg)
	ents, err := os.ReadDir(dir)
	must(err)
	vpath := modulePath() + "/verif_h/vsched"
	n := 0
	for _, e := range ents {
		name := e.Name()
		if e.IsDir() || !strings.HasSuffix(name, ".go") || strings.HasSuffix(name, "_test.go") {
			continue
		}
		rel := filepath.Join(pkg, name)
		abs := filepath.Join(*repo, rel)
		if r, ok := ov.Replace[abs]; ok && r == "" {
			continue
		}
		from := src(ov, rel)
		b, err := os.ReadFile(from)
		must(err)
		fset := token.NewFileSet()
		f, err := parser.ParseFile(fset, from, b, 0)
		if err != nil {
			die("vgo: parse %s: %v", from, err)
		}
		var sp []splice
		ast.Inspect(f, func(nd ast.Node) bool {
			switch x := nd.(type) {
			case *ast.GoStmt:
				lo, hi := fset.Position(x.Pos()).Offset, fset.Position(x.End()).Offset
				call := string(b[fset.Position(x.Call.Pos()).Offset:hi])
				sp = append(sp, splice{lo, hi, "vsched__.Go(func() { " + call + " })"})
				return false
			case *ast.UnaryExpr:
				if x.Op == token.ARROW {
					lo, hi := fset.Position(x.Pos()).Offset, fset.Position(x.End()).Offset
					op := string(b[fset.Position(x.X.Pos()).Offset:hi])
					sp = append(sp, splice{lo, hi, "vsched__.Recv(" + op + ")"})
					return false
				}
			}
			return true
		})
		if len(sp) == 0 {
			continue
		}
		sort.Slice(sp, func(i, j int) bool { return sp[i].from > sp[j].from })
		for _, s := range sp {
			b = append(append(append([]byte{}, b[:s.from]...), s.text...), b[s.to:]...)
		}
		pkgEnd := fset.Position(f.Name.End()).Offset
		b = append(append(append([]byte{}, b[:pkgEnd]...), []byte("; import vsched__ \""+vpath+"\"")...), b[pkgEnd:]...)
		dst := filepath.Join(gen, "rewrite", rel)
		must(os.MkdirAll(filepath.Dir(dst), 0o755))
		must(os.WriteFile(dst, b, 0o644))
		ov.Replace[abs] = dst
		n += len(sp)
	}
	fmt.Fprintf(os.Stderr, "mkoverlay: vgo %s: %d go statements / receives rewritten\n", pkg, n)
}

// rewriteVtime: in the listed files of pkg every call time.NewTimer(...) and time.Now() becomes a
// call of package verif_h/vtime (a virtual clock owned by the harness). Only the selector is
// replaced (same-line splice); the import is added on the line of the package clause. The files
// must not shadow the identifier `time`.
func rewriteVtime(ov *overlay, gen, pkg string, files []string) {
	vpath := modulePath() + "/verif_h/vtime"
	n := 0
	for _, name := range files {
		rel := filepath.Join(pkg, name)
		abs := filepath.Join(*repo, rel)
		from := src(ov, rel)
		b, err := os.ReadFile(from)
		must(err)
		fset := token.NewFileSet()
		f, err := parser.ParseFile(fset, from, b, 0)
		if err != nil {
			die("vtime: parse %s: %v", from, err)
		}
		var sp []splice
		ast.Inspect(f, func(nd ast.Node) bool {
			call, ok := nd.(*ast.CallExpr)
			if !ok {
				return true
			}
			sel, ok := call.Fun.(*ast.SelectorExpr)
			if !ok {
				return true
			}
			id, ok := sel.X.(*ast.Ident)
			if !ok || id.Name != "time" || (sel.Sel.Name != "NewTimer" && sel.Sel.Name != "Now") {
				return true
			}
			sp = append(sp, splice{fset.Position(id.Pos()).Offset, fset.Position(id.End()).Offset, "vtime__"})
			return true
		})
		if len(sp) == 0 {
			die("vtime: %s has no time.NewTimer / time.Now call", rel)
		}
		sort.Slice(sp, func(i, j int) bool { return sp[i].from > sp[j].from })
		for _, s := range sp {
			b = append(append(append([]byte{}, b[:s.from]...), s.text...), b[s.to:]...)
		}
		pkgEnd := fset.Position(f.Name.End()).Offset
		b = append(append(append([]byte{}, b[:pkgEnd]...), []byte("; import vtime__ \""+vpath+"\"")...), b[pkgEnd:]...)
		dst := filepath.Join(gen, "rewrite", rel)
		must(os.MkdirAll(filepath.Dir(dst), 0o755))
		must(os.WriteFile(dst, b, 0o644))
		ov.Replace[abs] = dst
		n += len(sp)
	}
	fmt.Fprintf(os.Stderr, "mkoverlay: vtime %s: %d calls rewritten\n", pkg, n)
}
