package main

// rewritePkg applies a source-to-source rewrite `kind` to copies of the Go
// files of repo package directory `pkg` (filled in by later phases).
func rewritePkg(ov *overlay, gen, kind, pkg string) {
	die("rewrite %q not implemented", kind)
}
