// mkoverlay generates the `go build -overlay` file that binds the /verif
// harnesses to the *current working tree* of /repo without touching it:
//
//  1. package contract: cgo/LuaJIT files removed, contract.go kept (minus the
//     `import "C"` line), pure-Go stub VM added;
//  2. shim files (//go:build verif) injected into repo packages;
//  3. the journaling "verifdb" store injected into aergo-lib/db (module cache);
//  4. harness packages mapped to the virtual directory <repo>/verif_h/...;
//  5. optional: a patch (a seeded/mutant change) applied to copies of the files
//     it touches, so that checks can be run against a modified tree without
//     modifying /repo;
//  6. optional source rewrites (see rewrite.go); the "fakec" rewrite replaces
//     step 1's stub VM by the real Go sources of package contract with cgo's
//     "C" bound to a pure-Go fake (used by the C20 binary only).
package main

import (
	"encoding/json"
	"flag"
	"fmt"
	"os"
	"os/exec"
	"path/filepath"
	"sort"
	"strings"
)

type overlay struct {
	Replace map[string]string
}

var (
	repo   = flag.String("repo", "/repo", "aergo working tree")
	verif  = flag.String("verif", "/verif", "verif root")
	out    = flag.String("out", "/verif/build", "build directory")
	mutant = flag.String("mutant", "", "optional patch file applied to copies of repo files")
	rw     = flag.String("rewrite", "", "comma separated rewrites: vsync:<pkgdir>,vorder:<pkgdir>,vrange:<pkgdir>=<expr>,fakec:<pkgdir>=<support dir>")
)

func die(f string, a ...interface{}) {
	fmt.Fprintf(os.Stderr, "mkoverlay: "+f+"\n", a...)
	os.Exit(2)
}

func must(err error) {
	if err != nil {
		die("%v", err)
	}
}

// src returns the file that currently stands for repo file `rel`
// (the mutant copy if the patch touched it, else the repo file).
func src(ov *overlay, rel string) string {
	p := filepath.Join(*repo, rel)
	if r, ok := ov.Replace[p]; ok && r != "" {
		return r
	}
	return p
}

func main() {
	flag.Parse()
	ov := &overlay{Replace: map[string]string{}}
	gen := filepath.Join(*out, "gen")
	must(os.RemoveAll(gen))
	must(os.MkdirAll(gen, 0o755))

	// 5. mutant patch first, so later transforms see the mutated sources
	if *mutant != "" {
		applyMutant(ov, gen)
	}

	// 1. package contract
	cdir := filepath.Join(*repo, "contract")
	ents, err := os.ReadDir(cdir)
	must(err)
	for _, e := range ents {
		if e.IsDir() {
			continue
		}
		n := e.Name()
		ext := filepath.Ext(n)
		if ext != ".go" && ext != ".c" && ext != ".h" {
			continue
		}
		switch n {
		case "errors.go":
			continue
		case "contract.go":
			b, err := os.ReadFile(src(ov, "contract/contract.go"))
			must(err)
			s := strings.Replace(string(b), "\nimport \"C\"\n", "\n", 1)
			dst := filepath.Join(gen, "contract", "contract.go")
			must(os.MkdirAll(filepath.Dir(dst), 0o755))
			must(os.WriteFile(dst, []byte(s), 0o644))
			ov.Replace[filepath.Join(cdir, n)] = dst
		default:
			ov.Replace[filepath.Join(cdir, n)] = ""
		}
	}
	addDir(ov, filepath.Join(*verif, "overlay", "contract"), cdir)

	// 2. shims
	shims := filepath.Join(*verif, "overlay", "shims")
	filepath.Walk(shims, func(p string, info os.FileInfo, err error) error {
		if err != nil || info.IsDir() || !strings.HasSuffix(p, ".go") {
			return nil
		}
		rel, _ := filepath.Rel(shims, p)
		ov.Replace[filepath.Join(*repo, rel)] = p
		return nil
	})

	// 3. verifdb inside aergo-lib/db
	ov.Replace[filepath.Join(aergoLibDir(), "db", "verifdb_verif.go")] =
		filepath.Join(*verif, "overlay", "verifdb", "verifdb_verif.go")

	// 4. harness packages
	hroot := filepath.Join(*verif, "harness")
	filepath.Walk(hroot, func(p string, info os.FileInfo, err error) error {
		if err != nil || info.IsDir() || !strings.HasSuffix(p, ".go") {
			return nil
		}
		rel, _ := filepath.Rel(hroot, p)
		ov.Replace[filepath.Join(*repo, "verif_h", rel)] = p
		return nil
	})

	// 6. rewrites
	if *rw != "" {
		for _, spec := range strings.Split(*rw, ",") {
			kv := strings.SplitN(spec, ":", 2)
			if len(kv) != 2 {
				die("bad rewrite spec %q", spec)
			}
			rewritePkg(ov, gen, kv[0], kv[1])
		}
	}

	b, _ := json.MarshalIndent(ov, "", " ")
	must(os.WriteFile(filepath.Join(*out, "overlay.json"), b, 0o644))
}

func addDir(ov *overlay, from, to string) {
	ents, err := os.ReadDir(from)
	if err != nil {
		return
	}
	for _, e := range ents {
		if e.IsDir() || !strings.HasSuffix(e.Name(), ".go") {
			continue
		}
		ov.Replace[filepath.Join(to, e.Name())] = filepath.Join(from, e.Name())
	}
}

func aergoLibDir() string {
	b, err := os.ReadFile(filepath.Join(*repo, "go.mod"))
	must(err)
	ver := ""
	for _, l := range strings.Split(string(b), "\n") {
		f := strings.Fields(l)
		if len(f) >= 2 && f[0] == "github.com/aergoio/aergo-lib" {
			ver = f[1]
		}
	}
	if ver == "" {
		die("aergo-lib version not found in go.mod")
	}
	mc := os.Getenv("GOMODCACHE")
	if mc == "" {
		o, err := exec.Command("go", "env", "GOMODCACHE").Output()
		must(err)
		mc = strings.TrimSpace(string(o))
	}
	d := filepath.Join(mc, "github.com/aergoio/aergo-lib@"+ver)
	if _, err := os.Stat(d); err != nil {
		die("aergo-lib not in module cache: %s", d)
	}
	return d
}

// applyMutant copies every file the patch touches into gen/mutant and applies
// the patch there with patch(1).
func applyMutant(ov *overlay, gen string) {
	b, err := os.ReadFile(*mutant)
	must(err)
	files := map[string]bool{}
	for _, l := range strings.Split(string(b), "\n") {
		if strings.HasPrefix(l, "+++ ") || strings.HasPrefix(l, "--- ") {
			f := strings.Fields(l)[1]
			if f == "/dev/null" {
				continue
			}
			if strings.HasPrefix(f, "a/") || strings.HasPrefix(f, "b/") {
				f = f[2:]
			}
			files[f] = true
		}
	}
	mroot := filepath.Join(gen, "mutant")
	var names []string
	for f := range files {
		names = append(names, f)
	}
	sort.Strings(names)
	for _, f := range names {
		dst := filepath.Join(mroot, f)
		must(os.MkdirAll(filepath.Dir(dst), 0o755))
		if c, err := os.ReadFile(filepath.Join(*repo, f)); err == nil {
			must(os.WriteFile(dst, c, 0o644))
		}
	}
	abs, _ := filepath.Abs(*mutant)
	cmd := exec.Command("patch", "-p1", "-s", "--no-backup-if-mismatch", "-d", mroot, "-i", abs)
	if o, err := cmd.CombinedOutput(); err != nil {
		die("patch failed: %v\n%s", err, o)
	}
	for _, f := range names {
		dst := filepath.Join(mroot, f)
		if _, err := os.Stat(dst); err == nil {
			ov.Replace[filepath.Join(*repo, f)] = dst
		} else {
			ov.Replace[filepath.Join(*repo, f)] = ""
		}
	}
}
