#!/usr/bin/env python3
"""Regenerates MANIFEST.json from tools/checks.json (claimed checks) and properties.jsonl
(everything not claimed is listed under not_applicable with its reason)."""
import json, sys, os
root = os.path.dirname(os.path.dirname(os.path.abspath(__file__)))
props = [json.loads(l) for l in open(os.path.join(root, 'properties.jsonl'))]
spec = json.load(open(os.path.join(root, 'tools', 'checks.json')))
checks = []
claimed = set()
for c in spec['checks']:
    pid = c['property_id']
    claimed.add(pid)
    checks.append({
        'property_id': pid,
        'quick_cmd': f'./check {pid} quick',
        'thorough_cmd': f'./check {pid} thorough',
        'evidence_file': f'/verif/evidence/{pid}.json',
        'replay_cmd_template': f'./check {pid} --replay {{path}}',
        'engine': c.get('engine', 'xplor'),
        'level_claimed': {'category': c['level'], 'text': c['text'], 'design_ref': c.get('design_ref', 'DESIGN.md §3 ' + pid)},
        'level_note': c['note'],
        'technique': c['technique'],
    })
na = []
for p in props:
    if p['id'] not in claimed:
        na.append({'property_id': p['id'], 'reason': spec['not_applicable'].get(p['id'], 'check not built yet in this session (planned, see DESIGN.md §3); nothing is claimed for it')})
m = {
    'version': 1,
    'setup_cmd': './setup.sh',
    'hooks': {
        'guard': 'verif',
        'enable': 'no source hooks are committed in /repo: every check compiles the current working tree with `go build -overlay build/overlay.json -tags verif` (tools/mkoverlay regenerates the overlay on every invocation); injected shim files carry //go:build verif',
        'baseline_off_cmd': 'cd /repo && go test -mod=mod -json -vet=off -count=1 -timeout 25m ./...',
        'source_commits': spec.get('source_commits', []),
        'add_only': True,
    },
    'engines': spec['engines'],
    'checks': checks,
    'notes': spec['notes'],
    'not_applicable': na,
}
json.dump(m, open(os.path.join(root, 'MANIFEST.json'), 'w'), indent=1)
print('checks:', len(checks), 'not_applicable:', len(na))
