#!/usr/bin/env python3
"""confirm_seed2.py <name> [<src dir>]
Confirms a sub-agent's seeded change (deliverables in <src>/_seed: patch.diff, demo_test.go,
run_demo.sh, meta.json, optional extra files) in a fresh scratch worktree of /repo HEAD:
  1. run_demo.sh passes on the unchanged tree,
  2. the patch applies,
  3. every package of the repository's baseline suite that (transitively) imports a changed
     package still passes all its baseline tests with the patch,
  4. run_demo.sh fails with the patch.
Copies the deliverables to /verif/seeded/<name>/ and records the outcome in meta.json."""
import json, os, shutil, subprocess, sys

name = sys.argv[1]
src = sys.argv[2] if len(sys.argv) > 2 else f'/tmp/seed/{name}'
seed = f'{src}/_seed'
dst = f'/verif/seeded/{name}'
os.makedirs(dst, exist_ok=True)
for f in os.listdir(seed):
    p = f'{seed}/{f}'
    if os.path.isfile(p):
        shutil.copy(p, dst)
    else:
        shutil.copytree(p, f'{dst}/{f}', dirs_exist_ok=True)
meta = json.load(open(f'{dst}/meta.json'))
env = dict(os.environ, GOFLAGS='-mod=mod', GOPROXY='off', GOSUMDB='off', GOTOOLCHAIN='local')
env.pop('ARGLIB_LEVEL', None)
W = f'/tmp/confirm/{name}'
subprocess.run(['git', '-C', '/repo', 'worktree', 'remove', '--force', W], capture_output=True)
os.makedirs('/tmp/confirm', exist_ok=True)
subprocess.check_call(['git', '-C', '/repo', 'worktree', 'add', '--detach', '-q', W, 'HEAD'])
res = {}

def sh(cmd, cwd=W, timeout=3000):
    return subprocess.run(cmd, shell=True, cwd=cwd, env=env, capture_output=True, text=True, timeout=timeout)

try:
    demo = f'bash {dst}/run_demo.sh {W}'
    r = sh(demo, cwd=dst)
    res['demo_passes_without_change'] = r.returncode == 0
    if r.returncode != 0:
        res['demo_unchanged_out'] = (r.stdout + r.stderr)[-1500:]
    r = sh(f'git apply {dst}/patch.diff')
    res['applies'] = r.returncode == 0
    if not res['applies']:
        res['apply_err'] = r.stderr[-500:]
        raise SystemExit
    files = [l[6:].strip() for l in open(f'{dst}/patch.diff') if l.startswith('+++ b/')]
    res['files_changed'] = files
    res['touches_tests'] = any(f.endswith('_test.go') for f in files)
    changed_pkgs = sorted({'github.com/aergoio/aergo/v2/' + os.path.dirname(f) for f in files if f.endswith('.go')})
    base = set(json.load(open('/root/.vp/BASELINE.json'))['stable_pass'])
    bpk = sorted({t.split('::')[0] for t in base})
    affected = []
    for p in bpk:
        r = sh(f'go list -deps -test {p} 2>/dev/null')
        deps = set(r.stdout.split())
        if any(c in deps for c in changed_pkgs) or p in changed_pkgs:
            affected.append(p)
    res['baseline_packages_affected'] = [p.replace('github.com/aergoio/aergo/v2/', '') for p in affected]
    passed, failed = set(), set()
    if affected:
        r = sh('go test -json -vet=off -count=1 -timeout 25m ' + ' '.join(affected) + ' 2>/dev/null')
        for l in r.stdout.splitlines():
            try:
                e = json.loads(l)
            except Exception:
                continue
            if e.get('Test') and e.get('Action') in ('pass', 'fail'):
                k = e['Package'] + '::' + e['Test']
                (passed if e['Action'] == 'pass' else failed).add(k)
    want = {t for t in base if t.split('::')[0] in affected}
    missing = sorted(want - passed)
    # timing-sensitive tests fail when the machine is loaded: a package with missing tests is
    # re-run alone, once, before the verdict
    retried = []
    for pk in sorted({t.split('::')[0] for t in missing}):
        retried.append(pk.replace('github.com/aergoio/aergo/v2/', ''))
        r = sh(f'go test -json -vet=off -count=1 -timeout 25m {pk} 2>/dev/null')
        for l in r.stdout.splitlines():
            try:
                e = json.loads(l)
            except Exception:
                continue
            if e.get('Test') and e.get('Action') == 'pass':
                passed.add(e['Package'] + '::' + e['Test'])
    res['baseline_packages_rerun_alone'] = retried
    missing = sorted(want - passed)
    res['baseline_tests_checked'] = len(want)
    res['baseline_missing'] = missing[:10]
    res['baseline_ok'] = not missing
    r = sh(demo, cwd=dst)
    res['demo_fails_with_change'] = r.returncode != 0
    res['demo_fail_excerpt'] = '\n'.join([l for l in (r.stdout + r.stderr).splitlines() if 'FAIL' in l or 'SeedDemo' in l or 'panic' in l][:8])
finally:
    subprocess.run(['git', '-C', '/repo', 'worktree', 'remove', '--force', W], capture_output=True)
    res['repo_head'] = subprocess.run(['git', '-C', '/repo', 'rev-parse', '--short', 'HEAD'], capture_output=True, text=True).stdout.strip()
    meta['confirmed'] = res
    meta['confirmed_ok'] = bool(res.get('applies') and res.get('baseline_ok') and res.get('demo_fails_with_change') and res.get('demo_passes_without_change') and not res.get('touches_tests'))
    json.dump(meta, open(f'{dst}/meta.json', 'w'), indent=1)
    print(name, 'CONFIRMED' if meta['confirmed_ok'] else 'NOT CONFIRMED', json.dumps(res)[:900])
