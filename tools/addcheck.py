#!/usr/bin/env python3
"""addcheck.py <json file with {property_id, level, technique, text, note, engine?}> : insert/replace an entry in tools/checks.json and regenerate MANIFEST.json"""
import json, sys, os, subprocess
root = os.path.dirname(os.path.dirname(os.path.abspath(__file__)))
p = os.path.join(root, 'tools', 'checks.json')
spec = json.load(open(p))
e = json.load(open(sys.argv[1]))
spec['checks'] = [c for c in spec['checks'] if c['property_id'] != e['property_id']] + [e]
spec['checks'].sort(key=lambda c: c['property_id'])
ids = [c['property_id'] for c in spec['checks']]
for eng in spec['engines']:
    if eng['name'] in ('xplor', 'mkoverlay'):
        eng['serves_properties'] = ids
json.dump(spec, open(p, 'w'), indent=1)
subprocess.check_call([sys.executable, os.path.join(root, 'tools', 'genmanifest.py')])
