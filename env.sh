# sourced by every script: offline Go environment
export GOFLAGS=-mod=mod GOPROXY=off GOSUMDB=off GOTOOLCHAIN=local GODEBUG=goindex=0
export ARGLIB_LEVEL=fatal
# VERIF = the directory this file lives in (so a worktree / snapshot of /verif uses itself)
export VERIF=$(cd "$(dirname "${BASH_SOURCE[0]}")" && pwd)
export REPO=${REPO:-/repo}
