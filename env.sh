# sourced by every script: offline Go environment
export GOFLAGS=-mod=mod GOPROXY=off GOSUMDB=off GOTOOLCHAIN=local GODEBUG=goindex=0
export ARGLIB_LEVEL=panic
export VERIF=${VERIF:-/verif}
export REPO=${REPO:-/repo}
