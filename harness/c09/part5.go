package main

import (
	"fmt"
	"strings"

	"github.com/aergoio/aergo/v2/consensus"
	"github.com/aergoio/aergo/v2/consensus/impl/dpos"
	"github.com/aergoio/aergo/v2/consensus/impl/dpos/slot"
	"github.com/aergoio/aergo/v2/types"
	"github.com/aergoio/aergo/v2/verif_h/xplor"
)

// ---------------------------------------------------------------- part 5: the producer set changes
//
// "That key belongs to a *current* block producer": the set a block is judged against is replaced
// after every election and reorganisation (Cluster.Update). Part 5 enumerates every sequence of at
// most d producer lists (the first is the genesis list, the others arrive through Cluster.Update)
// drawn from all ordered selections without repetition of 1..m of u identities, plus two lists the
// update must refuse (an undecodable id in first / second position: the set must stay what it was),
// and after the last update of each sequence compares the real cluster (size, id -> index, index ->
// id, membership) and the real block decision (IsBlockValid, VerifySign) for every slot of a round
// and every identity of the universe and one outsider with the current list alone.

const p5garbage = "not-a-peer-id"

type p5list struct {
	ids []int // indexes into bpKeys; -1 = undecodable id
}

func (l p5list) bad() bool {
	for _, i := range l.ids {
		if i < 0 {
			return true
		}
	}
	return false
}

func (l p5list) strs() []string {
	var s []string
	for _, i := range l.ids {
		if i < 0 {
			s = append(s, p5garbage)
		} else {
			s = append(s, types.IDB58Encode(bpKeys[i].id))
		}
	}
	return s
}

func (l p5list) String() string {
	var s []string
	for _, i := range l.ids {
		if i < 0 {
			s = append(s, "<undecodable>")
		} else {
			s = append(s, fmt.Sprintf("P%d", i))
		}
	}
	return "[" + strings.Join(s, " ") + "]"
}

func p5lists(u, m int) []p5list {
	var out []p5list
	var rec func(cur []int)
	rec = func(cur []int) {
		if len(cur) > 0 {
			out = append(out, p5list{append([]int{}, cur...)})
		}
		if len(cur) == m {
			return
		}
		for i := 0; i < u; i++ {
			used := false
			for _, c := range cur {
				if c == i {
					used = true
				}
			}
			if !used {
				rec(append(cur, i))
			}
		}
	}
	rec(nil)
	// refused updates: the id that cannot be decoded comes first / after one good id
	out = append(out, p5list{[]int{-1, 1}}, p5list{[]int{u - 1, -1}})
	return out
}

func p5params(thorough bool) (u, m, d int) {
	if thorough {
		return 4, 4, 3
	}
	return 3, 3, 3
}

type p5replay struct {
	Part int     `json:"part"`
	Iv   int64   `json:"iv"`
	Seq  [][]int `json:"seq"`
}

var p5signed = map[[2]int64]*types.BlockHeader{}

func p5header(cid []byte, ts int64, who int) *types.BlockHeader {
	k := [2]int64{ts, int64(who)}
	if h := p5signed[k]; h != nil {
		return h
	}
	id := outKeys[0]
	if who >= 0 {
		id = bpKeys[who]
	}
	nd := &node{cid: cid}
	h, e := signHeader(nd.header(ts), id, false)
	if e != "" {
		panic("harness: " + e)
	}
	p5signed[k] = h
	return h
}

// p5run executes one sequence and returns the first disagreement.
func p5run(ctx *xplor.Ctx, iv int64, u int, seq []p5list) string {
	initKeys()
	consensus.InitBlockInterval(iv)
	slot.Init(iv)
	cid := types.ChainID{Version: 3, Magic: "c09.verif", Consensus: "dpos"}
	cidb, err := cid.Bytes()
	if err != nil {
		panic(err)
	}
	gen := &types.Genesis{ID: cid, Timestamp: 1500000000 * 1000000000, BPs: seq[0].strs()}
	gb := types.NewBlock(&types.BlockHeaderInfo{No: 0, Ts: gen.Timestamp, ChainId: cidb}, nil, nil, nil, nil, nil)
	dp, err := dpos.VerifC09New(&stubCDB{gen: gen, gb: gb})
	if err != nil {
		panic(err)
	}
	cur := seq[0]
	for _, l := range seq[1:] {
		err := dp.VerifC09Update(l.strs())
		ctx.Count("p5_updates", 1)
		if l.bad() {
			ctx.Count("p5_updates_refused", 1)
			if err == nil {
				return fmt.Sprintf("Cluster.Update accepted the list %v", l)
			}
			continue // refused: the set stays what it was
		}
		if err != nil {
			return fmt.Sprintf("Cluster.Update refused the list %v: %v", l, err)
		}
		cur = l
	}
	n := len(cur.ids)
	if int(dp.VerifC09BpCount()) != n {
		return fmt.Sprintf("cluster size %d, the current list %v has %d producers", dp.VerifC09BpCount(), cur, n)
	}
	pos := map[int]int{}
	for i, x := range cur.ids {
		pos[x] = i
		id, ok := dp.VerifC09BpID(uint16(i))
		if !ok || id != bpKeys[x].id {
			return fmt.Sprintf("index %d of the current list %v resolves to %v (found=%v), not to P%d", i, cur, id, ok, x)
		}
	}
	for i := n; i <= u+1; i++ {
		if id, ok := dp.VerifC09BpID(uint16(i)); ok {
			return fmt.Sprintf("index %d is outside the current list %v but resolves to %v", i, cur, id)
		}
	}
	for x := -1; x < u; x++ {
		id := outKeys[0].id
		name := "the outsider"
		if x >= 0 {
			id, name = bpKeys[x].id, fmt.Sprintf("P%d", x)
		}
		want := uint16(65535)
		p, member := pos[x]
		if member {
			want = uint16(p)
		}
		if got := dp.VerifC09BpIndex(id); got != want {
			return fmt.Sprintf("%s has index %d under the current list %v (want %d; 65535 = not a member)", name, got, cur, want)
		}
		if dp.VerifC09Has(id) != member {
			return fmt.Sprintf("Has(%s) = %v under the current list %v", name, !member, cur)
		}
	}
	// block decisions for one round of slots in 2020
	ivMs := iv * 1000
	base := refIndex(1600000000000, ivMs) + 1
	nd := &node{dp: dp}
	for s := base; s < base+int64(n); s++ {
		ms := (s-1)*ivMs + ivMs/2
		owner := cur.ids[refOwner(ms, ivMs, n)]
		for x := -1; x < u; x++ {
			h := p5header(cidb, ms*msNs, x)
			v := nd.decide(h)
			ctx.Count("p5_blocks_decided", 1)
			name := "the outsider"
			if x >= 0 {
				name = fmt.Sprintf("P%d", x)
			}
			if v.panics != "" {
				return fmt.Sprintf("block of slot %d signed by %s under the list %v: %s", s, name, cur, v.panics)
			}
			if !v.sign {
				return fmt.Sprintf("block of slot %d correctly signed by %s: VerifySign refused it", s, name)
			}
			if v.valid != (x == owner) {
				return fmt.Sprintf("block of slot %d (owner P%d under the current list %v) signed by %s: IsBlockValid accepted=%v", s, owner, cur, name, v.valid)
			}
		}
	}
	return ""
}

func p5seqText(seq []p5list) string {
	var s []string
	for i, l := range seq {
		if i == 0 {
			s = append(s, "genesis "+l.String())
		} else {
			s = append(s, "update "+l.String())
		}
	}
	return strings.Join(s, " ; ")
}

// runP5: shard k of n of all sequences of length 1..d (first element: a list the genesis accepts).
func runP5(ctx *xplor.Ctx, iv int64, thorough bool, k, n int) {
	u, m, d := p5params(thorough)
	lists := p5lists(u, m)
	idx := 0
	var rec func(seq []p5list)
	rec = func(seq []p5list) {
		if len(seq) > 0 {
			if idx%n == k && !ctx.Expired() {
				ctx.Eval(1)
				ctx.Count("p5_sequences", 1)
				if msg := p5run(ctx, iv, u, seq); msg != "" {
					var r p5replay
					r.Part, r.Iv = 5, iv
					for _, l := range seq {
						r.Seq = append(r.Seq, l.ids)
					}
					ctx.Violation("", "producer set history "+p5seqText(seq)+": "+msg, r)
				} else {
					last := seq[len(seq)-1]
					ctx.Distinct(xplor.Hash("p5", fmt.Sprint(iv), p5seqText(seq)))
					_ = last
				}
			}
			idx++
		}
		if len(seq) == d {
			return
		}
		for _, l := range lists {
			if len(seq) == 0 && l.bad() {
				continue
			}
			rec(append(append([]p5list{}, seq...), l))
		}
	}
	rec(nil)
}
