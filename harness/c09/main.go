// C09: block producer legitimacy — one producer per slot, valid signature over
// the complete header, not from the future.
//
// Part 1 (slot arithmetic, package slot):   every millisecond of a window x every
//
//	producer count 1..100 x every block interval: exactly one member index owns the
//	instant, no index outside [0,count) (incl. the "not a member" value returned by
//	bp.Cluster.BpID2Index) is ever entitled, the owner is constant inside a slot and
//	advances by one at each boundary, NextBpIndex equals an independent formula.
//
// Part 2 (acceptance, deterministic times):  a real dpos.DPoS (real bp.Cluster, real
//
//	Status) decides VerifySign / IsBlockValid / VerifyTimestamp for a signed block
//	and every single-field mutation of its header x signer identity x slot of a round.
//
// Part 3 (acceptance, times relative to the local clock): offsets -1..+3 slots from
//
//	"now"; a verdict is only judged when the slot number of the local clock read
//	before and after the calls is the same, otherwise the case is re-run.
//
// Part 4: slot.IsFuture for every millisecond of the slots now-1 .. now+3.
//
// The reference (refIndex, refOwner, refDigest, expectations) is written here and
// shares no code with the packages under test.
package main

import (
	"bytes"
	"encoding/asn1"
	"encoding/binary"
	"encoding/json"
	"errors"
	"fmt"
	"math"
	"math/big"
	"os"
	"reflect"
	"sort"
	"strings"
	"time"

	"github.com/aergoio/aergo-lib/db"
	"github.com/aergoio/aergo/v2/consensus"
	"github.com/aergoio/aergo/v2/consensus/impl/dpos"
	"github.com/aergoio/aergo/v2/consensus/impl/dpos/bp"
	"github.com/aergoio/aergo/v2/consensus/impl/dpos/slot"
	"github.com/aergoio/aergo/v2/types"
	"github.com/aergoio/aergo/v2/verif_h/xplor"
	"github.com/libp2p/go-libp2p/core/crypto"
)

const msNs = int64(1000000)

// ---------------------------------------------------------------- reference

// refIndex is the number of the slot that contains millisecond ms (ms >= 0):
// slot k covers the milliseconds (k-1)*iv+1 .. k*iv, slot 0 is the instant 0.
func refIndex(ms, ivMs int64) int64 {
	q := ms / ivMs
	if ms%ivMs != 0 {
		q++
	}
	return q
}

func refOwner(ms, ivMs int64, count int) int64 { return refIndex(ms, ivMs) % int64(count) }

// refFuture: the block time (ms) lies two or more slots ahead of slot nowIdx.
func refFuture(tsMs, nowIdx, ivMs int64) bool { return tsMs > (nowIdx+1)*ivMs }

func nowMs() int64 { return time.Now().UnixNano() / msNs }

// ---------------------------------------------------------------- replay

type mut struct {
	F string `json:"f"` // header field name
	K string `json:"k"` // kind
	A int    `json:"a"` // argument (bit / length)
}

func (m *mut) String() string {
	if m == nil {
		return "none"
	}
	return fmt.Sprintf("%s.%s(%d)", m.F, m.K, m.A)
}

type replay struct {
	Part  int   `json:"part"`
	Iv    int64 `json:"iv"`
	Count int   `json:"count,omitempty"` // part 1
	Ms    int64 `json:"ms,omitempty"`    // part 1
	N     int   `json:"n,omitempty"`     // parts 2,3: producers
	R     int   `json:"r,omitempty"`     // part 2: owner of the slot; part 3: (slot number of now) mod n
	D     int   `json:"d,omitempty"`     // part 3: offset in slots from now
	Role  int   `json:"role,omitempty"`  // 0 owner, 1..n-1 the BP owner+role, n.. outsiders
	Pos   int   `json:"pos,omitempty"`   // 0 first ms of slot, 1 middle, 2 last ms
	Sub   int   `json:"sub,omitempty"`   // ns inside the ms
	Ref   bool  `json:"ref,omitempty"`   // signed over the reference digest instead of Block.Sign
	Mut   *mut  `json:"mut,omitempty"`
}

// ---------------------------------------------------------------- part 1

var nilIndex = func() bp.Index {
	var c bp.Cluster
	return c.BpID2Index(types.PeerID("not-a-member"))
}()

type p1stats struct{ instants, isfor, full, sub int64 }

func outsiders(count int, want int64) []int {
	c := []int{
		int(nilIndex), math.MaxUint16, math.MaxUint16 - 1, count, count + 1, 2*count - 1,
		int(want) + count, int(want) + 2*count, int(want) + 256*count,
		math.MaxUint16 - (math.MaxUint16-int(want))%count, // largest value congruent to the owner
		65536 + int(want) - count,                         // uint16 wrap-around of owner-count
		32768 + int(want), 256 + int(want), 255, 256, 32767, 32768,
	}
	out := c[:0]
	for _, x := range c {
		if x >= count && x <= math.MaxUint16 {
			out = append(out, x)
		}
	}
	return out
}

// checkMs judges one millisecond for one (interval, count). full = scan all
// 65536 index values; sub = also sub-millisecond nanosecond values and slot.Time.
func checkMs(ivSec int64, count int, ms int64, full, sub bool, st *p1stats) string {
	ivMs := ivSec * 1000
	c16 := uint16(count)
	ns := ms * msNs
	s := slot.NewFromUnixNano(ns)
	want := refOwner(ms, ivMs, count)
	got := s.NextBpIndex(c16)
	st.instants++
	hdr := func() string {
		return fmt.Sprintf("interval=%ds producers=%d t=%dms (slot %d): ", ivSec, count, ms, refIndex(ms, ivMs))
	}
	if got != want {
		return hdr() + fmt.Sprintf("NextBpIndex=%d, reference owner=%d", got, want)
	}
	owners := 0
	for i := 0; i < count; i++ {
		if s.IsFor(bp.Index(i), c16) {
			owners++
			if int64(i) != want {
				return hdr() + fmt.Sprintf("member index %d is entitled, reference owner=%d", i, want)
			}
		}
	}
	st.isfor += int64(count)
	if owners != 1 {
		return hdr() + fmt.Sprintf("%d member indexes are entitled, want exactly 1 (owner %d)", owners, want)
	}
	o := outsiders(count, want)
	for _, x := range o {
		if s.IsFor(bp.Index(x), c16) {
			return hdr() + fmt.Sprintf("index %d outside the producer set [0,%d) is entitled (owner is %d; %d is what BpID2Index returns for a non-member)", x, count, want, nilIndex)
		}
	}
	st.isfor += int64(len(o))
	if full {
		st.full++
		for x := count; x <= math.MaxUint16; x++ {
			if s.IsFor(bp.Index(x), c16) {
				return hdr() + fmt.Sprintf("index %d outside the producer set [0,%d) is entitled (owner is %d; %d is what BpID2Index returns for a non-member)", x, count, want, nilIndex)
			}
		}
		st.isfor += int64(math.MaxUint16 + 1 - count)
	}
	// owner constant inside a slot, +1 (mod count) at each boundary
	if ms > 0 {
		p := slot.NewFromUnixNano(ns - msNs).NextBpIndex(c16)
		if (ms-1)%ivMs == 0 {
			if got != (p+1)%int64(count) {
				return hdr() + fmt.Sprintf("first ms of a slot: owner %d, previous slot's owner %d (want previous+1 mod %d)", got, p, count)
			}
		} else if got != p {
			return hdr() + fmt.Sprintf("owner changes inside a slot: %d at t-1ms, %d at t", p, got)
		}
	}
	if s.UnixNano() != ns {
		return hdr() + fmt.Sprintf("UnixNano()=%d, want %d", s.UnixNano(), ns)
	}
	if sub {
		st.sub++
		for _, d := range []int64{1, 499999, 999999} {
			if ns > math.MaxInt64-d {
				continue
			}
			for k, s2 := range []*slot.Slot{slot.NewFromUnixNano(ns + d), slot.Time(time.Unix(0, ns+d))} {
				if g := s2.NextBpIndex(c16); g != want || !s2.IsFor(bp.Index(want), c16) || !slot.Equal(s, s2) {
					return hdr() + fmt.Sprintf("+%dns (constructor %d): owner %d / IsFor(owner)=%v / same slot=%v, want owner %d in the same slot",
						d, k, g, s2.IsFor(bp.Index(want), c16), slot.Equal(s, s2), want)
				}
			}
		}
	}
	return ""
}

// boundaries (ms) around which extra windows are explored; wide = the thorough
// tier covers a whole producer round after the boundary instead of 2 slots
var bigTimes = []struct {
	ms   int64
	wide bool
}{
	{1 << 31, false}, {1 << 32, false}, {(1 << 31) * 1000, true}, {1 << 41, true}, {(1 << 32) * 1000, false}, {1 << 42, false},
	{1700000000000, true},            // 2023
	{math.MaxInt64 / msNs, false},    // last millisecond representable in int64 ns
	{(math.MaxInt32 - 1) * 7, false}, // not aligned to anything
}

type span struct{ from, to int64 } // inclusive

func p1spans(ivSec int64, count int, thorough bool) []span {
	ivMs := ivSec * 1000
	rounds := int64(3)
	if thorough {
		rounds = 5
	}
	sp := []span{{0, rounds*int64(count)*ivMs + 1}}
	for _, bt := range bigTimes {
		b := bt.ms
		lo, hi := b-2*ivMs, b+2*ivMs
		if thorough && bt.wide {
			hi = b + (int64(count)+2)*ivMs
		}
		if hi > math.MaxInt64/msNs {
			hi = math.MaxInt64 / msNs
			lo = hi - 4*ivMs
		}
		sp = append(sp, span{lo, hi})
	}
	return sp
}

func p1cost(ivSec int64, count int, thorough bool) int64 {
	var c int64
	for _, s := range p1spans(ivSec, count, thorough) {
		c += (s.to - s.from + 1) * int64(count+20)
	}
	return c
}

// fullAt: which instants get the scan over all 65536 index values, and sub-ms probes
func p1mode(ms, ivMs int64, spanIdx int, count int, thorough bool) (full, sub bool) {
	edge := ms%ivMs == 0 || ms%ivMs == 1 // last / first millisecond of a slot
	mid := ms%ivMs == ivMs/2
	if thorough {
		return (edge || mid) && (spanIdx > 0 || ms <= 3*int64(count)*ivMs+1), true
	}
	return edge && spanIdx == 0 && ms <= int64(count)*ivMs+1, edge || mid
}

func runP1(ctx *xplor.Ctx, ivSec int64, count int) {
	slot.Init(ivSec)
	ivMs := ivSec * 1000
	thorough := ctx.Tier == "thorough"
	var st p1stats
	defer func() {
		ctx.Eval(st.instants)
		ctx.Count("p1_instants", st.instants)
		ctx.Count("p1_isfor_calls", st.isfor)
		ctx.Count("p1_instants_all_65536_indexes", st.full)
		ctx.Count("p1_instants_with_sub_ms_probes", st.sub)
		ctx.Count("p1_units", 1)
	}()
	for si, sp := range p1spans(ivSec, count, thorough) {
		for ms := sp.from; ms <= sp.to; ms++ {
			full, sub := p1mode(ms, ivMs, si, count, thorough)
			if msg := checkMs(ivSec, count, ms, full, sub, &st); msg != "" {
				ctx.Violation("", msg, replay{Part: 1, Iv: ivSec, Count: count, Ms: ms})
				return
			}
			if ms%ivMs == 0 {
				ctx.Distinct(xplor.Hash("p1", ivSec, count, ms/ivMs))
				if ctx.Expired() {
					return
				}
			}
		}
	}
}

// ---------------------------------------------------------------- node under test

type ident struct {
	priv crypto.PrivKey
	pub  []byte // marshalled public key, as stored in the header
	id   types.PeerID
}

func mkIdent(seed byte) ident {
	raw := bytes.Repeat([]byte{seed}, 32)
	raw[0] = 0x01 // keep the scalar below the group order
	priv, err := crypto.UnmarshalSecp256k1PrivateKey(raw)
	if err != nil {
		panic(err)
	}
	pub, err := crypto.MarshalPublicKey(priv.GetPublic())
	if err != nil {
		panic(err)
	}
	id, err := types.IDFromPublicKey(priv.GetPublic())
	if err != nil {
		panic(err)
	}
	return ident{priv, pub, id}
}

var (
	bpKeys  []ident
	outKeys []ident
)

func initKeys() {
	if bpKeys != nil {
		return
	}
	for i := 0; i < 8; i++ {
		bpKeys = append(bpKeys, mkIdent(byte(0x11+i)))
	}
	outKeys = []ident{mkIdent(0xa1), mkIdent(0xa2)}
}

// stubCDB is the minimal consensus.ChainDB a fresh DPoS chain presents: a
// genesis block that is also the best block, the genesis BP list, no LIB record.
type stubCDB struct {
	gen *types.Genesis
	gb  *types.Block
}

var errNoBlock = errors.New("no such block")

func (c *stubCDB) GetBestBlock() (*types.Block, error) { return c.gb, nil }
func (c *stubCDB) GetBlockByNo(no types.BlockNo) (*types.Block, error) {
	if no == 0 {
		return c.gb, nil
	}
	return nil, errNoBlock
}
func (c *stubCDB) GetHashByNo(no types.BlockNo) ([]byte, error) {
	if no == 0 {
		return c.gb.BlockHash(), nil
	}
	return nil, errNoBlock
}
func (c *stubCDB) GetBlock(h []byte) (*types.Block, error) {
	if bytes.Equal(h, c.gb.BlockHash()) {
		return c.gb, nil
	}
	return nil, errNoBlock
}
func (c *stubCDB) GetGenesisInfo() *types.Genesis { return c.gen }
func (c *stubCDB) Get(key []byte) []byte          { return nil }
func (c *stubCDB) NewTx() db.Transaction          { return nil }

type signedKey struct {
	ts  int64
	who int // index into bpKeys, or -1-k for outKeys[k]
	ref bool
}

type signedVal struct {
	h   *types.BlockHeader
	err string
}

type node struct {
	signed map[signedKey]signedVal
	iv     int64
	n      int
	dp     *dpos.DPoS
	cid    []byte
	base   int64 // slot number (multiple of n) in 2020 where the deterministic cases live
}

var nodes = map[[2]int64]*node{}

// getNode builds (or re-activates) the DPoS object for (interval, n). The block
// interval is a package global of consensus/slot: a worker is single-threaded and
// re-initialises it whenever it switches.
func getNode(ivSec int64, n int) *node {
	initKeys()
	consensus.InitBlockInterval(ivSec)
	slot.Init(ivSec)
	k := [2]int64{ivSec, int64(n)}
	if nd := nodes[k]; nd != nil {
		return nd
	}
	cid := types.ChainID{Version: 3, Magic: "c09.verif", Consensus: "dpos"}
	cidb, err := cid.Bytes()
	if err != nil {
		panic(err)
	}
	gen := &types.Genesis{ID: cid, Timestamp: 1500000000 * 1000000000}
	for i := 0; i < n; i++ {
		gen.BPs = append(gen.BPs, types.IDB58Encode(bpKeys[i].id))
	}
	gb := types.NewBlock(&types.BlockHeaderInfo{No: 0, Ts: gen.Timestamp, ChainId: cidb}, nil, nil, nil, nil, nil)
	dp, err := dpos.VerifC09New(&stubCDB{gen: gen, gb: gb})
	if err != nil {
		panic(err)
	}
	if int(dp.VerifC09BpCount()) != n || dp.VerifC09LibNo() != 0 {
		panic(fmt.Sprintf("harness: cluster size %d (want %d), lib %d", dp.VerifC09BpCount(), n, dp.VerifC09LibNo()))
	}
	for i := 0; i < n; i++ {
		if int(dp.VerifC09BpIndex(bpKeys[i].id)) != i {
			panic(fmt.Sprintf("harness: BP %d has index %d", i, dp.VerifC09BpIndex(bpKeys[i].id)))
		}
	}
	ivMs := ivSec * 1000
	b := refIndex(1600000000000, ivMs) + 1
	b += (int64(n) - b%int64(n)) % int64(n)
	nd := &node{iv: ivSec, n: n, dp: dp, cid: cidb, base: b}
	nodes[k] = nd
	return nd
}

func (nd *node) signer(owner int64, role int) (ident, int) {
	if role < nd.n {
		i := int((owner + int64(role)) % int64(nd.n))
		return bpKeys[i], i
	}
	return outKeys[role-nd.n], -1
}

func (nd *node) roleName(role int) string {
	switch {
	case role == 0:
		return "slot owner"
	case role < nd.n:
		return fmt.Sprintf("other BP (owner+%d)", role)
	}
	return fmt.Sprintf("non-BP key #%d", role-nd.n+1)
}

func (nd *node) roles() int { return nd.n + len(outKeys) }

// ---------------------------------------------------------------- header, mutations

func h32(b byte) []byte { return bytes.Repeat([]byte{b}, 32) }

func (nd *node) header(ts int64) *types.BlockHeader {
	return &types.BlockHeader{
		ChainID:          append([]byte(nil), nd.cid...),
		PrevBlockHash:    h32(0x51),
		BlockNo:          7,
		Timestamp:        ts,
		BlocksRootHash:   h32(0x52),
		TxsRootHash:      h32(0x53),
		ReceiptsRootHash: h32(0x54),
		Confirms:         3,
		CoinbaseAccount:  append([]byte{0x02}, h32(0x55)...),
		Consensus:        []byte{0x03, 0x61, 0x62, 0x63, 0x64, 0x65, 0x66, 0x67},
	}
}

// fields lists the exported fields of the header by reflection, so that a field
// added to the header is mutated too (or stops the harness if its kind is new).
func fields() []reflect.StructField {
	var fs []reflect.StructField
	t := reflect.TypeOf(types.BlockHeader{})
	for i := 0; i < t.NumField(); i++ {
		if f := t.Field(i); f.IsExported() {
			fs = append(fs, f)
		}
	}
	return fs
}

func cloneHeader(h *types.BlockHeader) *types.BlockHeader {
	c := &types.BlockHeader{}
	src, dst := reflect.ValueOf(h).Elem(), reflect.ValueOf(c).Elem()
	for _, f := range fields() {
		v := src.FieldByIndex(f.Index)
		switch f.Type.Kind() {
		case reflect.Slice:
			dst.FieldByIndex(f.Index).SetBytes(append([]byte(nil), v.Bytes()...))
		case reflect.Uint64:
			dst.FieldByIndex(f.Index).SetUint(v.Uint())
		case reflect.Int64:
			dst.FieldByIndex(f.Index).SetInt(v.Int())
		default:
			panic("harness: header field of unknown kind: " + f.Name)
		}
	}
	return c
}

// refDigest: every header field except the signature, in declaration order,
// byte strings as they are, integers as 8 bytes little endian.
func refDigest(h *types.BlockHeader) []byte {
	var b []byte
	v := reflect.ValueOf(h).Elem()
	for _, f := range fields() {
		if f.Name == "Sign" {
			continue
		}
		x := v.FieldByIndex(f.Index)
		switch f.Type.Kind() {
		case reflect.Slice:
			b = append(b, x.Bytes()...)
		case reflect.Uint64:
			b = binary.LittleEndian.AppendUint64(b, x.Uint())
		case reflect.Int64:
			b = binary.LittleEndian.AppendUint64(b, uint64(x.Int()))
		}
	}
	return b
}

func enumMuts(h *types.BlockHeader) []mut {
	var ms []mut
	v := reflect.ValueOf(h).Elem()
	for _, f := range fields() {
		x := v.FieldByIndex(f.Index)
		if f.Type.Kind() == reflect.Slice {
			l := len(x.Bytes())
			if l == 0 {
				panic("harness: base header leaves field empty: " + f.Name)
			}
			for bit := 0; bit < 8*l; bit++ {
				ms = append(ms, mut{f.Name, "flip", bit})
			}
			for n := 0; n < l; n++ { // n == 0 is "empty"
				ms = append(ms, mut{f.Name, "trunc", n})
			}
			for _, k := range []string{"dropfirst", "app00", "appff", "pre00", "dup", "zeroed"} {
				ms = append(ms, mut{f.Name, k, 0})
			}
		} else {
			for bit := 0; bit < 64; bit++ {
				ms = append(ms, mut{f.Name, "flip", bit})
			}
			for _, k := range []string{"inc", "dec", "zero"} {
				ms = append(ms, mut{f.Name, k, 0})
			}
		}
	}
	return ms
}

// someMuts: one representative mutation per field (used by the clock-relative part)
func someMuts(h *types.BlockHeader) []mut {
	var ms []mut
	for _, f := range fields() {
		ms = append(ms, mut{f.Name, "flip", 0})
	}
	return ms
}

func applyMut(h *types.BlockHeader, m *mut) (*types.BlockHeader, bool) {
	c := cloneHeader(h)
	if m == nil {
		return c, false
	}
	f, ok := reflect.TypeOf(types.BlockHeader{}).FieldByName(m.F)
	if !ok {
		panic("harness: no header field " + m.F)
	}
	x := reflect.ValueOf(c).Elem().FieldByIndex(f.Index)
	if f.Type.Kind() == reflect.Slice {
		old := x.Bytes()
		b := append([]byte(nil), old...)
		switch m.K {
		case "flip":
			b[m.A/8] ^= 1 << uint(m.A%8)
		case "trunc":
			b = b[:m.A]
		case "dropfirst":
			b = b[1:]
		case "app00":
			b = append(b, 0)
		case "appff":
			b = append(b, 0xff)
		case "pre00":
			b = append([]byte{0}, b...)
		case "dup":
			b = append(b, b...)
		case "zeroed":
			b = make([]byte, len(b))
		default:
			panic("harness: mutation kind " + m.K)
		}
		x.SetBytes(b)
		return c, !bytes.Equal(old, b)
	}
	var old, nw uint64
	if f.Type.Kind() == reflect.Int64 {
		old = uint64(x.Int())
	} else {
		old = x.Uint()
	}
	switch m.K {
	case "flip":
		nw = old ^ (1 << uint(m.A))
	case "inc":
		nw = old + 1
	case "dec":
		nw = old - 1
	case "zero":
		nw = 0
	default:
		panic("harness: mutation kind " + m.K)
	}
	if f.Type.Kind() == reflect.Int64 {
		x.SetInt(int64(nw))
	} else {
		x.SetUint(nw)
	}
	return c, old != nw
}

// ---------------------------------------------------------------- running one block

type verdict struct {
	sign, valid, ts bool
	panics          string
}

func guard(name string, v *verdict, f func() bool) (ok bool) {
	defer func() {
		if r := recover(); r != nil {
			v.panics += name + " panicked; "
			ok = false
		}
	}()
	return f()
}

func (nd *node) decide(h *types.BlockHeader) verdict {
	var v verdict
	blk := func() *types.Block { return &types.Block{Header: cloneHeader(h), Body: &types.BlockBody{}} }
	v.ts = guard("VerifyTimestamp", &v, func() bool { return nd.dp.VerifyTimestamp(blk()) })
	v.sign = guard("VerifySign", &v, func() bool { return nd.dp.VerifySign(blk()) == nil })
	v.valid = guard("IsBlockValid", &v, func() bool { return nd.dp.IsBlockValid(blk(), nil) == nil })
	return v
}

// sign produces the signed base header: with the real Block.Sign, or (ref) with a
// signature over the harness's own serialisation of the complete header.
func signHeader(h *types.BlockHeader, who ident, ref bool) (*types.BlockHeader, string) {
	h = cloneHeader(h)
	if ref {
		h.PubKey = append([]byte(nil), who.pub...)
		sig, err := who.priv.Sign(refDigest(h))
		if err != nil {
			panic(err)
		}
		h.Sign = sig
		return h, ""
	}
	blk := &types.Block{Header: h, Body: &types.BlockBody{}}
	if err := blk.Sign(who.priv); err != nil {
		return nil, "Block.Sign failed: " + err.Error()
	}
	if !bytes.Equal(h.PubKey, who.pub) {
		return nil, fmt.Sprintf("Block.Sign stored public key %x, the signer's is %x", h.PubKey, who.pub)
	}
	// the signature produced by the real Sign must be one over the complete header
	ok, err := who.priv.GetPublic().Verify(refDigest(h), h.Sign)
	if err != nil || !ok {
		return nil, "the signature made by Block.Sign is not a signature over the complete header (all fields except Sign, reference serialisation)"
	}
	return h, ""
}

// signedBase memoises signHeader (signing is deterministic: RFC 6979).
func (nd *node) signedBase(ts int64, who ident, whoIdx, role int, ref bool) (*types.BlockHeader, string) {
	k := signedKey{ts, whoIdx, ref}
	if whoIdx < 0 {
		k.who = -1 - (role - nd.n)
	}
	if v, ok := nd.signed[k]; ok {
		return v.h, v.err
	}
	if len(nd.signed) > 4096 {
		nd.signed = nil
	}
	if nd.signed == nil {
		nd.signed = map[signedKey]signedVal{}
	}
	h, e := signHeader(nd.header(ts), who, ref)
	nd.signed[k] = signedVal{h, e}
	return h, e
}

type tcase struct {
	slotNo int64 // slot of the block timestamp
	pos    int
	sub    int
	role   int
	ref    bool
	m      *mut
}

func (nd *node) tsOf(c tcase) int64 {
	ivMs := nd.iv * 1000
	var ms int64
	switch c.pos {
	case 0:
		ms = (c.slotNo-1)*ivMs + 1
	case 1:
		ms = (c.slotNo-1)*ivMs + ivMs/2
	default:
		ms = c.slotNo * ivMs
	}
	return ms*msNs + int64(c.sub)
}

var posName = []string{"first ms of the slot", "middle of the slot", "last ms of the slot"}

// evalCase builds the block of c, lets the real code decide and compares with the
// reference. fixedNow >= 0: the caller has pinned the slot number of the local
// clock (part 3) and re-runs the case when the clock left it (retry=true).
func (nd *node) evalCase(ctx *xplor.Ctx, c tcase, fixedNow int64) (msg string, retry bool, accepted bool) {
	ivMs := nd.iv * 1000
	owner := c.slotNo % int64(nd.n)
	who, whoIdx := nd.signer(owner, c.role)
	base, e := nd.signedBase(nd.tsOf(c), who, whoIdx, c.role, c.ref)
	if e != "" {
		return e, false, false
	}
	h, changed := applyMut(base, c.m)
	if c.m != nil && !changed {
		return "", false, false // not a mutation of this header
	}
	var v verdict
	var expTs bool
	judged := false
	tsMs := h.Timestamp / msNs
	for try := 0; try < 6 && !judged; try++ {
		n0 := refIndex(nowMs(), ivMs)
		v = nd.decide(h)
		n1 := refIndex(nowMs(), ivMs)
		if fixedNow >= 0 {
			if n0 != fixedNow || n1 != fixedNow {
				return "", true, false
			}
		}
		e0 := h.BlockNo > 0 && !refFuture(tsMs, n0, ivMs)
		e1 := h.BlockNo > 0 && !refFuture(tsMs, n1, ivMs)
		if e0 == e1 {
			expTs, judged = e0, true
		} else {
			ctx.Count("clock_straddled_a_slot_boundary_rerun", 1)
		}
	}
	if !judged {
		return "", true, false
	}
	if v.panics != "" {
		ctx.Count("panics_counted_as_reject", 1)
	}
	expSign := c.m == nil
	expValid, judgeValid := false, false
	if (c.m == nil || c.m.F != "PubKey") && h.Timestamp >= 0 {
		judgeValid = true
		expValid = whoIdx >= 0 && refOwner(tsMs, ivMs, nd.n) == int64(whoIdx)
	}
	expAccept := c.m == nil && c.role == 0 && expTs
	acc := v.sign && v.valid && v.ts
	var bad []string
	yn := func(b bool) string {
		if b {
			return "accepts"
		}
		return "rejects"
	}
	if v.sign != expSign {
		bad = append(bad, fmt.Sprintf("VerifySign %s, reference %s", yn(v.sign), yn(expSign)))
	}
	if judgeValid && v.valid != expValid {
		bad = append(bad, fmt.Sprintf("IsBlockValid %s, reference %s (signer index %d, owner of the timestamp's slot %d)", yn(v.valid), yn(expValid), whoIdx, refOwner(tsMs, ivMs, nd.n)))
	}
	if v.ts != expTs {
		bad = append(bad, fmt.Sprintf("VerifyTimestamp %s, reference %s", yn(v.ts), yn(expTs)))
	}
	if acc != expAccept {
		bad = append(bad, fmt.Sprintf("block is %s overall, reference %s", map[bool]string{true: "ACCEPTED", false: "REJECTED"}[acc], map[bool]string{true: "accepts", false: "rejects"}[expAccept]))
	}
	if len(bad) == 0 {
		return "", false, acc
	}
	how := "Block.Sign"
	if c.ref {
		how = "reference serialisation of the complete header"
	}
	s := fmt.Sprintf("interval=%ds producers=%d owner-of-slot=%d signer=%s signed-with=%s timestamp=%s+%dns mutation=%s: ",
		nd.iv, nd.n, owner, nd.roleName(c.role), how, posName[c.pos], c.sub, c.m.String())
	for i, b := range bad {
		if i > 0 {
			s += "; "
		}
		s += b
	}
	if v.panics != "" {
		s += " [" + v.panics + "]"
	}
	return s, false, acc
}

// ---------------------------------------------------------------- part 2

func runP2(ctx *xplor.Ctx, r replay) {
	nd := getNode(r.Iv, r.N)
	c := tcase{slotNo: nd.base + int64(r.R), pos: r.Pos, sub: r.Sub, role: r.Role, ref: r.Ref, m: r.Mut}
	msg, retry, acc := nd.evalCase(ctx, c, -1)
	if retry {
		ctx.Incomplete("a deterministic-time case could not be judged (clock)")
		return
	}
	ctx.Eval(1)
	ctx.Count("p2_blocks_decided", 1)
	if acc {
		ctx.Count("blocks_accepted", 1)
	}
	if msg != "" {
		ctx.Violation("", msg+fmt.Sprintf(" [block time %dns]", nd.tsOf(c)), r)
		return
	}
	ctx.Distinct(xplor.Hash("p2", r.Iv, r.N, r.R, r.Role, r.Pos, r.Sub, r.Ref, r.Mut.String()))
}

// unit of part 2: one (interval, n, owner, role): unmutated at every position
// (both ways of signing), then every single-field mutation
func runP2unit(ctx *xplor.Ctx, iv int64, n, r, role int) {
	thorough := ctx.Tier == "thorough"
	nd := getNode(iv, n)
	v0 := ctx.NViolations()
	for pos := 0; pos < 3; pos++ {
		for _, sub := range []int{0, 999999} {
			for _, ref := range []bool{false, true} {
				runP2(ctx, replay{Part: 2, Iv: iv, N: n, R: r, Role: role, Pos: pos, Sub: sub, Ref: ref})
			}
		}
	}
	if ctx.NViolations() > v0 {
		return
	}
	if role == 0 {
		infoProbes(ctx, nd, r)
	}
	for pos := 2; pos >= 0; pos -= 2 { // last ms of the slot; thorough: also the first
		if pos != 2 && !thorough {
			break
		}
		c := tcase{slotNo: nd.base + int64(r), pos: pos, role: role}
		who, _ := nd.signer(c.slotNo%int64(n), role)
		base, e := signHeader(nd.header(nd.tsOf(c)), who, false)
		if e != "" {
			return // already reported above
		}
		muts := enumMuts(base)
		for i := range muts {
			runP2(ctx, replay{Part: 2, Iv: iv, N: n, R: r, Role: role, Pos: pos, Mut: &muts[i]})
			ctx.Count("p2_mutations", 1)
			if ctx.NViolations() > v0+2 || (i%256 == 0 && ctx.Expired()) {
				return
			}
		}
	}
}

// infoProbes measures (does not judge) two things that are outside the property's
// single-field alphabet but concern "the signature binds the header": (a) moving one
// byte across the boundary of two byte fields that are adjacent in the signed
// serialisation (no length prefixes: DESIGN F14, property C19), (b) the (r, n-s)
// twin of the ECDSA signature. Both give a different block id for a block the
// producer never signed in that form.
func infoProbes(ctx *xplor.Ctx, nd *node, r int) {
	c := tcase{slotNo: nd.base + int64(r), pos: 0, role: 0}
	who, idx := nd.signer(c.slotNo%int64(nd.n), 0)
	base, e := nd.signedBase(nd.tsOf(c), who, idx, 0, false)
	if e != "" {
		return
	}
	var prev *reflect.StructField
	fs := fields()
	for i := range fs {
		f := fs[i]
		if f.Name == "Sign" {
			continue
		}
		if f.Type.Kind() != reflect.Slice {
			prev = nil
			continue
		}
		if prev != nil {
			for dir := 0; dir < 2; dir++ {
				h := cloneHeader(base)
				a := reflect.ValueOf(h).Elem().FieldByIndex(prev.Index)
				b := reflect.ValueOf(h).Elem().FieldByIndex(f.Index)
				ab, bb := a.Bytes(), b.Bytes()
				if dir == 0 { // tail of a -> head of b
					b.SetBytes(append([]byte{ab[len(ab)-1]}, bb...))
					a.SetBytes(ab[:len(ab)-1])
				} else { // head of b -> tail of a
					a.SetBytes(append(append([]byte(nil), ab...), bb[0]))
					b.SetBytes(bb[1:])
				}
				v := nd.decide(h)
				ctx.Count("info_two_field_boundary_shift_blocks", 1)
				if v.sign && v.valid && v.ts {
					ctx.Count("info_two_field_boundary_shift_blocks_accepted_not_judged", 1)
					ctx.Note(fmt.Sprintf("info (not judged, cf. F14/C19): one byte moved between %s and %s (direction %d) of a signed header: all three checks still accept", prev.Name, f.Name, dir))
				}
			}
		}
		prev = &fs[i]
	}
	// (r, n-s)
	var sig struct{ R, S *big.Int }
	if rest, err := asn1.Unmarshal(base.Sign, &sig); err == nil && len(rest) == 0 {
		order, _ := new(big.Int).SetString("fffffffffffffffffffffffffffffffebaaedce6af48a03bbfd25e8cd0364141", 16)
		sig.S = new(big.Int).Sub(order, sig.S)
		if der, err := asn1.Marshal(sig); err == nil {
			h := cloneHeader(base)
			h.Sign = der
			v := nd.decide(h)
			ctx.Count("info_sig_twin_blocks", 1)
			if v.sign && v.valid && v.ts {
				ctx.Count("info_sig_twin_blocks_accepted_not_judged", 1)
				ctx.Note("info (not judged): the (r, n-s) twin of a block signature is accepted (different block id, same signed content)")
			}
		}
	}
}

// ---------------------------------------------------------------- part 3 (clock relative)

func sleepToNextSlot(ivMs int64) {
	now := nowMs()
	next := refIndex(now, ivMs)*ivMs + 1 // first ms of the next slot
	time.Sleep(time.Duration(next-now)*time.Millisecond + 2*time.Millisecond)
}

// runP3 evaluates the cases (all with the same interval and n); each case is pinned
// to "slot number of the local clock ≡ R (mod n)" and is only judged when the clock
// stayed in one slot for the whole case.
func runP3(ctx *xplor.Ctx, iv int64, n int, cases []replay) {
	nd := getNode(iv, n)
	ivMs := iv * 1000
	pending := map[int][]replay{}
	left := 0
	for _, c := range cases {
		pending[c.R] = append(pending[c.R], c)
		left++
	}
	giveUp := time.Now().Add(time.Duration(int64(n+2)*iv*8) * time.Second)
	for left > 0 {
		if ctx.Expired() || time.Now().After(giveUp) {
			ctx.Incomplete("clock-relative cases not all judged")
			return
		}
		now := refIndex(nowMs(), ivMs)
		rho := int(now % int64(n))
		q := pending[rho]
		if len(q) == 0 {
			sleepToNextSlot(ivMs)
			continue
		}
		r := q[0]
		c := tcase{slotNo: now + int64(r.D), pos: r.Pos, sub: r.Sub, role: r.Role, ref: r.Ref, m: r.Mut}
		msg, retry, acc := nd.evalCase(ctx, c, now)
		if retry {
			ctx.Count("p3_reruns_clock_left_the_slot", 1)
			continue
		}
		pending[rho] = q[1:]
		left--
		ctx.Eval(1)
		ctx.Count("p3_blocks_decided", 1)
		if acc {
			ctx.Count("blocks_accepted", 1)
		}
		if msg != "" {
			ctx.Violation("", fmt.Sprintf("local clock in a slot ≡%d (mod %d), block time %+d slots from it: ", r.R, n, r.D)+msg, r)
			if ctx.NViolations() > 3 {
				return
			}
			continue
		}
		ctx.Distinct(xplor.Hash("p3", r.Iv, r.N, r.R, r.D, r.Role, r.Pos, r.Sub, r.Mut.String()))
	}
}

func p3cases(iv int64, n, role int, thorough bool) []replay {
	nd := getNode(iv, n)
	who, _ := nd.signer(0, role)
	base, _ := signHeader(nd.header(1), who, false)
	var muts []*mut
	muts = append(muts, nil)
	if base != nil {
		for _, m := range someMuts(base) {
			m := m
			muts = append(muts, &m)
		}
	}
	dlo, dhi := -1, 3
	if thorough {
		dlo, dhi = -n-1, n+3
	}
	var cs []replay
	for rho := 0; rho < n; rho++ {
		for d := dlo; d <= dhi; d++ {
			for pos := 0; pos < 3; pos++ {
				for _, sub := range []int{0, 999999} {
					for _, m := range muts {
						if m != nil && (pos == 1 || sub != 0) {
							continue
						}
						cs = append(cs, replay{Part: 3, Iv: iv, N: n, R: rho, D: d, Role: role, Pos: pos, Sub: sub, Mut: m})
					}
				}
			}
		}
	}
	return cs
}

// ---------------------------------------------------------------- part 4 (IsFuture, every ms)

func runP4(ctx *xplor.Ctx, iv int64, d int) string {
	slot.Init(iv)
	ivMs := iv * 1000
	for try := 0; try < 8; try++ {
		now := refIndex(nowMs(), ivMs)
		bad := ""
		var cnt int64
		for ms := (now+int64(d)-1)*ivMs + 1; ms <= (now+int64(d))*ivMs; ms++ {
			for _, sub := range []int64{0, 999999} {
				got := slot.NewFromUnixNano(ms*msNs + sub).IsFuture()
				cnt++
				if got != (d >= 2) && bad == "" {
					bad = fmt.Sprintf("interval=%ds: IsFuture=%v for the instant %dms+%dns after the start of the slot %+d slots from the local clock's slot, reference %v",
						iv, got, ms-(now+int64(d)-1)*ivMs, sub, d, d >= 2)
				}
			}
		}
		if refIndex(nowMs(), ivMs) != now {
			ctx.Count("p4_reruns_clock_left_the_slot", 1)
			sleepToNextSlot(ivMs)
			continue
		}
		ctx.Eval(cnt)
		ctx.Count("p4_isfuture_calls", cnt)
		if bad == "" {
			ctx.Distinct(xplor.Hash("p4", iv, d))
		}
		return bad
	}
	ctx.Incomplete("IsFuture grid could not be pinned to one slot")
	return ""
}

// ---------------------------------------------------------------- driver

type unit struct {
	kind       int // 1..5
	iv         int64
	a, b, c    int
	cost       int64
	firstClass bool
}

func run(ctx *xplor.Ctx) {
	if ctx.Replay != nil {
		var r replay
		if err := json.Unmarshal(ctx.Replay, &r); err != nil {
			panic(err)
		}
		switch r.Part {
		case 1:
			slot.Init(r.Iv)
			var st p1stats
			if msg := checkMs(r.Iv, r.Count, r.Ms, true, true, &st); msg != "" {
				ctx.Violation("", msg, r)
			}
		case 2:
			runP2(ctx, r)
		case 3:
			runP3(ctx, r.Iv, r.N, []replay{r})
		case 4:
			if msg := runP4(ctx, r.Iv, r.D); msg != "" {
				ctx.Violation("", msg, r)
			}
		case 5:
			var r5 p5replay
			if err := json.Unmarshal(ctx.Replay, &r5); err != nil {
				panic(err)
			}
			var seq []p5list
			for _, l := range r5.Seq {
				seq = append(seq, p5list{l})
			}
			if msg := p5run(ctx, r5.Iv, 8, seq); msg != "" {
				ctx.Violation("", "producer set history "+p5seqText(seq)+": "+msg, r5)
			}
		}
		return
	}
	thorough := ctx.Tier == "thorough"
	ivs1 := []int64{1, 2, 3, 5}
	ivs2 := []int64{1, 2}
	ivs3 := []int64{1}
	ns := []int{1, 3, 4}
	if thorough {
		ivs1 = []int64{1, 2, 3, 4, 5, 7, 10}
		ivs2 = []int64{1, 2, 3, 5}
		ivs3 = []int64{1, 2, 3, 5}
		ns = []int{1, 2, 3, 4, 5, 7}
	}
	var us []unit
	for _, iv := range ivs3 {
		for _, n := range ns {
			for role := 0; role < n+2; role++ {
				us = append(us, unit{kind: 3, iv: iv, a: n, b: role, cost: math.MaxInt64})
			}
		}
	}
	for k := 0; k < 16; k++ {
		us = append(us, unit{kind: 5, iv: 1, a: k, b: 16, cost: math.MaxInt64 - 2})
	}
	for _, iv := range ivs1 {
		for d := -1; d <= 3; d++ {
			us = append(us, unit{kind: 4, iv: iv, a: d, cost: math.MaxInt64 - 1})
		}
	}
	for _, iv := range ivs1 {
		for count := 1; count <= 100; count++ {
			us = append(us, unit{kind: 1, iv: iv, a: count, cost: p1cost(iv, count, thorough)})
		}
	}
	for _, iv := range ivs2 {
		for _, n := range ns {
			for r := 0; r < n; r++ {
				for role := 0; role < n+2; role++ {
					c := int64(2e9)
					if thorough {
						c *= 2
					}
					us = append(us, unit{kind: 2, iv: iv, a: n, b: r, c: role, cost: c})
				}
			}
		}
	}
	if f := os.Getenv("VERIF_C09_PARTS"); f != "" { // ad-hoc: run only some parts, e.g. "23"
		ctx.Incomplete("VERIF_C09_PARTS=" + f)
		kept := us[:0]
		for _, u := range us {
			if strings.Contains(f, fmt.Sprint(u.kind)) {
				kept = append(kept, u)
			}
		}
		us = kept
	}
	sort.SliceStable(us, func(i, j int) bool { return us[i].cost > us[j].cost })
	// boustrophedon assignment of the cost-sorted list keeps the shards balanced
	for i, u := range us {
		k := i % (2 * ctx.NShards)
		if k >= ctx.NShards {
			k = 2*ctx.NShards - 1 - k
		}
		if k != ctx.Shard || ctx.Expired() {
			continue
		}
		switch u.kind {
		case 1:
			runP1(ctx, u.iv, u.a)
		case 2:
			runP2unit(ctx, u.iv, u.a, u.b, u.c)
		case 3:
			runP3(ctx, u.iv, u.a, p3cases(u.iv, u.a, u.b, thorough))
		case 4:
			if msg := runP4(ctx, u.iv, u.a); msg != "" {
				ctx.Violation("", msg, replay{Part: 4, Iv: u.iv, D: u.a})
			}
		case 5:
			runP5(ctx, u.iv, thorough, u.a, u.b)
		}
	}
	if ctx.Shard == 0 {
		ctx.Sample(map[string]interface{}{"part": 1, "interval_s": 5, "producers": 100,
			"what": "every ms of [0, 3 rounds] and of windows around 2^31, 2^32, 2^41, 2^42 ms, 2^31 s, 2^32 s, 2023, max int64 ns: NextBpIndex vs reference, IsFor for all member indexes and outsider indexes (all 65536 at slot edges of round 1), continuity with t-1ms"})
		ctx.Sample(map[string]interface{}{"part": 2, "case": replay{Part: 2, Iv: 1, N: 4, R: 3, Role: 4, Pos: 2, Mut: &mut{"Timestamp", "flip", 0}},
			"what": "block in the slot owned by BP 3 of 4, signed by a non-BP key, timestamp on the last ms of the slot, bit 0 of Timestamp flipped after signing: VerifySign / IsBlockValid / VerifyTimestamp of a real DPoS object vs reference"})
		ctx.Sample(map[string]interface{}{"part": 3, "case": replay{Part: 3, Iv: 1, N: 3, R: 2, D: 2, Role: 0, Pos: 0},
			"what": "local clock in a slot whose number is 2 mod 3, block stamped on the first ms of the slot two ahead, signed by that slot's owner: must be rejected as future"})
	}
}

func main() {
	xplor.Main(xplor.Check{
		ID:    "C09",
		Level: "exploration",
		Rule: "part 1: for every block interval, every producer count 1..100 and every millisecond of [0, 3 producer rounds] (thorough: 5) and of windows of +-2 slots (thorough: a whole round after 2^31 s, 2^41 ms and the 2023 instant) around 2^31/2^32/2^41/2^42 ms, 2^31 s, 2^32 s, a 2023 instant and the largest int64 nanosecond: slot.NextBpIndex equals the reference owner ceil(ms/interval) mod count, IsFor holds for exactly that member index, for no index outside [0,count) (candidate set incl. 65535 = BpID2Index of a non-member, values congruent to the owner modulo count, uint16 wrap-arounds; all 65536 values at the slot edges), the owner is constant inside a slot and advances by 1 mod count at each boundary; sub-millisecond nanoseconds and slot.Time agree. " +
			"part 2: real dpos.DPoS with n in {1,3,4} producers (thorough more): for every slot of a round x signer in {owner, every other BP, 2 non-BP keys} x 3 positions in the slot x 2 sub-ms offsets x signed by Block.Sign | by the reference digest: VerifySign, IsBlockValid, VerifyTimestamp and their conjunction equal the reference; then, for the block on the last ms of the slot (thorough: also the first ms), every single-field mutation of the signed header (every bit of every field, every truncation incl. empty, 6 extensions/rewrites, +-1/zero on integers) must be rejected. " +
			"part 3: the same decision for block times -1..+3 slots from the local clock (thorough: -n-1..n+3) for every residue of the clock's slot number mod n; part 4: IsFuture for every ms of those 5 slots. " +
			"part 5 (the producer set changes): every sequence of at most 3 producer lists - the genesis list, then lists arriving through Cluster.Update as after an election or reorganisation - over all ordered selections without repetition of 1..3 of 3 identities (thorough: 1..4 of 4) plus two lists an update must refuse (undecodable id first / second; the set must stay what it was); after the last update: size, id->index for every identity and an outsider (65535 = not a member), index->id inside and outside the list, Has, and VerifySign/IsBlockValid of a correctly signed block of every slot of one round by every identity and the outsider (accepted iff the signer is the slot's owner under the current list alone). " +
			"not judged, only counted (info_* counters): one byte moved across the boundary of two byte fields adjacent in the signed serialisation, and the (r, n-s) twin of the signature. " +
			"distinct_nontrivial = distinct (interval,count,slot) of part 1 whose every ms passed + distinct decided blocks of parts 2/3 + (interval,offset) grids of part 4.",
		Assumptions: []string{
			"ECDSA/secp256k1 and sha256 of go-libp2p are trusted (a mutated header is expected to be rejected, never 'accidentally valid')",
			"the local clock does not step backwards while a case runs; a clock-relative verdict is only judged when the clock's slot number read before and after the real calls is the same (otherwise the case is re-run), so no verdict depends on sub-slot timing",
			"instants before 1970 (negative timestamps) are outside the slot model: only the conjunction (reject) is judged for them",
			"signature malleability (r, n-s) is not a header mutation and is not in the alphabet",
			"parts 1-4: the producer set is the genesis set of a fresh chain (LIB = 0); part 5 replaces it through Cluster.Update directly (which list an election produces is C15 territory)",
		},
		Shards: func(tier string) int { return 64 },
		Budget: func(tier string) time.Duration {
			// per worker; 64 workers run in waves of 16, so the whole run is
			// bounded by 4 x this (a worker needs about 35 s / 5 s of CPU)
			if tier == "thorough" {
				return 7 * time.Minute
			}
			return 3 * time.Minute
		},
		Run: run,
	})
}
