// C10: the sparse Merkle state trie is a content-addressed, history-independent,
// persistent key-value map.
//
// Mode bfs: explicit-state search over *store states* of the real pkg/trie.
// A state is (content, root, exact bytes of every stored node reachable from the
// root); a transition is one sorted batch applied by a fresh Trie instance opened
// at the root (Update + Commit), the way the node does once per block. States are
// deduplicated by the digest of the reachable bytes, which is everything a fresh
// instance can read, so equal digests have equal futures. The search runs to a
// fixpoint (or a stated depth cap). Oracles on every transition: Get of every
// key = map model (read through another fresh instance), root = independent
// reference root of the content, previous root still readable with its content.
//
// Mode live: bounded sequences on ONE long-lived instance with commit after every
// batch and resets of Root to earlier committed roots (reorg), same oracles plus
// every committed root re-read from a fresh instance at the end.
package main

import (
	"bytes"
	"crypto/sha256"
	"encoding/json"
	"fmt"
	"runtime"
	"sort"
	"strings"
	"sync"
	"time"

	"github.com/aergoio/aergo-lib/db"
	"github.com/aergoio/aergo/v2/internal/common"
	"github.com/aergoio/aergo/v2/pkg/trie"
	"github.com/aergoio/aergo/v2/types/dbkey"
	tk "github.com/aergoio/aergo/v2/verif_h/triekit"
	"github.com/aergoio/aergo/v2/verif_h/vsched"
	"github.com/aergoio/aergo/v2/verif_h/xplor"
)

type replay struct {
	Mode  string     `json:"mode"` // bfs | live | sched
	Sel   []int      `json:"sel"`  // universe indexes of the key set
	Path  []tk.Batch `json:"path,omitempty"`
	Steps []liveStep `json:"steps,omitempty"`
	Sched *schedCase `json:"sched,omitempty"`
}

type liveStep struct {
	Batch   tk.Batch `json:"batch,omitempty"`
	Commit  bool     `json:"commit"`
	SetRoot int      `json:"setroot,omitempty"` // 1-based index of an earlier committed point
}

type bfsCfg struct {
	sel      []int
	maxk     int
	maxDepth int // 0 = until fixpoint
}

type liveCfg struct {
	sel  []int
	maxk int
	d    int
}

func tierCfg(tier string) ([]bfsCfg, liveCfg) {
	if tier == "thorough" {
		// 6561 contents x 1788 batches = 11.7M transitions, and 6561 x 276 = 1.8M
		return []bfsCfg{
				{sel: []int{tk.Z, tk.L01, tk.L02, tk.L08, tk.L10, tk.L20, tk.L80, tk.B0}, maxk: 3},
				{sel: []int{tk.Z, tk.L01, tk.L10, tk.B8, tk.B4, tk.B3, tk.B1, tk.B0}, maxk: 2},
			},
			liveCfg{sel: []int{tk.Z, tk.L01, tk.L08, tk.L10, tk.B0}, maxk: 2, d: 3}
	}
	return []bfsCfg{
			{sel: []int{tk.Z, tk.L01, tk.L02, tk.L08, tk.L10, tk.L20, tk.L80}, maxk: 2},
			{sel: []int{tk.Z, tk.L01, tk.L10, tk.B8, tk.B3, tk.B0}, maxk: 3},
		},
		liveCfg{sel: []int{tk.Z, tk.L01, tk.L10, tk.B0}, maxk: 2, d: 2}
}

// f1 is the signature predicate of known finding F1: the batch deletes a key
// that is currently stored as a shortcut and also carries keys on both sides of
// it inside the subtree that shortcut occupies.
func f1(c tk.Content, b tk.Batch) bool {
	for _, o := range b {
		if o.V != 0 || c[o.K] == 0 {
			continue
		}
		d := tk.Key(o.K)
		p := 0 // depth of d's shortcut = 1 + longest common prefix with any other present key
		for i, v := range c {
			if v == 0 || i == o.K {
				continue
			}
			if l := lcp(d, tk.Key(i)) + 1; l > p {
				p = l
			}
		}
		lo, hi := false, false
		for _, q := range b {
			if q.K == o.K {
				continue
			}
			k := tk.Key(q.K)
			if lcp(d, k) < p {
				continue
			}
			if bytes.Compare(k, d) < 0 {
				lo = true
			} else {
				hi = true
			}
		}
		if lo && hi {
			return true
		}
	}
	return false
}

const kindRootOnly = "root_differs_from_reference"

// sigOf: a failing transition belongs to known finding F1 only when its (content, batch)
// satisfies the predicate AND what fails is the root alone (reads at the new root still agree
// with the model); anything else, also inside the F1 input class, is reported as a violation.
func sigOf(isF1 bool, msg string) string {
	if isF1 && kindOf(msg) == kindRootOnly {
		return "F1"
	}
	return ""
}

// kindOf names the oracle that failed (the text before the first ':' of an observation).
func kindOf(msg string) string {
	for i := 0; i < len(msg); i++ {
		if msg[i] == ':' || msg[i] == '!' {
			msg = msg[:i]
			break
		}
	}
	if strings.HasPrefix(msg, "root and reads") {
		return "root_and_reads_wrong"
	}
	if strings.HasPrefix(msg, "root") {
		return kindRootOnly
	}
	return strings.ReplaceAll(strings.TrimSpace(msg), " ", "_")
}

func lcp(a, b []byte) int {
	for i := 0; i < 256; i++ {
		if (a[i/8]^b[i/8])&(1<<uint(7-i%8)) != 0 {
			return i
		}
	}
	return 256
}

// reach collects the stored bytes of every node batch reachable from root, using
// an independent parser of the stored batch format (4-byte bitmap, 33-byte slots;
// bit 31 = shortcut batch; slots 15..30 are the children that are roots of other batches).
func reach(m map[string][]byte, root []byte, out map[string][]byte) error {
	if len(root) == 0 {
		return nil
	}
	k := string(dbkey.Trie(root[:32]))
	if _, done := out[k]; done {
		return nil
	}
	v, ok := m[k]
	if !ok || len(v) < 4 {
		return fmt.Errorf("node %x missing from the store", root[:32])
	}
	out[k] = v
	if v[3]&1 != 0 { // bit 31: shortcut batch
		return nil
	}
	j := 0
	for i := 1; i <= 30; i++ {
		if v[(i-1)/8]&(1<<uint(7-(i-1)%8)) == 0 {
			continue
		}
		if 4+33*(j+1) > len(v) {
			return fmt.Errorf("node %x truncated", root[:32])
		}
		slot := v[4+33*j : 4+33*(j+1)]
		j++
		// children of the bottom row are roots of other batches stored under their own hash:
		// interior nodes (flag 0) and shortcut leaves (flag 1; leafHash/moveUpShortcut store a
		// shortcut that sits on a batch boundary as a one-entry shortcut batch). Only the
		// key/value copies under a shortcut of the row above (flag 2) are inline data.
		if i >= 15 && slot[32] != 2 {
			if err := reach(m, slot[:32], out); err != nil {
				return err
			}
		}
	}
	return nil
}

func digest(c tk.Content, root []byte, nodes map[string][]byte) string {
	h := sha256.New()
	fmt.Fprint(h, c.ID(), "|")
	h.Write(root)
	keys := make([]string, 0, len(nodes))
	for k := range nodes {
		keys = append(keys, k)
	}
	sort.Strings(keys)
	for _, k := range keys {
		h.Write([]byte(k))
		h.Write(nodes[k])
	}
	return string(h.Sum(nil))
}

type state struct {
	c     tk.Content
	root  []byte
	nodes map[string][]byte
	path  []tk.Batch
}

type stepResult struct {
	msg   string // violation observation, "" if fine
	isF1  bool
	next  *state
	dig   string
	stale bool // an existing stored key was rewritten with different bytes
}

// step executes one transition from s with batch b on store handle st.
func step(st db.DB, s *state, b tk.Batch) (r stepResult) {
	db.VerifHandleRestore(st, s.nodes)
	r.isF1 = f1(s.c, b)
	t := trie.NewTrie(append([]byte{}, s.root...), common.Hasher, st)
	keys, vals := b.KV()
	if _, err := t.Update(keys, vals); err != nil {
		r.msg = "update: " + err.Error()
		return
	}
	if err := t.Commit(); err != nil {
		r.msg = "commit: " + err.Error()
		return
	}
	want := s.c.Apply(b)
	newRoot := append([]byte{}, t.Root...)
	if ref := tk.RefRoot(want); !bytes.Equal(newRoot, ref) {
		r.msg = fmt.Sprintf("root %x != reference root %x of content %v (history dependence)", newRoot, ref, want)
		// say also whether the map answers are still right at the non-canonical root
		if err := tk.CheckReads(trie.NewTrie(append([]byte{}, newRoot...), common.Hasher, st), want); err != nil {
			r.msg = "root and reads wrong: " + r.msg + "; " + err.Error()
		}
		return
	}
	// fresh instance on the stored data
	t2 := trie.NewTrie(append([]byte{}, newRoot...), common.Hasher, st)
	if err := tk.CheckReads(t2, want); err != nil {
		r.msg = "read from fresh instance at the new root: " + err.Error()
		return
	}
	// node batches are written under their hash and never overwritten with other bytes;
	// only if an existing key changed can the previous root read differently
	post := db.VerifHandleSnapshot(st)
	for k, v := range s.nodes {
		if pv, ok := post[k]; !ok || !bytes.Equal(pv, v) {
			r.stale = true
		}
	}
	if r.stale {
		t3 := trie.NewTrie(append([]byte{}, s.root...), common.Hasher, st)
		if err := tk.CheckReads(t3, s.c); err != nil {
			r.msg = "read at the previously committed root: " + err.Error()
			return
		}
	}
	nodes := map[string][]byte{}
	if err := reach(post, newRoot, nodes); err != nil {
		r.msg = "stored trie incomplete: " + err.Error()
		return
	}
	r.next = &state{c: want, root: newRoot, nodes: nodes}
	r.dig = digest(want, newRoot, nodes)
	return
}

func runBFS(ctx *xplor.Ctx, cfg bfsCfg, tag string) {
	tk.Use(cfg.sel...)
	n := len(cfg.sel)
	batches := tk.Batches(n, cfg.maxk)
	nw := runtime.GOMAXPROCS(0)
	handles := make([]db.DB, nw)
	for i := range handles {
		handles[i] = db.NewDB(db.VerifImpl, fmt.Sprintf("c10-%s-%d", tag, i))
	}
	init := &state{c: make(tk.Content, n), nodes: map[string][]byte{}}
	seen := map[string]bool{digest(init.c, nil, init.nodes): true}
	contents := map[int]int{0: 1} // content id -> number of distinct store states
	frontier := []*state{init}
	depth := 0
	var mu sync.Mutex
	nF1 := 0
	for len(frontier) > 0 {
		if cfg.maxDepth > 0 && depth >= cfg.maxDepth {
			ctx.Incomplete(fmt.Sprintf("bfs %s: depth cap %d reached with %d unexplored states", tag, cfg.maxDepth, len(frontier)))
			break
		}
		var next []*state
		jobs := make(chan *state, len(frontier))
		for _, s := range frontier {
			jobs <- s
		}
		close(jobs)
		var wg sync.WaitGroup
		for w := 0; w < nw; w++ {
			wg.Add(1)
			go func(st db.DB) {
				defer wg.Done()
				for s := range jobs {
					if ctx.Expired() {
						continue
					}
					for _, b := range batches {
						r := step(st, s, b)
						ctx.Eval(1)
						ctx.Trans(1)
						ctx.Trace(1) // the transition IS an execution of the real Update+Commit
						if r.stale {
							ctx.Count("transitions_rewriting_a_stored_node", 1)
						}
						path := append(append([]tk.Batch{}, s.path...), b)
						if r.msg != "" {
							sig := sigOf(r.isF1, r.msg)
							mu.Lock()
							report := sig == "" || nF1 < 3
							if sig != "" {
								nF1++
							}
							mu.Unlock()
							if sig != "" {
								ctx.Count("f1_transitions_"+kindOf(r.msg), 1)
							}
							if report {
								ctx.Violation(sig, fmt.Sprintf("keys %v: from %v (after %d batches) batch %v: %s", tk.Names, s.c, len(s.path), b, r.msg),
									replay{Mode: "bfs", Sel: cfg.sel, Path: path})
							} else {
								ctx.Count("f1_observed_more", 1)
							}
							continue // a failed transition is not extended
						}
						if r.next.c.ID() != s.c.ID() {
							ctx.Distinct(xplor.Hash(tag, s.c.ID(), len(s.nodes), fmt.Sprint(b)))
						}
						mu.Lock()
						if !seen[r.dig] {
							seen[r.dig] = true
							contents[r.next.c.ID()]++
							r.next.path = path
							next = append(next, r.next)
						}
						mu.Unlock()
					}
				}
			}(handles[w])
		}
		wg.Wait()
		if ctx.Expired() {
			ctx.Incomplete("bfs " + tag + ": internal deadline")
			break
		}
		frontier = next
		depth++
	}
	ctx.State(int64(len(seen)))
	ctx.Max("max_bfs_depth_"+tag, int64(depth))
	multi := 0
	for _, k := range contents {
		if k > 1 {
			multi++
		}
	}
	ctx.Count("contents_reached_"+tag, int64(len(contents)))
	ctx.Count("contents_with_several_store_states_"+tag, int64(multi))
	ctx.Sample(map[string]interface{}{"mode": "bfs", "keys": append([]string{}, tk.Names...), "batches_per_state": len(batches),
		"example_transition": fmt.Sprintf("from %v apply %v", tk.ContentFromID(len(contents)/2, n), batches[len(batches)-1])})
	for i := range handles {
		db.VerifDrop(fmt.Sprintf("c10-%s-%d", tag, i))
	}
}

func replayBFS(ctx *xplor.Ctx, r replay) {
	tk.Use(r.Sel...)
	st := db.NewDB(db.VerifImpl, "c10-replay")
	s := &state{c: make(tk.Content, len(r.Sel)), nodes: map[string][]byte{}}
	for i, b := range r.Path {
		res := step(st, s, b)
		if res.msg != "" {
			sig := sigOf(res.isF1, res.msg)
			ctx.Violation(sig, fmt.Sprintf("keys %v: from %v (after %d batches) batch %v: %s", tk.Names, s.c, i, b, res.msg), r)
			return
		}
		res.next.path = append(append([]tk.Batch{}, s.path...), b)
		s = res.next
	}
}

type livePoint struct {
	root []byte
	c    tk.Content
}

// runLive executes a sequence on one long-lived instance. Returns the failing
// step index and observation, or -1.
func runLive(st db.DB, n int, steps []liveStep) (int, string, bool) {
	db.VerifHandleRestore(st, nil)
	t := trie.NewTrie(nil, common.Hasher, st)
	model := make(tk.Content, n)
	var committed []livePoint
	for i, s := range steps {
		if s.SetRoot > 0 {
			if s.SetRoot > len(committed) {
				return i, "replay: setroot out of range", false
			}
			p := committed[s.SetRoot-1]
			t.Root = append([]byte{}, p.root...)
			model = p.c.Clone()
			if err := tk.CheckReads(t, model); err != nil {
				return i, "read after resetting Root: " + err.Error(), false
			}
			continue
		}
		isF1 := f1(model, s.Batch)
		keys, vals := s.Batch.KV()
		if _, err := t.Update(keys, vals); err != nil {
			return i, "update: " + err.Error(), isF1
		}
		model = model.Apply(s.Batch)
		if err := t.Commit(); err != nil {
			return i, "commit: " + err.Error(), isF1
		}
		if err := tk.CheckReads(t, model); err != nil {
			return i, "read: " + err.Error(), isF1
		}
		if ref := tk.RefRoot(model); !bytes.Equal(t.Root, ref) {
			return i, fmt.Sprintf("root %x != reference %x of %v", t.Root, ref, model), isF1
		}
		committed = append(committed, livePoint{append([]byte{}, t.Root...), model.Clone()})
	}
	for j, p := range committed {
		tt := trie.NewTrie(p.root, common.Hasher, st)
		if err := tk.CheckReads(tt, p.c); err != nil {
			return len(steps) - 1, fmt.Sprintf("historical root #%d: %v", j+1, err), false
		}
	}
	return -1, "", false
}

func runLiveAll(ctx *xplor.Ctx, cfg liveCfg) {
	tk.Use(cfg.sel...)
	n := len(cfg.sel)
	lb := tk.Batches(n, cfg.maxk)
	nw := runtime.GOMAXPROCS(0)
	type job struct{ steps []liveStep }
	jobs := make(chan job, 1024)
	var wg sync.WaitGroup
	var mu sync.Mutex
	nF1 := 0
	for w := 0; w < nw; w++ {
		wg.Add(1)
		st := db.NewDB(db.VerifImpl, fmt.Sprintf("c10-live-%d", w))
		go func() {
			defer wg.Done()
			for j := range jobs {
				if ctx.Expired() {
					continue
				}
				ctx.Eval(1)
				ctx.Trace(1)
				i, msg, isF1 := runLive(st, n, j.steps)
				if i >= 0 {
					sig := sigOf(isF1, msg)
					mu.Lock()
					report := sig == "" || nF1 < 2
					if sig != "" {
						nF1++
					}
					mu.Unlock()
					if report {
						ctx.Violation(sig, fmt.Sprintf("keys %v: live step %d: %s", tk.Names, i, msg), replay{Mode: "live", Sel: cfg.sel, Steps: j.steps})
					}
					continue
				}
				ctx.Distinct(xplor.Hash("live", fmt.Sprint(j.steps)))
			}
		}()
	}
	// every sequence of exactly d steps (prefixes are checked as part of the longer runs:
	// oracles are evaluated after every step); a reset needs an earlier commit
	var steps []liveStep
	var gen func(depth, ncommitted int)
	gen = func(depth, ncommitted int) {
		if depth == cfg.d {
			jobs <- job{append([]liveStep{}, steps...)}
			return
		}
		for _, b := range lb {
			steps = append(steps, liveStep{Batch: b, Commit: true})
			gen(depth+1, ncommitted+1)
			steps = steps[:len(steps)-1]
		}
		if depth > 0 && depth+1 < cfg.d {
			for r := 1; r <= ncommitted; r++ {
				steps = append(steps, liveStep{SetRoot: r})
				gen(depth+1, ncommitted)
				steps = steps[:len(steps)-1]
			}
		}
	}
	gen(0, 0)
	close(jobs)
	wg.Wait()
	if ctx.Expired() {
		ctx.Incomplete("live: internal deadline")
	}
	ctx.Sample(map[string]interface{}{"mode": "live", "keys": append([]string{}, tk.Names...), "depth": cfg.d,
		"example": []string{lb[len(lb)-1].String() + " commit", "setroot 1", lb[0].String() + " commit"}})
}

// ------------------------------------------------------------------ sched mode
//
// Interleavings of the goroutines inside ONE Update (parallel subtree updates). pkg/trie is
// compiled with `go f(..)` -> vsched.Go, `<-ch` -> vsched.Recv and sync -> vsync (harness/c10/REWRITE),
// so that every goroutine the trie starts is a thread of the cooperative scheduler and every
// mutex operation, spawn and join is a scheduling point. For every (content, batch) of a small
// universe whose batch touches both sides of some branch, every schedule with at most k
// preemptions is executed on a fresh instance over a copy of the stored pre-state; all schedules
// must give the reference root, the same stored node set and right reads.

type schedCase struct {
	Sel   []int    `json:"sel"`
	From  int      `json:"from"` // content id
	Batch tk.Batch `json:"batch"`
}

func runSchedCase(ctx *xplor.Ctx, sc schedCase, bound int, st db.DB) string {
	tk.Use(sc.Sel...)
	n := len(sc.Sel)
	c := tk.ContentFromID(sc.From, n)
	// stored pre-state
	db.VerifHandleRestore(st, map[string][]byte{})
	t0, err := tk.Build(st, c)
	if err != nil {
		return "build: " + err.Error()
	}
	root0 := append([]byte{}, t0.Root...)
	pre := db.VerifHandleSnapshot(st)
	want := c.Apply(sc.Batch)
	ref := tk.RefRoot(want)
	isF1 := f1(c, sc.Batch)
	keys, vals := sc.Batch.KV()
	var cur *trie.Trie
	var uerr error
	expired := false
	outcomes := map[string]bool{}
	msg := ""
	stats := vsched.Explore(bound, func() []func() {
		db.VerifHandleRestore(st, pre)
		cur = trie.NewTrie(append([]byte{}, root0...), common.Hasher, st)
		uerr = nil
		return []func(){func() {
			if _, e := cur.Update(keys, vals); e != nil {
				uerr = e
				return
			}
			uerr = cur.Commit()
		}}
	}, func(x *vsched.Exec, _ int) bool {
		ctx.Trace(1)
		ctx.Trans(int64(len(x.Points)))
		if ctx.Expired() {
			expired = true
			return false
		}
		ctx.Max("max_threads_in_one_update", int64(maxThread(x)+1))
		switch {
		case x.Deadlock:
			msg = fmt.Sprintf("deadlock inside Update under schedule %v: %v", x.Choices(), x.Blocked)
		case x.Horizon:
			msg = "horizon exceeded inside one Update"
		case len(x.Panics) > 0:
			msg = fmt.Sprintf("panic inside Update under schedule %v: %v", x.Choices(), x.Panics)
		case uerr != nil:
			msg = fmt.Sprintf("update fails under schedule %v: %v", x.Choices(), uerr)
		}
		if msg != "" {
			return false
		}
		post := db.VerifHandleSnapshot(st)
		nodes := map[string][]byte{}
		rerr := reach(post, cur.Root, nodes)
		outcomes[fmt.Sprintf("%x|%s", cur.Root, digest(want, cur.Root, nodes))] = true
		if !bytes.Equal(cur.Root, ref) {
			if isF1 {
				return true // known finding F1: judged in bfs mode
			}
			msg = fmt.Sprintf("root %x != reference root %x under schedule %v", cur.Root, ref, x.Choices())
			return false
		}
		if rerr != nil {
			msg = fmt.Sprintf("stored trie incomplete under schedule %v: %v", x.Choices(), rerr)
			return false
		}
		if e := tk.CheckReads(trie.NewTrie(append([]byte{}, cur.Root...), common.Hasher, st), want); e != nil {
			msg = fmt.Sprintf("reads wrong under schedule %v: %v", x.Choices(), e)
			return false
		}
		return true
	})
	ctx.Count("sched_schedules", int64(stats.Executions))
	if msg == "" && len(outcomes) > 1 && !isF1 {
		msg = fmt.Sprintf("%d different stored results depending on the schedule", len(outcomes))
	}
	if expired {
		return ""
	}
	if msg == "" && stats.BoundDone < bound {
		ctx.Incomplete(fmt.Sprintf("sched: preemption bound %d not completed for %v", bound, sc))
	}
	return msg
}

func maxThread(x *vsched.Exec) int {
	m := 0
	for _, p := range x.Points {
		for _, e := range p.Enabled {
			if int(e) > m {
				m = int(e)
			}
		}
	}
	return m
}

func runSched(ctx *xplor.Ctx) {
	bound, maxk := 1, 2
	// keys spanning the top and the bottom node batches, so that one batch splits at several heights
	sel := []int{0, 1, 7, 11}
	if ctx.Tier == "thorough" {
		bound, maxk = 2, 2
		sel = []int{0, 1, 4, 7, 11}
	}
	n := len(sel)
	runtime.GOMAXPROCS(1)
	tk.Use(sel...)
	batches := tk.Batches(n, maxk)
	st := db.NewDB(db.VerifImpl, fmt.Sprintf("c10-sched-%d", ctx.Shard))
	idx := 0
	pow := 1
	for i := 0; i < n; i++ {
		pow *= 3
	}
	for from := 0; from < pow; from++ {
		for _, b := range batches {
			if len(b) < 2 {
				continue // a single key never forks
			}
			idx++
			if idx%(ctx.NShards-1) != ctx.Shard-1 {
				continue
			}
			if ctx.Expired() {
				return
			}
			sc := schedCase{Sel: sel, From: from, Batch: b}
			ctx.Eval(1)
			if m := runSchedCase(ctx, sc, bound, st); m != "" {
				ctx.Violation("", fmt.Sprintf("sched: keys %v from %v batch %v: %s", tk.Names, tk.ContentFromID(from, n), b, m), replay{Mode: "sched", Sched: &sc})
			} else {
				ctx.Distinct(xplor.Hash("sched", from, b.String()))
			}
		}
	}
}

func run(ctx *xplor.Ctx) {
	if ctx.Replay != nil {
		var r replay
		if err := json.Unmarshal(ctx.Replay, &r); err != nil {
			panic(err)
		}
		switch r.Mode {
		case "sched":
			bound := 1
			if ctx.Tier == "thorough" {
				bound = 2
			}
			st := db.NewDB(db.VerifImpl, "c10-sched-replay")
			if m := runSchedCase(ctx, *r.Sched, bound, st); m != "" {
				ctx.Violation("", fmt.Sprintf("sched: keys %v from %v batch %v: %s", tk.Names, tk.ContentFromID(r.Sched.From, len(r.Sched.Sel)), r.Sched.Batch, m), r)
			}
		case "bfs":
			replayBFS(ctx, r)
		case "live":
			tk.Use(r.Sel...)
			st := db.NewDB(db.VerifImpl, "c10-replay")
			if i, msg, isF1 := runLive(st, len(r.Sel), r.Steps); i >= 0 {
				ctx.Violation(sigOf(isF1, msg), fmt.Sprintf("keys %v: live step %d: %s", tk.Names, i, msg), r)
			}
		}
		return
	}
	// worker 0: bfs + live modes (parallel inside the process); workers 1..: sched mode
	if ctx.Shard > 0 {
		runSched(ctx)
		return
	}
	runtime.GOMAXPROCS(runtime.NumCPU())
	bcfgs, lcfg := tierCfg(ctx.Tier)
	for i, c := range bcfgs {
		runBFS(ctx, c, fmt.Sprintf("u%d", i+1))
	}
	runLiveAll(ctx, lcfg)
}

func main() {
	xplor.Main(xplor.Check{
		ID:    "C10",
		Level: "model_checking",
		Rule: "explicit-state search of the real pkg/trie: state = (map content, root, exact bytes of every stored node reachable from the root), deduplicated by digest of those bytes; " +
			"transition = one sorted batch (every set of <=k keys of the key set, each := v1 | v2 | delete) applied by a fresh Trie opened at the root with Update+Commit; explored breadth-first from the empty trie to a fixpoint. " +
			"Key sets are 32-byte keys colliding on long prefixes (first differing bit 255,254,252,251,250,248 = two adjacent 4-level node batches at the bottom; 8,4,3,1,0 = top). " +
			"Oracles per transition: root = independent reference root of the resulting content, Get of every key from a fresh instance = map model, previously committed root still readable when any stored node was rewritten. " +
			"mode live: every sequence of d steps (batch+commit | reset Root to an earlier committed root) on one long-lived instance, same oracles after each step and every committed root re-read at the end. " +
			"distinct_nontrivial = distinct content-changing transitions + distinct passing live histories.",
		Assumptions: []string{
			"sha256 collision freedom",
			"a fresh Trie instance reads nothing but the nodes reachable from its root (this is what makes the reachable-bytes digest a sound state key)",
			"values are 32-byte hashes as produced by stateBuffer.export; deletions are the DefaultLeaf value; one Update per Commit, as the node does per block",
			"goroutine interleavings inside one Update (parallel subtrees) run under the Go scheduler here, they are not enumerated",
		},
		Shards: func(tier string) int { return 16 },
		Budget: func(tier string) time.Duration {
			if tier == "thorough" {
				return 45 * time.Minute
			}
			return 8 * time.Minute
		},
		Run: run,
	})
}
