// C10: the sparse Merkle state trie is a content-addressed, history-independent,
// persistent key-value map. Bounded exhaustive exploration of the real
// pkg/trie code against a plain-map model and an independent reference root.
package main

import (
	"bytes"
	"encoding/json"
	"fmt"
	"time"

	"github.com/aergoio/aergo-lib/db"
	"github.com/aergoio/aergo/v2/internal/common"
	"github.com/aergoio/aergo/v2/pkg/trie"
	tk "github.com/aergoio/aergo/v2/verif_h/triekit"
	"github.com/aergoio/aergo/v2/verif_h/xplor"
)

type replay struct {
	Mode  string    `json:"mode"` // fresh | live
	N     int       `json:"n"`
	State int       `json:"state,omitempty"` // fresh: content id of the source state
	Batch tk.Batch  `json:"batch,omitempty"`
	Steps []liveStep `json:"steps,omitempty"`
}

type liveStep struct {
	Batch   tk.Batch `json:"batch,omitempty"`
	Commit  bool     `json:"commit"`
	SetRoot int      `json:"setroot,omitempty"` // 1-based index of an earlier committed point; 0 = none
}

type params struct {
	freshN, freshK       int
	liveN, liveK, liveD  int
}

func tierParams(tier string) params {
	if tier == "thorough" {
		return params{freshN: 7, freshK: 4, liveN: 5, liveK: 2, liveD: 3}
	}
	return params{freshN: 6, freshK: 3, liveN: 4, liveK: 2, liveD: 2}
}

// f1 is the signature predicate of known finding F1: the batch deletes a key
// that is currently stored as a shortcut and also carries keys on both sides of
// it inside the subtree that shortcut occupies.
func f1(c tk.Content, b tk.Batch) bool {
	for _, o := range b {
		if o.V != 0 || c[o.K] == 0 {
			continue
		}
		d := tk.Key(o.K)
		p := 0 // depth of d's shortcut = 1 + longest common prefix with any other present key
		only := true
		for i, v := range c {
			if v == 0 || i == o.K {
				continue
			}
			only = false
			if l := lcp(d, tk.Key(i)) + 1; l > p {
				p = l
			}
		}
		if only {
			p = 0
		}
		lo, hi := false, false
		for _, q := range b {
			if q.K == o.K {
				continue
			}
			k := tk.Key(q.K)
			if lcp(d, k) < p {
				continue
			}
			if bytes.Compare(k, d) < 0 {
				lo = true
			} else {
				hi = true
			}
		}
		if lo && hi {
			return true
		}
	}
	return false
}

func lcp(a, b []byte) int {
	for i := 0; i < 256; i++ {
		if (a[i/8]^b[i/8])&(1<<uint(7-i%8)) != 0 {
			return i
		}
	}
	return 256
}

// stepFresh executes one transition from canonical state c with batch b on a
// store that holds exactly the canonical trie of c. Returns "" if all oracles hold.
func stepFresh(store string, c tk.Content, b tk.Batch, canon *canonical) string {
	var st db.DB
	var root0 []byte
	if canon != nil && canon.snap != nil {
		st = canon.st
		tk.Reset(store, canon.snap)
		root0 = canon.root
	} else {
		st = tk.Open(store)
		t0, err := tk.Build(st, c)
		if err != nil {
			return "build: " + err.Error()
		}
		root0 = append([]byte{}, t0.Root...)
		if !bytes.Equal(root0, tk.RefRoot(c)) {
			return fmt.Sprintf("one-batch build of %v: root %x != reference %x", c, root0, tk.RefRoot(c))
		}
		if canon != nil {
			canon.st, canon.root, canon.snap = st, root0, db.VerifSnapshot(store)
		}
	}
	// the node works on an instance opened at the root, like a StateDB after restart
	t := trie.NewTrie(root0, common.Hasher, st)
	keys, vals := b.KV()
	if _, err := t.Update(keys, vals); err != nil {
		return "update: " + err.Error()
	}
	if err := t.Commit(); err != nil {
		return "commit: " + err.Error()
	}
	want := c.Apply(b)
	if ref := tk.RefRoot(want); !bytes.Equal(t.Root, ref) {
		return fmt.Sprintf("root %x != reference root %x of content %v (history dependence)", t.Root, ref, want)
	}
	// fresh instance on the stored data
	t2 := trie.NewTrie(append([]byte{}, t.Root...), common.Hasher, st)
	if err := tk.CheckReads(t2, want); err != nil {
		return "read from fresh instance: " + err.Error()
	}
	// the previously committed root keeps its own content
	t3 := trie.NewTrie(root0, common.Hasher, st)
	if err := tk.CheckReads(t3, c); err != nil {
		return "read at previous root: " + err.Error()
	}
	return ""
}

// canonical caches the store content holding exactly the one-batch trie of a content.
type canonical struct {
	st   db.DB
	root []byte
	snap map[string][]byte
}

type livePoint struct {
	root []byte
	c    tk.Content
}

// runLive executes a sequence on one long-lived instance. Returns the failing
// step index and observation, or -1.
func runLive(store string, n int, steps []liveStep) (int, string, bool) {
	st := tk.Open(store)
	t := trie.NewTrie(nil, common.Hasher, st)
	model := make(tk.Content, n)
	var committed []livePoint
	for i, s := range steps {
		if s.SetRoot > 0 {
			if s.SetRoot > len(committed) {
				return i, "replay: setroot out of range", false
			}
			p := committed[s.SetRoot-1]
			t.Root = append([]byte{}, p.root...)
			model = p.c.Clone()
			if err := tk.CheckReads(t, model); err != nil {
				return i, "read after SetRoot: " + err.Error(), false
			}
			continue
		}
		isF1 := f1(model, s.Batch)
		keys, vals := s.Batch.KV()
		if _, err := t.Update(keys, vals); err != nil {
			return i, "update: " + err.Error(), isF1
		}
		model = model.Apply(s.Batch)
		if s.Commit {
			if err := t.Commit(); err != nil {
				return i, "commit: " + err.Error(), isF1
			}
		}
		if err := tk.CheckReads(t, model); err != nil {
			return i, "read: " + err.Error(), isF1
		}
		if ref := tk.RefRoot(model); !bytes.Equal(t.Root, ref) {
			return i, fmt.Sprintf("root %x != reference %x of %v", t.Root, ref, model), isF1
		}
		if s.Commit {
			committed = append(committed, livePoint{append([]byte{}, t.Root...), model.Clone()})
		}
	}
	for j, p := range committed {
		tt := trie.NewTrie(p.root, common.Hasher, st)
		if err := tk.CheckReads(tt, p.c); err != nil {
			return len(steps) - 1, fmt.Sprintf("historical root #%d: %v", j+1, err), false
		}
	}
	return -1, "", false
}

func run(ctx *xplor.Ctx) {
	store := fmt.Sprintf("c10-%d", ctx.Shard)
	defer db.VerifDrop(store)
	if ctx.Replay != nil {
		var r replay
		if err := json.Unmarshal(ctx.Replay, &r); err != nil {
			panic(err)
		}
		switch r.Mode {
		case "fresh":
			c := tk.ContentFromID(r.State, r.N)
			if msg := stepFresh(store, c, r.Batch, nil); msg != "" {
				sig := ""
				if f1(c, r.Batch) {
					sig = "F1"
				}
				ctx.Violation(sig, fmt.Sprintf("state %v batch %v: %s", c, r.Batch, msg), r)
			}
		case "live":
			if i, msg, isF1 := runLive(store, r.N, r.Steps); i >= 0 {
				sig := ""
				if isF1 {
					sig = "F1"
				}
				ctx.Violation(sig, fmt.Sprintf("step %d: %s", i, msg), r)
			}
		}
		return
	}
	p := tierParams(ctx.Tier)

	// ---- mode A: every (content, batch) transition from a canonical store
	batches := tk.Batches(p.freshN, p.freshK)
	nstates := 1
	for i := 0; i < p.freshN; i++ {
		nstates *= 3
	}
	roots := map[string]int{}
	for id := 0; id < nstates; id++ {
		c := tk.ContentFromID(id, p.freshN)
		// injectivity of the reference root over all contents (every shard checks all; cheap)
		r := string(tk.RefRoot(c))
		if o, dup := roots[r]; dup {
			ctx.Violation("", fmt.Sprintf("contents %v and %v have the same root", tk.ContentFromID(o, p.freshN), c), replay{Mode: "fresh", N: p.freshN, State: id})
		}
		roots[r] = id
		if !ctx.Mine(id) {
			continue
		}
		ctx.Count("fresh_states", 1)
		canon := &canonical{}
		for _, b := range batches {
			if ctx.Expired() {
				return
			}
			ctx.Eval(1)
			if c.Apply(b).ID() != id {
				ctx.Distinct(xplor.Hash("t", id, fmt.Sprint(b)))
			}
			msg := stepFresh(store, c, b, canon)
			if f1(c, b) {
				ctx.Count("f1_predicate_cases", 1)
			}
			if msg != "" {
				sig := ""
				if f1(c, b) {
					sig = "F1"
				}
				if sig == "" || ctx.NViolations() < 3 {
					ctx.Violation(sig, fmt.Sprintf("state %v batch %v: %s", c, b, msg), replay{Mode: "fresh", N: p.freshN, State: id, Batch: b})
				} else {
					ctx.Count("f1_observed", 1)
				}
			}
		}
	}
	ctx.Max("max_fresh_batches", int64(len(batches)))
	ctx.Sample(map[string]interface{}{"mode": "fresh", "state": tk.ContentFromID(nstates/2, p.freshN).String(), "batch": batches[len(batches)-1].String()})

	// ---- mode B: sequences on one long-lived instance
	lb := tk.Batches(p.liveN, p.liveK)
	var steps []liveStep
	var dfs func(depth int, ncommitted int)
	seq := 0
	dfs = func(depth, ncommitted int) {
		if depth == p.liveD {
			return
		}
		try := func(s liveStep, nc int) {
			steps = append(steps, s)
			defer func() { steps = steps[:len(steps)-1] }()
			// shard on the first step
			if depth == 0 {
				seq++
				if !ctx.Mine(seq) {
					return
				}
			}
			if ctx.Expired() {
				return
			}
			ctx.Eval(1)
			i, msg, isF1 := runLive(store, p.liveN, steps)
			if i >= 0 {
				sig := ""
				if isF1 {
					sig = "F1"
				}
				if sig == "" || ctx.NViolations() < 3 {
					ctx.Violation(sig, fmt.Sprintf("live step %d: %s", i, msg), replay{Mode: "live", N: p.liveN, Steps: append([]liveStep{}, steps...)})
				} else {
					ctx.Count("f1_observed", 1)
				}
				return // do not extend a failed history
			}
			ctx.Distinct(xplor.Hash("live", fmt.Sprint(steps)))
			dfs(depth+1, nc)
		}
		for _, b := range lb {
			try(liveStep{Batch: b, Commit: true}, ncommitted+1)
		}
		for r := 1; r <= ncommitted; r++ {
			if depth+1 < p.liveD {
				try(liveStep{SetRoot: r}, ncommitted)
			}
		}
	}
	dfs(0, 0)
	ctx.Sample(map[string]interface{}{"mode": "live", "steps": []string{lb[len(lb)-1].String() + " commit", "setroot 1", lb[0].String() + " commit"}})
}

func main() {
	xplor.Main(xplor.Check{
		ID:    "C10",
		Level: "exploration",
		Rule: "mode fresh: every (content, batch) pair: content = each assignment of {absent,v1,v2} to the first n collision-prone 32-byte keys " +
			"(differing first at bits 255,252,251,8,4,3,1,0), batch = every sorted set of <=k keys with value v1|v2|delete, applied by the real " +
			"Trie.Update+Commit on a store holding exactly the canonical trie of the content; oracles: Get of every key = map model, root = independent " +
			"reference root of the resulting content, fresh instance at the new root, previous root still readable, reference roots injective. " +
			"mode live: every sequence of <=d steps (batch+commit | reset Root to an earlier committed root, as a reorganisation does) on one long-lived instance, " +
			"same oracles after every step plus every committed root re-read from a fresh instance at the end. distinct_nontrivial = distinct (content,batch) transitions that change the content + distinct passing live histories.",
		Assumptions: []string{
			"sha256 collision freedom (same root => same reachable nodes), which justifies starting every transition from the canonical trie of a content",
			"values are 32-byte hashes as produced by stateBuffer.export; deletions are the DefaultLeaf value",
			"sequential use of one Trie instance (parallel subtree goroutines are explored separately by the SCHED part when enabled)",
		},
		Shards: func(tier string) int { return 16 },
		Budget: func(tier string) time.Duration {
			if tier == "thorough" {
				return 20 * time.Minute
			}
			return 4 * time.Minute
		},
		Run: run,
	})
}
