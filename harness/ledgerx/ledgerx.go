// Package ledgerx enumerates blocks (every sequence of <= k transactions from a
// finite alphabet, on prepared pre-states, under a set of network
// configurations) and executes each through the real producer path and the
// real validator path. It is the engine shared by C01 (conservation), C02
// (determinism), C03 (atomicity) and C04 (authorisation / replay).
package ledgerx

import (
	"bytes"
	"fmt"
	"math/big"
	"sort"

	"github.com/aergoio/aergo/v2/internal/enc/base58"
	"github.com/aergoio/aergo/v2/types"
	nk "github.com/aergoio/aergo/v2/verif_h/nodekit"
)

// ------------------------------------------------------------------ nets

// Nets returns the network configurations of a tier.
func Nets(tier string) []nk.Net {
	mk := func(v int, public, coinbase bool, vault string) nk.Net {
		n := nk.NetForVersion(v, public)
		n.Coinbase = coinbase
		n.Vault = vault
		return n
	}
	const vault = "5000000000000000000000"
	if tier != "thorough" {
		return []nk.Net{
			mk(5, true, true, vault),
			mk(0, true, false, ""),
			mk(2, false, true, vault),
			mk(3, true, false, vault),
			mk(4, true, true, ""),
			// a vault that the second voting reward drains (reward = 0.16 aergo per block)
			mk(5, true, true, "240000000000000000"),
		}
	}
	out := []nk.Net{mk(5, true, true, "240000000000000000"), mk(3, true, false, "240000000000000000")}
	for _, v := range []int{0, 2, 3, 4, 5} {
		for _, pub := range []bool{true, false} {
			for _, cb := range []bool{true, false} {
				for _, va := range []string{vault, ""} {
					out = append(out, mk(v, pub, cb, va))
				}
			}
		}
	}
	return out
}

// ------------------------------------------------------------------ alphabet

// Env is what a tx generator may look at.
type Env struct {
	Node     *nk.Node
	Cid      []byte            // right chain id hash for the block being built
	Nonce    map[int]uint64    // next nonce per user (optimistic: every earlier tx of the block consumes one)
	Contract []byte            // address of the contract deployed in the warm pre-state (nil on cold)
	Height   uint64            // height of the block being built
	Bal      func(int) *big.Int // committed balance of a user at the parent
}

// Gen is one letter of the alphabet.
type Gen struct {
	Name  string
	Fault string // "" | sig | chainid | noncelow | noncegap : an authorisation/replay fault (C04)
	Make  func(e *Env) *types.Tx
}

var (
	aergo    = new(big.Int).Exp(big.NewInt(10), big.NewInt(18), nil)
	stakeMin = new(big.Int).Set(types.StakingMinimum)
	NameB    = "bbbbbbbbbbbb"
	NameC    = "cccccccccccc"
)

func bpArg(i int) string { return types.IDB58Encode(nk.BPIDs[i]) }

func (e *Env) next(u int) uint64 {
	n := e.Nonce[u]
	e.Nonce[u] = n + 1
	return n
}

func gov(name string, fault string, from int, to string, amount *big.Int, payload func(e *Env) []byte) Gen {
	return Gen{Name: name, Fault: fault, Make: func(e *Env) *types.Tx {
		return nk.MakeTx(nk.TxSpec{From: from, Nonce: e.next(from), To: []byte(to), Amount: amount, Type: types.TxType_GOVERNANCE, Payload: payload(e)}, e.Cid)
	}}
}

func prog(ops ...[]interface{}) []byte {
	return nk.JSON(map[string]interface{}{"ops": ops})
}

// Alphabet returns the tx alphabet, simplest first.
func Alphabet() []Gen {
	A, B, C, D := 0, 1, 2, 3
	xfer := func(name string, from int, to []byte, amt func(e *Env) *big.Int) Gen {
		return Gen{Name: name, Make: func(e *Env) *types.Tx {
			return nk.MakeTx(nk.TxSpec{From: from, Nonce: e.next(from), To: to, Amount: amt(e), Type: types.TxType_TRANSFER}, e.Cid)
		}}
	}
	c := func(v int64) func(*Env) *big.Int { return func(*Env) *big.Int { return big.NewInt(v) } }
	fresh := []byte{0x02, 1, 2, 3, 4, 5, 6, 7, 8, 9, 10, 11, 12, 13, 14, 15, 16, 17, 18, 19, 20, 21, 22, 23, 24, 25, 26, 27, 28, 29, 30, 31, 32}
	call := func(name string, from int, typ types.TxType, amt int64, payload []byte) Gen {
		return Gen{Name: name, Make: func(e *Env) *types.Tx {
			to := e.Contract
			if to == nil {
				to = fresh // no contract in this pre-state: a call to a plain account
			}
			return nk.MakeTx(nk.TxSpec{From: from, Nonce: e.next(from), To: to, Amount: big.NewInt(amt), Type: typ, Payload: payload, GasLimit: 0}, e.Cid)
		}}
	}
	gs := []Gen{
		xfer("A->B 1", A, nk.UserAddrs[B], c(1)),
		xfer("A->B 0", A, nk.UserAddrs[B], c(0)),
		xfer("A->A 5", A, nk.UserAddrs[A], c(5)),
		xfer("B->fresh 7", B, fresh, c(7)),
		xfer("A->B all", A, nk.UserAddrs[B], func(e *Env) *big.Int { return e.Bal(A) }),
		xfer("A->B all+1", A, nk.UserAddrs[B], func(e *Env) *big.Int { return new(big.Int).Add(e.Bal(A), big.NewInt(1)) }),
		xfer("B->A half", B, nk.UserAddrs[A], func(e *Env) *big.Int { return new(big.Int).Rsh(e.Bal(B), 1) }),
		// recipient given as a name: on the warm pre-state the name resolves to B (sender = receiver
		// under two different spellings) resp. is a third party for A
		xfer("B->name b 3", B, []byte(NameB), c(3)),
		xfer("A->name b 3", A, []byte(NameB), c(3)),
		gov("A stake min", "", A, types.AergoSystem, stakeMin, func(*Env) []byte { return nk.GovPayload("v1stake") }),
		gov("D stake min-1", "", D, types.AergoSystem, new(big.Int).Sub(stakeMin, big.NewInt(1)), func(*Env) []byte { return nk.GovPayload("v1stake") }),
		gov("A unstake min", "", A, types.AergoSystem, stakeMin, func(*Env) []byte { return nk.GovPayload("v1unstake") }),
		gov("A voteBP [0]", "", A, types.AergoSystem, nil, func(*Env) []byte { return nk.GovPayload("v1voteBP", bpArg(0)) }),
		gov("A voteBP [1,2]", "", A, types.AergoSystem, nil, func(*Env) []byte { return nk.GovPayload("v1voteBP", bpArg(1), bpArg(2)) }),
		gov("D voteBP [1]", "", D, types.AergoSystem, nil, func(*Env) []byte { return nk.GovPayload("v1voteBP", bpArg(1)) }),
		gov("A voteDAO gasprice", "", A, types.AergoSystem, nil, func(*Env) []byte { return nk.GovPayload("v1voteDAO", "GASPRICE", "60000000000") }),
		// the same ballot as A's: A and D hold equal stakes, together they pass the two-thirds threshold
		// and the parameter changes (pending until the end of the block)
		gov("D voteDAO gasprice", "", D, types.AergoSystem, nil, func(*Env) []byte { return nk.GovPayload("v1voteDAO", "GASPRICE", "60000000000") }),
		gov("D voteDAO gasprice other", "", D, types.AergoSystem, nil, func(*Env) []byte { return nk.GovPayload("v1voteDAO", "GASPRICE", "70000000000") }),
		gov("B createName b", "", B, types.AergoName, aergo, func(*Env) []byte { return nk.GovPayload("v1createName", NameB) }),
		gov("C createName c", "", C, types.AergoName, aergo, func(*Env) []byte { return nk.GovPayload("v1createName", NameC) }),
		gov("C createName b (dup)", "", C, types.AergoName, aergo, func(*Env) []byte { return nk.GovPayload("v1createName", NameB) }),
		gov("B createName cheap", "", B, types.AergoName, big.NewInt(5), func(*Env) []byte { return nk.GovPayload("v1createName", "dddddddddddd") }),
		gov("B updateName b->C", "", B, types.AergoName, aergo, func(*Env) []byte {
			return nk.GovPayload("v1updateName", NameB, types.EncodeAddress(nk.UserAddrs[C]))
		}),
		gov("C updateName b->C (not owner)", "", C, types.AergoName, aergo, func(*Env) []byte {
			return nk.GovPayload("v1updateName", NameB, types.EncodeAddress(nk.UserAddrs[C]))
		}),
		gov("A setOwner A", "", A, types.AergoName, nil, func(*Env) []byte {
			return nk.GovPayload("v1setOwner", types.EncodeAddress(nk.UserAddrs[A]))
		}),
		gov("A setOwner D", "", A, types.AergoName, nil, func(*Env) []byte {
			return nk.GovPayload("v1setOwner", types.EncodeAddress(nk.UserAddrs[D]))
		}),
		{Name: "C deploy", Make: func(e *Env) *types.Tx {
			// the contract is endowed with 5 aergo so that fee-delegated calls can be paid by it
			return nk.MakeTx(nk.TxSpec{From: C, Nonce: e.next(C), Amount: new(big.Int).Mul(big.NewInt(5), aergo), Type: types.TxType_DEPLOY,
				Payload: nk.JSON(map[string]interface{}{"code": "x", "ctor": [][]interface{}{{"set", "k0", "v0"}}})}, e.Cid)
		}},
		{Name: "C deploy ctor fails", Make: func(e *Env) *types.Tx {
			return nk.MakeTx(nk.TxSpec{From: C, Nonce: e.next(C), Amount: nil, Type: types.TxType_DEPLOY,
				Payload: nk.JSON(map[string]interface{}{"code": "x", "ctor": [][]interface{}{{"set", "k0", "v0"}, {"fail"}}})}, e.Cid)
		}},
		call("D call set,set", D, types.TxType_CALL, 0, prog([]interface{}{"set", "k1", "v1"}, []interface{}{"set", "k2", "v2"})),
		call("D call set,del,event +3", D, types.TxType_CALL, 3, prog([]interface{}{"set", "k1", "w"}, []interface{}{"del", "k0"}, []interface{}{"event", "e"}, []interface{}{"ret", "\"r\""})),
		call("D call set,fail", D, types.TxType_CALL, 2, prog([]interface{}{"set", "k9", "z"}, []interface{}{"event", "e"}, []interface{}{"fail"})),
		call("D call set,sysfail", D, types.TxType_CALL, 0, prog([]interface{}{"set", "k9", "z"}, []interface{}{"sysfail"})),
		call("D call gas 1000", D, types.TxType_CALL, 0, prog([]interface{}{"gas", 1000}, []interface{}{"set", "g", "1"})),
		call("A feedeleg ok", A, types.TxType_FEEDELEGATION, 0, nk.JSON(map[string]interface{}{"fd": true, "ops": [][]interface{}{{"set", "fd", "1"}}})),
		call("A feedeleg fails", A, types.TxType_FEEDELEGATION, 0, nk.JSON(map[string]interface{}{"fd": true, "ops": [][]interface{}{{"set", "fd", "2"}, {"fail"}}})),
		call("A feedeleg not allowed", A, types.TxType_FEEDELEGATION, 0, nk.JSON(map[string]interface{}{"fd": false, "ops": [][]interface{}{{"set", "fd", "3"}}})),
		// ---- authorisation / replay faults
		{Name: "A->B 1 signed by C", Fault: "sig", Make: func(e *Env) *types.Tx {
			return nk.MakeTx(nk.TxSpec{From: A, Nonce: e.next(A), To: nk.UserAddrs[B], Amount: big.NewInt(1), Type: types.TxType_TRANSFER, SignWith: C}, e.Cid)
		}},
		{Name: "A->B 1 other chain", Fault: "chainid", Make: func(e *Env) *types.Tx {
			other := append([]byte{}, e.Cid...)
			other[0] ^= 0x40
			return nk.MakeTx(nk.TxSpec{From: A, Nonce: e.next(A), To: nk.UserAddrs[B], Amount: big.NewInt(1), Type: types.TxType_TRANSFER, ChainID: other}, e.Cid)
		}},
		{Name: "B->A 1 nonce-1 (replay)", Fault: "noncelow", Make: func(e *Env) *types.Tx {
			return nk.MakeTx(nk.TxSpec{From: B, Nonce: e.Nonce[B] - 1, To: nk.UserAddrs[A], Amount: big.NewInt(1), Type: types.TxType_TRANSFER}, e.Cid)
		}},
		{Name: "B->A 1 nonce+1 (gap)", Fault: "noncegap", Make: func(e *Env) *types.Tx {
			n := e.Nonce[B] + 1
			e.Nonce[B] = n + 1
			return nk.MakeTx(nk.TxSpec{From: B, Nonce: n, To: nk.UserAddrs[A], Amount: big.NewInt(1), Type: types.TxType_TRANSFER}, e.Cid)
		}},
		{Name: "name b ->A 1 signed by owner B", Make: func(e *Env) *types.Tx {
			// only meaningful on the warm state where B owns NameB; the nonce is that of the name's address (B)
			return nk.MakeTx(nk.TxSpec{From: B, Nonce: e.next(B), To: nk.UserAddrs[A], Amount: big.NewInt(1), Type: types.TxType_TRANSFER, AccountAs: []byte(NameB)}, e.Cid)
		}},
		{Name: "name b ->A 1 signed by C", Fault: "sig", Make: func(e *Env) *types.Tx {
			return nk.MakeTx(nk.TxSpec{From: B, Nonce: e.next(B), To: nk.UserAddrs[A], Amount: big.NewInt(1), Type: types.TxType_TRANSFER, AccountAs: []byte(NameB), SignWith: C}, e.Cid)
		}},
	}
	return gs
}

// ------------------------------------------------------------------ pre-states

// Prepared is a node brought to a pre-state, with a snapshot to return to.
type Prepared struct {
	Node     *nk.Node
	Snap     *nk.Stores
	Parent   *types.Block
	Contract []byte
	Nonces   [nk.NUsers]uint64
	Name     string
}

// Prepare builds pre-state `pre` (0 = genesis, 1 = warm) on a fresh node.
func Prepare(net nk.Net, pre int, name string) (*Prepared, error) {
	n, err := nk.NewNode(net, name)
	if err != nil {
		return nil, err
	}
	p := &Prepared{Node: n, Name: name}
	for i := range p.Nonces {
		p.Nonces[i] = 1
	}
	if pre == 1 {
		cid := n.ChainIDHashFor(1)
		env := &Env{Node: n, Cid: cid, Nonce: map[int]uint64{0: 1, 1: 1, 2: 1, 3: 1}}
		gd, _ := n.DumpState(n.Best().GetHeader().GetBlocksRootHash())
		env.Bal = func(u int) *big.Int { return gd.Bal(nk.UserAddrs[u]) }
		find := func(name string) Gen {
			for _, g := range Alphabet() {
				if g.Name == name {
					return g
				}
			}
			panic("no gen " + name)
		}
		var txs []*types.Tx
		setup := []string{"A stake min", "A voteBP [1,2]", "B createName b", "C deploy", "B->A half"}
		for _, s := range setup {
			txs = append(txs, find(s).Make(env))
		}
		// D stakes the minimum too (so that D can vote)
		txs = append(txs, nk.MakeTx(nk.TxSpec{From: 3, Nonce: env.next(3), To: []byte(types.AergoSystem), Amount: stakeMin, Type: types.TxType_GOVERNANCE, Payload: nk.GovPayload("v1stake")}, cid))
		b, err := n.Produce(n.Best(), txs, 1, 0, 1)
		if err != nil {
			return nil, err
		}
		if b.Skipped != 0 {
			return nil, fmt.Errorf("warm-up block skipped %d txs", b.Skipped)
		}
		for _, r := range b.Receipts {
			if r.Status == "ERROR" {
				return nil, fmt.Errorf("warm-up tx failed: %s", r.Ret)
			}
			if r.Status == "CREATED" {
				p.Contract = append([]byte{}, r.ContractAddress...)
			}
		}
		if err := n.ConnectProduced(b); err != nil {
			return nil, fmt.Errorf("warm-up connect: %v", err)
		}
		for u, nn := range env.Nonce {
			p.Nonces[u] = nn
		}
	}
	p.Parent = n.Best()
	p.Snap = n.SaveStores()
	return p, nil
}

// Reset returns the prepared node to its pre-state (stores restored, node restarted).
func (p *Prepared) Reset() error {
	n, err := p.Node.Restart(p.Snap)
	if err != nil {
		return err
	}
	p.Node = n
	p.Parent = n.Best()
	return nil
}

// ------------------------------------------------------------------ one case

// Case is a block: a pre-state and a word over the alphabet.
type Case struct {
	Net  int   `json:"net"`
	Pre  int   `json:"pre"`
	Word []int `json:"word"`
}

// Outcome of one tx in a produced block.
type Outcome struct {
	Gen     string
	Tx      *types.Tx
	Status  string // "" = skipped by the producer (rejected), else receipt status
	Fee     *big.Int
	Receipt *types.Receipt
}

// Exec is the result of producing one word.
type Exec struct {
	Built    *nk.Built
	Out      []Outcome
	Dump     *nk.StateDump // full post-state
	PreDump  *nk.StateDump
	Txs      []*types.Tx
	Included []*types.Tx
}

// MakeTxs instantiates the word's transactions.
func (p *Prepared) MakeTxs(word []int, alpha []Gen) ([]*types.Tx, []string) {
	n := p.Node
	env := &Env{Node: n, Cid: n.ChainIDHashFor(p.Parent.BlockNo() + 1), Nonce: map[int]uint64{}, Contract: p.Contract, Height: p.Parent.BlockNo() + 1}
	for u := range p.Nonces {
		env.Nonce[u] = p.Nonces[u]
	}
	pd, _ := n.DumpState(p.Parent.GetHeader().GetBlocksRootHash())
	env.Bal = func(u int) *big.Int { return pd.Bal(nk.UserAddrs[u]) }
	var txs []*types.Tx
	var names []string
	for _, w := range word {
		txs = append(txs, alpha[w].Make(env))
		names = append(names, alpha[w].Name)
	}
	return txs, names
}

// ProduceDump produces a block with txs on the prepared parent, commits its
// state into the state store (the chain is not advanced) and dumps it.
func (p *Prepared) ProduceDump(txs []*types.Tx, names []string) (*Exec, error) {
	n := p.Node
	n.ResetGlobals()
	pre, err := n.DumpState(p.Parent.GetHeader().GetBlocksRootHash())
	if err != nil {
		return nil, err
	}
	b, err := n.Produce(p.Parent, txs, 1, 1, 1)
	if err != nil {
		return nil, fmt.Errorf("produce: %v", err)
	}
	x := &Exec{Built: b, PreDump: pre, Txs: txs, Included: b.Block.GetBody().GetTxs()}
	j := 0
	for i, tx := range txs {
		o := Outcome{Gen: names[i], Tx: tx}
		if j < len(x.Included) && bytes.Equal(x.Included[j].GetHash(), tx.GetHash()) {
			r := b.Receipts[j]
			o.Status, o.Receipt, o.Fee = r.Status, r, new(big.Int).SetBytes(r.FeeUsed)
			j++
		}
		x.Out = append(x.Out, o)
	}
	if j != len(x.Included) || len(b.Receipts) != len(x.Included) {
		return nil, fmt.Errorf("produced block: %d txs, %d receipts, %d matched", len(x.Included), len(b.Receipts), j)
	}
	if err := b.BState.Commit(); err != nil {
		return nil, err
	}
	x.Dump, err = n.DumpState(b.Block.GetHeader().GetBlocksRootHash())
	if err != nil {
		return nil, fmt.Errorf("dump of produced block: %v", err)
	}
	n.ResetGlobals()
	return x, nil
}

// ForgedIncluded reports whether the produced block contains a tx whose
// signature does not verify (the producer path does not check signatures: that
// is the pool's job; validators must reject such a block).
func (x *Exec) ForgedIncluded(alpha []Gen, word []int) bool {
	for i, o := range x.Out {
		if o.Status != "" && alpha[word[i]].Fault == "sig" {
			return true
		}
	}
	return false
}

// SumFees adds up the FeeUsed of the receipts.
func (x *Exec) SumFees() *big.Int {
	t := new(big.Int)
	for _, r := range x.Built.Receipts {
		t.Add(t, new(big.Int).SetBytes(r.FeeUsed))
	}
	return t
}

func (x *Exec) Describe() string {
	s := ""
	for _, o := range x.Out {
		st := o.Status
		if st == "" {
			st = "skipped"
		}
		s += fmt.Sprintf("[%s: %s] ", o.Gen, st)
	}
	return s
}

// Forge returns a copy of block b whose body is txs (tx root recomputed), re-signed
// by the producer with cluster index p.
func Forge(b *types.Block, txs []*types.Tx, p int) *types.Block {
	c := nk.CloneBlock(b)
	c.Body.Txs = txs
	c.Header.TxsRootHash = types.CalculateTxsRootHash(txs)
	nk.Resign(c, p)
	return c
}

// AccountsChanged lists account ids whose dump differs between a and b.
func AccountsChanged(a, b *nk.StateDump) []string { return a.Diff(b) }

func TxID(tx *types.Tx) string { return base58.Encode(tx.GetHash())[:8] }

func SortedKeys(m map[string]bool) []string {
	var r []string
	for k := range m {
		r = append(r, k)
	}
	sort.Strings(r)
	return r
}
