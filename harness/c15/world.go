package main

// The real code under test: one state DB on an in-memory store, blocks of
// governance transactions executed the way chain.executeTx executes them.

import (
	"bytes"
	"crypto/sha256"
	"encoding/hex"
	"encoding/json"
	"fmt"
	"math/big"
	"strings"

	"github.com/aergoio/aergo-lib/db"
	"github.com/aergoio/aergo/v2/contract/name"
	"github.com/aergoio/aergo/v2/contract/system"
	"github.com/aergoio/aergo/v2/internal/enc/base58"
	"github.com/aergoio/aergo/v2/state"
	"github.com/aergoio/aergo/v2/state/statedb"
	"github.com/aergoio/aergo/v2/types"
	"github.com/aergoio/aergo/v2/types/dbkey"
)

const forkVersion = 4

var (
	acctAddr    [nAcct][]byte
	acctIDs     []types.AccountID
	candIDs     [3][]byte // T0, T1 (twins: same X, parity 02 / 03), Y
	candB58     [3]string
	chainIDHash = bytes.Repeat([]byte{0xc1}, 32)
	initBal     = new(big.Int).Add(new(big.Int).Mul(min0, big.NewInt(3)), new(big.Int).Mul(aergo1, big.NewInt(5)))

	store       db.DB
	genesisSnap map[string][]byte
	genesisRoot []byte
	// the "rich" genesis: account C holds 2^80 aer more (passes whose amounts cross a byte-length boundary)
	richSnap map[string][]byte
	richRoot []byte
)

func mustHex(s string) []byte {
	b, err := hex.DecodeString(s)
	if err != nil {
		panic(err)
	}
	return b
}

func setup(shard int) {
	types.InitGovernance("dpos", true)
	// candidates: identity-multihash peer ids of secp256k1 keys. T0 = G, T1 = -G
	// (same X, other parity: both are valid public keys), Y = 2G.
	gx := "79be667ef9dcbbac55a06295ce870b07029bfcdb2dce28d959f2815b16f81798"
	g2x := "c6047f9441ed7d6d3045406e95c07cd85c778e4b8cef3ca7abac09b95c709ee5"
	candIDs[0] = mustHex("002508021221" + "02" + gx)
	candIDs[1] = mustHex("002508021221" + "03" + gx)
	candIDs[2] = mustHex("002508021221" + "02" + g2x)
	for i := range candIDs {
		if len(candIDs[i]) != system.PeerIDLength {
			panic("candidate id length")
		}
		if _, err := types.IDFromBytes(candIDs[i]); err != nil {
			panic(fmt.Sprintf("candidate %d is not a valid peer id: %v", i, err))
		}
		candB58[i] = base58.Encode(candIDs[i])
	}
	// accounts: A and B share a voting-power bucket, C lives in another one
	bucket := func(addr []byte) int { aid := types.ToAccountID(addr); return int(aid[0]) % 71 }
	mk := func(tag string, k int) []byte {
		h := sha256.Sum256([]byte(fmt.Sprintf("verif-c15-%s-%d", tag, k)))
		return append([]byte{0x02}, h[:]...)
	}
	acctAddr[0] = mk("A", 0)
	for k := 0; ; k++ {
		if b := mk("B", k); bucket(b) == bucket(acctAddr[0]) {
			acctAddr[1] = b
			break
		}
	}
	for k := 0; ; k++ {
		if c := mk("C", k); bucket(c) != bucket(acctAddr[0]) {
			acctAddr[2] = c
			break
		}
	}
	for _, a := range acctAddr {
		acctIDs = append(acctIDs, types.ToAccountID(a))
	}
	// genesis: three funded accounts
	store = db.NewDB(db.ImplType("verifdb"), fmt.Sprintf("c15-%d", shard))
	sdb := statedb.NewStateDB(store, nil, false)
	for _, a := range acctAddr {
		as, err := state.GetAccountState(a, sdb)
		chk(err)
		as.AddBalance(initBal)
		chk(as.PutState())
	}
	chk(sdb.Update())
	chk(sdb.Commit())
	genesisRoot = append([]byte{}, sdb.GetRoot()...)
	genesisSnap = db.VerifHandleSnapshot(store)
	{
		sdb := statedb.NewStateDB(store, genesisRoot, false)
		as, err := state.GetAccountState(acctAddr[nAcct-1], sdb)
		chk(err)
		as.AddBalance(big80)
		chk(as.PutState())
		chk(sdb.Update())
		chk(sdb.Commit())
		richRoot = append([]byte{}, sdb.GetRoot()...)
		richSnap = db.VerifHandleSnapshot(store)
		db.VerifHandleRestore(store, genesisSnap)
	}
	// the cheap fresh rank must be what the real loader builds from genesis
	scs, err := statedb.GetSystemAccountState(statedb.NewStateDB(store, genesisRoot, false))
	chk(err)
	chk(system.InitVotingPowerRank(scs))
	s1, h1 := system.VerifC15VprState()
	system.VerifC15VprFresh()
	s2, h2 := system.VerifC15VprState()
	if s1 != s2 || h1 != h2 {
		panic("harness: VerifC15VprFresh differs from InitVotingPowerRank(genesis)")
	}
}

func chk(err error) {
	if err != nil {
		panic(err)
	}
}

type world struct {
	root  []byte
	now   uint64
	bs    *state.BlockState
	nonce [nAcct]uint64
}

// newWorld resets the store to genesis and re-initialises the package globals
// of contract/system the way NewChainService / dpos.New do at start-up.
func newWorld(rich bool) *world {
	db.VerifHandleRestore(store, genesisSnap)
	w := &world{root: genesisRoot}
	if rich {
		db.VerifHandleRestore(store, richSnap)
		w.root = richRoot
	}
	scs, err := statedb.GetSystemAccountState(statedb.NewStateDB(store, w.root, false))
	chk(err)
	system.InitSystemParams(scs, 3)
	system.VerifC15VprFresh() // == InitVotingPowerRank on the genesis state, see setup
	return w
}

// reloadCache: the rank rebuilt from persisted state is a function of the
// persisted bucket rows alone, so it is computed once per distinct row content.
// The real InitVotingPowerRank allocates a 50,000-entry map per call (several ms
// each); it is used for the first realReloads distinct contents of every worker
// and for every content whose hash is 0 mod 8 (so across the workers nearly
// every content meets the real loader somewhere). The other contents use the shim copy of
// loadVpr's body, which is compared with the real loader on every content the
// real one is run on; if they ever disagree the real loader is used throughout.
// issues the tier's alphabet can touch; the others are not read at the boundaries
var activeIssue = [nIssue]bool{true, false, false, false, false}

var (
	reloadCache   = map[string]string{}
	realReloads   = 64
	realAlways    bool
	reloadsReal   int64
	reloadsCheap  int64
	reloadsDiffer int64
)

func vprReload(scs *statedb.ContractState, raw string) (string, error) {
	if s, ok := reloadCache[raw]; ok {
		return s, nil
	}
	var s string
	var err error
	if h := sha256.Sum256([]byte(raw)); realAlways || reloadsReal < int64(realReloads) || h[0]%8 == 0 {
		if s, err = system.VerifC15VprReload(scs); err != nil {
			return "", err
		}
		reloadsReal++
		if c, cerr := system.VerifC15VprReloadCheap(scs); cerr != nil || c != s {
			reloadsDiffer++
			realAlways = true
		}
	} else {
		if s, err = system.VerifC15VprReloadCheap(scs); err != nil {
			return "", err
		}
		reloadsCheap++
	}
	reloadCache[raw] = s
	return s, nil
}

func (w *world) begin(dt uint64) {
	if w.bs != nil {
		panic("harness: begin with an open block")
	}
	w.now += dt
	w.bs = state.NewBlockState(statedb.NewStateDB(store, w.root, false))
}

// close = block boundary
func (w *world) close() {
	chk(w.bs.Update())
	chk(w.bs.Commit())
	w.root = append([]byte{}, w.bs.GetRoot()...)
	w.bs = nil
	system.CommitParams(true)
}

// abandon drops the open block like a producer that gives up the block it was
// building: nothing is committed and nobody re-initialises the globals.
func (w *world) abandon() { w.bs = nil }

func (w *world) witness() witness {
	return witness{minStake: system.GetStakingMinimum(), namePrice: system.GetNamePrice()}
}

func payload(o op) (recipient string, pl string) {
	q := func(s string) string { return `"` + s + `"` }
	switch o.Kind {
	case opStake:
		return types.AergoSystem, `{"Name":"v1stake"}`
	case opUnstake:
		return types.AergoSystem, `{"Name":"v1unstake"}`
	case opVoteBP:
		var s []string
		for i := 0; i < 3; i++ {
			if o.Arg&(1<<uint(i)) != 0 {
				s = append(s, q(candB58[i]))
			}
		}
		return types.AergoSystem, `{"Name":"v1voteBP","Args":[` + strings.Join(s, ",") + `]}`
	case opVoteDAO:
		c := daoChoices[o.Arg]
		return types.AergoSystem, `{"Name":"v1voteDAO","Args":[` + q(issueIDs[c.issue]) + "," + q(c.val) + `]}`
	case opCreateName:
		return types.AergoName, `{"Name":"v1createName","Args":[` + q(nameVariants[o.Arg/2]) + `]}`
	}
	panic("payload")
}

// exec runs one op of account x in the open block. A nil error means accepted.
func (w *world) exec(x int, o op, amt *big.Int) (err error) {
	defer func() {
		if r := recover(); r != nil {
			err = fmt.Errorf("PANIC in repo code: %v", r)
			w.bs = nil // the block is unusable; callers rebuild the world
		}
	}()
	snap := w.bs.Snapshot()
	sender, e := state.GetAccountState(acctAddr[x], w.bs.StateDB)
	chk(e)
	if o.Kind == opTransfer {
		to, e := state.GetAccountState(acctAddr[(x+1)%nAcct], w.bs.StateDB)
		chk(e)
		if err = state.SendBalance(sender, to, amt); err != nil {
			return err
		}
		chk(sender.PutState())
		chk(to.PutState())
		return nil
	}
	var recipient, pl string
	if o.Kind == opUpdateName {
		to := (x + 1) % nAcct
		if o.Arg%2 == 1 {
			to = (x + nAcct - 1) % nAcct
		}
		recipient = types.AergoName
		pl = `{"Name":"v1updateName","Args":["` + nameVariants[o.Arg/2] + `","` + types.EncodeAddress(acctAddr[to]) + `"]}`
	} else {
		recipient, pl = payload(o)
	}
	body := &types.TxBody{
		Nonce:       w.nonce[x] + 1,
		Account:     acctAddr[x],
		Recipient:   []byte(recipient),
		Amount:      amt.Bytes(),
		Payload:     []byte(pl),
		Type:        types.TxType_GOVERNANCE,
		ChainIdHash: chainIDHash,
	}
	tx := &types.Tx{Body: body}
	tx.Hash = tx.CalculateTxHash()
	// every op of the alphabet must pass admission (types.Tx.Validate) — the
	// property is about transactions a node would execute
	if e := types.NewTransaction(tx).Validate(chainIDHash, true); e != nil {
		panic(fmt.Sprintf("harness: op %v is not admissible: %v", o, e))
	}
	receiver, e := state.GetAccountState([]byte(recipient), w.bs.StateDB)
	chk(e)
	scs, e := statedb.OpenContractState(receiver.IDNoPadding(), receiver.State(), w.bs.StateDB)
	chk(e)
	bi := &types.BlockHeaderInfo{No: w.now, ForkVersion: forkVersion}
	if recipient == types.AergoSystem {
		_, err = system.ExecuteSystemTx(scs, body, sender, receiver, bi)
	} else {
		_, err = name.ExecuteNameTx(w.bs, scs, body, sender, receiver, bi)
	}
	if err == nil {
		err = statedb.StageContractState(scs, w.bs.StateDB)
	}
	if err != nil {
		chk(w.bs.Rollback(snap))
		return err
	}
	sender.SetNonce(body.Nonce)
	chk(sender.PutState())
	if sender.AccountID() != receiver.AccountID() {
		chk(receiver.PutState())
	}
	w.nonce[x]++
	return nil
}

// ---- observation of the persisted state (fresh StateDB at the committed root)

type ovote struct {
	has   bool
	cands []string
	amt   *big.Int
}

type oentry struct {
	cand string
	amt  *big.Int
}

type obs struct {
	bal      [nAcct]*big.Int
	sysBal   *big.Int
	nameBal  *big.Int
	staked   [nAcct]*big.Int
	when     [nAcct]uint64
	rec      [nAcct]bool
	total    *big.Int
	votes    [nAcct][nIssue]ovote
	lists    [nIssue][]oentry
	vtotal   [nIssue][]byte
	pparam   [nIssue][]byte
	nameOwn  []byte
	nameDst  []byte
	nameOwn2 []byte
	vprMem   string
	vprHid   string
	vprDisk  string
	vprRaw   string
	params   string
}

func issueKey(is int) []byte {
	if is == 0 {
		return []byte(types.OpvoteBP.ID())
	}
	return system.GenProposalKey(issueIDs[is])
}

func observe(root []byte) (*obs, error) {
	o := &obs{}
	sdb := statedb.NewStateDB(store, root, false)
	balOf := func(id []byte) (*big.Int, error) {
		st, err := sdb.GetAccountState(types.ToAccountID(id))
		if err != nil {
			return nil, err
		}
		return st.GetBalanceBigInt(), nil
	}
	var err error
	for x := range acctAddr {
		if o.bal[x], err = balOf(acctAddr[x]); err != nil {
			return nil, err
		}
	}
	if o.sysBal, err = balOf([]byte(types.AergoSystem)); err != nil {
		return nil, err
	}
	if o.nameBal, err = balOf([]byte(types.AergoName)); err != nil {
		return nil, err
	}
	scs, err := statedb.GetSystemAccountState(sdb)
	if err != nil {
		return nil, err
	}
	for x := range acctAddr {
		st, err := system.GetStaking(scs, acctAddr[x])
		if err != nil {
			return nil, err
		}
		o.staked[x], o.when[x], o.rec[x] = st.GetAmountBigInt(), st.GetWhen(), st.Amount != nil
		for is := 0; is < nIssue; is++ {
			if !activeIssue[is] {
				o.votes[x][is].amt = zero
				continue
			}
			v, err := system.GetVote(scs, acctAddr[x], issueKey(is))
			if err != nil {
				return nil, err
			}
			ov := ovote{has: v.Amount != nil, amt: v.GetAmountBigInt()}
			if is == 0 {
				if len(v.Candidate)%system.PeerIDLength != 0 {
					return nil, fmt.Errorf("producer ballot of %s has %d candidate bytes", acctNames[x], len(v.Candidate))
				}
				for off := 0; off < len(v.Candidate); off += system.PeerIDLength {
					ov.cands = append(ov.cands, string(v.Candidate[off:off+system.PeerIDLength]))
				}
			} else if v.Candidate != nil {
				if err := json.Unmarshal(v.Candidate, &ov.cands); err != nil {
					return nil, fmt.Errorf("ballot of %s on %s: %v", acctNames[x], issueIDs[is], err)
				}
			}
			o.votes[x][is] = ov
		}
	}
	if o.total, err = system.GetStakingTotal(scs); err != nil {
		return nil, err
	}
	for is := 0; is < nIssue; is++ {
		if !activeIssue[is] {
			continue
		}
		id := []byte(issueIDs[is])
		vl, err := system.GetVoteResult(scs, id, 1000)
		if err != nil {
			return nil, err
		}
		for _, v := range vl.Votes {
			o.lists[is] = append(o.lists[is], oentry{cand: string(v.Candidate), amt: v.GetAmountBigInt()})
		}
		if is > 0 {
			if o.vtotal[is], err = scs.GetData(dbkey.SystemVoteTotal(issueKey(is))); err != nil {
				return nil, err
			}
			if o.pparam[is], err = scs.GetData(dbkey.SystemParam(issueIDs[is])); err != nil {
				return nil, err
			}
		}
	}
	ncs, err := statedb.GetNameAccountState(sdb)
	if err != nil {
		return nil, err
	}
	o.nameOwn = name.GetOwner(ncs, []byte(nameVariants[0]))
	o.nameDst = name.GetAddress(ncs, []byte(nameVariants[0]))
	o.nameOwn2 = name.GetOwner(ncs, []byte(nameVariants[1]))
	o.vprMem, o.vprHid = system.VerifC15VprState()
	if o.vprRaw, err = system.VerifC15VprRaw(scs, acctIDs); err != nil {
		return nil, err
	}
	if o.vprDisk, err = vprReload(scs, o.vprRaw); err != nil {
		return nil, err
	}
	o.params = fmt.Sprint(system.GetParam("BPCOUNT"), system.GetParam("STAKINGMIN"), system.GetParam("GASPRICE"), system.GetParam("NAMEPRICE"))
	return o, nil
}

func candLabel(is int, c string) string {
	if is == 0 {
		for i := range candIDs {
			if c == string(candIDs[i]) {
				return candLabels[i]
			}
		}
		return hex.EncodeToString([]byte(c))
	}
	return c
}

func acctOf(addr []byte) string {
	for x := range acctAddr {
		if bytes.Equal(addr, acctAddr[x]) {
			return acctNames[x]
		}
	}
	if addr == nil {
		return "none"
	}
	return hex.EncodeToString(addr)
}

// tieKey is the documented tie-break key of a candidate: the numeric value of
// the id bytes from offset 7 for a 39-byte peer id, of all bytes otherwise
// (types.VoteList.Less); equal tallies are listed in ascending key order.
func tieKey(c string) *big.Int {
	if len(c) == 39 {
		return new(big.Int).SetBytes([]byte(c[7:]))
	}
	return new(big.Int).SetBytes([]byte(c))
}

// realUnordered asks the real comparison whether it leaves two distinct
// candidates of equal tally unordered.
func realUnordered(a, b oentry) bool {
	vl := types.VoteList{Votes: []*types.Vote{{Candidate: []byte(a.cand), Amount: a.amt.Bytes()}, {Candidate: []byte(b.cand), Amount: b.amt.Bytes()}}}
	return !vl.Less(0, 1) && !vl.Less(1, 0)
}

type finding struct {
	sig  string
	desc string
}

// judge compares the persisted state with the model. It returns the first
// violation of the property (sig "") and, separately, whether the ranking of
// the producer election contains a tie the tie-break does not resolve (F8).
func judge(o *obs, m *model) (viol *finding, f8 string, f15 bool) {
	fail := func(format string, a ...interface{}) *finding {
		return &finding{desc: fmt.Sprintf(format, a...)}
	}
	// 1. total == sum of stakes == balance of aergo.system
	sum := new(big.Int)
	for x := range o.staked {
		sum.Add(sum, o.staked[x])
	}
	if o.total.Cmp(sum) != 0 || o.total.Cmp(o.sysBal) != 0 {
		return fail("recorded total stake %v, sum of individual stakes %v, balance of aergo.system %v", o.total, sum, o.sysBal), "", false
	}
	// 2. no voting amount above the stake; tallies = sum of the recorded voting amounts
	for x := range o.votes {
		for is := range o.votes[x] {
			if v := o.votes[x][is]; v.has && v.amt.Cmp(o.staked[x]) > 0 {
				return fail("%s: recorded voting amount %v on %s exceeds its stake %v", acctNames[x], v.amt, issueIDs[is], o.staked[x]), "", false
			}
		}
	}
	for is := 0; is < nIssue; is++ {
		want := map[string]*big.Int{}
		for x := range o.votes {
			if v := o.votes[x][is]; v.has {
				for _, c := range v.cands {
					if want[c] == nil {
						want[c] = new(big.Int)
					}
					want[c].Add(want[c], v.amt)
				}
			}
		}
		seen := map[string]bool{}
		for _, e := range o.lists[is] {
			if seen[e.cand] {
				return fail("%s: candidate %s is listed twice in the vote result", issueIDs[is], candLabel(is, e.cand)), "", false
			}
			seen[e.cand] = true
			w := want[e.cand]
			if w == nil {
				w = zero
			}
			if e.amt.Cmp(w) != 0 {
				return fail("%s: tally of %s is %v but the accounts currently voting for it have voting amounts summing to %v", issueIDs[is], candLabel(is, e.cand), e.amt, w), "", false
			}
		}
		for c, w := range want {
			if !seen[c] && w.Sign() != 0 {
				return fail("%s: candidate %s has voters (sum %v) but is missing from the vote result", issueIDs[is], candLabel(is, c), w), "", false
			}
		}
		// 3. ranking = tally order under the documented tie-break
		l := o.lists[is]
		for i := 0; i+1 < len(l); i++ {
			c := l[i].amt.Cmp(l[i+1].amt)
			if c < 0 {
				return fail("%s: ranking lists %s (%v) before %s (%v)", issueIDs[is], candLabel(is, l[i].cand), l[i].amt, candLabel(is, l[i+1].cand), l[i+1].amt), "", false
			}
			if c == 0 {
				switch tieKey(l[i].cand).Cmp(tieKey(l[i+1].cand)) {
				case 1:
					return fail("%s: equal tallies %v but %s is ranked before %s against the tie-break", issueIDs[is], l[i].amt, candLabel(is, l[i].cand), candLabel(is, l[i+1].cand)), "", false
				case 0:
					if realUnordered(l[i], l[i+1]) {
						f8 = candLabel(is, l[i].cand) // which of the two happens to be listed first
					}
				}
			}
		}
	}
	// 4. in-memory voting power rank == rebuilt from persisted state
	if o.vprMem != o.vprDisk {
		if stripMembers(o.vprMem) != stripMembers(o.vprDisk) {
			return fail("voting power rank in memory differs from the one rebuilt from the persisted state: memory %s | rebuilt %s", o.vprMem, o.vprDisk), f8, false
		}
		f15 = true // only the ranked-members tree differs (known shape, see f15Desc); keep judging the rest
	}
	// 5. the model: stakes, balances (unstake returns exactly the amount, name price paid), ballots, names
	for x := range m.a {
		a := &m.a[x]
		if o.staked[x].Cmp(a.staked) != 0 || o.rec[x] != a.rec || (a.rec && o.when[x] != a.when) {
			return fail("%s: staking record (amount %v, when %d, exists %v), expected (amount %v, when %d, exists %v)", acctNames[x], o.staked[x], o.when[x], o.rec[x], a.staked, a.when, a.rec), f8, f15
		}
		if o.bal[x].Cmp(a.bal) != 0 {
			return fail("%s: balance %v, expected %v", acctNames[x], o.bal[x], a.bal), f8, f15
		}
		for is := range a.votes {
			mv, ov := a.votes[is], o.votes[x][is]
			same := mv.has == ov.has
			if same && mv.has {
				same = mv.amt.Cmp(ov.amt) == 0 && len(mv.cands) == len(ov.cands)
				for i := 0; same && i < len(mv.cands); i++ {
					same = mv.cands[i] == ov.cands[i]
				}
			}
			if !same {
				return fail("%s: recorded ballot on %s is %s, expected %s", acctNames[x], issueIDs[is], fmtVote(is, ov.has, ov.cands, ov.amt), fmtVote(is, mv.has, mv.cands, mv.amt)), f8, f15
			}
		}
	}
	if o.sysBal.Cmp(m.sysBal) != 0 || o.nameBal.Cmp(m.nameBal) != 0 {
		return fail("balance of aergo.system %v (expected %v), of aergo.name %v (expected %v)", o.sysBal, m.sysBal, o.nameBal, m.nameBal), f8, f15
	}
	wantOwn, wantDst := "none", "none"
	if m.name.exists {
		wantOwn, wantDst = acctNames[m.name.owner], acctNames[m.name.dest]
	}
	if acctOf(o.nameOwn) != wantOwn || acctOf(o.nameDst) != wantDst || acctOf(o.nameOwn2) != wantOwn {
		return fail("name: owner %s / destination %s (owner under the other spelling %s), expected owner %s destination %s", acctOf(o.nameOwn), acctOf(o.nameDst), acctOf(o.nameOwn2), wantOwn, wantDst), f8, f15
	}
	return nil, f8, f15
}

// stripMembers removes the "size=.. members=[..]" part of a rank description.
func stripMembers(s string) string {
	i, j := strings.Index(s, " size="), strings.Index(s, "] powers=[")
	if i < 0 || j < i {
		return s
	}
	return s[:i] + s[j+1:]
}

func fmtVote(is int, has bool, cands []string, amt *big.Int) string {
	if !has {
		return "none"
	}
	var l []string
	for _, c := range cands {
		l = append(l, candLabel(is, c))
	}
	return fmt.Sprintf("{%s}x%v", strings.Join(l, ","), amt)
}

// canon is the canonical form of a block-boundary state used for memoisation:
// everything the transition function reads, with block numbers as ages.
func (o *obs) canon(now uint64) string {
	var b strings.Builder
	for x := range o.bal {
		age := int64(-1)
		if o.rec[x] {
			age = int64(now - o.when[x])
			if age > lockD {
				age = lockD
			}
		}
		fmt.Fprintf(&b, "%v/%v/%d;", o.bal[x], o.staked[x], age)
		for is := range o.votes[x] {
			v := o.votes[x][is]
			if v.has {
				fmt.Fprintf(&b, "%x=%v,", strings.Join(v.cands, "|"), v.amt)
			} else {
				b.WriteString("-,")
			}
		}
	}
	fmt.Fprintf(&b, "T%v S%v N%v;", o.total, o.sysBal, o.nameBal)
	for is := range o.lists {
		l := append([]oentry{}, o.lists[is]...)
		// the stored order of candidates the tie-break leaves unordered is not
		// determined (F8); it is not read back either (the list is loaded into a map)
		for i := 0; i+1 < len(l); i++ {
			if l[i].amt.Cmp(l[i+1].amt) == 0 && tieKey(l[i].cand).Cmp(tieKey(l[i+1].cand)) == 0 && l[i].cand > l[i+1].cand {
				l[i], l[i+1] = l[i+1], l[i]
			}
		}
		for _, e := range l {
			fmt.Fprintf(&b, "%x:%v,", e.cand, e.amt)
		}
		fmt.Fprintf(&b, "|%x|%x;", o.vtotal[is], o.pparam[is])
	}
	fmt.Fprintf(&b, "n%x>%x;%s;%s;%s;%s", o.nameOwn, o.nameDst, o.vprMem, o.vprHid, o.vprRaw, o.params)
	return b.String()
}
