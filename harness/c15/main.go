// C15: governance accounting — stakes, votes, rankings and names stay consistent.
//
// Bounded exhaustive enumeration of operation sequences on the REAL
// contract/system and contract/name code (ExecuteSystemTx / ExecuteNameTx driven
// exactly like chain.executeTx drives them: block snapshot, fresh contract state
// per tx, stage on success, roll back on error; block boundary = Update+Commit
// of the state DB followed by system.CommitParams(true)). A plain-Go reference
// model (model.go) is only the oracle.
package main

import (
	"encoding/json"
	"fmt"
	"os"
	"path/filepath"
	"runtime"
	"runtime/debug"
	"runtime/pprof"
	"strings"
	"time"

	"github.com/aergoio/aergo/v2/verif_h/xplor"
)

func main() {
	xplor.Main(xplor.Check{
		ID:    "C15",
		Level: "exploration",
		Rule: "SEQ on the real contract/system + contract/name code. A sequence is a list of steps (dt, account, op) over 3 funded accounts A,B,C (A and B share a voting-power bucket): " +
			"dt=0 puts the op into the currently open block (at most K ops per block), dt>0 closes the block (stage + Update + Commit of the state DB + system.CommitParams) and opens the next one dt blocks later; the first block is block 1 and dt is taken from {D, D-1, 1} with D=86400, so block numbers 1, 2, D, D+1, 2D-1, 2D, 2D+1, ... on both sides of every lock period are reached. " +
			"Per-account ops (full alphabet): stake(min | min+1 aer | 2*min), unstake(part | all | stake+1), voteBP(all 8 subsets of {T0,T1,Y}; T0/T1 are twin peer ids that differ only in the key parity byte), voteDAO(BPCOUNT 2 | BPCOUNT 3 | STAKINGMIN 2*min | NAMEPRICE 2 aergo), createName(price | price-1, two spellings of one registry key), updateName(to next | previous account), transfer(min to the next account); the core alphabet is a 14-op subset (listed in notes). " +
			"Passes, each exhaustive for its alphabet and depth d: quick = core-d4 (core alphabet, d=4, K=2, dt=D anywhere and dt=D-1 only for the last step) plus core-d3-from-2-stakers and core-d3-from-3-stakers (same alphabet, d=3 counted from a non-initial start state in which A and C, resp. A, B and C, already hold a stake); thorough = core-d5 (core alphabet, d=5, K=2, dt=D anywhere, D-1 only last) and full-d4 (full alphabet, d=4, K=3, dt in {D, D-1} anywhere, dt=1 only last). " +
			"Enumerated: every sequence of at most d steps in which every step but the last is accepted by the real code; a refused step is judged as a leaf (it is rolled back like chain.executeTx does, and the next boundary must show no trace of it). " +
			"Oracle after every op: accepted/refused exactly as the model says (lock period, minimum, balance, nothing staked, ownership, price). Oracle at every block boundary, on the state read back through a fresh StateDB at the committed root: recorded total = sum of stakes = balance of aergo.system; every listed candidate's tally = sum of the recorded voting amounts of the accounts whose recorded ballot names it, no voter missing; no recorded voting amount above the stake; every vote list sorted by tally and, among equal tallies, by the documented tie-break key, which must order distinct candidates (else F8); in-memory voting power rank (members in order, id->power table, ordered buckets, total) = the rank InitVotingPowerRank rebuilds from the persisted rows; staking records, balances (unstake returns exactly the amount, name price moved to aergo.name), ballots and the name registry equal the model. Since all interleavings of the accounts are enumerated and each is compared with a function of the tallies alone, the ranking is checked to be independent of the order in which votes were issued. " +
			"Abandoned-block variant (signature F10): for steps at depth <= 2, the block holding a vote/unstake is additionally dropped instead of committed and memory is compared with the rebuilt rank. " +
			"Pruning only by memoisation of the canonical state (all governance storage incl. persisted rank rows, balances, in-memory rank incl. tree shape/colours/pending deltas, in-memory params; block numbers as ages capped at D): a state already expanded with at least the same remaining depth is not expanded again. Returning to an already built state uses an exact copy of the store and of the two package globals (checked after every restore) instead of re-execution; recorded violations are re-executed from genesis by the replay. " +
			"distinct_nontrivial = distinct canonical block-boundary states reached by at least one accepted op.",
		Assumptions: []string{
			"the lock period is D=86400 blocks for staking and voting (hard-coded in the model, not read from the package); an op that satisfies every stated condition must be accepted (otherwise a lock compared with >= would pass)",
			"the current staking minimum and name price are taken from system.GetStakingMinimum/GetNamePrice as witnesses before each op (the parameter-change mechanism itself is not judged)",
			"transfers only between the three user accounts; a transfer to aergo.system is outside the alphabet",
			"single ForkVersion (4) per run; proposals have no voting window (Blockfrom=Blockto=0 as shipped)",
			"memoisation argument relies on the transition function reading block numbers only relative to Staking.When",
			"the rebuilt rank is computed by the real InitVotingPowerRank once per distinct content of the persisted rank rows (first 64 contents per worker and every content whose hash is 0 mod 8); beyond that by a shim copy of loadVpr's body that only omits the 50,000-entry map capacity hint and is compared with the real loader whenever the real one runs",
			"issues whose votes are not in a pass's alphabet are not read at the boundaries of that pass",
		},
		Shards: func(tier string) int { return 64 },
		Budget: budget,
		Run:    run,
	})
}

// The runner gives every worker its own deadline counted from the worker's
// start, and starts 64 workers 16 at a time; to bound the whole run the workers
// also share one deadline counted from the start of the parent process.
var globalDeadline time.Time
var ncpu = 1

func budget(tier string) time.Duration {
	if v := os.Getenv("VERIF_C15_BUDGET"); v != "" { // experiments only
		var sec int
		fmt.Sscan(v, &sec)
		return time.Duration(sec) * time.Second
	}
	if tier == "thorough" {
		return 25 * time.Minute
	}
	return 480 * time.Second
}

// runStart: a time shared by all workers of one run. The first worker creates
// a marker file next to the result files (the runner's private temp dir); its
// modification time is the common origin of the deadline.
func runStart() time.Time {
	for i, a := range os.Args {
		if (a == "-out" || a == "--out") && i+1 < len(os.Args) {
			marker := filepath.Join(filepath.Dir(os.Args[i+1]), "c15.start")
			if f, err := os.OpenFile(marker, os.O_CREATE|os.O_EXCL|os.O_WRONLY, 0o644); err == nil {
				f.Close()
			}
			if fi, err := os.Stat(marker); err == nil {
				return fi.ModTime()
			}
		}
	}
	return time.Now()
}

func setGlobalDeadline(tier string) {
	globalDeadline = runStart().Add(budget(tier))
}

func pastGlobalDeadline() bool { return !globalDeadline.IsZero() && time.Now().After(globalDeadline) }

func run(ctx *xplor.Ctx) {
	gcp := 100
	if v := os.Getenv("VERIF_C15_GC"); v != "" {
		fmt.Sscan(v, &gcp)
	}
	debug.SetGCPercent(gcp)
	ncpu = runtime.NumCPU()
	if ctx.NShards > 1 {
		runtime.GOMAXPROCS(1) // one worker process per core; avoids scheduler wake-ups for the trie's helper goroutines
	}
	setup(ctx.Shard)
	if ctx.Replay != nil {
		var r replayObj
		if err := json.Unmarshal(ctx.Replay, &r); err != nil {
			panic(err)
		}
		replayCase(ctx, r)
		return
	}
	if pf := os.Getenv("VERIF_C15_PROF"); pf != "" {
		f, _ := os.Create(pf)
		pprof.StartCPUProfile(f)
		defer pprof.StopCPUProfile()
	}
	setGlobalDeadline(ctx.Tier)
	// Time slices: the runner starts the 64 workers NumCPU at a time, so a worker
	// may use 1/waves of the budget, and pass i of a worker must end by the
	// (i+1)/passes point of that slice (an unused share is inherited by the next pass).
	waves := (ctx.NShards + ncpu - 1) / ncpu
	if waves < 1 {
		waves = 1
	}
	slice := budget(ctx.Tier) / time.Duration(waves)
	if ctx.Tier != "thorough" {
		// quick normally needs a few seconds per worker; the slice only matters on an
		// overloaded machine, where the shared deadline (budget from the start of the
		// run) is the bound that counts
		slice = budget(ctx.Tier) / 2
	}
	workerStart := time.Now()
	passes := tierPasses(ctx.Tier)
	for i, cfg := range passes {
		e := newExplorer(ctx, cfg)
		e.deadline = workerStart.Add(slice * time.Duration(i+1) / time.Duration(len(passes)))
		if ctx.Tier != "thorough" {
			e.deadline = workerStart.Add(slice)
		}
		e.root()
		done := "complete"
		if e.stop {
			done = "cut short by the deadline"
			ctx.Incomplete("pass " + cfg.name + " did not finish within the time budget")
		}
		if len(cfg.prefix) > 0 {
			ctx.Note(fmt.Sprintf("pass %s starts from the state after: %s", cfg.name, pathText(cfg.prefix)))
		}
		ctx.Note(fmt.Sprintf("pass %s (%s): depth=%d opsPerBlock<=%d deltas=%v (+%v for the last step only) ops/account=%d %v", cfg.name, ctx.Tier, cfg.depth, cfg.maxBlockOps, cfg.deltas, cfg.lastDeltas, len(cfg.ops), opNames(cfg.ops)))
		ctx.Count("pass_"+cfg.name+"_workers_"+strings.ReplaceAll(done, " ", "_"), 1)
		if e.sample != "" {
			ctx.Sample(map[string]interface{}{"pass": cfg.name, "sequence": e.sample,
				"what": "every step executed by the real ExecuteSystemTx/ExecuteNameTx and judged accept/refuse; at every block boundary totals, tallies, vote amounts, ranking order, rank memory==rebuilt, names and balances are compared with the model on the state read back from the store"})
		}
	}
	ctx.Count("vpr_reloads_real_InitVotingPowerRank", reloadsReal)
	ctx.Count("vpr_reloads_shim_copy", reloadsCheap)
	ctx.Count("vpr_reload_shim_copy_differs_from_real", reloadsDiffer)
}
