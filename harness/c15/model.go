package main

// Reference model: plain Go, only the oracle. Nothing in here is explored.

import (
	"fmt"
	"math/big"
	"strings"
)

const (
	lockD  = 86400 // lock period in blocks (staking and voting)
	nAcct  = 3
	nIssue = 5
)

// issues: index 0 is the producer election, 1.. are the parameter votes
var issueIDs = [nIssue]string{"voteBP", "BPCOUNT", "STAKINGMIN", "GASPRICE", "NAMEPRICE"}

var acctNames = [nAcct]string{"A", "B", "C"}

type opKind int

const (
	opStake opKind = iota
	opUnstake
	opVoteBP
	opVoteDAO
	opCreateName
	opUpdateName
	opTransfer
)

// op is one element of the per-account alphabet.
type op struct {
	Kind opKind `json:"k"`
	Arg  int    `json:"a"`
}

// daoChoices: (issue index, value)
type daoChoice struct {
	issue int
	val   string
}

var (
	aergo1 = new(big.Int).Exp(big.NewInt(10), big.NewInt(18), nil)
	min0   = new(big.Int).Mul(big.NewInt(10000), aergo1) // default staking minimum, 10,000 aergo
	one    = big.NewInt(1)
	// big80 = 2^80 aer (about 121 staking minimums): the smallest amount whose minimal big-endian
	// encoding has 11 bytes; min .. big80-1 have 10
	big80 = new(big.Int).Lsh(big.NewInt(1), 80)
	zero   = big.NewInt(0)

	daoChoices = []daoChoice{
		{1, "2"},
		{1, "3"},
		{2, new(big.Int).Mul(big.NewInt(2), min0).String()},
		{4, new(big.Int).Mul(big.NewInt(2), aergo1).String()},
	}
	candLabels = [3]string{"T0", "T1", "Y"}
	// nameVariants map to the same registry entry (the registry key is lower-cased)
	nameVariants = []string{"verifc15name", "VerifC15Name"}
)

func (o op) String() string {
	switch o.Kind {
	case opStake:
		return "stake(" + [...]string{"min", "min+1", "2min", "up to 2^80 aer"}[o.Arg] + ")"
	case opUnstake:
		return "unstake(" + [...]string{"part", "all", "stake+1"}[o.Arg] + ")"
	case opVoteBP:
		var s []string
		for i := 0; i < 3; i++ {
			if o.Arg&(1<<uint(i)) != 0 {
				s = append(s, candLabels[i])
			}
		}
		return "voteBP{" + strings.Join(s, ",") + "}"
	case opVoteDAO:
		c := daoChoices[o.Arg]
		v := c.val
		if len(v) > 6 {
			v = v[:1] + fmt.Sprintf("e%d", len(v)-1)
		}
		return "voteDAO(" + issueIDs[c.issue] + "," + v + ")"
	case opCreateName:
		return "createName(" + nameVariants[o.Arg/2] + "," + [...]string{"price", "price-1"}[o.Arg%2] + ")"
	case opUpdateName:
		return "updateName(" + nameVariants[o.Arg/2] + ",to " + [...]string{"next", "prev"}[o.Arg%2] + ")"
	case opTransfer:
		return "transfer(min to next)"
	}
	return "?"
}

type mvote struct {
	has   bool
	cands []string // BP: raw 39-byte ids; DAO: decimal strings
	amt   *big.Int
}

type macct struct {
	bal    *big.Int
	staked *big.Int
	when   uint64
	rec    bool // a staking record exists (it survives a full unstake)
	votes  [nIssue]mvote
}

type mname struct {
	exists    bool
	owner     int
	dest      int
	createdAt uint64
}

type model struct {
	now     uint64
	a       [nAcct]macct
	name    mname
	sysBal  *big.Int
	nameBal *big.Int
}

func newModel(initBal *big.Int, rich bool) *model {
	m := &model{sysBal: new(big.Int), nameBal: new(big.Int)}
	for i := range m.a {
		m.a[i].bal = new(big.Int).Set(initBal)
		m.a[i].staked = new(big.Int)
	}
	if rich {
		m.a[nAcct-1].bal.Add(m.a[nAcct-1].bal, big80)
	}
	return m
}

// clone: big.Ints are treated as immutable values everywhere in the model.
func (m *model) clone() *model {
	c := *m
	return &c
}

// witness: governance parameters in force, read from the real code before the op.
type witness struct {
	minStake  *big.Int
	namePrice *big.Int
}

// concrete amount of an op in the current model state
func (m *model) amount(x int, o op, w witness) *big.Int {
	a := &m.a[x]
	switch o.Kind {
	case opStake:
		switch o.Arg {
		case 0:
			return min0
		case 1:
			return new(big.Int).Add(min0, one)
		case 3: // brings the stake to exactly 2^80 aer (11-byte encoding); beyond that: min
			if a.staked.Cmp(big80) < 0 {
				return new(big.Int).Sub(big80, a.staked)
			}
			return min0
		default:
			return new(big.Int).Mul(min0, big.NewInt(2))
		}
	case opUnstake:
		switch o.Arg {
		case 0: // a proper part: min if that leaves at least min, else 1 aer
			if a.staked.Cmp(new(big.Int).Mul(min0, big.NewInt(2))) >= 0 {
				return min0
			}
			return one
		case 1:
			return a.staked
		default:
			return new(big.Int).Add(a.staked, one)
		}
	case opCreateName:
		if o.Arg%2 == 1 {
			return new(big.Int).Sub(w.namePrice, one)
		}
		return w.namePrice
	case opUpdateName:
		return w.namePrice
	case opTransfer:
		return min0
	}
	return zero
}

const (
	wantRefuse = 0
	wantAccept = 1
	wantEither = 2
)

func (m *model) locked(x int) bool {
	a := &m.a[x]
	return a.when+lockD > m.now
}

// expect says what the property allows for op o by account x now.
func (m *model) expect(x int, o op, w witness) (want int, why string) {
	a := &m.a[x]
	amt := m.amount(x, o, w)
	switch o.Kind {
	case opStake:
		if a.bal.Cmp(amt) < 0 {
			return wantRefuse, "insufficient balance"
		}
		if a.rec && m.locked(x) {
			return wantRefuse, "within the lock period"
		}
		if new(big.Int).Add(a.staked, amt).Cmp(w.minStake) < 0 {
			return wantRefuse, "below the minimum stake"
		}
		return wantAccept, "balance, lock period and minimum are satisfied"
	case opUnstake:
		if a.staked.Sign() == 0 {
			return wantRefuse, "nothing staked"
		}
		if a.staked.Cmp(amt) < 0 {
			return wantRefuse, "more than the stake"
		}
		if m.locked(x) {
			return wantRefuse, "within the lock period"
		}
		rest := new(big.Int).Sub(a.staked, amt)
		if rest.Sign() != 0 && rest.Cmp(w.minStake) < 0 {
			return wantRefuse, "remaining stake below the minimum"
		}
		return wantAccept, "stake, lock period and minimum are satisfied"
	case opVoteBP, opVoteDAO:
		is := 0
		if o.Kind == opVoteDAO {
			is = daoChoices[o.Arg].issue
		}
		if a.staked.Sign() == 0 {
			return wantRefuse, "nothing staked"
		}
		if a.votes[is].has && m.locked(x) {
			return wantRefuse, "re-vote within the lock period"
		}
		return wantAccept, "staked and (first vote on the issue or lock period over)"
	case opCreateName:
		if a.bal.Cmp(amt) < 0 {
			return wantRefuse, "insufficient balance"
		}
		if amt.Cmp(w.namePrice) < 0 {
			return wantRefuse, "less than the name price"
		}
		if m.name.exists {
			return wantRefuse, "name already owned"
		}
		return wantAccept, "price paid and name free"
	case opUpdateName:
		if a.bal.Cmp(amt) < 0 {
			return wantRefuse, "insufficient balance"
		}
		if !m.name.exists {
			return wantRefuse, "name does not exist"
		}
		if m.name.owner != x {
			return wantRefuse, "sender is not the owner"
		}
		if m.name.createdAt == m.now {
			// created in this very block: the registry is read from the last
			// committed storage, the property does not say which way this goes
			return wantEither, "owner, name created in the same block"
		}
		return wantAccept, "sender is the owner and pays the price"
	case opTransfer:
		if a.bal.Cmp(amt) < 0 {
			return wantRefuse, "insufficient balance"
		}
		return wantAccept, "sufficient balance"
	}
	panic("unknown op")
}

// apply performs an accepted op.
func (m *model) apply(x int, o op, w witness) {
	a := &m.a[x]
	amt := m.amount(x, o, w)
	switch o.Kind {
	case opStake:
		a.bal = new(big.Int).Sub(a.bal, amt)
		a.staked = new(big.Int).Add(a.staked, amt)
		a.when, a.rec = m.now, true
		m.sysBal = new(big.Int).Add(m.sysBal, amt)
	case opUnstake:
		a.bal = new(big.Int).Add(a.bal, amt)
		a.staked = new(big.Int).Sub(a.staked, amt)
		a.when = m.now
		m.sysBal = new(big.Int).Sub(m.sysBal, amt)
		for i := range a.votes {
			v := &a.votes[i]
			if v.has && v.amt.Cmp(a.staked) > 0 {
				v.amt = a.staked
				if i == 0 && len(v.cands) == 0 && v.amt.Sign() == 0 {
					v.has = false // an empty producer ballot of amount 0 is an empty record
				}
			}
		}
	case opVoteBP:
		var c []string
		for i := 0; i < 3; i++ {
			if o.Arg&(1<<uint(i)) != 0 {
				c = append(c, string(candIDs[i]))
			}
		}
		a.votes[0] = mvote{has: true, cands: c, amt: a.staked}
		a.when = m.now
	case opVoteDAO:
		ch := daoChoices[o.Arg]
		a.votes[ch.issue] = mvote{has: true, cands: []string{ch.val}, amt: a.staked}
		a.when = m.now
	case opCreateName:
		a.bal = new(big.Int).Sub(a.bal, amt)
		m.nameBal = new(big.Int).Add(m.nameBal, amt)
		m.name = mname{exists: true, owner: x, dest: x, createdAt: m.now}
	case opUpdateName:
		a.bal = new(big.Int).Sub(a.bal, amt)
		m.nameBal = new(big.Int).Add(m.nameBal, amt)
		to := (x + 1) % nAcct
		if o.Arg%2 == 1 {
			to = (x + nAcct - 1) % nAcct
		}
		m.name.owner, m.name.dest = to, to
	case opTransfer:
		to := (x + 1) % nAcct
		a.bal = new(big.Int).Sub(a.bal, amt)
		m.a[to].bal = new(big.Int).Add(m.a[to].bal, amt)
	}
}

// tally of candidate c on issue is = sum of the voting amounts of the accounts currently voting for it
func (m *model) tally(is int, c string) *big.Int {
	t := new(big.Int)
	for x := range m.a {
		v := &m.a[x].votes[is]
		if !v.has {
			continue
		}
		for _, vc := range v.cands {
			if vc == c {
				t.Add(t, v.amt)
			}
		}
	}
	return t
}

func (m *model) totalStake() *big.Int {
	t := new(big.Int)
	for x := range m.a {
		t.Add(t, m.a[x].staked)
	}
	return t
}
