package main

import (
	"crypto/sha256"
	"fmt"
	"os"
	"strings"
	"time"

	"github.com/aergoio/aergo-lib/db"
	"github.com/aergoio/aergo/v2/contract/system"
	"github.com/aergoio/aergo/v2/state/statedb"
	"github.com/aergoio/aergo/v2/verif_h/xplor"
)

type config struct {
	name        string
	depth       int
	maxBlockOps int
	deltas      []uint64 // dt > 0 choices for a step that opens a new block
	lastDeltas  []uint64 // further dt choices allowed only for the last step of a sequence
	ops         []op     // per-account alphabet, simplest first
	f10Depth    int      // abandoned-block variant is tried for steps up to this depth
	rich        bool     // genesis in which account C holds 2^80 aer more
	prefix      []step   // start state: these steps (all must be accepted) are executed first; depth counts from there
}

var quickOps = []op{
	{opStake, 0}, {opStake, 1},
	{opUnstake, 0}, {opUnstake, 1}, {opUnstake, 2},
	{opVoteBP, 1}, {opVoteBP, 4}, {opVoteBP, 5}, {opVoteBP, 3},
	{opVoteDAO, 0},
	{opCreateName, 0}, {opCreateName, 1}, {opUpdateName, 0},
	{opTransfer, 0},
}

func fullOps() []op {
	var ops []op
	for a := 0; a < 3; a++ {
		ops = append(ops, op{opStake, a})
	}
	for a := 0; a < 3; a++ {
		ops = append(ops, op{opUnstake, a})
	}
	for _, mask := range []int{1, 4, 2, 5, 3, 6, 7, 0} {
		ops = append(ops, op{opVoteBP, mask})
	}
	for a := range daoChoices {
		ops = append(ops, op{opVoteDAO, a})
	}
	return append(ops, op{opCreateName, 0}, op{opCreateName, 1}, op{opCreateName, 2}, op{opUpdateName, 0}, op{opUpdateName, 3}, op{opTransfer, 0})
}

// tierPasses: each pass is an exhaustive enumeration of its own (alphabet, depth).
func tierPasses(tier string) []config {
	var ps []config
	if tier == "thorough" {
		ps = []config{
			{name: "core-d5", depth: 5, maxBlockOps: 2, deltas: []uint64{lockD}, lastDeltas: []uint64{lockD - 1}, f10Depth: 2, ops: quickOps},
			{name: "full-d4", depth: 4, maxBlockOps: 3, deltas: []uint64{lockD, lockD - 1}, lastDeltas: []uint64{1}, f10Depth: 2, ops: fullOps()},
		}
	} else {
		ps = []config{{name: "core-d4", depth: 4, maxBlockOps: 2, deltas: []uint64{lockD}, lastDeltas: []uint64{lockD - 1}, f10Depth: 2, ops: quickOps},
			// non-initial start states: nothing but staking is possible from genesis, so these passes spend
			// their depth behind two (three) accounts that already hold the minimum stake
			{name: "core-d3-from-2-stakers", depth: 3, maxBlockOps: 2, deltas: []uint64{lockD}, lastDeltas: []uint64{lockD - 1}, ops: quickOps,
				prefix: []step{{Dt: 1, Acct: 0, Op: op{opStake, 0}}, {Dt: 0, Acct: 2, Op: op{opStake, 0}}}},
			{name: "core-d3-from-3-stakers", depth: 3, maxBlockOps: 2, deltas: []uint64{lockD}, lastDeltas: []uint64{lockD - 1}, ops: quickOps,
				prefix: []step{{Dt: 1, Acct: 0, Op: op{opStake, 0}}, {Dt: 0, Acct: 1, Op: op{opStake, 1}}, {Dt: 1, Acct: 2, Op: op{opStake, 0}}}},
			// amounts on both sides of a byte-length boundary of their stored encoding: C stakes exactly 2^80 aer
			// (11 bytes), partial unstakes leave 10-byte amounts
			{name: "core-d3-from-2^80-staker", depth: 3, maxBlockOps: 2, deltas: []uint64{lockD}, lastDeltas: []uint64{lockD - 1}, ops: quickOps, rich: true,
				prefix: []step{{Dt: 1, Acct: 0, Op: op{opStake, 0}}, {Dt: 0, Acct: 2, Op: op{opStake, 3}}}},
		}
	}
	if v := os.Getenv("VERIF_C15_PASS"); v != "" { // experiments only
		for _, c := range ps {
			if c.name == v {
				ps = []config{c}
			}
		}
	}
	if v := os.Getenv("VERIF_C15_DEPTH"); v != "" {
		fmt.Sscan(v, &ps[0].depth)
		ps = ps[:1]
	}
	if v := os.Getenv("VERIF_C15_K"); v != "" {
		fmt.Sscan(v, &ps[0].maxBlockOps)
	}
	return ps
}

func opNames(ops []op) []string {
	var s []string
	for _, o := range ops {
		s = append(s, o.String())
	}
	return s
}

// step of a sequence. Dt=0: same block as the previous step.
type step struct {
	Dt      uint64 `json:"dt"`
	Acct    int    `json:"acct"`
	Op      op     `json:"op"`
	Abandon bool   `json:"abandon,omitempty"` // the block holding this step is dropped instead of committed
}

type replayObj struct {
	Rich  bool   `json:"rich,omitempty"`
	Steps []step `json:"steps"`
	Text  string `json:"text"`
}

func pathText(p []step) string {
	var s []string
	now := uint64(0)
	for _, st := range p {
		now += st.Dt
		t := fmt.Sprintf("%s.%s@%s", acctNames[st.Acct], st.Op, blockName(now))
		if st.Abandon {
			t += "[block abandoned]"
		}
		s = append(s, t)
	}
	return strings.Join(s, " ; ")
}

func blockName(n uint64) string {
	q, r := n/lockD, n%lockD
	mul := func(k uint64) string {
		if k == 1 {
			return "D"
		}
		return fmt.Sprintf("%dD", k)
	}
	switch {
	case r > lockD/2:
		return fmt.Sprintf("%s-%d", mul(q+1), lockD-r)
	case q == 0:
		return fmt.Sprint(r)
	case r == 0:
		return mul(q)
	}
	return fmt.Sprintf("%s+%d", mul(q), r)
}

type explorer struct {
	ctx      *xplor.Ctx
	cfg      config
	memo     map[[16]byte]int8
	lvl2     int
	base     int // length of the pass's prefix: levels are counted from there
	f8       bool // reported in this shard
	f10      bool
	f15      bool
	stop     bool
	deadline time.Time // end of this pass's time slice (budget only, never an oracle input)
	// first sequence of full depth that was executed (evidence sample)
	sample string
}

func newExplorer(ctx *xplor.Ctx, cfg config) *explorer {
	for _, o := range cfg.ops {
		if o.Kind == opVoteDAO {
			activeIssue[daoChoices[o.Arg].issue] = true
		}
	}
	if len(cfg.ops) == 0 { // replay: read everything
		activeIssue = [nIssue]bool{true, true, true, true, true}
	}
	return &explorer{ctx: ctx, cfg: cfg, memo: map[[16]byte]int8{}}
}

func hkey(parts ...string) [16]byte {
	h := sha256.New()
	for _, p := range parts {
		h.Write([]byte(p))
		h.Write([]byte{0})
	}
	var k [16]byte
	copy(k[:], h.Sum(nil))
	return k
}

// seen reports whether the state was already expanded with at least `left`
// remaining steps; otherwise records it.
func (e *explorer) seen(k [16]byte, left int) bool {
	if d, ok := e.memo[k]; ok && int(d) >= left {
		e.ctx.Count("memo_pruned", 1)
		return true
	}
	e.memo[k] = int8(left)
	return false
}

const (
	f15Desc = "in-memory voting power rank: the ranked-members tree (what DumpVotingPowerRankers prints) differs from the one rebuilt from the persisted state while the id->power table, buckets and total agree: topVoters.addVotingPower changes a voter's power in place before members.Remove, the power-ordered lookup misses, a voter whose power dropped (here to zero) stays in the tree and hides others"
	f8Desc  = "producer ranking contains two distinct candidates of equal tally that types.VoteList.Less leaves unordered (twin peer ids differing only in the parity byte): the ranking is not a function of the tallies, its order is whatever order the result map is iterated in"
	f10Desc = "after a block that executed a vote/unstake was abandoned (never committed), the in-memory voting power rank still contains its effect: memory differs from the rank rebuilt from the persisted state"
)

func (e *explorer) violation(f *finding, path []step) {
	e.ctx.Violation(f.sig, f.desc+" | after: "+pathText(path), replayObj{Rich: e.cfg.rich, Steps: path, Text: pathText(path)})
}

func (e *explorer) noteF8(path []step, first string) {
	e.ctx.Count("f8_states", 1)
	e.ctx.Count("f8_states_with_"+first+"_listed_first", 1)
	if !e.f8 {
		e.f8 = true
		e.ctx.Violation("F8", f8Desc, replayObj{Rich: e.cfg.rich, Steps: append([]step{}, path...), Text: pathText(path)})
	}
}

// bsnap is an exact snapshot of a block-boundary state: store content, root,
// block number and the two mutable package globals of contract/system.
type bsnap struct {
	store     map[string][]byte
	root      []byte
	now       uint64
	nonce     [nAcct]uint64
	g         *system.VerifC15Snap
	sem, hid  string
	paramsMem string
}

func (e *explorer) snapshot(w *world) *bsnap {
	if w.bs != nil {
		panic("harness: snapshot with an open block")
	}
	s := &bsnap{store: db.VerifHandleSnapshot(store), root: w.root, now: w.now, nonce: w.nonce, g: system.VerifC15Snapshot(), paramsMem: system.VerifC15ParamsState()}
	s.sem, s.hid = system.VerifC15VprState()
	return s
}

// restore returns to a boundary state already built (instead of re-executing
// its history); the copy is checked to be exact.
func (e *explorer) restore(s *bsnap) *world {
	e.ctx.Count("restores", 1)
	db.VerifHandleRestore(store, s.store)
	system.VerifC15Restore(s.g)
	if sem, hid := system.VerifC15VprState(); sem != s.sem || hid != s.hid || system.VerifC15ParamsState() != s.paramsMem {
		panic("harness: restored in-memory state differs from the snapshot")
	}
	return &world{root: s.root, now: s.now, nonce: s.nonce}
}

// reopen rebuilds an open block: boundary snapshot + the ops accepted in it so far.
func (e *explorer) reopen(start *bsnap, m0 *model, blk []step) *world {
	w := e.restore(start)
	w.begin(blk[0].Dt)
	m := m0.clone()
	m.now = w.now
	for _, st := range blk {
		wi := w.witness()
		if err := w.exec(st.Acct, st.Op, m.amount(st.Acct, st.Op, wi)); err != nil {
			panic(fmt.Sprintf("harness: re-execution of block %s diverged: %v", pathText(blk), err))
		}
		m.apply(st.Acct, st.Op, wi)
	}
	return w
}

// tryOp executes one op in the open block of w and judges the outcome.
// Returns accepted, and ok=false when a violation was recorded (w must then be rebuilt).
func (e *explorer) tryOp(w *world, m *model, path []step, st step, count bool) (accepted, ok bool) {
	wi := w.witness()
	want, why := m.expect(st.Acct, st.Op, wi)
	err := w.exec(st.Acct, st.Op, m.amount(st.Acct, st.Op, wi))
	if count {
		e.ctx.Eval(1)
		e.ctx.Count("ops_executed", 1)
	}
	full := append(append([]step{}, path...), st)
	if err != nil && strings.HasPrefix(err.Error(), "PANIC") {
		e.violation(&finding{desc: err.Error()}, full)
		return false, false
	}
	if err != nil && want == wantAccept {
		e.violation(&finding{desc: fmt.Sprintf("%s.%s was refused (%v) although %s", acctNames[st.Acct], st.Op, err, why)}, full)
		return false, false
	}
	if err == nil && want == wantRefuse {
		e.violation(&finding{desc: fmt.Sprintf("%s.%s was accepted although it must be refused: %s", acctNames[st.Acct], st.Op, why)}, full)
		return true, false
	}
	if count {
		if err == nil {
			e.ctx.Count("ops_accepted", 1)
		} else {
			e.ctx.Count("ops_refused", 1)
		}
	}
	return err == nil, true
}

// boundary closes the open block of w and applies the oracle.
func (e *explorer) boundary(w *world, m *model, path []step, count bool) (*obs, bool) {
	w.close()
	o, err := observe(w.root)
	if count {
		e.ctx.Eval(1)
		e.ctx.Count("boundaries_judged", 1)
	}
	if err != nil {
		e.violation(&finding{desc: "persisted state unreadable: " + err.Error()}, path)
		return nil, false
	}
	f, f8, f15 := judge(o, m)
	if f8 != "" {
		e.noteF8(path, f8)
	}
	if f15 {
		e.ctx.Count("f15_states", 1)
		if !e.f15 {
			e.f15 = true
			e.ctx.Violation("F15", f15Desc, replayObj{Rich: e.cfg.rich, Steps: append([]step{}, path...), Text: pathText(path)})
		}
	}
	if f != nil {
		e.violation(f, path)
		return nil, false
	}
	return o, true
}

// root: the genesis boundary (or the boundary after the pass's prefix); the first step opens the
// next block.
func (e *explorer) root() {
	w := newWorld(e.cfg.rich)
	m := newModel(initBal, e.cfg.rich)
	var path []step
	for i, st := range e.cfg.prefix {
		if i == 0 || st.Dt > 0 {
			if w.bs != nil {
				if _, ok := e.boundary(w, m, path, false); !ok {
					return
				}
			}
			w.begin(st.Dt)
			m.now = w.now
		}
		acc, ok := e.tryOp(w, m, path, st, false)
		if !ok {
			return
		}
		if !acc {
			panic("harness: prefix step refused: " + pathText(append(path, st)))
		}
		m.apply(st.Acct, st.Op, w.witness())
		path = append(path, st)
	}
	e.base = len(path)
	if w.bs != nil {
		o, ok := e.boundary(w, m, path, false)
		if !ok {
			return
		}
		e.expandClosed(w, m, path, e.cfg.depth, o, e.cfg.deltas)
		return
	}
	o, err := observe(w.root)
	chk(err)
	e.expandClosed(w, m, nil, e.cfg.depth, o, []uint64{1})
}

// node: w has an open block whose last op (path's last step) was accepted.
// start/m0 = boundary state and model the open block started from, blk = the
// steps accepted in the open block, startKey = canonical form of start aged to
// the block's number.
func (e *explorer) node(w *world, m *model, path []step, left int, start *bsnap, m0 *model, blk []step, startKey string) {
	if e.stop {
		return
	}
	if e.ctx.Expired() || pastGlobalDeadline() || (!e.deadline.IsZero() && time.Now().After(e.deadline)) {
		e.stop = true
		return
	}
	mine := len(path)-e.base > 1 || e.ctx.Shard == 0 // level-1 nodes are walked by every shard, counted once
	if mine {
		e.ctx.Trace(1)
		e.ctx.Max("max_depth", int64(len(path)))
		if left == 0 && e.sample == "" {
			e.sample = pathText(path)
		}
	}
	if len(path)-e.base > 1 && e.seen(hkey("open", startKey, blockText(blk)), left) {
		return
	}
	// (a) further ops in the same block
	if left > 0 && len(blk) < e.cfg.maxBlockOps {
		for x := 0; x < nAcct; x++ {
			for _, o := range e.cfg.ops {
				if e.skipShard(path) {
					continue
				}
				st := step{Dt: 0, Acct: x, Op: o}
				acc, ok := e.tryOp(w, m, path, st, true)
				if ok && !acc {
					continue // refused: rolled back, w is unchanged (the boundary below would show a leak)
				}
				if ok {
					m2 := m.clone()
					m2.apply(x, o, w.witness())
					e.node(w, m2, append(append([]step{}, path...), st), left-1, start, m0, append(append([]step{}, blk...), st), startKey)
				}
				if e.stop {
					return
				}
				w = e.reopen(start, m0, blk)
			}
		}
	}
	// (b) block boundary
	o, ok := e.boundary(w, m, path, mine)
	if !ok {
		return
	}
	if mine {
		e.ctx.Distinct(xplor.Hash(o.canon(w.now)))
	}
	ds := e.cfg.deltas
	if left == 1 {
		ds = append(append([]uint64{}, ds...), e.cfg.lastDeltas...)
	}
	e.expandClosed(w, m, path, left, o, ds)
}

func blockText(blk []step) string {
	var b strings.Builder
	for _, st := range blk {
		fmt.Fprint(&b, st.Acct, st.Op, ";")
	}
	return b.String()
}

// expandClosed: w is at a block boundary (no open block, persisted state o);
// tries every step that opens a new block.
func (e *explorer) expandClosed(w *world, m *model, path []step, left int, o *obs, deltas []uint64) {
	if left == 0 {
		return
	}
	if len(path)-e.base > 1 && e.seen(hkey("closed", o.canon(w.now)), left) {
		return
	}
	cs := e.snapshot(w)
	for _, dt := range deltas {
		opened := false
		for x := 0; x < nAcct; x++ {
			for _, op := range e.cfg.ops {
				if e.skipShard(path) {
					continue
				}
				if !opened {
					// (a block in which every op so far was refused is simply not produced)
					w.abandon()
					w.now = cs.now
					w.begin(dt)
					opened = true
				}
				m2 := m.clone()
				m2.now = w.now
				st := step{Dt: dt, Acct: x, Op: op}
				acc, ok := e.tryOp(w, m2, path, st, true)
				if ok && !acc {
					continue
				}
				if ok {
					// abandoned-block variant (F10), judged as a leaf
					if len(path)-e.base < e.cfg.f10Depth && (op.Kind == opVoteBP || op.Kind == opVoteDAO || op.Kind == opUnstake) {
						w.abandon()
						mem, _ := system.VerifC15VprState()
						e.ctx.Eval(1)
						e.ctx.Count("abandoned_block_variants", 1)
						if mem != o.vprDisk {
							e.ctx.Count("f10_states", 1)
							if !e.f10 {
								e.f10 = true
								ab := append(append([]step{}, path...), step{Dt: dt, Acct: x, Op: op, Abandon: true})
								e.ctx.Violation("F10", f10Desc, replayObj{Rich: e.cfg.rich, Steps: ab, Text: pathText(ab)})
							}
						}
						w = e.reopen(cs, m, []step{st})
					}
					m2.apply(x, op, w.witness())
					// the open block of the child starts from this boundary, aged to the block's number
					e.node(w, m2, append(append([]step{}, path...), st), left-1, cs, m, []step{st}, o.canon(cs.now+dt))
				}
				if e.stop {
					return
				}
				w = e.restore(cs)
				opened = false
			}
		}
	}
}

// skipShard: the children of level-1 nodes are dealt round-robin to the shards.
func (e *explorer) skipShard(path []step) bool {
	if len(path)-e.base != 1 {
		return false
	}
	e.lvl2++
	return !e.ctx.Mine(e.lvl2 - 1)
}

// replayCase re-executes one recorded sequence with the full oracle.
func replayCase(ctx *xplor.Ctx, r replayObj) {
	e := newExplorer(ctx, config{rich: r.Rich})
	w := newWorld(r.Rich)
	m := newModel(initBal, r.Rich)
	for i, st := range r.Steps {
		path := r.Steps[:i]
		if i == 0 || st.Dt > 0 {
			if w.bs != nil {
				if _, ok := e.boundary(w, m, path, true); !ok {
					return
				}
			}
			w.begin(st.Dt)
			m.now = w.now
		}
		acc, ok := e.tryOp(w, m, path, st, true)
		if !ok {
			return
		}
		if st.Abandon {
			if !acc {
				return
			}
			w.abandon()
			mem, _ := system.VerifC15VprState()
			scs, err := statedb.GetSystemAccountState(statedb.NewStateDB(store, w.root, false))
			chk(err)
			raw, err := system.VerifC15VprRaw(scs, acctIDs)
			chk(err)
			disk, err := vprReload(scs, raw)
			chk(err)
			if mem != disk {
				ctx.Violation("F10", f10Desc, r)
			}
			return
		}
		if acc {
			m.apply(st.Acct, st.Op, w.witness())
		}
	}
	if w.bs != nil {
		e.boundary(w, m, r.Steps, true)
	}
}
