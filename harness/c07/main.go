// C07: fork choice - reorganisation reaches the longest valid branch and its exact state.
package main

import (
	"encoding/json"
	"time"

	fx "github.com/aergoio/aergo/v2/verif_h/forkx"
	nk "github.com/aergoio/aergo/v2/verif_h/nodekit"
	"github.com/aergoio/aergo/v2/verif_h/xplor"
)

func scenarios(tier string) []fx.Scenario {
	m, leaves := 4, 2
	kinds := fx.BadKinds
	if tier == "thorough" {
		// larger trees, every kind of invalid block
		m, leaves = 5, 3
	}
	var out []fx.Scenario
	for _, p := range fx.Trees(m, leaves) {
		for _, fl := range []string{"empty", "tx", "ctr"} {
			out = append(out, fx.Scenario{Parents: p, Flavour: fl})
			if fl != "tx" {
				continue
			}
			for bad := 1; bad <= len(p); bad++ {
				for _, k := range kinds {
					out = append(out, fx.Scenario{Parents: p, Flavour: fl, BadIdx: bad, BadKind: k})
				}
			}
		}
	}
	return out
}

func run(ctx *xplor.Ctx) {
	defer nk.Cleanup()
	net := nk.DefaultNet()
	if ctx.Replay != nil {
		var r fx.Replay
		if err := json.Unmarshal(ctx.Replay, &r); err != nil {
			panic(err)
		}
		fx.ReplayOne(ctx, net, r, fx.OracleC07)
		return
	}
	scs := scenarios(ctx.Tier)
	for i, sc := range scs {
		if !ctx.Mine(i) || ctx.Expired() {
			continue
		}
		fx.Explore(ctx, net, sc, fx.OracleC07, 20000)
		if i == 3 {
			ctx.Sample(map[string]interface{}{"scenario": sc, "events": "deliver any block of the tree, any number of times, in any order; BFS to a fixpoint over node states"})
		}
	}
	ctx.Count("scenarios_total", 0)
}

func main() {
	xplor.Main(xplor.Check{
		ID:    "C07",
		Level: "model_checking",
		Rule:  "fork-choice oracle (P1 best is valid; P2 a shorter/equal branch never displaces the main chain; P3 best is a longest stored fully-valid branch; P4 full world state = reference execution of the path to best; P5 txs only on the abandoned branch are offered back to the pool) on every transition of an explicit-state BFS to a fixpoint per scenario; scenario = one block tree (one representative per isomorphism class, <= m blocks, <= L leaves) x flavour (empty blocks | blocks with a tx shared by all branches at the same height and a conflicting per-block tx) x (no invalid block | one block invalid in one of 5 ways); event = deliver any block (duplicates, orphans, forks); state key = digest of chain store content, state store keys, state root, orphan pool, bad-block cache, DPoS status; distinct_nontrivial = distinct (scenario, node state) pairs reached",
		Assumptions: []string{
			"blocks are delivered through ChainService.addBlock synchronously (the ChainManager actor serialises AddBlock messages, so there is no concurrency between deliveries)",
			"contract transactions are executed by the stub VM (not used in this check: transfers only)",
		},
		Shards: func(tier string) int { return 64 },
		Budget: func(tier string) time.Duration {
			if tier == "thorough" {
				return 25 * time.Minute
			}
			return 5 * time.Minute
		},
		Run: run,
	})
}
