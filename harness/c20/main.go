// C20: contract queries and view functions cannot change state.
//
// The Lua VM cannot be built here (cgo + LuaJIT). What runs instead is the real
// Go half of package contract: mkoverlay's "fakec" rewrite compiles vm.go,
// vm_callback.go, hook.go (with `C.xyz` bound to the pure-Go fake verif_h/fakec)
// together with the unchanged vm_state.go, internal_operations.go, contract.go.
// A "contract program" is therefore not Lua text but a list of host-API calls
// that the harness issues from inside the fake vm_pcall, i.e. exactly where the
// C modules would call the //export-ed callbacks.
//
// Every case (a sequence of <= 2 host calls) is executed in every context mode:
// the writable controls and the read-only modes (client query through
// contract.Query, fee-delegation check through contract.CheckFeeDelegation, a
// function declared view in the ABI, the view wrapper luaViewStart/luaViewEnd
// at depth 1 and 2, views calling other contracts, queries calling other
// contracts). Oracle, after every single host call in a read-only position:
// nothing the context can write to has changed, and a call that changed
// something in the matching control run must have returned an error.
package main

import (
	"bytes"
	"context"
	"encoding/json"
	"fmt"
	"math/big"
	"os"
	"reflect"
	"runtime/pprof"
	"sort"
	"strings"
	"time"
	"unsafe"

	"github.com/aergoio/aergo-lib/db"
	"github.com/aergoio/aergo/v2/contract"
	"github.com/aergoio/aergo/v2/contract/system"
	"github.com/aergoio/aergo/v2/internal/enc/proto"
	"github.com/aergoio/aergo/v2/state"
	"github.com/aergoio/aergo/v2/state/statedb"
	"github.com/aergoio/aergo/v2/types"
	"github.com/aergoio/aergo/v2/verif_h/fakec"
	"github.com/aergoio/aergo/v2/verif_h/xplor"
)

// ---------------------------------------------------------------------------
// fixed actors

func addr(tag byte) []byte { return append([]byte{0x02}, bytes.Repeat([]byte{tag}, 32)...) }

var (
	addrA  = addr(0xA1) // contract under test
	addrB  = addr(0xB2) // second contract
	addrU  = addr(0xC3) // plain user account (tx sender)
	addrN  = addr(0xD4) // no such account
	encA   = types.EncodeAddress(addrA)
	encB   = types.EncodeAddress(addrB)
	encU   = types.EncodeAddress(addrU)
	encN   = types.EncodeAddress(addrN)
	peerID = "16Uiu2HAmBDcLEjBYeEnGU2qDD1KdpEdwDBtN7gqXzNZbHXo8Q841" // a well-formed libp2p peer id
	aergo  = types.NewAmount(1, types.Aergo)
)

// accounts whose state is part of every digest whether or not the context has loaded them
var actors = [][]byte{addrA, addrB, addrU, addrN, []byte(types.AergoSystem), []byte(types.AergoName)}

var actorName = func() map[string]string {
	m := map[string]string{}
	for i, n := range []string{"A", "B", "U", "N", "aergo.system", "aergo.name"} {
		aid := types.ToAccountID(actors[i])
		m[fmt.Sprintf("%x", aid[:6])] = n
	}
	return m
}()

const (
	stakeBlock = 1
	execBlock  = stakeBlock + system.StakingDelay + 10
	blockTs    = int64(1600000000) * 1e9
)

const abiA = `{"version":"0.2","language":"lua","functions":[` +
	`{"name":"constructor"},{"name":"w","payable":true},{"name":"v","view":true},{"name":"pv","payable":true,"view":true},` +
	`{"name":"fd","fee_delegation":true},{"name":"check_delegation"},{"name":"default","payable":true}],"state_variables":[]}`
const abiB = `{"version":"0.2","language":"lua","functions":[` +
	`{"name":"constructor","payable":true},{"name":"w","payable":true},{"name":"v","view":true},{"name":"pv","payable":true,"view":true},{"name":"default","payable":true}],"state_variables":[]}`

// functions the harness declared as views (read-only by declaration)
var viewFns = map[string]bool{"v": true, "check_delegation": true}

var deploySource = `{"abi":` + abiB + `,"prog":"N"}`

// ---------------------------------------------------------------------------
// world: a real state DB with two deployed contracts, a user, a staked system account

type world struct {
	name  string
	store db.DB
	snap  map[string][]byte
	root0 []byte
	// the voting power rank of package system is process-global state that
	// governance operations update; it is reloaded from the pristine world before
	// an execution whenever the previous one could have touched it
	vprDirty bool
	pristine map[string][2]string // see VerifC20Ctx.Digest
}

type chainStub struct {
	w   *world
	ver int32
}

func (c *chainStub) block(no uint64) *types.Block {
	cid := make([]byte, 8)
	copy(cid, types.ChainIdVersion(c.ver))
	return &types.Block{Header: &types.BlockHeader{ChainID: cid, BlockNo: no, Timestamp: blockTs,
		PrevBlockHash: bytes.Repeat([]byte{9}, 32), BlocksRootHash: c.w.root0}}
}
func (c *chainStub) GetBlockByNo(no types.BlockNo) (*types.Block, error) { return c.block(no), nil }
func (c *chainStub) GetBestBlock() (*types.Block, error)                 { return c.block(execBlock), nil }

func must(err error) {
	if err != nil {
		panic(err)
	}
}

func buildWorld(name string, ver int32) *world {
	db.VerifDrop(name)
	w := &world{name: name, store: db.NewDB(db.VerifImpl, name)}
	sdb := statedb.NewStateDB(w.store, nil, false)
	bs := state.NewBlockState(sdb, state.SetGasPrice(big.NewInt(1)))
	put := func(id []byte, bal *big.Int) *state.AccountState {
		as, err := state.GetAccountState(id, sdb)
		must(err)
		as.AddBalance(bal)
		return as
	}
	u := put(addrU, new(big.Int).Mul(aergo, big.NewInt(1000000)))
	must(u.PutState())
	for _, c := range []struct {
		id  []byte
		abi string
		bal int64
	}{{addrA, abiA, 50000}, {addrB, abiB, 100}} {
		as := put(c.id, new(big.Int).Mul(aergo, big.NewInt(c.bal)))
		cs, err := statedb.OpenContractState(c.id, as.State(), sdb)
		must(err)
		must(cs.SetCode(nil, fakec.MakeCode([]byte(c.abi), string(c.id[1:2]))))
		must(cs.SetData([]byte("k1"), []byte(`"v1"`)))
		must(cs.SetData([]byte("Creator"), []byte(encU)))
		must(statedb.StageContractState(cs, sdb))
		must(as.PutState())
	}
	must(sdb.Update())
	must(sdb.Commit())
	// stake 20000 aergo from A at block 1 through the real system contract
	{
		sys, err := state.GetAccountState([]byte(types.AergoSystem), sdb)
		must(err)
		scs, err := statedb.OpenContractState([]byte(types.AergoSystem), sys.State(), sdb)
		must(err)
		system.InitSystemParams(scs, 3)
		must(system.InitVotingPowerRank(scs))
		a, err := state.GetAccountState(addrA, sdb)
		must(err)
		bi := &types.BlockHeaderInfo{No: stakeBlock, Ts: blockTs, ForkVersion: ver}
		body := &types.TxBody{Account: addrA, Amount: new(big.Int).Mul(aergo, big.NewInt(20000)).Bytes(),
			Payload: []byte(`{"Name":"v1stake"}`)}
		_, err = system.ExecuteSystemTx(scs, body, a, sys, bi)
		must(err)
		must(statedb.StageContractState(scs, sdb))
		must(a.PutState())
		must(sys.PutState())
		must(sdb.Update())
		must(sdb.Commit())
	}
	_ = bs
	w.root0 = append([]byte{}, sdb.GetRoot()...)
	if traceOn {
		s2 := statedb.NewStateDB(w.store, w.root0, false)
		scs, err := statedb.GetSystemAccountState(s2)
		must(err)
		st, err := system.GetStaking(scs, addrA)
		fmt.Fprintf(os.Stderr, "world: staking of A = %v (%v) sysroot=%x\n", st.GetAmountBigInt(), err, scs.StorageRoot)
		scs1, _ := statedb.GetSystemAccountState(sdb)
		st, err = system.GetStaking(scs1, addrA)
		fmt.Fprintf(os.Stderr, "world(same sdb): staking of A = %v (%v) sysroot=%x\n", st.GetAmountBigInt(), err, scs1.StorageRoot)
	}
	w.snap = db.VerifHandleSnapshot(w.store)
	w.vprDirty = true
	w.pristine = map[string][2]string{}
	return w
}

// fresh returns a block state on the pristine world.
func (w *world) fresh() *state.BlockState {
	db.VerifHandleRestore(w.store, w.snap)
	sdb := statedb.NewStateDB(w.store, w.root0, false)
	if w.vprDirty {
		scs, err := statedb.GetSystemAccountState(sdb)
		must(err)
		system.InitSystemParams(scs, 3)
		must(system.InitVotingPowerRank(scs))
		w.vprDirty = false
	}
	return state.NewBlockState(sdb, state.SetGasPrice(big.NewInt(1)), state.SetPrevBlockHash(bytes.Repeat([]byte{9}, 32)))
}

// ---------------------------------------------------------------------------
// the host API table (generated from the //export comments on every build)

type param struct{ name, typ string }

type callback struct {
	name   string
	file   string
	fn     reflect.Value
	params []param
	// alphabets: index -> shapes ("" entries of auto parameters are nil)
	shapes [][]string
	driven bool
	why    string
}

// how a callback signals an error to the C module (which raises a Lua error)
const (
	errNone   = iota // returns values only
	errSingle        // single *C.char result, non-nil = error
	errIntNeg        // first result C.int < 0 = error
	errLast          // last *C.char result non-nil = error
)

var errConv = map[string]int{
	"luaSetDB": errSingle, "luaDelDB": errSingle, "luaSendAmount": errSingle, "luaClearRecovery": errSingle,
	"luaEvent": errSingle, "luaGovernance": errSingle, "LuaGetDbHandleSnap": errSingle,
	"luaCallContract": errIntNeg, "luaDelegateCallContract": errIntNeg, "luaDeployContract": errIntNeg,
	"luaSetRecoveryPoint": errIntNeg, "luaECVerify": errIntNeg, "luaIsContract": errIntNeg, "luaIsFeeDelegation": errIntNeg,
	"luaGetDB": errLast, "luaGetBalance": errLast, "luaCryptoSha256": errLast, "luaGetStaking": errLast,
}

// Callbacks that contract code cannot invoke with arguments of its choice: they
// are steps of a protocol implemented in vm.c / contract_module.c. They are
// driven exactly as that C code drives them (pcall bracket, view bracket).
var protocolOnly = map[string]string{
	"luaViewStart":        "view bracket (vm.c vm_internal_view_start)",
	"luaViewEnd":          "view bracket (vm.c vm_internal_view_end)",
	"luaSetRecoveryPoint": "pcall bracket (contract_module.c modulePcall)",
	"luaClearRecovery":    "pcall bracket",
	"luaDropEvent":        "pcall bracket",
	"luaGetEventCount":    "pcall bracket",
}

// argument alphabets, simplest first. Key "callback.param" overrides "param".
// "<nil>" is the NULL pointer.
var alphabet = map[string][]string{
	"key":                      {"k1", "k9", "", "_sv_meta-len_arr"},
	"value":                    {`"v2"`, ""},
	"blkno":                    {"<nil>", "5", "0", "-1", "zz"},
	"contractId":               {encB, encA, encU, encN, "badaddr", "namedcontrct"},
	"fname":                    {"w", "v", "nosuch", "", "pv"}, // pv: declared payable and view (a client-supplied ABI can say so)
	"args":                     {"[]", `[1,"x",{"_bignum":"5"}]`, "{bad"},
	"amount":                   {"", "7", "0", "100000000 aergo", "-1", "x1", "1.5 aergo"},
	"gas":                      {"0"},
	"luaPrint.args":            {"hello"},
	"arg":                      {"abc", "0x6162", "0xzz"},
	"msg":                      {"0x" + strings.Repeat("11", 32), "zz"},
	"sig":                      {"0x" + strings.Repeat("22", 65), "0x3006020101020101", "zz"},
	"addr":                     {encA, "0x" + strings.Repeat("33", 20), "x"},
	"data":                     {"abc", "0x61"},
	"contract":                 {deploySource, encB, encA, "not a source", encN},
	"min":                      {"1"},
	"max":                      {"10", "1"},
	"name":                     {"ev", strings.Repeat("n", 65)},
	"luaEvent.args":            {"[]", strings.Repeat("a", 4097)},
	"address":                  {encA, "short"},
	"pubkey":                   {"0x" + strings.Repeat("02", 33), "0xzz", "0x00"},
	"name_or_address":          {encA, "aergo.system", "namedcontrct", "x"},
	"luaGetBalance.contractId": {"<nil>", encB, encU, encN, "badaddr"},
	// "multicall" with function name "" runs the built-in multicall code on the caller's state
	"luaDelegateCallContract.contractId": {encB, encA, "multicall", encU, encN, "badaddr"},
	// governance: the pair (gType, arg) is one choice, see govShapes
	"snap":               {"1", "0", "x"},
	"luaGetStaking.addr": {encA, encU},
}

// (gType, arg) choices of luaGovernance; gType is a fixed character in system_module.c
var govShapes = [][2]string{
	{"S", "10000 aergo"}, {"U", "10000 aergo"}, {"V", `["` + peerID + `"]`}, {"D", `["BPCOUNT","3"]`},
	{"S", "1"}, {"S", "x1"}, {"U", "1 aergo"}, {"V", "bad"},
}

var traceOn = os.Getenv("C20_TRACE") != ""

var cbs []*callback
var cbByName = map[string]*callback{}

func loadCallbacks() {
	fns, params := contract.VerifC20Exports()
	var names []string
	for n := range fns {
		names = append(names, n)
	}
	sort.Strings(names)
	for _, n := range names {
		cb := &callback{name: n, fn: reflect.ValueOf(fns[n]), driven: true}
		for i, p := range params[n] {
			if i == 0 {
				cb.file = strings.TrimPrefix(p, "@")
				continue
			}
			f := strings.SplitN(p, " ", 2)
			cb.params = append(cb.params, param{f[0], f[1]})
		}
		cb.shapes = make([][]string, len(cb.params))
		for i, p := range cb.params {
			switch {
			case protocolOnly[n] != "":
			case p.typ == "*LState", p.name == "service" && p.typ == "C_int":
			case p.typ == "C_int" && i > 0 && cb.params[i-1].typ == "unsafe.Pointer" && p.name == cb.params[i-1].name+"Len":
			case n == "luaGovernance" && (p.name == "gType" || p.name == "arg"):
				if p.name == "gType" {
					for j := range govShapes {
						cb.shapes[i] = append(cb.shapes[i], fmt.Sprint(j))
					}
				}
			case n == "luaCryptoVerifyProof":
				// one fixed well-formed argument tuple, built by verifyProofArgs
			default:
				a, ok := alphabet[n+"."+p.name]
				if !ok {
					a, ok = alphabet[p.name]
				}
				okType := p.typ == "*C_char" || p.typ == "unsafe.Pointer" || p.typ == "C_int" || p.typ == "uint64"
				if !ok || !okType {
					cb.driven = false
					cb.why = fmt.Sprintf("no argument alphabet for parameter %q of type %s", p.name, p.typ)
				}
				cb.shapes[i] = a
			}
		}
		if cb.fn.Type().NumIn() != len(cb.params) {
			cb.driven = false
			cb.why = "parameter list of the generated table does not match the function type"
		}
		cbs = append(cbs, cb)
		cbByName[n] = cb
	}
}

// ---------------------------------------------------------------------------
// ops and cases

// op is one host call: callback, one shape index per parameter, the body the
// callee runs if the call starts another executor (0 empty, 1 write probe), and
// whether the call is made under contract.pcall.
type op struct {
	CB    string `json:"cb"`
	Args  []int  `json:"args"`
	Inner int    `json:"inner,omitempty"`
	Pcall bool   `json:"pcall,omitempty"`
}

func (o op) label() string {
	cb := cbByName[o.CB]
	var l []string
	for i, a := range o.Args {
		if cb == nil || i >= len(cb.shapes) || cb.shapes[i] == nil {
			continue
		}
		s := cb.shapes[i][a]
		if cb.name == "luaGovernance" {
			s = govShapes[a][0] + ":" + govShapes[a][1]
		}
		if len(s) > 24 {
			s = s[:10] + fmt.Sprintf("..(%d)", len(s))
		}
		l = append(l, cb.params[i].name+"="+s)
	}
	s := o.CB + "(" + strings.Join(l, ",") + ")"
	if o.Inner > 0 {
		s += "+probe"
	}
	if o.Pcall {
		s = "pcall[" + s + "]"
	}
	return s
}

type caseT struct {
	Ver int32 `json:"ver"`
	Seq []op  `json:"seq"`
}

var startsExecutor = map[string]bool{"luaCallContract": true, "luaDelegateCallContract": true, "luaSendAmount": true, "luaDeployContract": true}

// enumerate all argument tuples of a callback; lim > 0 caps every alphabet at its first lim shapes
func tuples(cb *callback, lim int) [][]int {
	out := [][]int{make([]int, len(cb.params))}
	for i, sh := range cb.shapes {
		if sh == nil {
			continue
		}
		n := len(sh)
		if lim > 0 && n > lim {
			n = lim
		}
		var next [][]int
		for _, t := range out {
			for j := 0; j < n; j++ {
				c := append([]int{}, t...)
				c[i] = j
				next = append(next, c)
			}
		}
		out = next
	}
	return out
}

func allOps(lim int) []op {
	var l []op
	for _, cb := range cbs {
		if !cb.driven || protocolOnly[cb.name] != "" {
			continue
		}
		for _, t := range tuples(cb, lim) {
			l = append(l, op{CB: cb.name, Args: t})
			if startsExecutor[cb.name] {
				l = append(l, op{CB: cb.name, Args: t, Inner: 1})
			}
		}
	}
	return l
}

// ---------------------------------------------------------------------------
// running programs

type step struct {
	Op      string   `json:"op"`
	Pos     int      `json:"pos"` // index in Seq, -1 for prelude / bracket / probe steps
	RO      bool     `json:"ro"`
	Err     bool     `json:"err"`
	Panic   string   `json:"panic,omitempty"`
	Changed []string `json:"changed,omitempty"`
	NV      int32    `json:"nv"`
	Msg     string   `json:"msg,omitempty"`
}

type frame struct {
	ro bool
}

type runner struct {
	w       *world
	bs      *state.BlockState
	steps   []step
	pending []func(L *fakec.LState) string
	frames  []frame
	query   bool // the whole execution is a query / fee delegation check
	viol    []string
	sigs    []string
	notes   map[string]int
	mode    string
}

func (r *runner) ro() bool {
	return r.query || (len(r.frames) > 0 && r.frames[len(r.frames)-1].ro)
}

func (r *runner) violation(sig, msg string) {
	r.sigs = append(r.sigs, sig)
	r.viol = append(r.viol, "mode "+r.mode+": "+msg)
}

func snapshot(ctx *contract.VerifC20Ctx, w *world) map[string]string {
	raw := ctx.Digest(actors, w.pristine)
	d := make(map[string]string, len(raw)+1)
	for k, v := range raw {
		if i := strings.IndexByte(k, '['); i >= 0 {
			if nm, ok := actorName[k[i+1:len(k)-1]]; ok {
				k = k[:i+1] + nm + "]"
			}
		}
		d[k] = v
	}
	d["store"] = fmt.Sprintf("durable writes: %d", db.VerifJournalLen())
	return d
}

func diff(a, b map[string]string) []string {
	var l []string
	for k, v := range a {
		if b[k] != v {
			l = append(l, k)
		}
	}
	for k := range b {
		if _, ok := a[k]; !ok {
			l = append(l, k+"(new)")
		}
	}
	sort.Strings(l)
	return l
}

// operations whose record denotes a mutation when it carries no error result
var mutationOps = map[string]bool{"set_variable": true, "del_variable": true, "event": true, "deploy": true,
	"stake": true, "unstake": true, "vote": true, "voteDAO": true}

func cstr(s string) *fakec.Char {
	if s == "<nil>" {
		return nil
	}
	return fakec.CString(s)
}

func num(s string) int64 {
	var n int64
	fmt.Sscan(s, &n)
	return n
}

// call invokes one exported callback through reflection.
func (r *runner) call(L *fakec.LState, cb *callback, args []int) (out []reflect.Value, panicked string) {
	in := make([]reflect.Value, len(cb.params))
	var lastBuf string
	for i, p := range cb.params {
		var sh string
		if cb.shapes[i] != nil {
			sh = cb.shapes[i][args[i]]
		}
		switch {
		case p.typ == "*LState":
			in[i] = reflect.ValueOf(L)
		case p.name == "service" && p.typ == "C_int":
			in[i] = reflect.ValueOf(L.Service)
		case cb.name == "luaGovernance" && p.name == "gType":
			in[i] = reflect.ValueOf(fakec.Char(govShapes[args[i]][0][0]))
			lastBuf = govShapes[args[i]][1]
		case cb.name == "luaGovernance" && p.name == "arg":
			in[i] = reflect.ValueOf(cstr(lastBuf))
		case p.typ == "unsafe.Pointer":
			lastBuf = sh
			in[i] = reflect.ValueOf(fakec.CBytes([]byte(sh)))
		case p.typ == "C_int" && cb.shapes[i] == nil:
			in[i] = reflect.ValueOf(fakec.Int(len(lastBuf)))
		case p.typ == "*C_char":
			in[i] = reflect.ValueOf(cstr(sh))
		case p.typ == "C_int":
			in[i] = reflect.ValueOf(fakec.Int(num(sh)))
		case p.typ == "uint64":
			in[i] = reflect.ValueOf(uint64(num(sh)))
		case p.typ == "int":
			in[i] = reflect.ValueOf(int(num(sh)))
		case p.typ == "bool":
			in[i] = reflect.ValueOf(sh == "true")
		default:
			panic("undriven parameter type " + p.typ)
		}
	}
	if cb.name == "luaCryptoVerifyProof" {
		pp, np := contract.VerifC20Proofs([][]byte{[]byte("0xc0")})
		in = []reflect.Value{reflect.ValueOf(fakec.CBytes([]byte("key"))), reflect.ValueOf(fakec.Int(3)),
			reflect.ValueOf(contract.VerifC20RlpString([]byte("val"))),
			reflect.ValueOf(fakec.CBytes([]byte("0x" + strings.Repeat("ab", 32)))), reflect.ValueOf(fakec.Int(66)),
			reflect.ValueOf(pp), reflect.ValueOf(np)}
	}
	defer func() {
		if x := recover(); x != nil {
			panicked = fmt.Sprint(x)
		}
	}()
	return cb.fn.Call(in), ""
}

func isErr(cb *callback, out []reflect.Value) (bool, string) {
	if len(out) == 0 {
		return false, ""
	}
	cs := func(v reflect.Value) (bool, string) {
		p, ok := v.Interface().(*fakec.Char)
		if !ok || p == nil {
			return false, ""
		}
		return true, fakec.GoString(p)
	}
	switch errConv[cb.name] {
	case errSingle:
		return cs(out[0])
	case errIntNeg:
		if out[0].Int() < 0 {
			_, m := cs(out[len(out)-1])
			return true, m
		}
	case errLast:
		return cs(out[len(out)-1])
	}
	return false, ""
}

// raw performs one host call with the oracle around it and returns the error
// message the C module would raise ("" = no error).
func (r *runner) raw(L *fakec.LState, pos int, name string, args []int, inner func(L *fakec.LState) string, label string) string {
	cb := cbByName[name]
	ctx := contract.VerifC20Context(int(L.Service))
	if ctx == nil {
		panic("no context in slot")
	}
	ro := r.ro()
	pre := snapshot(ctx, r.w)
	preOps := len(ctx.InternalOps())
	depth := len(r.pending)
	if inner != nil {
		r.pending = append(r.pending, inner)
	}
	out, pan := r.call(L, cb, args)
	r.pending = r.pending[:depth]
	post := snapshot(ctx, r.w)
	failed, msg := isErr(cb, out)
	if pan != "" {
		failed, msg = true, "panic: "+pan
		r.notes["panics"]++
	}
	st := step{Op: label, Pos: pos, RO: ro, Err: failed, Panic: pan, Changed: diff(pre, post), NV: ctx.NestedView(), Msg: msg}
	if traceOn {
		for _, o := range out {
			if p, ok := o.Interface().(*fakec.Char); ok {
				st.Msg += fmt.Sprintf(" | %q", fakec.GoString(p))
			} else if o.CanInt() {
				st.Msg += fmt.Sprintf(" | %d", o.Int())
			}
		}
	}
	r.steps = append(r.steps, st)
	if name == "luaGovernance" && (!failed || len(st.Changed) > 0) {
		r.w.vprDirty = true // the process-global voting power rank may have been updated
	}
	if ro {
		r.notes["ro_calls"]++
		if len(st.Changed) > 0 {
			r.violation("ro-mutation/"+name+"/"+strings.Join(st.Changed, "+"),
				fmt.Sprintf("%s changed %v in a read-only context (returned error: %v)", label, st.Changed, failed))
		}
		for _, o := range ctx.InternalOps()[preOps:] {
			if mutationOps[o.Op] && o.Result == "" && !o.Reverted {
				r.violation("ro-oplog/"+name+"/"+o.Op, fmt.Sprintf("%s recorded the internal operation %q without an error in a read-only context", label, o.Op))
			}
		}
		if r.query {
			for _, t := range contract.VerifSQLOpened {
				if !t.ReadOnly {
					r.violation("ro-sql/"+name, label+" opened a writable SQL transaction in a query")
				}
			}
		}
	}
	return msg
}

// probe is the body of a callee that tries to write: storage, event, transfer.
func (r *runner) probe(L *fakec.LState) string {
	set := cbByName["luaSetDB"]
	if m := r.raw(L, -1, "luaSetDB", idx(set, map[string]string{"key": "k9", "value": `"v2"`}), nil, "probe:luaSetDB(k9)"); m != "" {
		return m
	}
	if m := r.raw(L, -1, "luaEvent", idx(cbByName["luaEvent"], map[string]string{"name": "ev", "args": "[]"}), nil, "probe:luaEvent"); m != "" {
		return m
	}
	return r.raw(L, -1, "luaSendAmount", idx(cbByName["luaSendAmount"], map[string]string{"contractId": encU, "amount": "7"}), nil, "probe:luaSendAmount(U,7)")
}

// idx builds an argument tuple from shape texts.
func idx(cb *callback, want map[string]string) []int {
	t := make([]int, len(cb.params))
	for i, p := range cb.params {
		w, ok := want[p.name]
		if !ok || cb.shapes[i] == nil {
			continue
		}
		found := false
		for j, s := range cb.shapes[i] {
			if s == w {
				t[i], found = j, true
			}
		}
		if !found {
			panic("shape " + w + " not in the alphabet of " + cb.name + "." + p.name)
		}
	}
	return t
}

func (r *runner) proto(L *fakec.LState, name string, args []int, label string) ([]reflect.Value, string) {
	// protocol steps are made with explicit arguments; they are observed like any other call
	cb := cbByName[name]
	ctx := contract.VerifC20Context(int(L.Service))
	ro := r.ro()
	pre := snapshot(ctx, r.w)
	in := []reflect.Value{}
	ai := 0
	for _, p := range cb.params {
		switch {
		case p.typ == "*LState":
			in = append(in, reflect.ValueOf(L))
		case p.name == "service":
			in = append(in, reflect.ValueOf(L.Service))
		case p.typ == "C_int":
			in = append(in, reflect.ValueOf(fakec.Int(args[ai])))
			ai++
		case p.typ == "int":
			in = append(in, reflect.ValueOf(args[ai]))
			ai++
		case p.typ == "bool":
			in = append(in, reflect.ValueOf(args[ai] != 0))
			ai++
		}
	}
	out := cb.fn.Call(in)
	post := snapshot(ctx, r.w)
	failed, msg := isErr(cb, out)
	st := step{Op: label, Pos: -1, RO: ro, Err: failed, Changed: diff(pre, post), NV: ctx.NestedView()}
	r.steps = append(r.steps, st)
	// luaDropEvent / luaClearRecovery undo what the failed body did; inside a
	// read-only position there is nothing to undo, so they must not change anything either
	if ro && len(st.Changed) > 0 && name != "luaViewStart" && name != "luaViewEnd" {
		r.violation("ro-mutation/"+name+"/"+strings.Join(st.Changed, "+"), fmt.Sprintf("%s changed %v in a read-only context", label, st.Changed))
	}
	return out, msg
}

// pcall mirrors modulePcall of contract_module.c around one host call.
func (r *runner) pcall(L *fakec.LState, body func() string) string {
	out, _ := r.proto(L, "luaGetEventCount", nil, "pcall:luaGetEventCount")
	nev := int(out[0].Int())
	out, msg := r.proto(L, "luaSetRecoveryPoint", nil, "pcall:luaSetRecoveryPoint")
	seq := int(out[0].Int())
	if seq < 0 {
		return msg
	}
	if m := body(); m != "" {
		if L.HardFork >= 4 {
			r.proto(L, "luaDropEvent", []int{nev}, "pcall:luaDropEvent")
		}
		if seq > 0 {
			if _, m2 := r.proto(L, "luaClearRecovery", []int{seq, 1}, "pcall:luaClearRecovery(err)"); m2 != "" {
				return m2
			}
		}
		return "" // contract.pcall returns false, the program continues
	}
	if seq == 1 {
		if _, m2 := r.proto(L, "luaClearRecovery", []int{seq, 0}, "pcall:luaClearRecovery(ok)"); m2 != "" {
			return m2
		}
	}
	return ""
}

// runOps is the body that issues the case's host calls.
func (r *runner) runOps(L *fakec.LState, seq []op) string {
	for i, o := range seq {
		o, i := o, i
		var inner func(L *fakec.LState) string
		if o.Inner == 1 {
			inner = r.probe
		}
		one := func() string { return r.raw(L, i, o.CB, o.Args, inner, o.label()) }
		var m string
		if o.Pcall {
			m = r.pcall(L, one)
		} else {
			m = one()
		}
		if m != "" {
			return m // the C module raises a Lua error: the function is left
		}
	}
	return ""
}

func (r *runner) view(L *fakec.LState, depthLabel string, body func() string) string {
	base := contract.VerifC20Context(int(L.Service)).NestedView()
	r.proto(L, "luaViewStart", nil, "luaViewStart"+depthLabel)
	r.frames = append(r.frames, frame{ro: true})
	m := body()
	r.frames = r.frames[:len(r.frames)-1]
	r.proto(L, "luaViewEnd", nil, "luaViewEnd"+depthLabel)
	// luaCheckView is what db_module.c consults: it must be back where it was
	out := cbByName["luaCheckView"].fn.Call([]reflect.Value{reflect.ValueOf(L.Service)})
	if got := int32(out[0].Int()); got != base {
		r.violation("view-unbalanced", fmt.Sprintf("after a balanced luaViewStart/luaViewEnd pair luaCheckView reports %d, before the pair %d", got, base))
	}
	return m
}

func (r *runner) prelude(L *fakec.LState) string {
	set := cbByName["luaSetDB"]
	for _, s := range []struct {
		cb   string
		want map[string]string
	}{
		{"luaSetDB", map[string]string{"key": "k9", "value": ""}},
		{"luaEvent", map[string]string{"name": "ev", "args": "[]"}},
		{"luaSendAmount", map[string]string{"contractId": encU, "amount": "7"}},
	} {
		_ = set
		if m := r.raw(L, -1, s.cb, idx(cbByName[s.cb], s.want), nil, "prelude:"+s.cb); m != "" {
			return "prelude failed: " + m
		}
	}
	return ""
}

// callB makes A call function fn of contract B; the callee body is `inner`.
func (r *runner) callB(L *fakec.LState, fn string, inner func(L *fakec.LState) string) string {
	cb := cbByName["luaCallContract"]
	return r.raw(L, -1, "luaCallContract", idx(cb, map[string]string{"contractId": encB, "fname": fn, "args": "[]", "amount": ""}), inner, "A->B."+fn)
}

// ---------------------------------------------------------------------------
// context modes

type mode struct {
	name    string
	entry   string // exec | query | fd
	fn      string
	ro      bool   // every Seq op sits in a read-only position
	control string // the writable mode with the same program minus the read-only construct
	body    func(r *runner, L *fakec.LState, seq []op) string
}

var modes = []mode{
	{"W", "exec", "w", false, "", func(r *runner, L *fakec.LState, s []op) string { return r.runOps(L, s) }},
	{"WP", "exec", "w", false, "", func(r *runner, L *fakec.LState, s []op) string {
		if m := r.prelude(L); m != "" {
			return m
		}
		return r.runOps(L, s)
	}},
	{"WC", "exec", "w", false, "", func(r *runner, L *fakec.LState, s []op) string {
		return r.callB(L, "w", func(L2 *fakec.LState) string { return r.runOps(L2, s) })
	}},
	// after a view has ended the context is writable again: same observations as W
	{"W+", "exec", "w", false, "W", func(r *runner, L *fakec.LState, s []op) string {
		r.view(L, "", func() string { return "" })
		return r.runOps(L, s)
	}},
	{"Q", "query", "w", true, "W", func(r *runner, L *fakec.LState, s []op) string { return r.runOps(L, s) }},
	{"FD", "fd", "fd", true, "W", func(r *runner, L *fakec.LState, s []op) string { return r.runOps(L, s) }},
	{"V1", "exec", "v", true, "W", func(r *runner, L *fakec.LState, s []op) string { return r.runOps(L, s) }},
	{"VS1", "exec", "w", true, "WP", func(r *runner, L *fakec.LState, s []op) string {
		if m := r.prelude(L); m != "" {
			return m
		}
		return r.view(L, "", func() string { return r.runOps(L, s) })
	}},
	// inside an outer view, after an inner view has ended
	{"VS2", "exec", "w", true, "WP", func(r *runner, L *fakec.LState, s []op) string {
		if m := r.prelude(L); m != "" {
			return m
		}
		return r.view(L, "#1", func() string {
			r.view(L, "#2", func() string { return "" })
			return r.runOps(L, s)
		})
	}},
	// depth 2, then out again: a final write must succeed
	{"VS3", "exec", "w", true, "WP", func(r *runner, L *fakec.LState, s []op) string {
		if m := r.prelude(L); m != "" {
			return m
		}
		m := r.view(L, "#1", func() string { return r.view(L, "#2", func() string { return r.runOps(L, s) }) })
		if m2 := r.raw(L, -1, "luaSetDB", idx(cbByName["luaSetDB"], map[string]string{"key": "k1", "value": ""}), nil, "after-view:luaSetDB"); m2 != "" {
			r.violation("view-unbalanced", "a write after the outermost view ended was refused: "+m2)
		}
		return m
	}},
	{"VC", "exec", "v", true, "WC", func(r *runner, L *fakec.LState, s []op) string {
		return r.callB(L, "w", func(L2 *fakec.LState) string { return r.runOps(L2, s) })
	}},
	{"WV", "exec", "w", true, "WC", func(r *runner, L *fakec.LState, s []op) string {
		return r.callB(L, "v", func(L2 *fakec.LState) string { return r.runOps(L2, s) })
	}},
	{"QC", "query", "w", true, "WC", func(r *runner, L *fakec.LState, s []op) string {
		return r.callB(L, "w", func(L2 *fakec.LState) string { return r.runOps(L2, s) })
	}},
}

type result struct {
	steps   []step
	entryOK bool
	entryEr string
	rootEq  bool
	reached bool
}

func runMode(w *world, m mode, c caseT) (res result, viol, sigs []string, notes map[string]int) {
	bs := w.fresh()
	contract.VerifSQLReset()
	r := &runner{w: w, bs: bs, query: m.entry != "exec", notes: map[string]int{}, mode: m.name}
	top := func(L *fakec.LState) string {
		res.reached = true
		L.JSONRet = "true" // check_delegation answers true
		return m.body(r, L, c.Seq)
	}
	r.pending = []func(L *fakec.LState) string{top}
	fakec.Pcall = func(L *fakec.LState, nargs int) (int, string) {
		if len(r.pending) == 0 {
			return 0, ""
		}
		body := r.pending[len(r.pending)-1]
		r.pending = r.pending[:len(r.pending)-1]
		saved := r.pending
		r.pending = nil
		parentRO := r.ro()
		r.frames = append(r.frames, frame{ro: parentRO || viewFns[L.Fname]})
		msg := body(L)
		r.frames = r.frames[:len(r.frames)-1]
		r.pending = saved
		return 0, msg
	}
	cdb := &chainStub{w, c.Ver}
	bi := types.NewBlockHeaderInfo(cdb.block(execBlock))
	preState := bs.StateDB.VerifC20Digest()
	db.VerifJournalStart()
	defer db.VerifJournalStop()
	var err error
	func() {
		defer func() {
			if x := recover(); x != nil {
				err = fmt.Errorf("panic in entry point: %v", x)
				r.notes["panics"]++
			}
		}()
		switch m.entry {
		case "exec":
			sender, e := state.GetAccountState(addrU, bs.StateDB)
			must(e)
			receiver, e := state.GetAccountState(addrA, bs.StateDB)
			must(e)
			tx := &types.Tx{Hash: bytes.Repeat([]byte{5}, 32), Body: &types.TxBody{Nonce: 1, Account: addrU, Recipient: addrA,
				Amount: nil, Payload: []byte(`{"Name":"` + m.fn + `","Args":[]}`), GasLimit: 0, Type: types.TxType_CALL}}
			_, _, _, _, err = contract.Execute(context.Background(), bs, cdb, tx, sender, receiver, bi, contract.ChainService, false)
			if err == nil {
				must(sender.PutState())
				must(receiver.PutState())
			}
		case "query":
			cs, e := statedb.OpenContractStateAccount(addrA, bs.StateDB)
			must(e)
			_, err = contract.Query(addrA, bs, cdb, cs, []byte(`{"Name":"`+m.fn+`","Args":[]}`))
		case "fd":
			cs, e := statedb.OpenContractStateAccount(addrA, bs.StateDB)
			must(e)
			err = contract.CheckFeeDelegation(addrA, bs, bi, cdb, cs, []byte(`{"Name":"`+m.fn+`","Args":[]}`),
				bytes.Repeat([]byte{5}, 32), addrU, nil)
		}
	}()
	fakec.Pcall = nil
	res.steps = r.steps
	res.entryOK = err == nil
	if err != nil {
		res.entryEr = err.Error()
	}
	// the entry point as a whole: a query / fee delegation check leaves the block
	// state, the store and hence the state root untouched
	if m.entry != "exec" {
		if d := bs.StateDB.VerifC20Digest(); d != preState {
			r.violation("ro-entry/"+m.entry+"/blockstate", "the "+m.entry+" entry point returned with a modified block state")
		}
		if db.VerifJournalLen() != 0 {
			r.violation("ro-entry/"+m.entry+"/store", "the "+m.entry+" entry point wrote to the state store")
		}
	}
	if m.ro && (m.fn == "v" || m.entry != "exec") {
		// no writable position at all in these modes. Every account record the
		// execution wrote back must equal the committed one (an account that does
		// not exist counts as the empty record) ...
		committed := statedb.NewStateDB(w.store, w.root0, false)
		var bad []string
		for aid, enc := range bs.StateDB.VerifC20Puts() {
			old, e := committed.GetAccountState(aid)
			must(e)
			oenc, _ := proto.Encode(old)
			if !bytes.Equal(enc, oenc) {
				nm := aid.String()
				if n, ok := actorName[fmt.Sprintf("%x", aid[:6])]; ok {
					nm = n
				}
				bad = append(bad, nm)
			}
		}
		if len(bad) > 0 {
			sort.Strings(bad)
			r.violation("ro-account/"+m.name, fmt.Sprintf("accounts %v were written back with a different state after a read-only execution", bad))
		}
		must(bs.Update())
		res.rootEq = bytes.Equal(bs.GetRoot(), w.root0)
		if !res.rootEq {
			if m.entry != "exec" {
				// ... and a query / fee delegation check must not move the root at all
				r.violation("ro-root/"+m.name, "the state root changed over a read-only execution")
			} else {
				// a view function run by a transaction: looking at an account that does
				// not exist writes back an empty record for it, which adds a trie leaf
				r.notes["view_tx_root_moved_only_by_materialised_empty_accounts"]++
			}
		}
	}
	return res, r.viol, r.sigs, r.notes
}

// seqSteps returns the step of each Seq position (nil if that op did not run).
func seqSteps(res result, n int) []*step {
	out := make([]*step, n)
	for i := range res.steps {
		if p := res.steps[i].Pos; p >= 0 && p < n {
			out[p] = &res.steps[i]
		}
	}
	return out
}

func stateChanged(s *step) bool { return s != nil && len(s.Changed) > 0 }

type caseStats struct {
	mutatingIn map[string]bool // control mode -> the first op changed state there
	refusedIn  map[string]bool // read-only mode -> that op was refused there
	roCalls    int
}

// doCase runs one case in every mode and evaluates the cross-mode rules.
func doCase(w *world, c caseT) (viol, sigs []string, st caseStats, notes map[string]int) {
	notes = map[string]int{}
	st.refusedIn = map[string]bool{}
	st.mutatingIn = map[string]bool{}
	results := map[string]result{}
	for _, m := range modes {
		res, v, s, n := runMode(w, m, c)
		results[m.name] = res
		if os.Getenv("C20_TRACE") != "" {
			fmt.Fprintf(os.Stderr, "--- mode %s entry error %q\n", m.name, res.entryEr)
			for _, s := range res.steps {
				fmt.Fprintf(os.Stderr, "    %-40s ro=%-5v nv=%d err=%-5v changed=%v %s\n", s.Op, s.RO, s.NV, s.Err, s.Changed, s.Msg)
			}
		}
		viol = append(viol, v...)
		sigs = append(sigs, s...)
		for k, x := range n {
			notes[k] += x
		}
		if !res.reached {
			viol = append(viol, "mode "+m.name+": the program body was never reached: "+res.entryEr)
			sigs = append(sigs, "harness/unreached/"+m.name)
		}
	}
	n := len(c.Seq)
	for _, m := range modes {
		if m.control == "" {
			continue
		}
		ctl := seqSteps(results[m.control], n)
		got := seqSteps(results[m.name], n)
		for i := 0; i < n; i++ {
			aligned := true
			for j := 0; j < i; j++ {
				if stateChanged(ctl[j]) {
					aligned = false
				}
			}
			if ctl[i] == nil || got[i] == nil || !aligned {
				continue
			}
			if m.ro {
				if i == 0 && stateChanged(ctl[0]) {
					st.mutatingIn[m.control] = true
				}
				if stateChanged(ctl[i]) {
					if got[i].Err {
						if i == 0 {
							st.refusedIn[m.name] = true
						}
					} else {
						viol = append(viol, fmt.Sprintf("mode %s: %s changed %v in the writable control %s but was not refused with an error in the read-only context",
							m.name, got[i].Op, ctl[i].Changed, m.control))
						sigs = append(sigs, "ro-not-refused/"+c.Seq[i].CB)
					}
				}
			} else {
				// W+ : identical observations to W
				if ctl[i].Err != got[i].Err || stateChanged(ctl[i]) != stateChanged(got[i]) {
					viol = append(viol, fmt.Sprintf("mode %s: after a view ended %s behaves differently from the plain writable context (error %v vs %v, changed %v vs %v)",
						m.name, got[i].Op, got[i].Err, ctl[i].Err, got[i].Changed, ctl[i].Changed))
					sigs = append(sigs, "view-unbalanced")
				}
			}
		}
	}
	st.roCalls = notes["ro_calls"]
	return
}

// ---------------------------------------------------------------------------

func versions(tier string) []int32 {
	if tier == "thorough" {
		return []int32{4, 2, 3, 5}
	}
	return []int32{4}
}

func run(ctx *xplor.Ctx) {
	if pf := os.Getenv("C20_PROF"); pf != "" {
		f, _ := os.Create(pf)
		pprof.StartCPUProfile(f)
		defer pprof.StopCPUProfile()
	}
	contract.InitContext(8, true)
	loadCallbacks()
	fakec.RegisterSource(contract.VerifC20MulticallSource(),
		[]byte(`{"version":"0.2","language":"lua","functions":[{"name":"execute","payable":true}]}`), "multicall")
	worlds := map[int32]*world{}
	getWorld := func(v int32) *world {
		if worlds[v] == nil {
			worlds[v] = buildWorld(fmt.Sprintf("c20-%d-%d", ctx.Shard, v), v)
		}
		return worlds[v]
	}
	defer func() {
		for _, w := range worlds {
			db.VerifDrop(w.name)
		}
	}()
	eval := func(c caseT) {
		w := getWorld(c.Ver)
		viol, sigs, st, notes := doCase(w, c)
		ctx.Eval(int64(len(modes)))
		ctx.Trace(int64(len(modes)))
		ctx.Count("host_calls_in_read_only_positions", int64(st.roCalls))
		for k, n := range notes {
			if k != "ro_calls" {
				ctx.Count(k, int64(n))
			}
		}
		if len(c.Seq) == 1 && !c.Seq[0].Pcall {
			ctx.Count("single_call_cases", 1)
			for _, m := range modes {
				if m.control == "" && st.mutatingIn[m.name] {
					ctx.Count("mutating_pairs_in_control_"+m.name, 1)
					if m.name == "W" {
						ctx.Count("mutating_in_W/"+c.Seq[0].CB, 1)
					}
				}
				if m.ro && st.refusedIn[m.name] {
					ctx.Count("mutating_pairs_refused_in_"+m.name+"_(control_"+m.control+")", 1)
				}
			}
		}
		if len(viol) > 0 {
			// one violation per distinct signature of the case
			seen := map[string]bool{}
			for i, s := range sigs {
				if seen[s] {
					continue
				}
				seen[s] = true
				var l []string
				for _, o := range c.Seq {
					l = append(l, o.label())
				}
				ctx.Violation(s, fmt.Sprintf("fork version %d, program [%s]: %s", c.Ver, strings.Join(l, "; "), viol[i]), c)
			}
			return
		}
		if st.roCalls > 0 {
			ctx.Distinct(xplor.Hash(contract.VerifC20JSON(c)))
		}
	}
	if ctx.Replay != nil {
		var sr slotReplay
		if json.Unmarshal(ctx.Replay, &sr) == nil && sr.Part == "slots" {
			slotsReplay(ctx, sr)
			return
		}
		var c caseT
		must(json.Unmarshal(ctx.Replay, &c))
		eval(c)
		return
	}
	if ctx.Shard == ctx.NShards-1 {
		// the slot table is a package global: explored first, then re-initialised for the cases below
		slotsPart(ctx)
		contract.VerifC20SlotSet(8, contract.VerifC20ChainServiceSlot(), nil)
	}

	// coverage of the host API
	if ctx.Shard == 0 {
		var undriven []string
		nd, np := 0, 0
		for _, cb := range cbs {
			switch {
			case !cb.driven:
				undriven = append(undriven, cb.name+" ("+cb.why+")")
			case protocolOnly[cb.name] != "":
				np++
			default:
				nd++
			}
		}
		ctx.Count("exported_callbacks", int64(len(cbs)))
		ctx.Count("callbacks_driven_with_argument_alphabets", int64(nd))
		ctx.Count("callbacks_driven_by_protocol_bracket", int64(np))
		ctx.Count("callbacks_not_driven", int64(len(undriven)))
		ctx.Count("context_modes_read_only", 9)
		ctx.Count("context_modes_writable_control", 4)
		if len(undriven) > 0 {
			ctx.Incomplete("exported callbacks without a driver: " + strings.Join(undriven, "; "))
		}
	}

	full, small := 0, 1
	if ctx.Tier == "thorough" {
		small = 2
	}
	n := 0
	for _, ver := range versions(ctx.Tier) {
		singles := allOps(full)
		// 1. every (callback, argument tuple), raw and under pcall
		for _, o := range singles {
			for _, pc := range []bool{false, true} {
				if n++; !ctx.Mine(n) || ctx.Expired() {
					continue
				}
				o2 := o
				o2.Pcall = pc
				eval(caseT{ver, []op{o2}})
			}
		}
		// 2. sequences of two: first op under pcall (so that the second runs
		// whatever the first returned), over the reduced alphabets
		red := allOps(small)
		first := allOps(small)
		for _, a := range first {
			for _, b := range red {
				if n++; !ctx.Mine(n) || ctx.Expired() {
					continue
				}
				a2 := a
				a2.Pcall = true
				eval(caseT{ver, []op{a2, b}})
			}
		}
		// 3. every (callback, argument tuple) under pcall, followed by one canonical write: whatever a
		// host call did or refused, the context must still refuse writes afterwards
		after := []op{
			{CB: "luaSetDB", Args: idx(cbByName["luaSetDB"], map[string]string{"key": "k9", "value": `"v2"`})},
			{CB: "luaEvent", Args: idx(cbByName["luaEvent"], map[string]string{"name": "ev", "args": "[]"})},
			{CB: "luaSendAmount", Args: idx(cbByName["luaSendAmount"], map[string]string{"contractId": encU, "amount": "7"})},
		}
		for _, a := range singles {
			for _, b := range after {
				if n++; !ctx.Mine(n) || ctx.Expired() {
					continue
				}
				a2 := a
				a2.Pcall = true
				eval(caseT{ver, []op{a2, b}})
			}
		}
		if ctx.Shard == 0 {
			ctx.Count(fmt.Sprintf("v%d_single_then_write_cases", ver), int64(len(singles)*len(after)))
			ctx.Count(fmt.Sprintf("v%d_single_ops", ver), int64(len(singles)))
			ctx.Count(fmt.Sprintf("v%d_pair_first_ops", ver), int64(len(first)))
			ctx.Count(fmt.Sprintf("v%d_pair_second_ops", ver), int64(len(red)))
		}
	}
	if ctx.Shard == 0 {
		o := op{CB: "luaSetDB", Args: idx(cbByName["luaSetDB"], map[string]string{"key": "k1", "value": `"v2"`})}
		ctx.Sample(map[string]interface{}{"case": caseT{4, []op{o}}, "program": o.label(),
			"modes": "W WP WC W+ | Q FD V1 VS1 VS2 VS3 VC WV QC", "what": "the call is issued from inside the fake vm_pcall in each mode; digest of all reachable state before/after"})
	}
	_ = unsafe.Pointer(nil)
}

func main() {
	xplor.Main(xplor.Check{
		ID:    "C20",
		Level: "exploration",
		Rule: "The Go host API of package contract (vm.go, vm_callback.go, vm_state.go, internal_operations.go, hook.go, contract.go compiled from the repo text with cgo's C bound to a pure-Go fake) is executed; a contract program is a list of host calls issued from inside the fake vm_pcall. " +
			"Context slots: every state of the slot table (3..6 slots) reachable by query alloc / free and transaction start / end in the chain-service slot, explored to a fixpoint with the real allocContextSlot / freeContextSlot: a query never gets a slot of transaction execution or an occupied one. Cases: every exported callback (table regenerated from the //export comments at build time) x every tuple of its per-parameter argument alphabets, raw and under the contract.pcall bracket, plus all ordered pairs over the alphabets cut to their first shapes (first call under pcall), plus every (callback, tuple) under pcall followed by one of three canonical writes (storage, event, transfer). Calls that start another executor are run with an empty callee and with a callee that tries to write (storage, event, transfer). " +
			"Each case runs in 13 context modes on a fresh real state DB (two deployed contracts, user, staked system account): writable controls W, WP (after writes), WC (nested call), W+ (after a view ended); read-only: Q (contract.Query), FD (contract.CheckFeeDelegation), V1 (ABI view function via contract.Execute), VS1/VS2/VS3 (luaViewStart/luaViewEnd depth 1, after an inner view ended, depth 2), VC (view calls other contract), WV (writable calls a view of another contract), QC (query calls other contract). " +
			"Oracle after every host call in a read-only position: account states, contract storages (buffer + trie root), block-state buffers, staged storages, raw store, event list unchanged (deep digest before/after); no mutation-denoting internal operation recorded without error; no writable SQL transaction in a query; Query/CheckFeeDelegation return with untouched block state and store; state root unchanged over fully read-only executions; a call that changed state in the aligned control run must return an error in the read-only run; view brackets are balanced (luaCheckView) and W+ observes what W observes. distinct_nontrivial = cases in which at least one host call ran in a read-only position and all rules held.",
		Assumptions: []string{
			"the C side is not executed: the Lua interpreter, vm.c (view wrapper, pcall), the Lua modules that translate a returned error string into a Lua error, and db_module.c (SQL write guards) are replaced by the harness driver, which follows their protocol (error => the function is left; pcall bracket as in contract_module.c; view bracket as in vm.c)",
			"callbacks reachable only through those C protocols (luaViewStart/End, luaSetRecoveryPoint, luaClearRecovery, luaDropEvent, luaGetEventCount) are driven only with the arguments the C code passes",
			"the SQL engine is a recording stub: only the choice read-only / writable transaction of the Go side is observed",
		},
		Shards: func(tier string) int {
			if tier == "thorough" {
				return 64
			}
			return 32
		},
		Budget: func(tier string) time.Duration {
			if tier == "thorough" {
				return 25 * time.Minute
			}
			return 3 * time.Minute
		},
		Run: run,
	})
}
