package main

import (
	"fmt"

	"github.com/aergoio/aergo/v2/contract"
	"github.com/aergoio/aergo/v2/verif_h/xplor"
)

// Context slots. Every host callback finds its guards (isQuery, nestedView) through the context
// registered in the slot whose number the Lua state carries. Slots 0 and 1 belong to the block
// factory and the chain service: Call/Create overwrite them for every transaction. A query that was
// given one of them would run with the transaction's writable context. slotsPart explores, to a
// fixpoint, every state of the slot table that alloc / free of queries and start / end of a
// transaction in the chain-service slot can reach (tables of 3..6 slots), with the real
// allocContextSlot / freeContextSlot as transition function, and checks after every allocation that
// the slot is a query slot, was free, and that nothing else changed.

type slotState struct {
	n, last int
	occ     []bool
}

func (s slotState) key() string { return fmt.Sprint(s.n, s.last, s.occ) }

type slotReplay struct {
	Part string   `json:"part"`
	N    int      `json:"n"`
	Ops  []string `json:"ops"`
}

func slotStep(s slotState, op string) (slotState, string, bool) {
	cs := contract.VerifC20ChainServiceSlot()
	contract.VerifC20SlotSet(s.n, s.last, s.occ)
	switch {
	case op == "alloc":
		free := false
		for i := cs + 1; i < s.n; i++ {
			if !s.occ[i] {
				free = true
			}
		}
		if !free {
			return s, "", false // the real function waits for a free slot
		}
		got := contract.VerifC20SlotAlloc()
		last, occ := contract.VerifC20SlotGet()
		if got <= cs || got >= s.n {
			return s, fmt.Sprintf("a query context was registered in slot %d; slots 0..%d belong to transaction execution (table of %d)", got, cs, s.n), true
		}
		if s.occ[got] {
			return s, fmt.Sprintf("a query context was registered in slot %d, which was occupied", got), true
		}
		for i := range occ {
			if i != got && occ[i] != s.occ[i] {
				return s, fmt.Sprintf("allocating slot %d changed slot %d", got, i), true
			}
		}
		return slotState{s.n, last, occ}, "", true
	case op == "tx-start":
		if s.occ[cs] {
			return s, "", false
		}
		occ := append([]bool{}, s.occ...)
		occ[cs] = true
		return slotState{s.n, s.last, occ}, "", true
	case op == "tx-end":
		if !s.occ[cs] {
			return s, "", false
		}
		occ := append([]bool{}, s.occ...)
		occ[cs] = false
		return slotState{s.n, s.last, occ}, "", true
	default: // free-<i>
		var i int
		fmt.Sscanf(op, "free-%d", &i)
		if i <= cs || i >= s.n || !s.occ[i] {
			return s, "", false
		}
		contract.VerifC20SlotFree(i)
		last, occ := contract.VerifC20SlotGet()
		for j := range occ {
			want := s.occ[j] && j != i
			if occ[j] != want {
				return s, fmt.Sprintf("freeing slot %d left slot %d occupied=%v", i, j, occ[j]), true
			}
		}
		return slotState{s.n, last, occ}, "", true
	}
}

func slotOps(n int) []string {
	ops := []string{"alloc", "tx-start", "tx-end"}
	for i := 2; i < n; i++ {
		ops = append(ops, fmt.Sprintf("free-%d", i))
	}
	return ops
}

func slotsPart(ctx *xplor.Ctx) {
	cs := contract.VerifC20ChainServiceSlot()
	for n := 3; n <= 6; n++ {
		init := slotState{n, cs, make([]bool, n)}
		seen := map[string][]string{init.key(): nil}
		queue := []slotState{init}
		for len(queue) > 0 {
			s := queue[0]
			queue = queue[1:]
			path := seen[s.key()]
			for _, op := range slotOps(n) {
				t, msg, enabled := slotStep(s, op)
				if !enabled {
					continue
				}
				ctx.Eval(1)
				ctx.Count("slot_table_transitions", 1)
				p2 := append(append([]string{}, path...), op)
				if msg != "" {
					ctx.Violation("slot-alias", fmt.Sprintf("context slot table of %d slots, after %v: %s", n, p2, msg), slotReplay{"slots", n, p2})
					continue
				}
				if _, ok := seen[t.key()]; !ok {
					seen[t.key()] = p2
					queue = append(queue, t)
					ctx.Count("slot_table_states", 1)
				}
			}
		}
	}
}

func slotsReplay(ctx *xplor.Ctx, r slotReplay) {
	cs := contract.VerifC20ChainServiceSlot()
	s := slotState{r.N, cs, make([]bool, r.N)}
	for i, op := range r.Ops {
		t, msg, enabled := slotStep(s, op)
		if !enabled {
			panic("replay: step not enabled")
		}
		if msg != "" {
			ctx.Violation("slot-alias", fmt.Sprintf("context slot table of %d slots, after %v: %s", r.N, r.Ops[:i+1], msg), r)
			return
		}
		s = t
	}
}
