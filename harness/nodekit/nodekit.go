// Package nodekit is the single-node harness shared by the chain-level checks
// (C01..C08, C14): a real chain.ChainService + real dpos consensus object on
// in-memory journaling stores ("verifdb"), deterministic keys, a block builder
// that uses the real block-production path (consensus/chain.BlockGenerator +
// chain.NewTxExecutor) and the real validation path (ChainService.addBlock),
// a recording component hub, and a full-state dump.
//
// Process-wide globals of aergo (chain.pubNet, chain.CoinbaseAccount, fee.zeroFee,
// system params, voting-power rank, dpos.bsLoader, slot interval) are owned as
// follows: one Net (chain id / fork heights / coinbase) per worker process; when a
// harness alternates between several live nodes it calls Node.Focus() before
// driving a node, which re-initialises the state-derived globals from that node's
// state exactly as NewChainService / Status.Update(rollback) do.
package nodekit

import (
	"context"
	"crypto/sha256"
	"encoding/json"
	"fmt"
	"math/big"
	"os"
	"path/filepath"
	"sort"
	"strings"
	"sync"
	"time"

	"github.com/aergoio/aergo-actor/actor"
	"github.com/aergoio/aergo-lib/db"
	"github.com/aergoio/aergo/v2/account/key"
	"github.com/aergoio/aergo/v2/chain"
	"github.com/aergoio/aergo/v2/config"
	cchain "github.com/aergoio/aergo/v2/consensus/chain"
	"github.com/aergoio/aergo/v2/consensus/impl/dpos"
	"github.com/aergoio/aergo/v2/contract"
	"github.com/aergoio/aergo/v2/contract/system"
	"github.com/aergoio/aergo/v2/fee"
	"github.com/aergoio/aergo/v2/internal/enc/base58"
	encproto "github.com/aergoio/aergo/v2/internal/enc/proto"
	"github.com/aergoio/aergo/v2/pkg/component"
	"github.com/aergoio/aergo/v2/state"
	"github.com/aergoio/aergo/v2/state/statedb"
	"github.com/aergoio/aergo/v2/types"
	"github.com/aergoio/aergo/v2/types/message"
	"github.com/btcsuite/btcd/btcec/v2"
	"github.com/btcsuite/btcd/btcec/v2/ecdsa"
	"github.com/libp2p/go-libp2p/core/crypto"
)

// ---------------------------------------------------------------- keys

const NUsers = 5 // A, B, C, D + CB (coinbase)

var (
	UserKeys  [NUsers]*btcec.PrivateKey
	UserAddrs [NUsers][]byte
	BPKeys    [4]crypto.PrivKey
	BPIDs     [4]types.PeerID
	UserNames = [NUsers]string{"A", "B", "C", "D", "CB"}
)

func init() {
	for i := 0; i < NUsers; i++ {
		h := sha256.Sum256([]byte(fmt.Sprintf("verif-user-%d", i)))
		k, pub := btcec.PrivKeyFromBytes(h[:])
		UserKeys[i] = k
		UserAddrs[i] = pub.SerializeCompressed()
	}
	for i := 0; i < 4; i++ {
		h := sha256.Sum256([]byte(fmt.Sprintf("verif-bp-%d", i)))
		k, err := crypto.UnmarshalSecp256k1PrivateKey(h[:])
		if err != nil {
			panic(err)
		}
		BPKeys[i] = k
		id, err := types.IDFromPrivateKey(k)
		if err != nil {
			panic(err)
		}
		BPIDs[i] = id
	}
}

// AddrName renders an address for messages.
func AddrName(a []byte) string {
	for i := range UserAddrs {
		if string(UserAddrs[i]) == string(a) {
			return UserNames[i]
		}
	}
	if types.IsSpecialAccount(a) || len(a) <= types.NameLength {
		return string(a)
	}
	return types.EncodeAddress(a)[:10]
}

// ---------------------------------------------------------------- network configuration

// Net is the process-wide network configuration.
type Net struct {
	Public   bool      // public net: fees are charged; private: zero fee
	NBP      int       // number of genesis block producers (1..4)
	Fork     [4]uint64 // hardfork heights V2..V5
	Coinbase bool      // producers credit fees to the CB account; false: fees are burnt
	Vault    string    // genesis balance of aergo.vault ("" = none)
	Balance  string    // genesis balance of every user account A..D
}

func (n Net) String() string {
	return fmt.Sprintf("public=%v nbp=%d fork=%v coinbase=%v vault=%q", n.Public, n.NBP, n.Fork, n.Coinbase, n.Vault)
}

// DefaultNet: public chain, all forks enabled from genesis.
func DefaultNet() Net {
	return Net{Public: true, NBP: 3, Balance: "100000000000000000000000", Coinbase: true}
}

// NetForVersion returns a net whose every block from 1 on runs fork version v (0,2,3,4,5).
func NetForVersion(v int, public bool) Net {
	n := DefaultNet()
	n.Public = public
	const never = uint64(1) << 40
	for i := range n.Fork {
		if i+2 <= v {
			n.Fork[i] = 0
		} else {
			n.Fork[i] = never
		}
	}
	return n
}

const (
	GenesisTs = int64(1600000000) * int64(time.Second)
	// slot 0 of the harness' time line (a slot index; 1 s slots)
	Slot0 = int64(1600000100)
)

func (n Net) genesis() *types.Genesis {
	g := &types.Genesis{
		ID: types.ChainID{
			Version:   0,
			PublicNet: n.Public,
			MainNet:   false,
			Magic:     "verif.chain",
			Consensus: "dpos",
		},
		Timestamp: GenesisTs,
		Balance:   map[string]string{},
	}
	for i := 0; i < 4; i++ {
		g.Balance[types.EncodeAddress(UserAddrs[i])] = n.Balance
	}
	if n.Vault != "" {
		g.Balance[types.AergoVault] = n.Vault
	}
	for i := 0; i < n.NBP; i++ {
		g.BPs = append(g.BPs, types.IDB58Encode(BPIDs[i]))
	}
	return g
}

func (n Net) hardfork() *config.HardforkConfig {
	return &config.HardforkConfig{V2: n.Fork[0], V3: n.Fork[1], V4: n.Fork[2], V5: n.Fork[3]}
}

// ---------------------------------------------------------------- recording hub

// Msg is one message a node sent to another component.
type Msg struct {
	To   string
	Kind string // MemPoolDel | MemPoolPut | NotifyNewBlock | SyncStart | other type name
	Ref  string // block id / tx id
	Obj  interface{} `json:"-"` // the message itself
}

type recorder struct {
	name string
	hub  *component.ComponentHub
	mu   *sync.Mutex
	log  *[]Msg
}

func (r *recorder) GetName() string                  { return r.name }
func (r *recorder) Start()                           {}
func (r *recorder) Stop()                            {}
func (r *recorder) Status() component.Status         { return component.StartedStatus }
func (r *recorder) SetHub(h *component.ComponentHub) { r.hub = h }
func (r *recorder) Hub() *component.ComponentHub     { return r.hub }
func (r *recorder) MsgQueueLen() int32               { return 0 }
func (r *recorder) Receive(actor.Context)            {}
func (r *recorder) Tell(m interface{})               { r.rec(m) }
func (r *recorder) Request(m interface{}, _ *actor.PID) {
	r.rec(m)
}
func (r *recorder) RequestFuture(m interface{}, timeout time.Duration, tip string) *actor.Future {
	r.rec(m)
	f := actor.NewFuture(timeout)
	f.PID().Tell(component.ErrHubUnregistered)
	return f
}
func (r *recorder) rec(m interface{}) {
	r.mu.Lock()
	defer r.mu.Unlock()
	x := Msg{To: r.name, Obj: m}
	switch v := m.(type) {
	case *message.MemPoolDel:
		x.Kind, x.Ref = "MemPoolDel", v.Block.ID()
	case *message.MemPoolPut:
		x.Kind, x.Ref = "MemPoolPut", base58.Encode(v.Tx.GetHash())
	case *message.NotifyNewBlock:
		x.Kind, x.Ref = "NotifyNewBlock", v.Block.ID()
	case *message.SyncStart:
		x.Kind, x.Ref = "SyncStart", fmt.Sprint(v.TargetNo)
	case *types.Block:
		x.Kind, x.Ref = "Block", v.ID()
	default:
		x.Kind = fmt.Sprintf("%T", m)
	}
	*r.log = append(*r.log, x)
}

// ---------------------------------------------------------------- node

type Node struct {
	Net  Net
	Dir  string
	CS   *chain.ChainService
	DPoS *dpos.DPoS
	Cfg  *config.Config

	mu   sync.Mutex
	msgs []Msg
}

// bpKeyAt[i] = key of the producer that has index i in the producer cluster
// (the genesis BP list is re-ordered by system.BuildOrderedCandidates).
var bpKeyAt []crypto.PrivKey

func (n *Node) initBPOrder() {
	bpKeyAt = nil
	for _, s := range n.CS.GetGenesisInfo().BPs {
		for i := range BPIDs {
			if types.IDB58Encode(BPIDs[i]) == s {
				bpKeyAt = append(bpKeyAt, BPKeys[i])
			}
		}
	}
	if len(bpKeyAt) != n.Net.NBP {
		panic("nodekit: cannot map genesis BPs to keys")
	}
}

// BPKeyAt returns the signing key of the producer with cluster index p.
func BPKeyAt(p int) crypto.PrivKey { return bpKeyAt[p] }

var (
	baseDir  string
	baseOnce sync.Once
	curNet   *Net
	focused  *Node
)

// BaseDir is a per-process scratch directory (only empty directories are ever
// created in it: verifdb keeps the data in memory, keyed by path).
func BaseDir() string {
	baseOnce.Do(func() {
		d, err := os.MkdirTemp("", "nodekit-")
		if err != nil {
			panic(err)
		}
		baseDir = d
	})
	return baseDir
}

// Cleanup removes the scratch directory and drops every store.
func Cleanup() {
	if baseDir != "" {
		os.RemoveAll(baseDir)
	}
	db.VerifReset()
}

// NewNode starts a node on the stores named `name` (creating the genesis block
// when the stores are empty, otherwise re-opening them: a restart), runs the
// same start-up sequence as aergosvr (NewChainService, consensus, Recover).
// It returns the error of Recover().
func NewNode(net Net, name string) (*Node, error) {
	if curNet != nil && *curNet != net {
		panic("nodekit: one Net per process (globals): " + curNet.String() + " vs " + net.String())
	}
	nn := net
	curNet = &nn
	dir := filepath.Join(BaseDir(), name)

	// genesis on empty stores
	if len(db.VerifSnapshot(filepath.Join(dir, "chain"))) == 0 {
		core, err := chain.NewCore("verifdb", dir, false, 0, &config.DBConfig{})
		if err != nil {
			return nil, fmt.Errorf("NewCore: %v", err)
		}
		if err := core.InitGenesisBlock(net.genesis(), false); err != nil {
			return nil, fmt.Errorf("InitGenesisBlock: %v", err)
		}
	}

	sctx := config.NewServerContext("", "")
	cfg := sctx.GetDefaultConfig().(*config.Config)
	cfg.DbType = "verifdb"
	cfg.DataDir = dir
	cfg.UseTestnet = true
	cfg.EnableTestmode = false
	cfg.Hardfork = net.hardfork()
	cfg.Consensus.EnableBp = true
	cfg.Blockchain.CoinbaseAccount = ""
	cfg.Blockchain.NumWorkers = 1
	cfg.Blockchain.VerifierCount = 1
	if net.Coinbase {
		cfg.Blockchain.CoinbaseAccount = types.EncodeAddress(UserAddrs[4])
	}

	n := &Node{Net: net, Dir: dir, Cfg: cfg}
	if !net.Public {
		fee.EnableZeroFee()
	} else {
		fee.DisableZeroFee()
	}
	if !net.Coinbase {
		chain.CoinbaseAccount = nil
	}
	cs := chain.NewChainService(cfg)
	n.CS = cs
	cs.VerifSkipMempool(true)

	// recording hub
	hub := component.NewComponentHub()
	for _, nm := range []string{message.MemPoolSvc, message.P2PSvc, message.SyncerSvc, message.RPCSvc} {
		hub.Register(&recorder{name: nm, mu: &n.mu, log: &n.msgs})
	}
	cs.SetHub(hub)

	d, err := dpos.VerifNew(cs.CDB(), cs.SDB(), "")
	if err != nil {
		return nil, fmt.Errorf("dpos: %v", err)
	}
	n.DPoS = d
	cs.SetChainConsensus(d)
	n.initBPOrder()
	focused = n
	if err := cs.Recover(); err != nil {
		return n, err
	}
	return n, nil
}

// Focus re-initialises the state-derived process globals (system parameters,
// voting power rank, zero-fee switch) from this node's current state. Call it
// before driving a node when another node was driven since.
func (n *Node) Focus() {
	if focused == n {
		return
	}
	focused = n
	n.DPoS.VerifFocus()
	sdb := n.CS.SDB().GetStateDB()
	scs, err := statedb.GetSystemAccountState(sdb)
	if err != nil {
		panic(err)
	}
	system.InitSystemParams(scs, len(n.CS.GetGenesisInfo().BPs))
	if err := system.InitVotingPowerRank(scs); err != nil {
		panic(err)
	}
}

// Stop ends the node's actors. The stores stay (for a restart with NewNode).
func (n *Node) Stop() {
	n.CS.VerifStop()
	if n.DPoS != nil {
		n.DPoS.VerifForget()
	}
	if focused == n {
		focused = nil
	}
}

// Drop forgets the node's stores.
func (n *Node) Drop() {
	db.VerifDrop(n.Dir)
	os.RemoveAll(n.Dir)
}

// Hub returns the node's recording component hub.
func (n *Node) Hub() *component.ComponentHub { return n.CS.Hub() }

// TakeMsgs returns and clears the recorded outgoing messages.
func (n *Node) TakeMsgs() []Msg {
	n.mu.Lock()
	defer n.mu.Unlock()
	m := n.msgs
	n.msgs = nil
	return m
}

func (n *Node) Best() *types.Block {
	b, _ := n.CS.GetBestBlock()
	return b
}

func (n *Node) Genesis() *types.Block {
	b, _ := n.CS.VerifGetBlockByNo(0)
	return b
}

// ---------------------------------------------------------------- transactions

// TxSpec describes a transaction to build.
type TxSpec struct {
	From      int    // user index
	Nonce     uint64 // absolute nonce
	To        []byte // recipient (nil for deploy)
	Amount    *big.Int
	Type      types.TxType
	Payload   []byte
	GasLimit  uint64
	SignWith  int    // user index whose key signs (default From); -1: garbage signature
	ChainID   []byte // chain id hash override (nil = the right one)
	AccountAs []byte // override Account field (e.g. a name)
}

// ChainIDHash of a block header info / the best block.
func (n *Node) ChainIDHashFor(no types.BlockNo) []byte {
	best := n.Best()
	bi := types.NewBlockHeaderInfoFromPrevBlock(best, 0, n.Cfg.Hardfork)
	_ = no
	return bi.ChainIdHash()
}

// MakeTx builds and signs a transaction. cidHash is the chain id hash the tx binds to.
func MakeTx(s TxSpec, cidHash []byte) *types.Tx {
	amt := s.Amount
	if amt == nil {
		amt = new(big.Int)
	}
	acc := UserAddrs[s.From]
	if s.AccountAs != nil {
		acc = s.AccountAs
	}
	if s.ChainID != nil {
		cidHash = s.ChainID
	}
	body := &types.TxBody{
		Nonce:       s.Nonce,
		Account:     acc,
		Recipient:   s.To,
		Amount:      amt.Bytes(),
		Payload:     s.Payload,
		GasLimit:    s.GasLimit,
		GasPrice:    types.NewAmount(50, types.Gaer).Bytes(),
		Type:        s.Type,
		ChainIdHash: cidHash,
	}
	tx := &types.Tx{Body: body}
	signer := s.From
	if s.SignWith != 0 || s.From == 0 {
		if s.SignWith > 0 {
			signer = s.SignWith
		}
	}
	if s.SignWith == -1 {
		body.Sign = []byte{0x30, 0x06, 0x02, 0x01, 0x01, 0x02, 0x01, 0x01}
	} else {
		h := key.CalculateHashWithoutSign(body)
		body.Sign = ecdsa.Sign(UserKeys[signer], h).Serialize()
	}
	tx.Hash = tx.CalculateTxHash()
	return tx
}

// Governance payload helper.
func GovPayload(name string, args ...interface{}) []byte {
	if args == nil {
		args = []interface{}{}
	}
	b, err := json.Marshal(map[string]interface{}{"Name": name, "Args": args})
	if err != nil {
		panic(err)
	}
	return b
}

// ---------------------------------------------------------------- block building

// SlotTs returns a timestamp inside absolute slot k (owner = k mod NBP), plus a
// small offset `variant` ms that distinguishes sibling blocks of one producer.
func SlotTs(k int64, variant int) int64 {
	ms := k*1000 - 500 + int64(variant)
	return ms * int64(time.Millisecond)
}

// SlotFor returns the absolute slot for a block at height h produced by
// producer p: slots increase with height and the owner of the slot is p.
func (net Net) SlotFor(h uint64, p int) int64 {
	n := int64(net.NBP)
	base := Slot0 - Slot0%n
	return base + int64(h)*n + int64(p)
}

// Built is a produced block together with the block state that produced it.
type Built struct {
	Block    *types.Block
	BState   *state.BlockState
	Skipped  int // txs the producer skipped
	Receipts []*types.Receipt
}

// Produce builds a block on `parent` (whose state must be available in this
// node's state DB) through the real block-production path: BlockGenerator +
// chain.NewTxExecutor(BlockFactory mode); failing txs are skipped exactly as a
// producer does. The block is signed by producer p for slot SlotFor(height,p)
// with `variant`. It is NOT connected.
func (n *Node) Produce(parent *types.Block, txs []*types.Tx, p int, variant int, confirms uint64) (*Built, error) {
	return n.ProduceAt(parent, txs, p, SlotTs(n.Net.SlotFor(parent.BlockNo()+1, p), variant), confirms)
}

// SlotBase is an absolute slot that belongs to producer 0.
func (net Net) SlotBase() int64 { return Slot0 - Slot0%int64(net.NBP) }

// ProduceAt is Produce with an explicit timestamp (which must lie in a slot owned by p).
func (n *Node) ProduceAt(parent *types.Block, txs []*types.Tx, p int, ts int64, confirms uint64) (*Built, error) {
	n.Focus()
	bi := types.NewBlockHeaderInfoFromPrevBlock(parent, ts, n.Cfg.Hardfork)
	bs := n.CS.SDB().NewBlockState(parent.GetHeader().GetBlocksRootHash(), state.SetPrevBlockHash(parent.BlockHash()))
	bs.SetGasPrice(system.GetGasPrice())
	bs.Receipts().SetHardFork(n.Cfg.Hardfork, bi.No)
	exec := chain.NewTxExecutor(context.Background(), nil, n.CS.CDB(), bi, contract.BlockFactory)
	in := make([]types.Transaction, len(txs))
	for i, t := range txs {
		in[i] = types.NewTransaction(t)
	}
	gen := cchain.NewBlockGenerator(nil, context.Background(), bi, bs, cchain.TxOpFn(func(b *state.BlockState, tx types.Transaction) error {
		return exec(b, tx)
	}), false).WithDeco(func(cchain.FetchFn) cchain.FetchFn {
		return func(component.ICompSyncRequester, uint32) []types.Transaction { return in }
	})
	blk, err := gen.GenerateBlock()
	if err != nil {
		return nil, err
	}
	blk.SetConfirms(confirms)
	if err := blk.Sign(bpKeyAt[p]); err != nil {
		return nil, err
	}
	blk.Hash = nil
	blk.BlockHash() // caches the id in blk.Hash, as the block factory's logging does
	return &Built{Block: blk, BState: bs, Skipped: len(txs) - len(blk.GetBody().GetTxs()), Receipts: bs.Receipts().Get()}, nil
}

// ConnectProduced hands a block produced by this node to its chain service the
// way the block factory does (commit-only path).
func (n *Node) ConnectProduced(b *Built) error {
	n.Focus()
	return n.CS.VerifAddBlock(b.Block, b.BState, "")
}

// Deliver hands a network block to the chain service (validator path).
func (n *Node) Deliver(b *types.Block) error {
	n.Focus()
	err := n.CS.VerifAddBlock(CloneBlock(b), nil, types.PeerID("peer"))
	n.CS.VerifQuiesce()
	return err
}

// CloneBlock deep-copies a block (a node must never share mutable block objects
// with the harness or with another node).
func CloneBlock(b *types.Block) *types.Block {
	return encproto.Clone(b).(*types.Block)
}

// Resign re-signs a (hand-modified) block with producer p's key.
func Resign(b *types.Block, p int) {
	b.Header.Sign = nil
	b.Header.PubKey = nil
	b.Hash = nil
	if err := b.Sign(bpKeyAt[p]); err != nil {
		panic(err)
	}
	b.BlockHash()
}

// ---------------------------------------------------------------- dumps

// AccountDump is the complete observable state of one account.
type AccountDump struct {
	ID      string // hex account id
	Nonce   uint64
	Balance string
	Code    string // hex code hash
	Root    string // hex storage root
	Storage map[string]string
}

// StateDump is the complete world state under one root.
type StateDump struct {
	Root     string
	Accounts map[string]*AccountDump // by hex account id
}

// DumpState walks the whole state trie under root (account trie and every
// storage trie) directly on the node's state store.
func (n *Node) DumpState(root []byte) (*StateDump, error) {
	sdb := n.CS.SDB().OpenNewStateDB(root)
	d := &StateDump{Root: fmt.Sprintf("%x", root), Accounts: map[string]*AccountDump{}}
	if len(root) == 0 {
		return d, nil
	}
	raw, err := sdb.VerifLeaves(root)
	if err != nil {
		return nil, fmt.Errorf("account trie: %v", err)
	}
	for k, v := range raw {
		st := &types.State{}
		if err := protoDecode(v, st); err != nil {
			return nil, fmt.Errorf("account %x: %v", k, err)
		}
		a := &AccountDump{ID: fmt.Sprintf("%x", []byte(k)), Nonce: st.Nonce, Balance: new(big.Int).SetBytes(st.Balance).String(),
			Code: fmt.Sprintf("%x", st.CodeHash), Root: fmt.Sprintf("%x", st.StorageRoot)}
		if len(st.StorageRoot) > 0 {
			leaves, err := sdb.VerifLeaves(st.StorageRoot)
			if err != nil {
				return nil, fmt.Errorf("storage of %x: %v", k, err)
			}
			a.Storage = map[string]string{}
			for sk, sv := range leaves {
				a.Storage[fmt.Sprintf("%x", []byte(sk))] = fmt.Sprintf("%x", sha256.Sum256(sv))[:16]
			}
		}
		d.Accounts[a.ID] = a
	}
	return d, nil
}

// Total is the sum of all balances.
func (d *StateDump) Total() *big.Int {
	t := new(big.Int)
	for _, a := range d.Accounts {
		b, _ := new(big.Int).SetString(a.Balance, 10)
		t.Add(t, b)
	}
	return t
}

func AccountIDHex(addr []byte) string {
	id := types.ToAccountID(addr)
	return fmt.Sprintf("%x", id[:])
}

// Bal returns the balance of addr in the dump (0 if absent).
func (d *StateDump) Bal(addr []byte) *big.Int {
	if a, ok := d.Accounts[AccountIDHex(addr)]; ok {
		b, _ := new(big.Int).SetString(a.Balance, 10)
		return b
	}
	return new(big.Int)
}

func (d *StateDump) NonceOf(addr []byte) uint64 {
	if a, ok := d.Accounts[AccountIDHex(addr)]; ok {
		return a.Nonce
	}
	return 0
}

// Canon renders the dump deterministically.
func (d *StateDump) Canon() string {
	var ids []string
	for id := range d.Accounts {
		ids = append(ids, id)
	}
	sort.Strings(ids)
	var sb strings.Builder
	for _, id := range ids {
		a := d.Accounts[id]
		fmt.Fprintf(&sb, "%s n=%d b=%s c=%s r=%s", id[:12], a.Nonce, a.Balance, short(a.Code), short(a.Root))
		var ks []string
		for k := range a.Storage {
			ks = append(ks, k)
		}
		sort.Strings(ks)
		for _, k := range ks {
			fmt.Fprintf(&sb, " %s=%s", short(k), a.Storage[k])
		}
		sb.WriteString("\n")
	}
	return sb.String()
}

// Diff lists the account ids whose dump differs.
func (d *StateDump) Diff(o *StateDump) []string {
	seen := map[string]bool{}
	var r []string
	for id, a := range d.Accounts {
		seen[id] = true
		b, ok := o.Accounts[id]
		if !ok || !sameAcc(a, b) {
			r = append(r, id)
		}
	}
	for id := range o.Accounts {
		if !seen[id] {
			r = append(r, id)
		}
	}
	sort.Strings(r)
	return r
}

func sameAcc(a, b *AccountDump) bool {
	if a.Nonce != b.Nonce || a.Balance != b.Balance || a.Code != b.Code || a.Root != b.Root || len(a.Storage) != len(b.Storage) {
		return false
	}
	for k, v := range a.Storage {
		if b.Storage[k] != v {
			return false
		}
	}
	return true
}

func short(s string) string {
	if len(s) > 10 {
		return s[:10]
	}
	return s
}

func protoDecode(b []byte, st *types.State) error { return encproto.Decode(b, st) }

// ---------------------------------------------------------------- store snapshots / restart

// Stores is a deep snapshot of a node's two stores.
type Stores struct{ Chain, State map[string][]byte }

func (n *Node) storeDirs() (string, string) {
	return filepath.Join(n.Dir, "chain"), filepath.Join(n.Dir, "state")
}

// SaveStores snapshots the node's chain and state stores.
func (n *Node) SaveStores() *Stores {
	c, s := n.storeDirs()
	return &Stores{Chain: db.VerifSnapshot(c), State: db.VerifSnapshot(s)}
}

// Restart stops the node, optionally replaces the content of its stores, and
// starts a new node on them (NewChainService + consensus + Recover).
func (n *Node) Restart(st *Stores) (*Node, error) {
	n.Stop()
	if st != nil {
		c, s := n.storeDirs()
		db.VerifRestore(c, st.Chain)
		db.VerifRestore(s, st.State)
	}
	return NewNode(n.Net, filepath.Base(n.Dir))
}

// ResetGlobals re-initialises the state-derived process globals from this
// node's committed state (after a produced block was discarded, like a
// restart would).
func (n *Node) ResetGlobals() {
	focused = nil
	n.Focus()
}

// StoreDigest is a digest of everything persistent (both stores) plus the
// in-memory pointers the property speaks about (best block, state root, DPoS status, orphans).
func (n *Node) StoreDigest() string {
	return strings.Join(n.StoreDigestParts(), "/")
}

// StoreDigestParts returns the digest by component: chain store, state store, pointers.
func (n *Node) StoreDigestParts() []string {
	var parts []string
	st := n.SaveStores()
	for _, m := range []map[string][]byte{st.Chain, st.State} {
		h := sha256.New()
		ks := make([]string, 0, len(m))
		for k := range m {
			ks = append(ks, k)
		}
		sort.Strings(ks)
		for _, k := range ks {
			fmt.Fprintf(h, "%d:%s=%d:", len(k), k, len(m[k]))
			h.Write(m[k])
		}
		parts = append(parts, fmt.Sprintf("%x", h.Sum(nil)[:8]))
	}
	// of the consensus status only the irreversible block is compared: the in-memory
	// confirm list / proposed-LIB map is rebuilt from the blocks after a refused block
	// (Status.Update in rollback mode) and need not be representation-identical
	lh, ln := n.DPoS.VerifLIB()
	parts = append(parts, fmt.Sprintf("best=%s root=%x orph=%v lib=%d/%s", n.Best().ID()[:8], n.CS.SDB().GetRoot()[:4], n.CS.VerifOrphans(), ln, lh))
	return parts
}

// JSON marshals v (panics on error).
func JSON(v interface{}) []byte {
	b, err := json.Marshal(v)
	if err != nil {
		panic(err)
	}
	return b
}
