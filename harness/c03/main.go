// C03: transaction atomicity - a tx applies fully, as fee+nonce only, or not at all;
// an invalid block leaves the node exactly as it was.
package main

import (
	"github.com/aergoio/aergo/v2/contract/system"
	"bytes"
	"encoding/json"
	"fmt"
	"math/big"
	"os"
	"strconv"
	"strings"
	"time"

	"github.com/aergoio/aergo/v2/types"
	lx "github.com/aergoio/aergo/v2/verif_h/ledgerx"
	nk "github.com/aergoio/aergo/v2/verif_h/nodekit"
	"github.com/aergoio/aergo/v2/verif_h/xplor"
)

const shardsPerNet = 12

func words(n, k int) [][]int {
	var out [][]int
	var rec func(w []int)
	rec = func(w []int) {
		if len(w) > 0 {
			out = append(out, append([]int{}, w...))
		}
		if len(w) == k {
			return
		}
		for i := 0; i < n; i++ {
			rec(append(w, i))
		}
	}
	rec(nil)
	return out
}

func bal(d *nk.StateDump, a []byte) *big.Int { return d.Bal(a) }

// payerOf returns the account that pays the fee of tx.
func payerOf(tx *types.Tx, sender []byte) []byte {
	if tx.GetBody().GetType() == types.TxType_FEEDELEGATION {
		return tx.GetBody().GetRecipient()
	}
	return sender
}

func senderOf(p *lx.Prepared, tx *types.Tx) []byte {
	acc := tx.GetBody().GetAccount()
	if string(acc) == lx.NameB {
		return nk.UserAddrs[1] // the warm pre-state binds the name to B
	}
	return acc
}

type ctxT struct {
	ctx  *xplor.Ctx
	net  nk.Net
	p    *lx.Prepared
	alph []lx.Gen
}

// checkCase returns (descriptor, violation message).
func (c *ctxT) checkCase(word []int) (string, string) {
	p := c.p
	txs, names := p.MakeTxs(word, c.alph)
	full, err := p.ProduceDump(txs, names)
	if err != nil {
		return "", "HARNESS " + err.Error()
	}
	desc := full.Describe()
	cb := nk.UserAddrs[4]

	// prefix executions: effect of tx i = P[i] -> P[i+1]
	pref := make([]*lx.Exec, len(txs)+1)
	for i := 0; i <= len(txs); i++ {
		if i == len(txs) {
			pref[i] = full
			continue
		}
		e, err := p.ProduceDump(txs[:i], names[:i])
		if err != nil {
			return desc, "HARNESS " + err.Error()
		}
		pref[i] = e
	}
	for i, o := range full.Out {
		before, after := pref[i].Dump, pref[i+1].Dump
		// the outcome of tx j<=i must not depend on later txs
		for j := 0; j <= i; j++ {
			if pref[i+1].Out[j].Status != full.Out[j].Status {
				return desc, fmt.Sprintf("outcome of tx %d (%s) depends on later txs of the block: %q in the prefix, %q in the block", j, o.Gen, pref[i+1].Out[j].Status, full.Out[j].Status)
			}
		}
		changed := after.Diff(before)
		sender := senderOf(p, o.Tx)
		payer := payerOf(o.Tx, sender)
		switch o.Status {
		case "":
			// rejected: exactly as if never submitted
			if len(changed) > 0 {
				return desc, fmt.Sprintf("tx %d (%s) was rejected by the producer but the state differs from a block without it in accounts %v", i, o.Gen, changed)
			}
			if !bytes.Equal(pref[i].Built.Block.GetHeader().GetBlocksRootHash(), pref[i+1].Built.Block.GetHeader().GetBlocksRootHash()) ||
				!bytes.Equal(pref[i].Built.Block.GetHeader().GetReceiptsRootHash(), pref[i+1].Built.Block.GetHeader().GetReceiptsRootHash()) {
				return desc, fmt.Sprintf("tx %d (%s) was rejected but the block roots differ from a block without it", i, o.Gen)
			}
		case "ERROR":
			allowed := map[string]bool{nk.AccountIDHex(sender): true, nk.AccountIDHex(payer): true}
			if c.net.Coinbase {
				allowed[nk.AccountIDHex(cb)] = true
			}
			for _, id := range changed {
				if !allowed[id] {
					m := fmt.Sprintf("tx %d (%s) failed at run time (ERROR receipt) but account %s changed", i, o.Gen, id[:12])
					// F22: the failed call wrote contract storage and an earlier successful tx of the same
					// block had already staged that contract's storage (the buffer is shared through the
					// block's storage cache and nothing rolls it back on a top-level failure)
					if rc := o.Tx.GetBody().GetRecipient(); id == nk.AccountIDHex(rc) {
						for j := 0; j < i; j++ {
							pj := full.Out[j]
							if pj.Status != "" && pj.Status != "ERROR" && bytes.Equal(pj.Tx.GetBody().GetRecipient(), rc) &&
								before.Accounts[id] != nil && after.Accounts[id] != nil && before.Accounts[id].Balance == after.Accounts[id].Balance &&
								before.Accounts[id].Nonce == after.Accounts[id].Nonce && before.Accounts[id].Code == after.Accounts[id].Code {
								return desc, "F22|" + m + " (only its storage: writes of the failed call were kept)"
							}
						}
					}
					return desc, m
				}
			}
			// payer pays exactly the recorded fee, nothing else of it changes
			pa, pb := after.Accounts[nk.AccountIDHex(payer)], before.Accounts[nk.AccountIDHex(payer)]
			wantBal := new(big.Int).Sub(bal(before, payer), o.Fee)
			if bal(after, payer).Cmp(wantBal) != 0 {
				return desc, fmt.Sprintf("tx %d (%s) ERROR: payer balance %s -> %s, recorded fee %s", i, o.Gen, bal(before, payer), bal(after, payer), o.Fee)
			}
			if pa != nil && pb != nil && (pa.Root != pb.Root || pa.Code != pb.Code) {
				m := fmt.Sprintf("tx %d (%s) ERROR: storage/code of the payer changed", i, o.Gen)
				// fee delegation: the payer is the called contract; same mechanism as F22
				if pa.Code == pb.Code && bytes.Equal(payer, o.Tx.GetBody().GetRecipient()) {
					for j := 0; j < i; j++ {
						pj := full.Out[j]
						if pj.Status != "" && pj.Status != "ERROR" && bytes.Equal(pj.Tx.GetBody().GetRecipient(), payer) {
							return desc, "F22|" + m + " (only its storage: writes of the failed call were kept)"
						}
					}
				}
				return desc, m
			}
			// sender: nonce advances to the tx nonce; balance unchanged unless it is the payer
			if after.NonceOf(sender) != o.Tx.GetBody().GetNonce() {
				return desc, fmt.Sprintf("tx %d (%s) ERROR: sender nonce %d, tx nonce %d", i, o.Gen, after.NonceOf(sender), o.Tx.GetBody().GetNonce())
			}
			if !bytes.Equal(sender, payer) {
				if bal(after, sender).Cmp(bal(before, sender)) != 0 {
					return desc, fmt.Sprintf("tx %d (%s) ERROR (fee delegated): sender balance changed", i, o.Gen)
				}
				if after.NonceOf(payer) != before.NonceOf(payer) {
					return desc, fmt.Sprintf("tx %d (%s) ERROR (fee delegated): nonce of the paying contract changed", i, o.Gen)
				}
			}
			if c.net.Coinbase {
				if new(big.Int).Sub(bal(after, cb), bal(before, cb)).Cmp(o.Fee) != 0 && !bytes.Equal(cb, payer) {
					return desc, fmt.Sprintf("tx %d (%s) ERROR: coinbase delta != recorded fee", i, o.Gen)
				}
			}
			if len(o.Receipt.Events) != 0 && o.Receipt.Status == "ERROR" && c.netVersion() >= 3 {
				return desc, fmt.Sprintf("tx %d (%s) ERROR receipt carries events under fork version >= 3", i, o.Gen)
			}
		default:
			// applied: nonce consumed, amount moved for plain transfers and stake/unstake
			if after.NonceOf(sender) != o.Tx.GetBody().GetNonce() {
				return desc, fmt.Sprintf("tx %d (%s) %s: sender nonce %d, tx nonce %d", i, o.Gen, o.Status, after.NonceOf(sender), o.Tx.GetBody().GetNonce())
			}
			// all of its effects: whatever it debits is credited somewhere. The two blocks differ by this tx
			// alone, so the sum of all balances differs by nothing (fees go to the coinbase) or by the
			// recorded fee (fees are burnt)
			wantDelta := new(big.Int)
			if !c.net.Coinbase {
				wantDelta.Neg(o.Fee)
			}
			if d := new(big.Int).Sub(after.Total(), before.Total()); d.Cmp(wantDelta) != 0 {
				return desc, fmt.Sprintf("tx %d (%s) %s: the sum of all balances changes by %s with it (expected %s): a debit without its credit or the reverse", i, o.Gen, o.Status, d, wantDelta)
			}
			amt := o.Tx.GetBody().GetAmountBigInt()
			rcp := o.Tx.GetBody().GetRecipient()
			simple := o.Tx.GetBody().GetType() == types.TxType_TRANSFER && len(rcp) == 33 && (p.Contract == nil || !bytes.Equal(rcp, p.Contract)) && c.net.Vault == ""
			if simple && !bytes.Equal(sender, rcp) && !bytes.Equal(rcp, cb) {
				if new(big.Int).Sub(bal(after, rcp), bal(before, rcp)).Cmp(amt) != 0 {
					return desc, fmt.Sprintf("tx %d (%s) applied: recipient delta %s != amount %s", i, o.Gen, new(big.Int).Sub(bal(after, rcp), bal(before, rcp)), amt)
				}
				want := new(big.Int).Sub(bal(before, sender), new(big.Int).Add(amt, o.Fee))
				if bal(after, sender).Cmp(want) != 0 {
					return desc, fmt.Sprintf("tx %d (%s) applied: sender %s -> %s, amount %s fee %s", i, o.Gen, bal(before, sender), bal(after, sender), amt, o.Fee)
				}
				for _, id := range changed {
					if id != nk.AccountIDHex(sender) && id != nk.AccountIDHex(rcp) && id != nk.AccountIDHex(cb) {
						return desc, fmt.Sprintf("tx %d (%s) transfer changed a third account %s", i, o.Gen, id[:12])
					}
				}
			}
		}
	}

	// ---- invalid blocks leave the node exactly as it was
	good := full.Built.Block
	type variant struct {
		name string
		blk  *types.Block
	}
	var vs []variant
	mut := func(name string, f func(b *types.Block)) {
		b := nk.CloneBlock(good)
		f(b)
		nk.Resign(b, 1)
		vs = append(vs, variant{name, b})
	}
	fl := func(x []byte) []byte {
		if len(x) == 0 {
			x = bytes.Repeat([]byte{7}, 32)
		}
		y := append([]byte{}, x...)
		y[0] ^= 0x80
		return y
	}
	mut("wrong state root", func(b *types.Block) { b.Header.BlocksRootHash = fl(b.Header.BlocksRootHash) })
	mut("wrong receipts root", func(b *types.Block) { b.Header.ReceiptsRootHash = fl(b.Header.ReceiptsRootHash) })
	mut("wrong tx root", func(b *types.Block) { b.Header.TxsRootHash = fl(b.Header.TxsRootHash) })
	if len(full.Included) != len(txs) {
		// every rejected tx put back at its position: the block contains a bad tx
		vs = append(vs, variant{"rejected txs re-inserted", lx.Forge(good, txs, 1)})
	}
	if len(full.Included) > 0 {
		// a good tx dropped from the body while the header still commits to it
		b := nk.CloneBlock(good)
		b.Body.Txs = b.Body.Txs[1:]
		vs = append(vs, variant{"body lacks a tx the header commits to", b})
		// duplicated tx
		vs = append(vs, variant{"first tx executed twice", lx.Forge(good, append([]*types.Tx{full.Included[0]}, full.Included...), 1)})
	}
	if full.ForgedIncluded(c.alph, word) {
		vs = append(vs, variant{"block carrying a tx with a foreign signature", good})
	}
	p.Node.ResetGlobals()
	// the digest covers both stores and the in-memory pointers; the process-wide parameter cache of
	// contract/system (current values and values pending for the next block) is compared with it: a
	// refused block must not leave a parameter it voted in behind
	before := p.Node.StoreDigest() + "|params " + system.VerifC15ParamsState()
	beforeParts := append(p.Node.StoreDigestParts(), system.VerifC15ParamsState())
	beforeDump, _ := p.Node.DumpState(p.Node.CS.SDB().GetRoot())
	for _, v := range vs {
		err := p.Node.Deliver(v.blk)
		c.ctx.Count("invalid_blocks_delivered", 1)
		if err == nil && p.Node.Best().ID() == v.blk.ID() {
			_ = p.Reset()
			return desc, fmt.Sprintf("invalid block (%s) was accepted and became the best block", v.name)
		}
		after := p.Node.StoreDigest() + "|params " + system.VerifC15ParamsState()
		if after != before {
			ad, _ := p.Node.DumpState(p.Node.CS.SDB().GetRoot())
			diff := []string{}
			if ad != nil {
				diff = ad.Diff(beforeDump)
			}
			defer p.Reset()
			return desc, fmt.Sprintf("invalid block (%s) was refused (%v) but the node changed: [chain store, state store, pointers, system parameters incl. pending] %v -> %v (accounts %v)", v.name, err, beforeParts, append(p.Node.StoreDigestParts(), system.VerifC15ParamsState()), diff)
		}
	}
	return desc, ""
}

func (c *ctxT) netVersion() int {
	v := 0
	for i, h := range c.net.Fork {
		if h == 0 {
			v = i + 2
		}
	}
	return v
}

type replay struct {
	Net  int   `json:"net"`
	Pre  int   `json:"pre"`
	Word []int `json:"word"`
}

func run(ctx *xplor.Ctx) {
	defer nk.Cleanup()
	nets := lx.Nets(ctx.Tier)
	alpha := lx.Alphabet()
	k := 2
	limit, _ := strconv.Atoi(os.Getenv("VERIF_LIMIT"))
	doCase := func(p *lx.Prepared, r replay) {
		c := &ctxT{ctx: ctx, net: nets[r.Net], p: p, alph: alpha}
		desc, msg := c.checkCase(r.Word)
		ctx.Eval(1)
		if msg != "" {
			sig := ""
			if strings.HasPrefix(msg, "F22|") {
				sig, msg = "F22", msg[4:]
			}
			ctx.Violation(sig, fmt.Sprintf("net{%v} pre=%d block %s: %s", nets[r.Net], r.Pre, desc, msg), r)
			if err := p.Reset(); err != nil {
				panic(err)
			}
		} else {
			ctx.Distinct(xplor.Hash(r.Net, r.Pre, desc, fmt.Sprint(r.Word)))
		}
	}
	if ctx.Replay != nil {
		var r replay
		if err := json.Unmarshal(ctx.Replay, &r); err != nil {
			panic(err)
		}
		p, err := lx.Prepare(nets[r.Net], r.Pre, "p")
		if err != nil {
			panic(err)
		}
		doCase(p, r)
		return
	}
	ni := ctx.Shard % len(nets)
	sub, nsub := ctx.Shard/len(nets), ctx.NShards/len(nets)
	ws := words(len(alpha), k)
	done := 0
	for pre := 0; pre < 2; pre++ {
		p, err := lx.Prepare(nets[ni], pre, fmt.Sprintf("p%d", pre))
		if err != nil {
			panic(err)
		}
		for i, w := range ws {
			if i%nsub != sub {
				continue
			}
			if ctx.Expired() {
				return
			}
			if limit > 0 && done >= limit {
				ctx.Incomplete("VERIF_LIMIT")
				break
			}
			done++
			doCase(p, replay{ni, pre, w})
		}
		p.Node.Stop()
	}
	if sub == 0 && ni == 0 {
		w := ws[len(ws)/3]
		var names []string
		for _, i := range w {
			names = append(names, alpha[i].Name)
		}
		ctx.Sample(map[string]interface{}{"net": nets[ni].String(), "pre_state": "warm", "block": names, "checked": "prefix-differential outcome of every tx + 4..7 invalid variants of the block delivered to the node"})
	}
}

func main() {
	xplor.Main(xplor.Check{
		ID:    "C03",
		Level: "exploration",
		Rule:  "every block of <= 2 transactions over the 42-letter alphabet x pre-state {genesis, warm} x 5 (thorough 40) network configurations. Per tx, by prefix differential on the real producer path (block with txs[:i] vs txs[:i+1], full state dumps): rejected => state, state root and receipts root identical to the block without it; ERROR receipt => only payer balance (- recorded fee), sender nonce (= tx nonce) and the coinbase change, no storage/code change, no events from v3; applied => nonce consumed, the sum of all balances unchanged by it (minus the fee where fees are burnt), and for plain transfers exact amounts and no third account. Per block: invalid variants (wrong state/receipts/tx root, rejected txs re-inserted, body lacking a committed tx, duplicated tx, foreign signature) delivered to the node must be refused and leave a digest of both stores, best block, state root, DPoS status and orphan pool unchanged. distinct_nontrivial = distinct (net, pre-state, word, outcome vector)",
		Assumptions: []string{
			"contract execution is the stub VM (storage writes, runtime failure, system failure, gas) driven through the real contract.Execute / executeTx / BlockState snapshot+rollback",
			"the bad-block cache is not part of 'state, indexes and best block'",
		},
		Shards: func(tier string) int { return shardsPerNet * len(lx.Nets(tier)) },
		Budget: func(tier string) time.Duration {
			if tier == "thorough" {
				return 25 * time.Minute
			}
			return 6 * time.Minute
		},
		Run: run,
	})
}
