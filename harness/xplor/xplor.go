// Package xplor is the runner shared by every check binary: sharded worker
// subprocesses, result merging, replay files, double replay of violations,
// known-finding suppression and evidence output.
//
// A check binary calls xplor.Main(Check{...}). Invoked without -shard it is the
// parent: it re-executes itself once per shard (at most -j at a time), merges
// the shard results, replays every violation twice, and writes
// /verif/evidence/<id>.json. Exit status: 0 held, 1 violation, 2 harness error.
package xplor

import (
	"strings"
	"crypto/sha256"
	"encoding/hex"
	"encoding/json"
	"flag"
	"fmt"
	"hash/fnv"
	"os"
	"os/exec"
	"path/filepath"
	"runtime"
	"runtime/debug"
	"sort"
	"strconv"
	"sync"
	"time"
)

type Check struct {
	ID          string
	Level       string // exploration | fault_enumeration | model_checking
	Rule        string
	Assumptions []string
	// Shards returns the number of worker subprocesses for a tier.
	Shards func(tier string) int
	// Run explores shard ctx.Shard of ctx.NShards (or the single case in
	// ctx.Replay when non-nil).
	Run func(ctx *Ctx)
	// Budget is the internal deadline per tier (0 = none). When it is hit the
	// run ends with exhaustive=false and exit 0.
	Budget func(tier string) time.Duration
}

type Violation struct {
	Sig    string          `json:"sig"`  // signature matched against known_findings.json
	Desc   string          `json:"desc"` // deterministic observation
	Replay json.RawMessage `json:"replay"`
}

type Result struct {
	Evaluations int64            `json:"evaluations"`
	Distinct    []uint64         `json:"distinct"`
	States      int64            `json:"states"`
	Transitions int64            `json:"transitions"`
	Traces      int64            `json:"traces"`
	Counters    map[string]int64 `json:"counters"`
	Samples     []interface{}    `json:"samples"`
	Violations  []Violation      `json:"violations"`
	Exhaustive  bool             `json:"exhaustive"`
	Notes       []string         `json:"notes"`
}

type Ctx struct {
	Tier    string
	Shard   int
	NShards int
	Seed    int64
	Replay  json.RawMessage

	mu       sync.Mutex
	res      Result
	distinct map[uint64]struct{}
	deadline time.Time
	hitDL    bool
	maxViol  int
	perSig   map[string]int
	outPath  string
}

func (c *Ctx) Mine(i int) bool { return i%c.NShards == c.Shard }

func (c *Ctx) Eval(n int64) { c.mu.Lock(); c.res.Evaluations += n; c.mu.Unlock() }
func (c *Ctx) State(n int64) { c.mu.Lock(); c.res.States += n; c.mu.Unlock() }
func (c *Ctx) Trans(n int64) { c.mu.Lock(); c.res.Transitions += n; c.mu.Unlock() }
func (c *Ctx) Trace(n int64) { c.mu.Lock(); c.res.Traces += n; c.mu.Unlock() }
func (c *Ctx) Count(k string, n int64) {
	c.mu.Lock()
	c.res.Counters[k] += n
	c.mu.Unlock()
}
func (c *Ctx) Max(k string, n int64) {
	c.mu.Lock()
	if c.res.Counters[k] < n {
		c.res.Counters[k] = n
	}
	c.mu.Unlock()
}

// Distinct records the hash of a distinct non-trivial case; returns true when new in this shard.
func (c *Ctx) Distinct(h uint64) bool {
	c.mu.Lock()
	defer c.mu.Unlock()
	if _, ok := c.distinct[h]; ok {
		return false
	}
	c.distinct[h] = struct{}{}
	return true
}

func Hash(parts ...interface{}) uint64 {
	h := fnv.New64a()
	for _, p := range parts {
		switch v := p.(type) {
		case []byte:
			h.Write(v)
		case string:
			h.Write([]byte(v))
		default:
			fmt.Fprint(h, v)
		}
		h.Write([]byte{0})
	}
	return h.Sum64()
}

func (c *Ctx) Sample(v interface{}) {
	c.mu.Lock()
	if len(c.res.Samples) < 4 {
		c.res.Samples = append(c.res.Samples, v)
	}
	c.mu.Unlock()
}

func (c *Ctx) Note(s string) { c.mu.Lock(); c.res.Notes = append(c.res.Notes, s); c.mu.Unlock() }

// Violation records a violation; replay must be JSON-marshalable and sufficient
// to re-execute exactly this case via -replay.
func (c *Ctx) Violation(sig, desc string, replay interface{}) {
	b, err := json.Marshal(replay)
	if err != nil {
		panic(err)
	}
	c.mu.Lock()
	defer c.mu.Unlock()
	// at most maxViol records per signature (and per worker), so that many occurrences of one
	// (known) finding can never crowd out a violation with another signature
	if c.perSig == nil {
		c.perSig = map[string]int{}
	}
	if c.perSig[sig] < c.maxViol {
		c.perSig[sig]++
		c.res.Violations = append(c.res.Violations, Violation{Sig: sig, Desc: desc, Replay: b})
		// keep what was found even if this worker later hangs or dies (the parent reads the
		// partial file of a failed worker)
		if c.outPath != "" {
			c.res.Exhaustive = false
			if pb, err := json.Marshal(&c.res); err == nil {
				os.WriteFile(c.outPath+".partial", pb, 0o644)
			}
		}
	} else {
		c.res.Counters["violations_dropped"]++
	}
}

// Mark records the case that is about to be executed (as a replay object). If the code under test
// then ends the whole process on its own (aergo's logger.Fatal -> os.Exit(1)), which cannot be caught
// in-process, the runner turns the last mark into a violation with signature "node-fatal".
func (c *Ctx) Mark(replay interface{}) {
	if c.outPath == "" {
		return
	}
	if b, err := json.Marshal(replay); err == nil {
		os.WriteFile(c.outPath+".mark", b, 0o644)
	}
}

func (c *Ctx) NViolations() int { c.mu.Lock(); defer c.mu.Unlock(); return len(c.res.Violations) }

// Expired reports whether the internal deadline passed (run becomes non-exhaustive).
func (c *Ctx) Expired() bool {
	if c.deadline.IsZero() {
		return false
	}
	if time.Now().After(c.deadline) {
		c.mu.Lock()
		c.hitDL = true
		c.mu.Unlock()
		return true
	}
	return false
}

// Incomplete marks the run as not exhaustive for a stated reason.
func (c *Ctx) Incomplete(why string) {
	c.mu.Lock()
	c.hitDL = true
	c.res.Notes = append(c.res.Notes, "incomplete: "+why)
	c.mu.Unlock()
}

type knownEntry struct {
	Property  string `json:"property"`
	ID        string `json:"id"`
	Kind      string `json:"kind"` // known | fixed
	Signature string `json:"signature"`
	Commit    string `json:"commit,omitempty"`
	Text      string `json:"text"`
}

func verifRoot() string {
	if v := os.Getenv("VERIF"); v != "" {
		return v
	}
	return "/verif"
}

func loadKnown(id string) map[string]knownEntry {
	m := map[string]knownEntry{}
	b, err := os.ReadFile(filepath.Join(verifRoot(), "known_findings.json"))
	if err != nil {
		return m
	}
	var l []knownEntry
	if err := json.Unmarshal(b, &l); err != nil {
		fmt.Fprintln(os.Stderr, "known_findings.json:", err)
		os.Exit(2)
	}
	for _, e := range l {
		if e.Property == id && e.Kind == "known" {
			m[e.Signature] = e
		}
	}
	return m
}

func Main(ck Check) {
	tier := flag.String("tier", "quick", "quick|thorough")
	shard := flag.Int("shard", -1, "worker: shard index")
	nshards := flag.Int("nshards", 1, "worker: number of shards")
	outf := flag.String("out", "", "worker: result file")
	replay := flag.String("replay", "", "replay one recorded case")
	jobs := flag.Int("j", runtime.NumCPU(), "parallel workers")
	flag.Parse()
	if env := os.Getenv("VERIF_TIER"); env != "" && *tier == "" {
		*tier = env
	}
	seed, _ := strconv.ParseInt(os.Getenv("VERIF_SEED"), 10, 64)

	if *replay != "" {
		os.Exit(runReplay(ck, *tier, seed, *replay))
	}
	if *shard >= 0 {
		runWorker(ck, *tier, seed, *shard, *nshards, *outf)
		return
	}
	os.Exit(runParent(ck, *tier, seed, *jobs))
}

func newCtx(ck Check, tier string, seed int64, shard, n int) *Ctx {
	c := &Ctx{Tier: tier, Shard: shard, NShards: n, Seed: seed, distinct: map[uint64]struct{}{}, maxViol: 8}
	c.res.Counters = map[string]int64{}
	if ck.Budget != nil {
		if d := ck.Budget(tier); d > 0 {
			c.deadline = time.Now().Add(d)
		}
	}
	return c
}

func (c *Ctx) finish() *Result {
	c.res.Exhaustive = !c.hitDL
	c.res.Distinct = make([]uint64, 0, len(c.distinct))
	for h := range c.distinct {
		c.res.Distinct = append(c.res.Distinct, h)
	}
	return &c.res
}

func runWorker(ck Check, tier string, seed int64, shard, n int, out string) {
	debug.SetGCPercent(200)
	c := newCtx(ck, tier, seed, shard, n)
	c.outPath = out
	ck.Run(c)
	b, _ := json.Marshal(c.finish())
	if err := os.WriteFile(out, b, 0o644); err != nil {
		fmt.Fprintln(os.Stderr, err)
		os.Exit(2)
	}
}

// runReplay re-executes one case. Prints the observation; exit 1 if it still violates.
func runReplay(ck Check, tier string, seed int64, path string) int {
	b, err := os.ReadFile(path)
	if err != nil {
		fmt.Fprintln(os.Stderr, err)
		return 2
	}
	var f struct {
		Property string          `json:"property"`
		Replay   json.RawMessage `json:"replay"`
	}
	if err := json.Unmarshal(b, &f); err != nil || f.Replay == nil {
		fmt.Fprintln(os.Stderr, "bad replay file")
		return 2
	}
	c := newCtx(ck, tier, seed, 0, 1)
	c.Replay = f.Replay
	ck.Run(c)
	r := c.finish()
	if len(r.Violations) == 0 {
		fmt.Println("REPLAY-OK no violation")
		return 0
	}
	for _, v := range r.Violations {
		fmt.Printf("REPLAY-VIOLATION sig=%s %s\n", v.Sig, v.Desc)
	}
	return 1
}

func runParent(ck Check, tier string, seed int64, jobs int) int {
	start := time.Now()
	n := 1
	if ck.Shards != nil {
		n = ck.Shards(tier)
	}
	if n < 1 {
		n = 1
	}
	self, _ := os.Executable()
	tmp, err := os.MkdirTemp("", "xplor-"+ck.ID+"-")
	if err != nil {
		fmt.Fprintln(os.Stderr, err)
		return 2
	}
	defer os.RemoveAll(tmp)

	results := make([]*Result, n)
	errs := make([]error, n)
	sem := make(chan struct{}, jobs)
	var wg sync.WaitGroup
	for i := 0; i < n; i++ {
		wg.Add(1)
		go func(i int) {
			defer wg.Done()
			sem <- struct{}{}
			defer func() { <-sem }()
			out := filepath.Join(tmp, fmt.Sprintf("r%d.json", i))
			cmd := exec.Command(self, "-tier", tier, "-shard", strconv.Itoa(i), "-nshards", strconv.Itoa(n), "-out", out)
			// watchdog: a worker that is still running long after its internal deadline hangs
			// (e.g. a deadlock in the code under test); it is killed and reported as a harness error.
			if ck.Budget != nil {
				if d := ck.Budget(tier); d > 0 {
					t := time.AfterFunc(d+5*time.Minute, func() {
						if cmd.Process != nil {
							cmd.Process.Kill()
						}
					})
					defer t.Stop()
				}
			}
			cmd.Stdout = os.Stderr
			logf, _ := os.Create(filepath.Join(tmp, fmt.Sprintf("r%d.log", i)))
			cmd.Stderr = logf
			cmd.Env = append(os.Environ(), "GOMAXPROCS="+gomaxprocs(n, jobs))
			err := cmd.Run()
			logf.Close()
			if err != nil {
				lb, _ := os.ReadFile(logf.Name())
				if len(lb) > 6000 {
					lb = lb[len(lb)-6000:]
				}
				errs[i] = fmt.Errorf("shard %d: %v\n%s", i, err, lb)
				// violations the worker recorded before it died are kept
				if pb, e := os.ReadFile(out + ".partial"); e == nil {
					var r Result
					if json.Unmarshal(pb, &r) == nil {
						r.Exhaustive = false
						results[i] = &r
					}
				}
				// the code under test ended the process itself (logger.Fatal): the case marked last is a violation
				if ee, isExit := err.(*exec.ExitError); isExit && ee.ExitCode() == 1 {
					if msg := fatalLine(string(lb)); msg != "" {
						if mb, e := os.ReadFile(out + ".mark"); e == nil {
							if results[i] == nil {
								results[i] = &Result{Counters: map[string]int64{}}
							}
							results[i].Violations = append(results[i].Violations, Violation{Sig: "node-fatal",
								Desc: "the code under test ended the process (logger.Fatal, exit status 1) while executing the marked case: " + msg, Replay: mb})
							errs[i] = nil
						}
					}
				}
				return
			}
			b, err := os.ReadFile(out)
			if err != nil {
				errs[i] = err
				return
			}
			var r Result
			if err := json.Unmarshal(b, &r); err != nil {
				errs[i] = err
				return
			}
			results[i] = &r
		}(i)
	}
	wg.Wait()
	// a worker that crashed, hung (killed by the watchdog) or exited is a harness error; the
	// results of the other workers (and what the failed one had recorded) are still reported, so
	// that violations found elsewhere are not lost
	nfail := 0
	for _, e := range errs {
		if e != nil {
			nfail++
			if nfail <= 3 {
				fmt.Fprintf(os.Stderr, "HARNESS-ERROR property=%s %v\n", ck.ID, e)
			}
		}
	}

	// merge
	tot := Result{Counters: map[string]int64{}, Exhaustive: true}
	distinct := map[uint64]struct{}{}
	for _, r := range results {
		if r == nil {
			tot.Exhaustive = false
			continue
		}
		tot.Evaluations += r.Evaluations
		tot.States += r.States
		tot.Transitions += r.Transitions
		tot.Traces += r.Traces
		for k, v := range r.Counters {
			if len(k) > 4 && k[:4] == "max_" {
				if tot.Counters[k] < v {
					tot.Counters[k] = v
				}
			} else {
				tot.Counters[k] += v
			}
		}
		for _, h := range r.Distinct {
			distinct[h] = struct{}{}
		}
		if len(tot.Samples) < 4 {
			tot.Samples = append(tot.Samples, r.Samples...)
		}
		tot.Violations = append(tot.Violations, r.Violations...)
		tot.Exhaustive = tot.Exhaustive && r.Exhaustive
		tot.Notes = append(tot.Notes, r.Notes...)
	}
	if len(tot.Samples) > 4 {
		tot.Samples = tot.Samples[:4]
	}

	// violations: known-finding suppression, replay files, double replay
	known := loadKnown(ck.ID)
	knownHit := map[string]int{}
	knownEx := map[string]string{}
	exit := 0
	nviol := 0
	seen := map[string]bool{}
	sort.SliceStable(tot.Violations, func(i, j int) bool { return len(tot.Violations[i].Replay) < len(tot.Violations[j].Replay) })
	for _, v := range tot.Violations {
		if e, ok := known[v.Sig]; ok && v.Sig != "" {
			if knownHit[e.Signature] == 0 {
				// keep the shortest occurrence as a replayable example of the known finding
				knownEx[e.Signature] = fmt.Sprintf("e.g. %s replay=%s", v.Desc, writeReplay(ck.ID, v))
			}
			knownHit[e.Signature]++
			continue
		}
		key := v.Sig + "|" + v.Desc
		if seen[key] {
			continue
		}
		seen[key] = true
		if nviol >= 5 {
			continue
		}
		path := writeReplay(ck.ID, v)
		// replay twice; both must violate with the same observation
		ok := true
		var obs [2]string
		for k := 0; k < 2; k++ {
			o, err := exec.Command(self, "-tier", tier, "-replay", path).CombinedOutput()
			obs[k] = string(o)
			if ee, isExit := err.(*exec.ExitError); !isExit || ee.ExitCode() != 1 {
				ok = false
			}
			if v.Sig == "node-fatal" {
				// the replay dies the same way; compared without the time stamps of the log
				obs[k] = fatalLine(obs[k])
				if obs[k] == "" {
					ok = false
				}
			}
		}
		if !ok || obs[0] != obs[1] {
			fmt.Fprintf(os.Stderr, "HARNESS-ERROR property=%s violation does not replay deterministically: %s\n--- run1\n%s--- run2\n%s", ck.ID, path, obs[0], obs[1])
			exit = 2
			continue
		}
		nviol++
		fmt.Printf("VIOLATION property=%s replay=%s\n", ck.ID, path)
		fmt.Printf("  sig=%s %s\n", v.Sig, v.Desc)
		if exit == 0 {
			exit = 1
		}
	}
	var ks []string
	for s := range knownHit {
		ks = append(ks, s)
	}
	sort.Strings(ks)
	for _, s := range ks {
		fmt.Printf("KNOWN-FINDING: property=%s %s [%s] (%d occurrences reported in this run; %s)\n", ck.ID, known[s].Text, known[s].ID, knownHit[s], knownEx[s])
	}

	// evidence
	cov := map[string]interface{}{
		"evaluations":         tot.Evaluations,
		"distinct_nontrivial": len(distinct),
		"rule":                ck.Rule,
		"samples":             tot.Samples,
		"exhaustive":          tot.Exhaustive,
		"shards":              n,
	}
	if ck.Level == "model_checking" {
		cov["states"] = tot.States
		cov["transitions"] = tot.Transitions
		cov["traces_validated_against_impl"] = tot.Traces
	}
	for k, v := range tot.Counters {
		cov[k] = v
	}
	if len(tot.Notes) > 0 {
		sort.Strings(tot.Notes)
		cov["notes"] = dedup(tot.Notes)
	}
	if len(knownHit) > 0 {
		cov["known_findings_hit"] = knownHit
	}
	ev := map[string]interface{}{
		"property_id": ck.ID,
		"tier":        tier,
		"seed":        seed,
		"level":       ck.Level,
		"coverage":    cov,
		"assumptions": ck.Assumptions,
		"wall_s":      time.Since(start).Seconds(),
		"violations":  nviol,
	}
	b, _ := json.MarshalIndent(ev, "", " ")
	// runs against a deliberately changed tree (check --mutant) keep their evidence out of /verif/evidence
	evdir := os.Getenv("VERIF_EVIDENCE_DIR")
	if evdir == "" {
		evdir = filepath.Join(verifRoot(), "evidence")
	}
	os.MkdirAll(filepath.Join(evdir, "tiers"), 0o755)
	if err := os.WriteFile(filepath.Join(evdir, ck.ID+".json"), append(b, '\n'), 0o644); err != nil {
		fmt.Fprintln(os.Stderr, err)
		return 2
	}
	// the same record, kept per tier (evidence/<id>.json is the last run of either tier)
	os.WriteFile(filepath.Join(evdir, "tiers", ck.ID+"."+tier+".json"), append(b, '\n'), 0o644)
	if nfail > 0 {
		fmt.Printf("HARNESS-ERROR property=%s %d of %d workers failed (crash, exit or hang); their part of the space is not covered\n", ck.ID, nfail, n)
		if exit == 0 {
			exit = 2
		}
	}
	fmt.Printf("%s %s: evaluations=%d distinct=%d states=%d transitions=%d exhaustive=%v violations=%d known=%d wall=%.1fs\n",
		ck.ID, tier, tot.Evaluations, len(distinct), tot.States, tot.Transitions, tot.Exhaustive, nviol, len(knownHit), time.Since(start).Seconds())
	return exit
}

func dedup(s []string) []string {
	var r []string
	for i, x := range s {
		if i == 0 || x != s[i-1] {
			r = append(r, x)
		}
	}
	return r
}

func gomaxprocs(n, jobs int) string {
	if n >= jobs {
		return "2"
	}
	p := runtime.NumCPU() / n
	if p < 2 {
		p = 2
	}
	return strconv.Itoa(p)
}

func writeReplay(id string, v Violation) string {
	dir := filepath.Join(verifRoot(), "replays", id)
	os.MkdirAll(dir, 0o755)
	sum := sha256.Sum256(append([]byte(v.Sig+"|"), v.Replay...))
	p := filepath.Join(dir, hex.EncodeToString(sum[:6])+".json")
	f := map[string]interface{}{"property": id, "sig": v.Sig, "desc": v.Desc, "replay": v.Replay}
	b, _ := json.MarshalIndent(f, "", " ")
	os.WriteFile(p, b, 0o644)
	return p
}

// fatalLine returns message and error of the last fatal-level line of an aergo log ("" if none).
func fatalLine(log string) string {
	lines := strings.Split(log, "\n")
	for i := len(lines) - 1; i >= 0; i-- {
		l := lines[i]
		if !strings.Contains(l, `"level":"fatal"`) {
			continue
		}
		var m map[string]interface{}
		if json.Unmarshal([]byte(l), &m) != nil {
			return "fatal log line"
		}
		return fmt.Sprintf("module=%v message=%q error=%v", m["module"], m["message"], m["error"])
	}
	return ""
}
