// Package forkx is the explicit-state explorer over block-arrival events on the
// real ChainService, shared by C05 (chain DB consistency) and C07 (fork choice).
//
// A scenario fixes a block tree (every block built by real execution on a
// builder node, optionally one block made invalid). An event is "deliver block
// b" (any block, any number of times, any order: orphans, duplicates, children
// before parents, competing forks). A state is the node reached by a delivery
// history; successors are computed by replaying the history on a fresh node and
// delivering one more block; states are deduplicated by a digest of everything
// addBlock reads (chain store content, state store keys, state root, orphan pool,
// bad-block cache, DPoS status). The search runs breadth-first to a fixpoint.
package forkx

import (
	"bytes"
	"crypto/sha256"
	"fmt"
	"math/big"
	"sort"
	"strings"

	"github.com/aergoio/aergo-lib/db"
	"github.com/aergoio/aergo/v2/contract"
	"github.com/aergoio/aergo/v2/internal/enc/base58"
	"github.com/aergoio/aergo/v2/types"
	"github.com/aergoio/aergo/v2/types/dbkey"
	nk "github.com/aergoio/aergo/v2/verif_h/nodekit"
	"github.com/aergoio/aergo/v2/verif_h/xplor"
)

// ------------------------------------------------------------------ scenarios

// Scenario identifies one block tree.
type Scenario struct {
	Parents []int  `json:"parents"` // Parents[i-1] = parent of block i (0 = genesis), i = 1..m
	Flavour string `json:"flavour"` // empty | tx
	BadIdx  int    `json:"bad_idx"` // 0 = none, else the block made invalid
	BadKind string `json:"bad_kind"`
}

func (s Scenario) String() string {
	return fmt.Sprintf("tree%v/%s/bad=%d%s", s.Parents, s.Flavour, s.BadIdx, s.BadKind)
}

// BadKinds are the ways a block is made invalid.
var BadKinds = []string{"root", "rcpt", "txroot", "badtx", "sign", "height"}

// Trees enumerates one representative per isomorphism class of rooted trees
// with 1..m non-root nodes and at most maxLeaves leaves.
func Trees(m, maxLeaves int) [][]int {
	var out [][]int
	seen := map[string]bool{}
	var rec func(p []int, n int)
	rec = func(p []int, n int) {
		if len(p) == n {
			if leaves(p) > maxLeaves {
				return
			}
			c := canonTree(p)
			if !seen[c] {
				seen[c] = true
				out = append(out, append([]int{}, p...))
			}
			return
		}
		for par := 0; par <= len(p); par++ {
			rec(append(p, par), n)
		}
	}
	for n := 1; n <= m; n++ {
		rec(nil, n)
	}
	return out
}

func leaves(p []int) int {
	has := make([]bool, len(p)+1)
	for _, par := range p {
		has[par] = true
	}
	c := 0
	for i := 1; i <= len(p); i++ {
		if !has[i] {
			c++
		}
	}
	return c
}

func canonTree(p []int) string {
	ch := make([][]int, len(p)+1)
	for i, par := range p {
		ch[par] = append(ch[par], i+1)
	}
	var f func(v int) string
	f = func(v int) string {
		var s []string
		for _, c := range ch[v] {
			s = append(s, f(c))
		}
		sort.Strings(s)
		return "(" + strings.Join(s, "") + ")"
	}
	return f(0)
}

// ------------------------------------------------------------------ built tree

// Blk is one block of the scenario with the oracle's knowledge about it.
type Blk struct {
	Idx    int
	Parent int
	Height uint64
	Block  *types.Block
	Valid  bool   // the block and all its ancestors are valid
	Self   bool   // the block itself is valid
	Root   []byte // state root after honest execution of the path to this block
	Dump   *nk.StateDump
	TxIDs  []string // tx ids in the block
}

type Tree struct {
	Sc     Scenario
	Blocks []*Blk // Blocks[0] = genesis
	ByID   map[string]*Blk
	Net    nk.Net
	TxOf   map[string]*types.Tx
}

var seq int

func freshName(p string) string { seq++; return fmt.Sprintf("%s%d", p, seq) }

// Build constructs the scenario's blocks by real execution on a builder node.
func Build(net nk.Net, sc Scenario) (*Tree, error) {
	b, err := nk.NewNode(net, freshName("builder"))
	if err != nil {
		return nil, err
	}
	defer func() { b.Stop(); b.Drop() }()
	g := b.Genesis()
	gd, err := b.DumpState(g.GetHeader().GetBlocksRootHash())
	if err != nil {
		return nil, err
	}
	t := &Tree{Sc: sc, Net: net, ByID: map[string]*Blk{}, TxOf: map[string]*types.Tx{}}
	t.Blocks = append(t.Blocks, &Blk{Idx: 0, Parent: -1, Block: g, Valid: true, Self: true, Root: g.GetHeader().GetBlocksRootHash(), Dump: gd})
	cid := b.ChainIDHashFor(1)
	shared := map[uint64]*types.Tx{}
	for i := 1; i <= len(sc.Parents); i++ {
		par := t.Blocks[sc.Parents[i-1]]
		h := par.Height + 1
		var txs []*types.Tx
		if sc.Flavour == "tx" {
			s, ok := shared[h]
			if !ok {
				s = nk.MakeTx(nk.TxSpec{From: 0, Nonce: h, To: nk.UserAddrs[2], Amount: big.NewInt(1), Type: types.TxType_TRANSFER}, cid)
				shared[h] = s
			}
			own := nk.MakeTx(nk.TxSpec{From: 1, Nonce: h, To: nk.UserAddrs[3], Amount: big.NewInt(int64(100 + i)), Type: types.TxType_TRANSFER}, cid)
			txs = []*types.Tx{s, own}
			// blocks with an odd index also carry a tx of a third account (C), so that some
			// accounts are touched by one branch only and not by the first block of the other
			if i%2 == 1 {
				cn := uint64(1)
				for a := par.Idx; a > 0; a = t.Blocks[a].Parent {
					if a%2 == 1 {
						cn++
					}
				}
				txs = append(txs, nk.MakeTx(nk.TxSpec{From: 2, Nonce: cn, To: nk.UserAddrs[3], Amount: big.NewInt(int64(7)), Type: types.TxType_TRANSFER}, cid))
			}
		}
		if sc.Flavour == "ctr" {
			// contract storage along forks: every block of height 1 deploys the same contract
			// (shared tx, so the address exists on every branch); higher blocks carry a call shared
			// by the height (set k=<height>) and a conflicting call of their own (set own=<block>,
			// failing at run time in every third block), and stake/vote governance txs at height 2
			ctr := contract.CreateContractID(nk.UserAddrs[2], 1)
			s, ok := shared[h]
			if !ok {
				if h == 1 {
					s = nk.MakeTx(nk.TxSpec{From: 2, Nonce: 1, Type: types.TxType_DEPLOY,
						Payload: nk.JSON(map[string]interface{}{"code": "x", "ctor": [][]interface{}{{"set", "k", "0"}}})}, cid)
				} else {
					s = nk.MakeTx(nk.TxSpec{From: 3, Nonce: h - 1, To: ctr, Type: types.TxType_CALL,
						Payload: nk.JSON(map[string]interface{}{"ops": [][]interface{}{{"set", "k", fmt.Sprint(h)}, {"event", "e"}}})}, cid)
				}
				shared[h] = s
			}
			txs = []*types.Tx{s}
			if h > 1 {
				ops := [][]interface{}{{"set", "own", fmt.Sprint(i)}, {"del", "k"}}
				if i%3 == 0 {
					ops = append(ops, []interface{}{"fail"})
				}
				txs = append(txs, nk.MakeTx(nk.TxSpec{From: 0, Nonce: h - 1, To: ctr, Amount: big.NewInt(int64(i)), Type: types.TxType_CALL,
					Payload: nk.JSON(map[string]interface{}{"ops": ops})}, cid))
			} else {
				txs = append(txs, nk.MakeTx(nk.TxSpec{From: 1, Nonce: 1, To: []byte(types.AergoSystem), Amount: types.StakingMinimum, Type: types.TxType_GOVERNANCE, Payload: nk.GovPayload("v1stake")}, cid))
			}
		}
		bad := ""
		if sc.BadIdx == i {
			bad = sc.BadKind
		}
		if bad == "badtx" {
			// a transfer signed with the wrong key (tx root stays consistent)
			forged := nk.MakeTx(nk.TxSpec{From: 3, Nonce: 1, To: nk.UserAddrs[0], Amount: big.NewInt(7), Type: types.TxType_TRANSFER, SignWith: 2}, cid)
			txs = append(txs, forged)
		}
		// honest production on the honest parent state
		parentForBuild := nk.CloneBlock(par.Block)
		parentForBuild.Header.BlocksRootHash = par.Root
		built, err := b.Produce(parentForBuild, txs, i%net.NBP, i, 1)
		if err != nil {
			return nil, fmt.Errorf("produce block %d: %v", i, err)
		}
		blk := built.Block
		if (sc.Flavour == "tx" || sc.Flavour == "ctr") && bad != "badtx" && len(blk.GetBody().GetTxs()) != len(txs) {
			return nil, fmt.Errorf("builder skipped txs in block %d", i)
		}
		root := blk.GetHeader().GetBlocksRootHash()
		// commit the honest state into the builder's state DB so that children can be built
		if err := built.BState.Commit(); err != nil {
			return nil, err
		}
		switch bad {
		case "root":
			blk.Header.BlocksRootHash = flip(blk.Header.BlocksRootHash)
			nk.Resign(blk, i%net.NBP)
		case "rcpt":
			blk.Header.ReceiptsRootHash = flip(orDigest(blk.Header.ReceiptsRootHash))
			nk.Resign(blk, i%net.NBP)
		case "txroot":
			blk.Header.TxsRootHash = flip(orDigest(blk.Header.TxsRootHash))
			nk.Resign(blk, i%net.NBP)
		case "height":
			// the header claims a block number one above parent+1 (everything else is honest)
			blk.Header.BlockNo++
			nk.Resign(blk, i%net.NBP)
		case "sign":
			blk.Header.Sign = flip(blk.Header.Sign)
			blk.Hash = nil
			blk.Hash = blk.BlockHash()
		}
		d, err := b.DumpState(root)
		if err != nil {
			return nil, fmt.Errorf("dump block %d: %v", i, err)
		}
		self := bad == ""
		x := &Blk{Idx: i, Parent: par.Idx, Height: h, Block: blk, Self: self, Valid: self && par.Valid, Root: root, Dump: d}
		for _, tx := range blk.GetBody().GetTxs() {
			id := base58.Encode(tx.GetHash())
			x.TxIDs = append(x.TxIDs, id)
			t.TxOf[id] = tx
		}
		t.Blocks = append(t.Blocks, x)
	}
	for _, x := range t.Blocks {
		t.ByID[x.Block.ID()] = x
	}
	if len(t.ByID) != len(t.Blocks) {
		return nil, fmt.Errorf("block ids collide")
	}
	// sanity (non-vacuity): a fresh node that receives every block in index order
	// must end on a highest valid block
	_, post, _, _, err := RunHistory(t, seqTo(len(sc.Parents)), -1, nil)
	if err != nil {
		return nil, err
	}
	maxH := uint64(0)
	for _, x := range t.Blocks {
		if x.Valid && x.Height > maxH {
			maxH = x.Height
		}
	}
	if post.Best < 0 || t.Blocks[post.Best].Height != maxH {
		return nil, fmt.Errorf("harness sanity: in-order delivery ends at block %d, expected height %d", post.Best, maxH)
	}
	return t, nil
}

func seqTo(n int) []int {
	r := make([]int, n)
	for i := range r {
		r[i] = i + 1
	}
	return r
}

func flip(b []byte) []byte {
	c := append([]byte{}, b...)
	c[len(c)-1] ^= 1
	return c
}

func orDigest(b []byte) []byte {
	if len(b) == 0 {
		h := sha256.Sum256([]byte("x"))
		return h[:]
	}
	return b
}

// Path returns the indices from genesis (exclusive) to block i (inclusive).
func (t *Tree) Path(i int) []int {
	var p []int
	for i > 0 {
		p = append([]int{i}, p...)
		i = t.Blocks[i].Parent
	}
	return p
}

// ------------------------------------------------------------------ observation

// Obs is what the oracles look at after a delivery.
type Obs struct {
	Best      int      // scenario index of the best block (-1 unknown)
	BestID    string
	Stored    []bool   // Stored[i]: block i is in the block store
	Main      []int    // height -> scenario index on the height index (-1 unknown / missing)
	Key       string   // canonical state key
	SdbRoot   []byte
	Orphans   []string
	ErrBlocks []string
	Msgs      []nk.Msg
}

func observe(t *Tree, n *nk.Node) *Obs {
	o := &Obs{Best: -1}
	best := n.Best()
	o.BestID = best.ID()
	if b, ok := t.ByID[o.BestID]; ok {
		o.Best = b.Idx
	}
	o.Stored = make([]bool, len(t.Blocks))
	for i, b := range t.Blocks {
		if _, err := n.CS.VerifGetBlock(b.Block.BlockHash()); err == nil {
			o.Stored[i] = true
		}
	}
	for h := uint64(0); h <= best.BlockNo(); h++ {
		idx := -1
		if hash, err := n.CS.VerifGetHashByNo(h); err == nil {
			if b, ok := t.ByID[base58.Encode(hash)]; ok {
				idx = b.Idx
			}
		}
		o.Main = append(o.Main, idx)
	}
	o.SdbRoot = n.CS.SDB().GetRoot()
	o.Orphans = n.CS.VerifOrphans()
	o.ErrBlocks = n.CS.VerifErrBlocks()
	o.Msgs = n.TakeMsgs()
	o.Key = stateKey(n, o)
	return o
}

func stateKey(n *nk.Node, o *Obs) string {
	cst, sst := n.CS.VerifStores()
	h := sha256.New()
	cm := db.VerifHandleSnapshot(cst)
	ks := make([]string, 0, len(cm))
	for k := range cm {
		ks = append(ks, k)
	}
	sort.Strings(ks)
	for _, k := range ks {
		fmt.Fprintf(h, "%d:%s=%d:", len(k), k, len(cm[k]))
		h.Write(cm[k])
	}
	h.Write([]byte("|state|"))
	sm := db.VerifHandleSnapshot(sst)
	ks = ks[:0]
	for k := range sm {
		ks = append(ks, k)
	}
	sort.Strings(ks)
	for _, k := range ks {
		h.Write([]byte(k))
	}
	fmt.Fprintf(h, "|root=%x|orph=%v|err=%v|dpos=%s", o.SdbRoot, o.Orphans, o.ErrBlocks, n.DPoS.VerifStatusDigest())
	return fmt.Sprintf("%x", h.Sum(nil)[:16])
}

// ------------------------------------------------------------------ exploration

// Oracle is called after every transition.
type Oracle func(t *Tree, n *nk.Node, hist []int, ev int, pre, post *Obs, err error) (sig, desc string)

// Replay is the replay record of a violation.
type Replay struct {
	Sc   Scenario `json:"scenario"`
	Hist []int    `json:"history"`
	Ev   int      `json:"event"`
}

// RunHistory replays hist on a fresh node, then delivers ev, and applies the oracle.
// Hooks lets a check attach a component to every replayed node (C04 attaches a real mempool
// that consumes the MemPoolDel / MemPoolPut messages of every delivery).
var Hooks struct {
	Start func(t *Tree, n *nk.Node)
	After func(t *Tree, n *nk.Node, msgs []nk.Msg)
}

func RunHistory(t *Tree, hist []int, ev int, oracle Oracle) (pre, post *Obs, sig, desc string, e error) {
	n, err := nk.NewNode(t.Net, freshName("n"))
	if err != nil {
		return nil, nil, "", "", fmt.Errorf("NewNode: %v", err)
	}
	defer func() { n.Stop(); n.Drop() }()
	if Hooks.Start != nil {
		Hooks.Start(t, n)
	}
	for _, i := range hist {
		_ = n.Deliver(t.Blocks[i].Block)
		if Hooks.After != nil {
			Hooks.After(t, n, n.TakeMsgs())
		}
	}
	pre = observe(t, n)
	if ev < 0 {
		return pre, pre, "", "", nil
	}
	derr := n.Deliver(t.Blocks[ev].Block)
	post = observe(t, n)
	if Hooks.After != nil {
		Hooks.After(t, n, post.Msgs)
	}
	if oracle != nil {
		sig, desc = oracle(t, n, hist, ev, pre, post, derr)
	}
	return pre, post, sig, desc, nil
}

// Explore runs the BFS for one scenario.
func Explore(ctx *xplor.Ctx, net nk.Net, sc Scenario, oracle Oracle, maxStates int) {
	ExploreWrap(ctx, net, sc, oracle, maxStates, func(r Replay) interface{} { return r })
}

// ExploreWrap is Explore with a caller-defined replay record.
func ExploreWrap(ctx *xplor.Ctx, net nk.Net, sc Scenario, oracle Oracle, maxStates int, wrap func(Replay) interface{}) {
	// Build ends with the in-order delivery of the whole tree (non-vacuity check): that is the marked case
	if n := len(sc.Parents); n > 0 {
		ctx.Mark(wrap(Replay{sc, seqTo(n - 1), n}))
	}
	t, err := Build(net, sc)
	if err != nil {
		panic(fmt.Sprintf("scenario %v: %v", sc, err))
	}
	init, _, _, _, err := RunHistory(t, nil, -1, nil)
	if err != nil {
		panic(err)
	}
	seen := map[string]bool{init.Key: true}
	queue := [][]int{nil}
	ctx.State(1)
	depth := 0
	bests := map[int]bool{}
	for len(queue) > 0 {
		if ctx.Expired() {
			ctx.Note(fmt.Sprintf("deadline hit in %v with %d states queued", sc, len(queue)))
			return
		}
		hist := queue[0]
		queue = queue[1:]
		if len(hist) > depth {
			depth = len(hist)
		}
		for ev := 1; ev < len(t.Blocks); ev++ {
			ctx.Mark(wrap(Replay{sc, hist, ev}))
			_, post, sig, desc, err := RunHistory(t, hist, ev, oracle)
			if err != nil {
				panic(err)
			}
			ctx.Trans(1)
			ctx.Trace(1)
			ctx.Eval(1)
			bests[post.Best] = true
			if desc != "" {
				ctx.Violation(sig, fmt.Sprintf("%v after %v deliver %d: %s", sc, hist, ev, desc), wrap(Replay{sc, hist, ev}))
				continue // do not extend a violating state
			}
			if !seen[post.Key] {
				if len(seen) >= maxStates {
					ctx.Incomplete(fmt.Sprintf("state cap %d hit in %v", maxStates, sc))
					continue
				}
				seen[post.Key] = true
				ctx.State(1)
				nh := append(append([]int{}, hist...), ev)
				queue = append(queue, nh)
				ctx.Distinct(xplor.Hash(sc.String(), post.Key))
			}
		}
	}
	ctx.Max("max_bfs_depth", int64(depth))
	ctx.Max("max_states_one_scenario", int64(len(seen)))
	ctx.Count("scenarios", 1)
	ctx.Count("distinct_best_outcomes", int64(len(bests)))
}

// ReplayOne re-executes one recorded transition.
func ReplayOne(ctx *xplor.Ctx, net nk.Net, r Replay, oracle Oracle) {
	t, err := Build(net, r.Sc)
	if err != nil {
		panic(err)
	}
	_, _, sig, desc, err := RunHistory(t, r.Hist, r.Ev, oracle)
	if err != nil {
		panic(err)
	}
	if desc != "" {
		ctx.Violation(sig, fmt.Sprintf("%v after %v deliver %d: %s", r.Sc, r.Hist, r.Ev, desc), r)
	}
}

// ------------------------------------------------------------------ C05 oracle: chain DB coherence

// CheckDB evaluates the C05 invariants on the node (after a delivery returned).
func CheckDB(t *Tree, n *nk.Node, post *Obs) string {
	cs := n.CS
	best := n.Best()
	// I1: best is the tip of a parent-linked path to genesis; I2: the height index is exactly that path
	cur := best
	for {
		h := cur.BlockNo()
		byNo, err := cs.VerifGetBlockByNo(h)
		if err != nil {
			return fmt.Sprintf("I2 height index has no block at height %d of the best chain (%v)", h, err)
		}
		if !bytes.Equal(byNo.BlockHash(), cur.BlockHash()) {
			return fmt.Sprintf("I2 height index at %d maps to %s, the best chain has %s", h, byNo.ID(), cur.ID())
		}
		if h == 0 {
			if cur.ID() != t.Blocks[0].Block.ID() {
				return "I1 path from best does not end at genesis"
			}
			break
		}
		par, err := cs.VerifGetBlock(cur.GetHeader().GetPrevBlockHash())
		if err != nil {
			return fmt.Sprintf("I1 parent of %s (height %d) is not stored", cur.ID(), h)
		}
		if par.BlockNo()+1 != h {
			return fmt.Sprintf("I1 parent height %d under height %d", par.BlockNo(), h)
		}
		cur = par
	}
	// nothing indexed above best
	if _, err := cs.VerifGetHashByNo(best.BlockNo() + 1); err == nil {
		return fmt.Sprintf("I2 height index has an entry above the best block (%d)", best.BlockNo()+1)
	}
	// persisted latest pointer = in-memory best
	cst, _ := cs.VerifStores()
	if lb := cst.Get(dbkey.LatestBlock()); types.BlockNoFromBytes(lb) != best.BlockNo() {
		return fmt.Sprintf("persisted latest %d != cached best %d", types.BlockNoFromBytes(lb), best.BlockNo())
	}
	if cs.VerifBestNo() != best.BlockNo() {
		return "cached best number != cached best block"
	}
	// I3/I5: every tx of a main-chain block is found at its block and position, receipts exist
	onMain := map[string]bool{}
	for h := uint64(1); h <= best.BlockNo(); h++ {
		b, _ := cs.VerifGetBlockByNo(h)
		txs := b.GetBody().GetTxs()
		for i, tx := range txs {
			id := base58.Encode(tx.GetHash())
			onMain[id] = true
			gtx, idx, err := cs.VerifGetTx(tx.GetHash())
			if err != nil || idx == nil {
				return fmt.Sprintf("I3 tx %s of main block %d not found by hash (%v)", id[:8], h, err)
			}
			if !bytes.Equal(idx.BlockHash, b.BlockHash()) || int(idx.Idx) != i || !bytes.Equal(gtx.GetHash(), tx.GetHash()) {
				return fmt.Sprintf("I3 tx %s of main block %d/%d is indexed at %s/%d", id[:8], h, i, base58.Encode(idx.BlockHash)[:8], idx.Idx)
			}
			rc, err := cs.VerifGetReceipt(tx.GetHash())
			if err != nil || rc == nil || !bytes.Equal(rc.TxHash, tx.GetHash()) {
				return fmt.Sprintf("I5 receipt of main tx %s (block %d) not found (%v)", id[:8], h, err)
			}
		}
		if len(txs) > 0 {
			rs, err := cs.VerifGetReceipts(b.BlockHash())
			if err != nil || rs == nil || len(rs.Get()) != len(txs) {
				return fmt.Sprintf("I5 receipts of main block %d: %v", h, err)
			}
			for i, r := range rs.Get() {
				if !bytes.Equal(r.TxHash, txs[i].GetHash()) {
					return fmt.Sprintf("I5 receipt %d of main block %d belongs to another tx", i, h)
				}
			}
		}
	}
	// I4: txs only on abandoned branches are not reported confirmed
	for id, tx := range t.TxOf {
		if onMain[id] {
			continue
		}
		if _, idx, err := cs.VerifGetTx(tx.GetHash()); err == nil && idx != nil {
			return fmt.Sprintf("I4 tx %s is not on the main chain but is reported confirmed in block %s", id[:8], base58.Encode(idx.BlockHash)[:8])
		}
		if rc, err := cs.VerifGetReceipt(tx.GetHash()); err == nil && rc != nil {
			return fmt.Sprintf("I4 tx %s is not on the main chain but has a receipt", id[:8])
		}
	}
	// I6: state root = best block's root, and that state is readable
	if !bytes.Equal(cs.SDB().GetRoot(), best.GetHeader().GetBlocksRootHash()) {
		return fmt.Sprintf("I6 state root %x != best block %d root %x", cs.SDB().GetRoot()[:6], best.BlockNo(), best.GetHeader().GetBlocksRootHash()[:6])
	}
	return ""
}

// OracleC05 = chain DB coherence after every delivery.
func OracleC05(t *Tree, n *nk.Node, hist []int, ev int, pre, post *Obs, err error) (string, string) {
	if m := CheckDB(t, n, post); m != "" {
		return sigFor(t, pre, post, ev, m), m
	}
	return "", ""
}

// sigFor classifies known defect classes by their trigger (never by the property as a whole).
func sigFor(t *Tree, pre, post *Obs, ev int, msg string) string {
	return ""
}

// ------------------------------------------------------------------ C07 oracle: fork choice

// OracleC07 checks the fork-choice rules on every transition.
func OracleC07(t *Tree, n *nk.Node, hist []int, ev int, pre, post *Obs, err error) (string, string) {
	if post.Best < 0 {
		return "", fmt.Sprintf("best block %s is not a block of the scenario", post.BestID)
	}
	nb := t.Blocks[post.Best]
	ob := t.Blocks[pre.Best]
	// P1: the best block is valid (it and all its ancestors)
	if !nb.Valid {
		return "", fmt.Sprintf("P1 best block %d is on an invalid branch", nb.Idx)
	}
	// P1d: the choice is durable - the persisted latest pointer names the same block (a restart
	// loads the best block from it)
	if cst, _ := n.CS.VerifStores(); cst != nil {
		no := types.BlockNoFromBytes(cst.Get(dbkey.LatestBlock()))
		if h, herr := n.CS.VerifGetHashByNo(no); no != nb.Block.BlockNo() || herr != nil || string(h) != string(nb.Block.BlockHash()) {
			return "", fmt.Sprintf("P1 the persisted latest pointer names height %d, the best block %d has height %d: after a restart the node is not on the chosen branch", no, nb.Idx, nb.Block.BlockNo())
		}
	}
	// P2: a shorter or equal branch never displaces the main chain
	if nb.Idx != ob.Idx && nb.Height <= ob.Height {
		return "", fmt.Sprintf("P2 best moved from block %d (height %d) to block %d (height %d)", ob.Idx, ob.Height, nb.Idx, nb.Height)
	}
	// P3: the node is on a longest fully available valid branch
	for i, st := range post.Stored {
		b := t.Blocks[i]
		if st && b.Valid && b.Height > nb.Height {
			return sigP3(t, post, b), fmt.Sprintf("P3 block %d (height %d) is stored, valid with all its ancestors, and strictly higher than the best block %d (height %d)", b.Idx, b.Height, nb.Idx, nb.Height)
		}
	}
	// P4: the world state is exactly the state of executing that branch
	d, derr := n.DumpState(n.CS.SDB().GetRoot())
	if derr != nil {
		return "", fmt.Sprintf("P4 state under the node's root is unreadable: %v", derr)
	}
	if diff := d.Diff(nb.Dump); len(diff) > 0 {
		return "", fmt.Sprintf("P4 world state differs from the reference execution of the path to block %d in accounts %v", nb.Idx, diff)
	}
	// P5: txs that were only on the abandoned branch are offered back to the pool
	if nb.Idx != ob.Idx {
		oldP, newP := t.Path(ob.Idx), t.Path(nb.Idx)
		k := 0
		for k < len(oldP) && k < len(newP) && oldP[k] == newP[k] {
			k++
		}
		want := map[string]bool{}
		for _, i := range oldP[k:] {
			for _, id := range t.Blocks[i].TxIDs {
				want[id] = true
			}
		}
		for _, i := range newP[k:] {
			for _, id := range t.Blocks[i].TxIDs {
				delete(want, id)
			}
		}
		got := map[string]bool{}
		for _, m := range post.Msgs {
			if m.Kind == "MemPoolPut" {
				got[m.Ref] = true
			}
		}
		if len(oldP[k:]) > 0 || len(got) > 0 {
			if !sameSet(want, got) {
				return "", fmt.Sprintf("P5 reorg %d->%d: txs returned to the pool %v, expected %v", ob.Idx, nb.Idx, keys(got), keys(want))
			}
		}
	} else {
		for _, m := range post.Msgs {
			if m.Kind == "MemPoolPut" {
				return "", "P5 a tx was returned to the pool although the main chain did not change"
			}
		}
	}
	return "", ""
}

// sigP3 classifies a P3 failure: "F16" iff the higher valid stored block b has a
// stored descendant that is itself invalid (the reorg towards that descendant
// failed and the node does not fall back to the valid prefix of the branch).
func sigP3(t *Tree, post *Obs, b *Blk) string {
	for i, st := range post.Stored {
		x := t.Blocks[i]
		if !st || x.Self || x.Idx == b.Idx {
			continue
		}
		for a := x.Parent; a > 0; a = t.Blocks[a].Parent {
			if a == b.Idx {
				return "F16"
			}
		}
	}
	return "P3"
}

func sameSet(a, b map[string]bool) bool {
	if len(a) != len(b) {
		return false
	}
	for k := range a {
		if !b[k] {
			return false
		}
	}
	return true
}

func keys(m map[string]bool) []string {
	var r []string
	for k := range m {
		r = append(r, k[:8])
	}
	sort.Strings(r)
	return r
}
