// C14: admission totality - untrusted transactions never crash a node.
//
// Every transaction body of a bounded grammar (see grammar.go) is pushed through
// the admission entry points of the real code, each under its own recover:
//
//	stage 1  types.NewTransaction(tx).Validate(chainIdHash, isPublic)
//	stage 2  tx.ValidateWithSenderState(state of the sender, gas price, version)
//	stage 3  mempool.verifyTx   (format + signature, name resolution)
//	stage 4  mempool.put        (stateful validation: system/name/enterprise)
//
// first on the unsigned body, every stage on its own ("isolated": is each entry
// point total?), then - when stage 1 accepts the body - on the properly signed
// transaction as the node's pipeline runs them (verifyTx, then put). Every
// transaction the pool admits is put into a block by the real producer path
// and that block is handed to the real validator path. A panic anywhere is a
// violation; an admitted transaction must end as a receipt or be skipped by the
// producer, and the produced block must be accepted by the validator.
package main

import (
	"encoding/json"
	"fmt"
	"os"
	"runtime"
	"runtime/debug"
	"runtime/pprof"
	"strconv"
	"strings"
	"sync/atomic"
	"time"

	"github.com/aergoio/aergo-actor/actor"
	"github.com/aergoio/aergo/v2/account/key"
	"github.com/aergoio/aergo/v2/chain"
	"github.com/aergoio/aergo/v2/contract/system"
	"github.com/aergoio/aergo/v2/mempool"
	"github.com/aergoio/aergo/v2/pkg/component"
	"github.com/aergoio/aergo/v2/state"
	"github.com/aergoio/aergo/v2/state/statedb"
	"github.com/aergoio/aergo/v2/types"
	"github.com/aergoio/aergo/v2/types/message"
	lx "github.com/aergoio/aergo/v2/verif_h/ledgerx"
	nk "github.com/aergoio/aergo/v2/verif_h/nodekit"
	"github.com/aergoio/aergo/v2/verif_h/xplor"
)

// netsOf: the networks of a tier, as indices into nets(). quick: every hardfork version and both
// chain kinds, but not their product.
func netsOf(tier string) []int {
	if tier == "thorough" {
		return []int{0, 1, 2, 3, 4, 5, 6, 7, 8, 9}
	}
	return []int{0, 2, 4, 6, 8, 9} // public v0 v3 v5, private v2 v4 v5
}

func shardsPerNet(tier string) int {
	return 8
}

// ------------------------------------------------------------------ nets

var versions = []int{0, 2, 3, 4, 5}

// nets: every hardfork version x {public, private}.
func nets() []nk.Net {
	var out []nk.Net
	for _, pub := range []bool{true, false} {
		for _, v := range versions {
			n := nk.NetForVersion(v, pub)
			n.Vault = "5000000000000000000000"
			out = append(out, n)
		}
	}
	return out
}

func netName(ni int) string {
	n := nets()[ni]
	v := versions[ni%len(versions)]
	if n.Public {
		return fmt.Sprintf("public/v%d", v)
	}
	return fmt.Sprintf("private/v%d", v)
}

// ------------------------------------------------------------------ hub for the pool

// svc is a synchronous stand-in for a component of the hub: P2PSvc swallows the
// NotifyNewTransactions of put; ChainSvc answers CheckFeeDelegation with the
// body of the chain worker's handler (shim VerifC14CheckFeeDelegation).
type svc struct {
	name string
	hub  *component.ComponentHub
	w    *world
}

func (r *svc) GetName() string                  { return r.name }
func (r *svc) Start()                           {}
func (r *svc) Stop()                            {}
func (r *svc) Status() component.Status         { return component.StartedStatus }
func (r *svc) SetHub(h *component.ComponentHub) { r.hub = h }
func (r *svc) Hub() *component.ComponentHub     { return r.hub }
func (r *svc) MsgQueueLen() int32               { return 0 }
func (r *svc) Receive(actor.Context)            {}
func (r *svc) Tell(m interface{})               {}
func (r *svc) Request(m interface{}, _ *actor.PID) {
}
func (r *svc) RequestFuture(m interface{}, timeout time.Duration, tip string) *actor.Future {
	f := actor.NewFuture(timeout)
	switch v := m.(type) {
	case *message.CheckFeeDelegation:
		f.PID().Tell(r.w.p.Node.CS.VerifC14CheckFeeDelegation(v))
	default:
		panic(harnessBug(fmt.Sprintf("c14 harness: unexpected request %T to %s", m, r.name)))
	}
	return f
}

// ------------------------------------------------------------------ world

type world struct {
	ctx       *xplor.Ctx
	ni        int
	net       nk.Net
	pre       int
	p         *lx.Prepared
	hub       *component.ComponentHub
	mp        *mempool.MemPool
	mpFor     *nk.Node
	cid       []byte
	sym       *symtab
	found     map[string]rec // violations of this worker by signature
	order     []string
	quick     bool
	replay    bool
	delivered map[string]bool
	dirty     bool // process globals (voting power rank) carry the effects of a discarded block
}

func newWorld(ctx *xplor.Ctx, ni, pre int) *world {
	w := &world{ctx: ctx, ni: ni, net: nets()[ni], pre: pre, found: map[string]rec{}, delivered: map[string]bool{}, quick: ctx.Tier != "thorough", replay: ctx.Replay != nil}
	p, err := lx.Prepare(w.net, pre, fmt.Sprintf("p%d", pre))
	if err != nil {
		panic(fmt.Sprintf("prepare %s pre=%d: %v", netName(ni), pre, err))
	}
	w.p = p
	if !w.net.Public && pre == 1 {
		// private chain, warm: one more block in which A becomes the enterprise admin
		n := p.Node
		cid := n.ChainIDHashFor(p.Parent.BlockNo() + 1)
		tx := nk.MakeTx(nk.TxSpec{From: 0, Nonce: p.Nonces[0], To: []byte(types.AergoEnterprise), Type: types.TxType_GOVERNANCE,
			Payload: nk.GovPayload("appendAdmin", types.EncodeAddress(nk.UserAddrs[0]))}, cid)
		b, err := n.Produce(n.Best(), []*types.Tx{tx}, 2, 0, 1)
		if err != nil || b.Skipped != 0 || b.Receipts[0].Status != "SUCCESS" {
			panic(fmt.Sprintf("admin block: %v %+v", err, b))
		}
		if err := n.ConnectProduced(b); err != nil {
			panic(err)
		}
		p.Nonces[0]++
		p.Parent = n.Best()
		p.Snap = n.SaveStores()
	}
	w.hub = component.NewComponentHub()
	for _, nm := range []string{message.P2PSvc, message.ChainSvc} {
		w.hub.Register(&svc{name: nm, w: w})
	}
	w.cid = p.Node.ChainIDHashFor(p.Parent.BlockNo() + 1)
	w.sym = newSymtab(w)
	return w
}

// pool returns the pool of the current node instance (a fresh one after every node restart).
func (w *world) pool() *mempool.MemPool {
	if w.mpFor != w.p.Node {
		w.mp = mempool.VerifC14New(w.p.Node.Cfg, w.p.Node.CS, w.hub, w.p.Parent)
		w.mpFor = w.p.Node
	}
	return w.mp
}

func tracef(f string, a ...interface{}) {
	if trace {
		fmt.Fprintf(os.Stderr, "  "+f+"\n", a...)
	}
}

func (w *world) reset() {
	if err := w.p.Reset(); err != nil {
		panic(fmt.Sprintf("c14 harness: node reset failed: %v", err))
	}
	w.dirty = false
}

// ------------------------------------------------------------------ panics

type panicInfo struct {
	Msg   string
	Func  string // innermost aergo function on the stack
	Site  string // file:line of it, relative to the repository
	Class string // conv | index | nilptr | slice | other
}

// String names the panic without the input-dependent part of the message (the dynamic type of a
// failed type assertion), so that one site gives one description.
func (p *panicInfo) String() string {
	msg := p.Msg
	if i := strings.Index(msg, "interface {} is "); i >= 0 {
		if j := strings.Index(msg[i:], ", not "); j >= 0 {
			msg = msg[:i] + "interface {} is <T>" + msg[i+j:]
		}
	}
	return fmt.Sprintf("panic %q at %s (%s)", msg, p.Site, p.Func)
}

const modPrefix = "github.com/aergoio/aergo/v2/"

func classify(msg string) string {
	switch {
	case strings.Contains(msg, "interface conversion"):
		return "conv"
	case strings.Contains(msg, "index out of range"):
		return "index"
	case strings.Contains(msg, "slice bounds out of range"):
		return "slice"
	case strings.Contains(msg, "nil pointer") || strings.Contains(msg, "nil map"):
		return "nilptr"
	}
	return "other"
}

// harnessBug is a panic value of the harness itself: guard lets it pass.
type harnessBug string

// guard runs f; a panic is returned with the innermost frame that belongs to the
// aergo module proper (not the runtime, not a harness package, not the stub VM).
func guard(f func()) (pi *panicInfo) {
	defer func() {
		r := recover()
		if r == nil {
			return
		}
		if hb, ok := r.(harnessBug); ok {
			panic(hb)
		}
		msg := fmt.Sprint(r)
		if e, ok := r.(error); ok {
			msg = e.Error()
		}
		pi = &panicInfo{Msg: msg, Class: classify(msg), Func: "?", Site: "?"}
		pcs := make([]uintptr, 64)
		n := runtime.Callers(2, pcs)
		fr := runtime.CallersFrames(pcs[:n])
		for {
			f, more := fr.Next()
			if strings.HasPrefix(f.Function, modPrefix) && !strings.Contains(f.Function, "/verif_h/") &&
				!strings.HasSuffix(f.File, "_verif.go") && !strings.Contains(f.File, "zz_verif_") {
				file := f.File
				if i := strings.Index(file, "/repo/"); i >= 0 {
					file = file[i+len("/repo/"):]
				}
				pi.Func = strings.TrimPrefix(f.Function, modPrefix)
				pi.Site = fmt.Sprintf("%s:%d", file, f.Line)
				break
			}
			if !more {
				break
			}
		}
	}()
	f()
	return nil
}

// sigOf names a panic site. Sites found while reading the code (DESIGN §4) have
// fixed names; the key contains the function, the panic class and the governance
// command, so two different sites never share a name. Anything else is named by
// function and position.
func sigOf(pi *panicInfo, cmd string) string {
	k := pi.Func + "|" + pi.Class + "|" + cmd
	switch k {
	case "types.validateNameTx|conv|v1updateName":
		return "F4a"
	case "types.validateNameTx|index|v1setOwner":
		return "F4b"
	case "contract/system.newVoteCmd|index|v1voteDAO":
		return "F5"
	case "contract/enterprise.ValidateEnterpriseTx|conv|appendAdmin", "contract/enterprise.ValidateEnterpriseTx|conv|removeAdmin":
		return "F11a"
	case "contract/enterprise.checkArgs|conv|setConf", "contract/enterprise.checkArgs|conv|appendConf", "contract/enterprise.checkArgs|conv|removeConf":
		return "F11b"
	}
	if pi.Func == "contract/name.ValidateNameTx" && (pi.Class == "conv" || pi.Class == "index") {
		return "F6"
	}
	if pi.Func == "contract/system.parseIDForProposal" && pi.Class == "index" {
		return "F5b" // found by this check: Args[0] of an empty list (guarded by types.ValidateSystemTx in the node's pipeline)
	}
	if pi.Func == "contract/enterprise.getAdmins" && pi.Class == "slice" {
		return "F11c" // found by this check: the stored admin list is not a multiple of 33 bytes
	}
	return "panic@" + pi.Func + "/" + pi.Class + "@" + pi.Site
}

// ------------------------------------------------------------------ one case

// Case is one transaction body, in symbols (see symtab) so that the replay file is readable.
type Case struct {
	Net     int    `json:"net"`
	NetName string `json:"net_name,omitempty"`
	Pre     int    `json:"pre"` // 0 genesis, 1 warm
	Grid    string `json:"grid"`
	Account string `json:"account"`
	Rcpt    string `json:"recipient"`
	Type    int32  `json:"type"`
	Amount  string `json:"amount"`
	Price   string `json:"gasprice"`
	Misc    string `json:"misc,omitempty"` // "", noncelow, noncegap, chainid, badhash
	Payload string `json:"payload"`
}

func (c Case) String() string {
	tn := types.TxType_name[c.Type]
	if tn == "" {
		tn = fmt.Sprintf("type(%d)", c.Type)
	}
	s := fmt.Sprintf("net=%s pre=%s tx{type=%s account=%s recipient=%s amount=%s gasprice=%s", netName(c.Net), preName(c.Pre), tn, c.Account, c.Rcpt, c.Amount, c.Price)
	if c.Misc != "" {
		s += " " + c.Misc
	}
	pl := c.Payload
	if len(pl) > 300 {
		pl = fmt.Sprintf("%s...(%d bytes)", pl[:120], len(pl))
	}
	return s + " payload=" + pl + "}"
}

func preName(p int) string {
	if p == 0 {
		return "genesis"
	}
	return "warm"
}

// cmdOf extracts the command name of a governance payload (harness side, for naming only).
func cmdOf(payload string) string {
	var ci struct{ Name interface{} }
	if json.Unmarshal([]byte(payload), &ci) != nil {
		return ""
	}
	s, _ := ci.Name.(string)
	return s
}

var (
	curCase  atomic.Value // string
	curStart atomic.Int64
	trace    = os.Getenv("VERIF_C14_TRACE") != ""
)

// rec is one observed violation of a case.
type rec struct {
	sig      string
	desc     string // site only: one printed line per signature
	how      string // stage and mode
	pipeline bool   // reached by the calls a node makes, in the node's order
	c        Case
}

// Found is the replay object: the case plus how the violation was reached.
type Found struct {
	Case
	How string `json:"how"`
}

// violation buffers a record: per worker and signature the first record is kept, a record reached
// through the node's own call sequence replaces one reached only by an isolated call.
func (w *world) violation(sig string, pipeline bool, stage string, c Case, what string) {
	w.ctx.Count("viol_"+sig, 1)
	old, ok := w.found[sig]
	if ok && (old.pipeline || !pipeline) {
		return
	}
	if !ok {
		w.order = append(w.order, sig)
	}
	c.NetName = netName(c.Net)
	how := "pipeline: " + stage
	if !pipeline {
		how = "isolated call of " + stage + " (an earlier admission stage of the node rejects this body, so the node itself never makes this call with it)"
	}
	w.found[sig] = rec{sig: sig, desc: what, how: how, pipeline: pipeline, c: c}
}

func (w *world) flush() {
	for _, sig := range w.order {
		r := w.found[sig]
		w.ctx.Violation(r.sig, r.desc, Found{Case: r.c, How: r.how})
		w.ctx.Note(fmt.Sprintf("violation signature %s: %s", r.sig, r.desc))
	}
	w.found, w.order = map[string]rec{}, nil
}

// runCase pushes one body through all stages.
func (w *world) runCase(c Case) {
	ctx := w.ctx
	if trace {
		fmt.Fprintln(os.Stderr, "case", c.String())
	}
	curCase.Store(c.String())
	curStart.Store(time.Now().UnixNano())
	defer curStart.Store(0)
	ctx.Eval(1)

	body, signer := w.sym.build(c)
	cmd := cmdOf(c.Payload)
	mp := w.pool()
	n := w.p.Node
	isPublic := chain.IsPublic()
	version := n.Cfg.Hardfork.Version(w.p.Parent.BlockNo() + 1)

	mk := func(sign []byte) *types.Tx {
		b := *body
		b.Sign = sign
		tx := &types.Tx{Body: &b}
		tx.Hash = tx.CalculateTxHash()
		if c.Misc == "badhash" {
			tx.Hash[0] ^= 1
		}
		return tx
	}
	acc := body.Account
	if len(acc) <= types.NameLength {
		if a := w.sym.resolve(acc); a != nil {
			acc = a
		}
	}
	st, err := n.CS.SDB().OpenNewStateDB(w.p.Parent.GetHeader().GetBlocksRootHash()).GetAccountState(types.ToAccountID(acc))
	if err != nil {
		panic(err)
	}
	panicked := func(pi *panicInfo, pipeline bool, stage, mode string) {
		ctx.Count("panics_admission", 1)
		w.violation(sigOf(pi, cmd), pipeline, stage, c, pi.String())
		_ = mode
	}
	isolatedPut := func(tx *types.Tx) {
		var e error
		if pi := guard(func() { e = mp.VerifC14Put(types.NewTransaction(tx)) }); pi != nil {
			panicked(pi, false, "mempool.put", "")
			w.mpFor = nil // the pool's lock state is unknown after a panic: build a new pool
			return
		}
		ctx.Count("put_isolated", 1)
		if e == nil {
			mp.VerifC14Clear()
		}
	}

	// ---- 1. Validate: the first call a node makes on any received transaction
	utx := mk(nil)
	var e1 error
	p1 := guard(func() { e1 = types.NewTransaction(utx).Validate(w.cid, isPublic) })
	if p1 != nil {
		panicked(p1, true, "Validate", "")
	}
	v1 := p1 == nil && e1 == nil
	tracef("Validate: %v", e1)
	if v1 {
		ctx.Count("validate_ok", 1)
	} else {
		ctx.Count("validate_rej", 1)
	}
	govReached := c.Type == int32(types.TxType_GOVERNANCE) && strings.HasPrefix(c.Rcpt, "aergo.") && c.Rcpt != "aergo.vault"
	if v1 || govReached {
		ctx.Distinct(xplor.Hash(c.Net, c.Pre, c.Account, c.Rcpt, c.Type, c.Amount, c.Price, c.Misc, c.Payload))
	}
	// ---- 2. ValidateWithSenderState (pure): a node calls it only after Validate accepted
	if pi := guard(func() {
		_ = types.NewTransaction(utx).ValidateWithSenderState(st, system.GetGasPrice(), version)
	}); pi != nil {
		panicked(pi, v1, "ValidateWithSenderState", "")
	}
	// ---- 3. verifyTx on the unsigned body and with a garbage signature (the entry point for any received tx)
	for _, sg := range [][]byte{nil, {0x30, 0x06, 0x02, 0x01, 0x01, 0x02, 0x01, 0x01}} {
		tx := mk(sg)
		if pi := guard(func() { _ = mp.VerifC14VerifyTx(types.NewTransaction(tx)) }); pi != nil {
			panicked(pi, true, "mempool.verifyTx", "")
		}
		if !v1 {
			break
		}
	}
	if !v1 || signer < 0 {
		isolatedPut(utx)
		return
	}

	// ---- 4. the properly signed transaction through the sequence of TxVerifier.Receive
	stx := mk(nil)
	if err := key.SignTx(stx, w.sym.keys[signer]); err != nil {
		panic(err)
	}
	if c.Misc == "badhash" {
		stx.Hash[0] ^= 1
	}
	ctx.Count("signed", 1)
	t := types.NewTransaction(stx)
	var ev, ep error
	if pi := guard(func() { ev = mp.VerifC14VerifyTx(t) }); pi != nil {
		panicked(pi, true, "mempool.verifyTx (signed transaction)", "")
		return
	}
	tracef("verifyTx(signed): %v", ev)
	if ev != nil {
		ctx.Count("verify_rej", 1)
		isolatedPut(stx)
		return
	}
	ctx.Count("verify_ok", 1)
	if pi := guard(func() { ep = mp.VerifC14Put(t) }); pi != nil {
		panicked(pi, true, "mempool.put (signed transaction that passed verifyTx)", "")
		w.mpFor = nil
		return
	}
	tracef("put(signed): %v", ep)
	if ep != nil {
		ctx.Count("put_rej", 1)
		return
	}
	mp.VerifC14Clear()
	ctx.Count("admitted", 1)

	// ---- 5. execution of the admitted transaction: producer path, then validator path
	w.execute(c, cmd, stx)
}

func (w *world) execute(c Case, cmd string, tx *types.Tx) {
	ctx := w.ctx
	n := w.p.Node
	// executing a system transaction changes process globals (voting power rank, system
	// parameters) that are not rolled back with a discarded block state. They are re-initialised
	// from the committed state (as ledgerx/C04 do) lazily: a block that goes to the validator is
	// always produced on clean globals and validated on clean globals.
	touchesGlobals := string(tx.GetBody().GetRecipient()) == types.AergoSystem
	var built *nk.Built
	var err error
	produce := func() bool {
		if pi := guard(func() { built, err = n.Produce(w.p.Parent, []*types.Tx{tx}, 1, 1, 1) }); pi != nil {
			ctx.Count("panics_execution", 1)
			w.violation(sigOf(pi, cmd), true, "block production executes a transaction the pool admitted (verifyTx and put returned nil)", c, pi.String())
			w.mpFor = nil
			w.reset()
			w.dirty = false
			return false
		}
		if err != nil {
			w.violation("produce-error", true, "block production", c, fmt.Sprintf("GenerateBlock fails with %q for a block holding one admitted transaction (it must yield a receipt or be skipped)", err.Error()))
			w.reset()
			w.dirty = false
			return false
		}
		if touchesGlobals {
			w.dirty = true
		}
		return true
	}
	if w.dirty && cmd == "v1voteDAO" {
		n.ResetGlobals()
		w.dirty = false
	}
	dirtyBefore := w.dirty
	if !produce() {
		return
	}
	if w.dirty && cmd == "v1voteDAO" {
		// a parameter vote may change the system parameters the pool reads: clean up at once
		defer func() {
			if w.dirty {
				n.ResetGlobals()
				w.dirty = false
			}
		}()
	}
	ctx.Trace(1)
	if built.Skipped == 1 {
		tracef("produced: skipped by the producer")
		ctx.Count("exec_skipped", 1)
		return
	}
	if len(built.Receipts) != 1 || len(built.Block.GetBody().GetTxs()) != 1 {
		w.violation("receipt-count", true, "block production", c, fmt.Sprintf("block has %d txs and %d receipts", len(built.Block.GetBody().GetTxs()), len(built.Receipts)))
		return
	}
	r := built.Receipts[0]
	status := r.Status
	tracef("produced: receipt %s ret=%q events=%d", status, r.Ret, len(r.Events))
	switch status {
	case "SUCCESS", "ERROR", "CREATED", "RECREATED":
		ctx.Count("exec_"+strings.ToLower(status), 1)
	default:
		w.violation("receipt-status", true, "block production", c, fmt.Sprintf("receipt status %q", status))
		return
	}
	// quick tier: the validator path (and the admission probes on the resulting state) run once
	// per outcome class of this worker; the class is the complete result of the producer's
	// execution: state root of the produced block, receipt status, return value and events. Two
	// admitted transactions of one class make the validator reach the same state through the same
	// executeTx code the producer has just run on both. thorough: every admitted transaction that
	// got a receipt goes to the validator. The producer path runs for every admitted transaction
	// in both tiers.
	if w.quick && !w.replay {
		ev, _ := json.Marshal(r.Events)
		k := fmt.Sprintf("%x|%s|%s|%s", built.Block.GetHeader().GetBlocksRootHash(), status, r.Ret, ev)
		if w.delivered[k] {
			ctx.Count("deliver_skipped_same_class", 1)
			return
		}
		w.delivered[k] = true
	}
	if dirtyBefore {
		// the block was produced on globals left behind by an earlier case: produce it again on clean ones
		n.ResetGlobals()
		w.dirty = false
		if !produce() {
			return
		}
		if built.Skipped == 1 || len(built.Receipts) != 1 || built.Receipts[0].Status != status {
			w.violation("produce-unstable", true, "block production", c, fmt.Sprintf("producing the same block again after re-initialising the voting power rank gives another outcome (first: receipt %s)", status))
			return
		}
	}
	if w.dirty {
		n.ResetGlobals()
		w.dirty = false
	}
	var derr error
	if pi := guard(func() { derr = n.Deliver(built.Block) }); pi != nil {
		ctx.Count("panics_execution", 1)
		w.violation(sigOf(pi, cmd), true, "a validator executes the block a producer made of an admitted transaction", c, pi.String())
		w.mpFor = nil
		w.reset()
		return
	}
	if derr != nil || n.Best().ID() != built.Block.ID() {
		w.violation("validator-refuses", true, "block validation", c, fmt.Sprintf("the validator path refuses the block the producer path made of an admitted transaction (receipt %s): %v", status, derr))
		w.reset()
		return
	}
	tracef("delivered: accepted by the validator")
	ctx.Count("delivered", 1)
	w.probe(c, cmd, "on the state after the block with the case's transaction was connected")
	w.later(c, cmd, tx.GetBody().GetAccount())
	w.reset()
}

// later: the records an admitted governance transaction left behind are read again by the
// sender's next governance transactions, which the lock periods push a day of blocks (86400) into
// the future. The chain cannot be advanced that far per case, so the sender's next vote / DAO vote /
// unstake are executed directly by the real system-contract executor (what chain.executeTx calls
// for a GOVERNANCE transaction to aergo.system) on the state after the case's block, at a block
// number one lock period later, each on its own scratch block state: none may panic.
func (w *world) later(c Case, cmd string, account []byte) {
	if !strings.HasPrefix(cmd, "v1") || len(account) != types.AddressLength {
		return
	}
	n := w.p.Node
	best := n.Best()
	no := best.BlockNo() + 1 + system.VotingDelay
	for _, f := range []struct{ name, payload string }{
		{"v1voteBP", `{"Name":"v1voteBP","Args":["` + types.IDB58Encode(nk.BPIDs[0]) + `"]}`},
		{"v1voteDAO", `{"Name":"v1voteDAO","Args":["GASPRICE","60000000000"]}`},
		{"v1unstake", `{"Name":"v1unstake"}`},
	} {
		w.ctx.Count("later_executions", 1)
		var err error
		pi := guard(func() {
			bs := state.NewBlockState(n.CS.SDB().OpenNewStateDB(best.GetHeader().GetBlocksRootHash()))
			sender, e := state.GetAccountState(account, bs.StateDB)
			if e != nil {
				panic(e)
			}
			receiver, e := state.GetAccountState([]byte(types.AergoSystem), bs.StateDB)
			if e != nil {
				panic(e)
			}
			scs, e := statedb.OpenContractState(receiver.IDNoPadding(), receiver.State(), bs.StateDB)
			if e != nil {
				panic(e)
			}
			amount := []byte{}
			if f.name == "v1unstake" {
				if st, e := system.GetStaking(scs, account); e == nil && st != nil {
					amount = st.GetAmount()
				}
			}
			tb := &types.TxBody{Nonce: sender.Nonce() + 1, Account: account, Recipient: []byte(types.AergoSystem), Amount: amount,
				Payload: []byte(f.payload), Type: types.TxType_GOVERNANCE, ChainIdHash: n.ChainIDHashFor(best.BlockNo() + 1)}
			_, err = system.ExecuteSystemTx(scs, tb, sender, receiver, &types.BlockHeaderInfo{No: no, ForkVersion: n.Cfg.Hardfork.Version(no)})
		})
		w.dirty = true
		if pi != nil {
			w.ctx.Count("panics_later", 1)
			w.violation(sigOf(pi, cmd), true, "execution of the sender's next "+f.name+" one lock period after the block with the case's transaction", c, pi.String())
			return
		}
		if err == nil {
			w.ctx.Count("later_accepted", 1)
		}
	}
	if cmd != "v1voteDAO" {
		return
	}
	// a DAO vote the system accepted becomes the active parameter once two thirds of the stake agree:
	// the other stakers of the pre-state (A and D hold equal stakes) cast the same ballot one lock
	// period later, the parameters are committed as at the end of a block, and admission must still
	// be total under whatever value has become active
	var perr error
	pi := guard(func() {
		bs := state.NewBlockState(n.CS.SDB().OpenNewStateDB(best.GetHeader().GetBlocksRootHash()))
		receiver, e := state.GetAccountState([]byte(types.AergoSystem), bs.StateDB)
		if e != nil {
			panic(e)
		}
		scs, e := statedb.OpenContractState(receiver.IDNoPadding(), receiver.State(), bs.StateDB)
		if e != nil {
			panic(e)
		}
		for _, v := range []int{0, 3} {
			if string(w.sym.addrs[v]) == string(account) {
				continue
			}
			sender, e := state.GetAccountState(w.sym.addrs[v], bs.StateDB)
			if e != nil {
				panic(e)
			}
			tb := &types.TxBody{Nonce: sender.Nonce() + 1, Account: w.sym.addrs[v], Recipient: []byte(types.AergoSystem), Amount: []byte{},
				Payload: []byte(c.Payload), Type: types.TxType_GOVERNANCE, ChainIdHash: n.ChainIDHashFor(best.BlockNo() + 1)}
			if _, perr = system.ExecuteSystemTx(scs, tb, sender, receiver, &types.BlockHeaderInfo{No: no, ForkVersion: n.Cfg.Hardfork.Version(no)}); perr != nil {
				return
			}
		}
		system.CommitParams(true)
	})
	w.dirty = true
	w.ctx.Count("later_unanimous_ballots", 1)
	if pi != nil {
		w.ctx.Count("panics_later", 1)
		w.violation(sigOf(pi, cmd), true, "execution of the same DAO ballot by the other stakers one lock period later", c, pi.String())
		return
	}
	if perr != nil {
		return
	}
	w.ctx.Count("later_unanimous_ballots_accepted", 1)
	w.probe(c, cmd, "after every staker has cast the case's DAO ballot and the parameters were committed")
}

// probe: after the block is connected, the admission entry points must still be
// total on the new state (a governance command that stored a malformed record
// would make every later validation crash).
func (w *world) probe(c Case, cmd string, where string) {
	n := w.p.Node
	best := n.Best()
	mp := mempool.VerifC14New(n.Cfg, n.CS, w.hub, best)
	cid := n.ChainIDHashFor(best.BlockNo() + 1)
	for _, pr := range w.sym.probes {
		body := *pr.body
		body.ChainIdHash = cid
		st, err := n.CS.SDB().OpenNewStateDB(best.GetHeader().GetBlocksRootHash()).GetAccountState(types.ToAccountID(body.Account))
		if err != nil {
			panic(err)
		}
		body.Nonce = st.GetNonce() + 1
		tx := &types.Tx{Body: &body}
		if err := key.SignTx(tx, w.sym.keys[pr.signer]); err != nil {
			panic(err)
		}
		t := types.NewTransaction(tx)
		w.ctx.Count("probes", 1)
		if pi := guard(func() {
			if mp.VerifC14VerifyTx(t) == nil {
				_ = mp.VerifC14Put(t)
			}
		}); pi != nil {
			w.violation(sigOf(pi, cmd), true, "admission of "+pr.name+" "+where, c, pi.String())
			return
		}
	}
}

// ------------------------------------------------------------------ run

type shardPlan struct{ ni, sub, nsub int }

func plan(ctx *xplor.Ctx) shardPlan {
	ns := netsOf(ctx.Tier)
	nn := len(ns)
	return shardPlan{ni: ns[ctx.Shard%nn], sub: ctx.Shard / nn, nsub: ctx.NShards / nn}
}

func watchdog() {
	for {
		time.Sleep(2 * time.Second)
		s := curStart.Load()
		if s != 0 && time.Since(time.Unix(0, s)) > 120*time.Second {
			fmt.Fprintf(os.Stderr, "c14: case does not terminate after 120 s (hang): %v\n", curCase.Load())
			os.Exit(3)
		}
	}
}

func run(ctx *xplor.Ctx) {
	defer nk.Cleanup()
	if g, err := strconv.Atoi(os.Getenv("VERIF_C14_GOGC")); err == nil {
		debug.SetGCPercent(g)
	}
	if pf := os.Getenv("VERIF_C14_PROF"); pf != "" {
		f, _ := os.Create(pf)
		pprof.StartCPUProfile(f)
		defer pprof.StopCPUProfile()
	}
	go watchdog()
	if ctx.Replay != nil {
		var c Case
		if err := json.Unmarshal(ctx.Replay, &c); err != nil {
			panic(err)
		}
		w := newWorld(ctx, c.Net, c.Pre)
		w.runCase(c)
		w.flush()
		return
	}
	pl := plan(ctx)
	limit, _ := strconv.Atoi(os.Getenv("VERIF_LIMIT"))
	pres := []int{1}
	if ctx.Tier == "thorough" {
		pres = []int{1, 0}
	}
	done := 0
	for _, pre := range pres {
		w := newWorld(ctx, pl.ni, pre)
		i := 0
		stop := false
		grammar := ctx.Tier
		if pre == 0 {
			grammar = "quick" // thorough: the genesis pre-state gets the quick grammar
		}
		enumerate(grammar, w, func(c Case) bool {
			i++
			if (i-1)%pl.nsub != pl.sub {
				return true
			}
			if stop || ctx.Expired() {
				stop = true
				return false
			}
			if limit > 0 && done >= limit {
				ctx.Incomplete("VERIF_LIMIT")
				stop = true
				return false
			}
			done++
			c.Net, c.Pre = pl.ni, pre
			w.runCase(c)
			return true
		})
		ctx.Max("max_bodies_per_net_and_prestate", int64(i))
		w.flush()
		w.p.Node.Stop()
	}
	if pl.sub == 0 && pl.ni == 2 {
		ctx.Sample(map[string]interface{}{"net": netName(pl.ni), "pre_state": "warm",
			"tx":     Case{Grid: "gov", Account: "D", Rcpt: "aergo.system", Type: 1, Amount: "0", Price: "std", Payload: `{"Name":"v1voteDAO","Args":["GASPRICE","60000000000"]}`}.String(),
			"stages": "Validate, ValidateWithSenderState, verifyTx, put (unsigned body, each on its own); verifyTx+put on the signed tx; admitted: Produce + Deliver + admission probes on the new state"})
	}
}

func main() {
	xplor.Main(xplor.Check{
		ID:    "C14",
		Level: "exploration",
		Rule:  "every transaction body of a bounded grammar is run through Validate, ValidateWithSenderState, mempool.verifyTx and mempool.put (each under its own recover; unsigned, garbage-signed and properly signed), and every transaction the pool admits through the real producer path (one block per transaction) and - once per outcome class per worker, see NOTES - the real validator path followed by admission probes on the resulting state and, for v1 commands, by the direct execution (system.ExecuteSystemTx on a scratch block state) of the sender's next BP vote, DAO vote and unstake one lock period (86400 blocks) later. Grammar: grid 'gov' = GOVERNANCE transactions whose payload is {Name,Args} with Name in the 15 governance command names of the code + 1 unknown and Args = every list of length <= 2 (thorough 3) over 15 value shapes (valid value for the slot, a well-formed peer id of another length (34-byte sha2-256 multihash), the numeric strings 0 and -1, non-address string, registered name, unregistered name, empty string, huge numeric string, number, huge number, null, bool, {}, []) when sent to the command's own contract, <= 1 (thorough 2) to the other two governance contracts, <= 1 to 4 non-governance recipients, plus 6 malformed payloads per command and 17 command-independent ones (not JSON, wrong JSON types, duplicate / lower-case keys, 1e999, 12000-deep nesting, > TxMaxSize), x 6 sender states (staked+voted, name owner, funded, staked, empty, sender given by name) x the amount the command needs and 0; grid 'field' = 12 account classes (byte lengths 0,1,12,33,34,64, nil, names, special account, non-key bytes) x 14 recipient classes x 9 types (8 + invalid) x 7 payloads at amount 1 / standard price, and every amount class x every gas price class (lengths 0,1,12,33 padded,33,34,64) + nonce-low / nonce-gap / foreign chain id / wrong hash for a subset of accounts and recipients; x networks {hardfork version 0,2,3,4,5} x {public, private} (quick: 6 of the 10 combinations covering every version and both kinds) x pre-state warm (thorough: + genesis with the quick grammar). evaluations = bodies; distinct_nontrivial = distinct (net, pre-state, body) that pass Validate or are governance transactions to a governance contract (their payload reaches a JSON/argument parser); a body rejected by a field check before any payload parsing is trivial",
		Assumptions: []string{
			"contract VM = pure-Go stub (overlay/contract/vm_stub_verif.go): nothing is concluded about Lua execution of CALL/DEPLOY/FEEDELEGATION payloads, only about the admission and dispatch code around it",
			"the pool is driven synchronously through verifyTx/put (what TxVerifier.Receive calls) on a MemPool built by NewMemPoolService on the real ChainService; the actor system is not started; CheckFeeDelegation requests are answered by the body of the chain worker's handler",
			"a panic is observed in the calling goroutine (the real ChainManager turns it into os.Exit(10)); paths that end in logger.Fatal()/os.Exit end the worker and are reported as HARNESS-ERROR",
			"dpos consensus only: changeCluster (raft) stops at ErrNotSupportedMethod",
		},
		Shards: func(tier string) int { return shardsPerNet(tier) * len(netsOf(tier)) },
		Budget: func(tier string) time.Duration {
			if tier == "thorough" {
				return 25 * time.Minute
			}
			return 6 * time.Minute
		},
		Run: run,
	})
}
