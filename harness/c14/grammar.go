package main

// The input grammar of C14 and its materialisation against a prepared node.

import (
	"bytes"
	"crypto/sha256"
	"encoding/json"
	"fmt"
	"math/big"
	"strings"

	"github.com/aergoio/aergo/v2/types"
	lx "github.com/aergoio/aergo/v2/verif_h/ledgerx"
	nk "github.com/aergoio/aergo/v2/verif_h/nodekit"
	"github.com/btcsuite/btcd/btcec/v2"
)

// ------------------------------------------------------------------ symbols

const unknownName = "zzzzzzzzzzzz"

type probe struct {
	name   string
	body   *types.TxBody
	signer int
}

type symtab struct {
	w      *world
	keys   [6]*btcec.PrivateKey // A B C D (nodekit users), 4 = E (never funded), 5 unused
	addrs  [6][]byte
	probes []probe
}

func newSymtab(w *world) *symtab {
	s := &symtab{w: w}
	for i := 0; i < 4; i++ {
		s.keys[i], s.addrs[i] = nk.UserKeys[i], nk.UserAddrs[i]
	}
	h := sha256.Sum256([]byte("verif-c14-empty-account"))
	k, pub := btcec.PrivKeyFromBytes(h[:])
	s.keys[4], s.addrs[4] = k, pub.SerializeCompressed()
	gov := func(name string, from int, to string, amt *big.Int, payload []byte) probe {
		return probe{name: name, signer: from, body: &types.TxBody{Account: s.addrs[from], Recipient: []byte(to), Amount: amt.Bytes(),
			Payload: payload, Type: types.TxType_GOVERNANCE, GasPrice: stdPrice}}
	}
	s.probes = []probe{
		gov("C v1createName eeeeeeeeeeee", 2, types.AergoName, aergo1, nk.GovPayload("v1createName", "eeeeeeeeeeee")),
		gov("B v1updateName", 1, types.AergoName, aergo1, nk.GovPayload("v1updateName", lx.NameB, types.EncodeAddress(s.addrs[2]))),
		gov("D v1voteBP", 3, types.AergoSystem, new(big.Int), nk.GovPayload("v1voteBP", types.IDB58Encode(nk.BPIDs[0]))),
		gov("C v1stake", 2, types.AergoSystem, types.StakingMinimum, nk.GovPayload("v1stake")),
		gov("A appendAdmin C", 0, types.AergoEnterprise, new(big.Int), nk.GovPayload("appendAdmin", types.EncodeAddress(s.addrs[2]))),
		gov("A appendConf", 0, types.AergoEnterprise, new(big.Int), nk.GovPayload("appendConf", "ACCOUNTWHITE", types.EncodeAddress(s.addrs[0]))),
		gov("A enableConf RPCPERMISSIONS", 0, types.AergoEnterprise, new(big.Int), []byte(`{"Name":"enableConf","Args":["RPCPERMISSIONS",true]}`)),
		{name: "transfer nameB -> A", signer: 1, body: &types.TxBody{Account: s.addrs[1], Recipient: []byte(lx.NameB), Amount: []byte{1}, Type: types.TxType_TRANSFER, GasPrice: stdPrice}},
	}
	return s
}

var (
	aergo1   = new(big.Int).Exp(big.NewInt(10), big.NewInt(18), nil)
	stdPrice = types.NewAmount(50, types.Gaer).Bytes()
)

// resolve: the address a name account is bound to in the pre-state (harness knowledge, used to
// pick the sender state for stage 2 only).
func (s *symtab) resolve(name []byte) []byte {
	if string(name) == lx.NameB && s.w.pre == 1 {
		return s.addrs[1]
	}
	return nil
}

func fill(n int, b byte) []byte { return bytes.Repeat([]byte{b}, n) }

// account returns the Account bytes and the index of the key that can sign for it (-1: none).
func (s *symtab) account(sym string) ([]byte, int) {
	switch sym {
	case "A", "B", "C", "D", "E":
		i := int(sym[0] - 'A')
		return s.addrs[i], i
	case "nameB": // 12-byte name owned by B in the warm state
		return []byte(lx.NameB), 1
	case "name?":
		return []byte(unknownName), 2
	case "aergo.name":
		return []byte(types.AergoName), 2
	case "nil":
		return nil, 2
	case "len0":
		return []byte{}, 2
	case "len1":
		return []byte{0x02}, 2
	case "junk33": // 33 bytes that are not a compressed curve point
		return fill(33, 0x07), 2
	case "len34":
		return append([]byte{0x02}, fill(33, 0x11)...), 2
	case "len64":
		return fill(64, 0x22), 2
	}
	panic("account symbol " + sym)
}

var fresh33 = append([]byte{0x02}, fill(32, 0x5a)...)

func (s *symtab) recipient(sym string) []byte {
	switch sym {
	case "aergo.system", "aergo.name", "aergo.enterprise", "aergo.vault":
		return []byte(sym)
	case "name?":
		return []byte(unknownName)
	case "nameB":
		return []byte(lx.NameB)
	case "B":
		return s.addrs[1]
	case "contract":
		if s.w.p.Contract != nil {
			return s.w.p.Contract
		}
		return append([]byte{0x03}, fill(32, 0x33)...)
	case "fresh33":
		return fresh33
	case "nil":
		return nil
	case "len0":
		return []byte{}
	case "len1":
		return []byte{0x61}
	case "len34":
		return append([]byte{0x02}, fill(33, 0x11)...)
	case "len64":
		return fill(64, 0x22)
	}
	panic("recipient symbol " + sym)
}

// amount / gas price byte strings by length class.
func amountBytes(sym string) []byte {
	switch sym {
	case "0":
		return nil
	case "1":
		return []byte{1}
	case "std":
		return stdPrice
	case "aergo1":
		return aergo1.Bytes()
	case "stake":
		return types.StakingMinimum.Bytes()
	case "len12": // 2^88 < MaxAER, more than any balance
		return append([]byte{1}, fill(11, 0)...)
	case "pad33": // value 1 in 33 bytes
		return append(fill(32, 0), 1)
	case "len33":
		return append([]byte{1}, fill(32, 0)...)
	case "len34":
		return append([]byte{1}, fill(33, 0)...)
	case "len64":
		return fill(64, 0xff)
	}
	panic("amount symbol " + sym)
}

// build materialises the body (without signature) of a case.
func (s *symtab) build(c Case) (*types.TxBody, int) {
	acc, signer := s.account(c.Account)
	nonce := uint64(1)
	if signer >= 0 && signer < 4 {
		switch c.Account {
		case "A", "B", "C", "D", "nameB":
			nonce = s.w.p.Nonces[signer]
		}
	}
	cid := s.w.cid
	switch c.Misc {
	case "noncelow":
		nonce--
	case "noncegap":
		nonce++
	case "chainid":
		cid = append([]byte{}, cid...)
		cid[0] ^= 0x40
	}
	return &types.TxBody{
		Nonce:       nonce,
		Account:     acc,
		Recipient:   s.recipient(c.Rcpt),
		Amount:      amountBytes(c.Amount),
		Payload:     []byte(c.Payload),
		GasPrice:    amountBytes(c.Price),
		Type:        types.TxType(c.Type),
		ChainIdHash: cid,
	}, signer
}

// ------------------------------------------------------------------ governance payload grammar

type command struct {
	name   string
	rcpt   string
	amount string         // the amount that makes a well-formed call acceptable
	valid  [3]interface{} // a valid value per argument slot
}

func (s *symtab) commands() []command {
	addr := func(i int) string { return types.EncodeAddress(s.addrs[i]) }
	bp := func(i int) string { return types.IDB58Encode(nk.BPIDs[i]) }
	sys, nam, ent := types.AergoSystem, types.AergoName, types.AergoEnterprise
	return []command{
		{"v1stake", sys, "stake", [3]interface{}{"x", "y", "z"}},
		{"v1unstake", sys, "stake", [3]interface{}{"x", "y", "z"}},
		{"v1voteBP", sys, "0", [3]interface{}{bp(0), bp(1), bp(2)}},
		{"v1voteDAO", sys, "0", [3]interface{}{"GASPRICE", "60000000000", "70000000000"}},
		{"v1createName", nam, "aergo1", [3]interface{}{"dddddddddddd", addr(2), "x"}},
		{"v1updateName", nam, "aergo1", [3]interface{}{lx.NameB, addr(2), "x"}},
		{"v1setOwner", nam, "0", [3]interface{}{addr(3), addr(2), "x"}},
		{"appendAdmin", ent, "0", [3]interface{}{addr(1), addr(2), "x"}},
		{"removeAdmin", ent, "0", [3]interface{}{addr(0), addr(2), "x"}},
		{"setConf", ent, "0", [3]interface{}{"ACCOUNTWHITE", addr(0), addr(1)}},
		{"appendConf", ent, "0", [3]interface{}{"ACCOUNTWHITE", addr(0), addr(1)}},
		{"removeConf", ent, "0", [3]interface{}{"ACCOUNTWHITE", addr(0), addr(1)}},
		// a configuration whose stored values are parsed again by every later validation: values of the
		// right shape (certificate:permission) that carry the character the storage format uses as separator
		{"setConf", ent, "0", [3]interface{}{"RPCPERMISSIONS", "dGVzdA==:R\\x", "dGVzdA==:W"}},
		{"appendConf", ent, "0", [3]interface{}{"RPCPERMISSIONS", "dGVzdA==:R\\x", "dGVzdA==:W"}},
		{"enableConf", ent, "0", [3]interface{}{"ACCOUNTWHITE", "true", "x"}},
		{"disableConf", ent, "0", [3]interface{}{"ACCOUNTWHITE", "true", "x"}},
		{"changeCluster", ent, "0", [3]interface{}{map[string]interface{}{"command": "add", "name": "n4", "address": "/ip4/127.0.0.1/tcp/7846", "peerid": bp(3)}, "x", "y"}},
		{"v1bogus", sys, "0", [3]interface{}{"x", "y", "z"}},
	}
}

// the value shapes other than "valid for that slot", as JSON text
var shapes = []string{
	`"` + otherLenPeerID() + `"`, // a well-formed peer id that is not 39 bytes long (sha2-256 multihash, 34 bytes)
	`"Xx_not-valid-anything_!"`, // a string that is no name, no address, no number
	`"` + lx.NameB + `"`,        // a registered 12-character name
	`"` + unknownName + `"`,     // an unregistered 12-character name
	`""`,
	`"1` + strings.Repeat("0", 80) + `"`, // a huge number in a string
	`"0"`,                                // the numbers at the edge of every range test, as strings
	`"-1"`,
	`1`,
	`1000000000000000000000000000000`, // a huge number
	`null`,
	`true`,
	`{}`,
	`[]`,
}

func otherLenPeerID() string {
	raw := append([]byte{0x12, 0x20}, bytes.Repeat([]byte{0x5a}, 32)...)
	id, err := types.IDFromBytes(raw)
	if err != nil {
		panic(err)
	}
	return types.IDB58Encode(id)
}

func js(v interface{}) string {
	b, err := json.Marshal(v)
	if err != nil {
		panic(err)
	}
	return string(b)
}

// argLists calls f with every argument list (as JSON text) of length <= maxLen.
func argLists(cmd command, maxLen int, f func(string)) {
	var rec func(pre []string)
	rec = func(pre []string) {
		f("[" + strings.Join(pre, ",") + "]")
		if len(pre) == maxLen {
			return
		}
		slot := len(pre)
		rec(append(pre[:slot:slot], js(cmd.valid[slot])))
		for _, sh := range shapes {
			rec(append(pre[:slot:slot], sh))
		}
	}
	rec(nil)
}

// longLists: argument lists around the candidate limit (types.MaxCandidates = 30) for the two
// commands whose arguments are a list of choices: 29, 30 and 31 distinct well-formed values, alone
// and followed by one value of every other shape.
func longLists(cmd command, f func(string)) {
	var val func(i int) string
	switch cmd.name {
	case "v1voteBP":
		val = func(i int) string { // identity-multihash peer ids of 39 bytes, all distinct
			raw := append([]byte{0x00, 0x25, 0x08, 0x02, 0x12, 0x21, 0x02}, bytes.Repeat([]byte{byte(0x40 + i)}, 32)...)
			id, err := types.IDFromBytes(raw)
			if err != nil {
				panic(err)
			}
			return js(types.IDB58Encode(id))
		}
	case "v1voteDAO":
		val = func(i int) string {
			if i == 0 {
				return js("GASPRICE")
			}
			return js(fmt.Sprint(60000000000 + i))
		}
	default:
		return
	}
	for _, n := range []int{types.MaxCandidates - 1, types.MaxCandidates, types.MaxCandidates + 1} {
		var pre []string
		for i := 0; i < n; i++ {
			pre = append(pre, val(i))
		}
		f("[" + strings.Join(pre, ",") + "]")
		for _, sh := range shapes {
			f("[" + strings.Join(append(pre[:n:n], sh), ",") + "]")
		}
	}
}

// malformed payloads that do not depend on a command
func malformed() []string {
	return []string{
		"",
		"not json",
		"{}",
		"null",
		"[]",
		`"v1stake"`,
		`{"Name":5,"Args":[]}`,
		`{"Name":null,"Args":[]}`,
		`{"Name":["v1stake"],"Args":[]}`,
		`{"Args":["x"]}`,
		`{"name":"v1votedao","args":["GASPRICE"]}`,
		`{"Name":"v1stake","Name":"v1voteDAO","Args":[]}`,
		`{"Name":"v1voteDAO","Args":[1e999]}`,
		`{"Name":"v1stake","Args":[]} x`,
		`{"Name":"v1voteBP","Args":` + strings.Repeat("[", 12000) + strings.Repeat("]", 12000) + `}`,
		"\x00\xff\xfe",
		`{"Name":"v1stake","Args":["` + strings.Repeat("a", 205*1024) + `"]}`, // larger than TxMaxSize
	}
}

// per command: Args missing / null / not a list / lower-case keys
func malformedFor(cmd command) []string {
	n := js(cmd.name)
	return []string{
		`{"Name":` + n + `}`,
		`{"Name":` + n + `,"Args":null}`,
		`{"Name":` + n + `,"Args":"x"}`,
		`{"Name":` + n + `,"Args":{}}`,
		`{"Name":` + n + `,"Args":1}`,
		`{"name":` + n + `,"args":[` + js(cmd.valid[0]) + `]}`,
	}
}

// ------------------------------------------------------------------ enumeration

type bounds struct {
	own, other, plain int // max argument list length: command's own recipient / other governance recipients / non-governance recipients
	fullField         bool
}

func boundsOf(tier string) bounds {
	if tier == "thorough" {
		return bounds{own: 3, other: 2, plain: 1, fullField: true}
	}
	return bounds{own: 2, other: 1, plain: 1}
}

var govRcpts = []string{"aergo.system", "aergo.name", "aergo.enterprise"}
var plainRcpts = []string{"aergo.vault", "name?", "B", "nil"}
var govSenders = []string{"D", "A", "B", "C", "E", "nameB"}

// enumerate calls f with every case of the tier, simplest first; f returns false to stop.
func enumerate(tier string, w *world, f func(Case) bool) {
	b := boundsOf(tier)
	cmds := w.sym.commands()
	gov := int32(types.TxType_GOVERNANCE)
	ok := true
	emit := func(c Case) {
		if ok {
			ok = f(c)
		}
	}
	// ---- grid "gov"
	for _, cmd := range cmds {
		amounts := []string{cmd.amount}
		if cmd.amount != "0" {
			amounts = append(amounts, "0")
		}
		for _, rc := range append(append([]string{}, govRcpts...), plainRcpts...) {
			maxLen := b.plain
			if rc == cmd.rcpt {
				maxLen = b.own
			} else if strings.HasPrefix(rc, "aergo.") && rc != "aergo.vault" {
				maxLen = b.other
			}
			var payloads []string
			argLists(cmd, maxLen, func(l string) { payloads = append(payloads, `{"Name":`+js(cmd.name)+`,"Args":`+l+`}`) })
			if maxLen > b.plain {
				payloads = append(payloads, malformedFor(cmd)...)
			}
			if rc == cmd.rcpt {
				longLists(cmd, func(l string) { payloads = append(payloads, `{"Name":`+js(cmd.name)+`,"Args":`+l+`}`) })
			}
			for _, pl := range payloads {
				for _, snd := range govSenders {
					for _, am := range amounts {
						emit(Case{Grid: "gov", Account: snd, Rcpt: rc, Type: gov, Amount: am, Price: "std", Payload: pl})
						if !ok {
							return
						}
					}
				}
			}
		}
	}
	for _, pl := range malformed() {
		for _, rc := range append(append([]string{}, govRcpts...), plainRcpts...) {
			for _, snd := range govSenders {
				emit(Case{Grid: "gov", Account: snd, Rcpt: rc, Type: gov, Amount: "0", Price: "std", Payload: pl})
			}
		}
	}
	if !ok {
		return
	}
	// ---- grid "field": byte-length / shape classes of the other fields
	accounts := []string{"C", "A", "E", "nameB", "name?", "aergo.name", "nil", "len0", "len1", "junk33", "len34", "len64"}
	rcpts := []string{"B", "contract", "fresh33", "nameB", "name?", "aergo.system", "aergo.name", "aergo.enterprise", "aergo.vault", "nil", "len0", "len1", "len34", "len64"}
	typs := []int32{4, 0, 5, 6, 3, 1, 2, 7, 99}
	payloads := []string{"", `{"ops":[["set","k","v"]]}`, `{"code":"x","ctor":[["set","k0","v0"]]}`, `{"fd":true,"ops":[["set","fd","1"]]}`, `{"Name":"v1stake","Args":[]}`, "not json", "{}"}
	amts := []string{"0", "1", "aergo1", "len12", "pad33", "len33", "len34", "len64"}
	prices := []string{"std", "0", "1", "len12", "pad33", "len33", "len34", "len64"}
	type ap struct{ a, p, m string }
	var full []ap
	for _, a := range amts {
		for _, p := range prices {
			full = append(full, ap{a, p, ""})
		}
	}
	for _, m := range []string{"noncelow", "noncegap", "chainid", "badhash"} {
		full = append(full, ap{"1", "std", m})
	}
	field := func(typs []int32, payloads, accounts, rcpts []string, combos []ap) {
		for _, t := range typs {
			for _, pl := range payloads {
				for _, ac := range accounts {
					for _, rc := range rcpts {
						for _, cb := range combos {
							emit(Case{Grid: "field", Account: ac, Rcpt: rc, Type: t, Amount: cb.a, Price: cb.p, Misc: cb.m, Payload: pl})
							if !ok {
								return
							}
						}
					}
				}
			}
		}
	}
	// (a) every account x recipient x type x payload with amount 1 at the standard price,
	// (b) every amount x every gas price (+ nonce / chain id / hash faults) x type for some account / recipient / payload classes
	field(typs, payloads, accounts, rcpts, []ap{{"1", "std", ""}})
	if b.fullField {
		field(typs, []string{"", `{"ops":[["set","k","v"]]}`, "not json"}, []string{"C", "A", "E", "nameB", "len34"}, []string{"B", "contract", "nameB", "fresh33", "nil", "len0", "aergo.system", "aergo.vault"}, full)
		return
	}
	field(typs, []string{"", `{"ops":[["set","k","v"]]}`}, []string{"C", "nameB", "len34"}, []string{"B", "contract", "nil", "len0", "aergo.system"}, full)
}

func init() {
	// the command table is what the Rule text promises
	if n := len(shapes) + 1; n != 15 {
		panic(fmt.Sprint("shapes: ", n))
	}
}
