package main

// Part B: explicit-state BFS over the real BlockFetcher + BlockProcessor.
// A state is identified by its shortest event history; successors are computed
// by replaying the history on fresh real objects and delivering one more event
// to the real step functions (shim VerifC17Step = one iteration of the fetcher's
// select loop). The environment (peers, chain service, hash fetcher) is the
// harness; every answer it can give is an event.

import (
	"crypto/sha256"
	"errors"
	"fmt"
	"sort"
	"strconv"
	"strings"
	"time"

	"github.com/aergoio/aergo/v2/syncer"
	"github.com/aergoio/aergo/v2/types"
	"github.com/aergoio/aergo/v2/types/message"
	"github.com/aergoio/aergo/v2/verif_h/xplor"
)

const ancNo = 2 // height of the common ancestor in part B

type bcfg struct {
	N        int `json:"n"`     // target = ancestor + N
	Peers    int `json:"peers"` // RUNNING peers reported by p2p
	Fetch    int `json:"fetch"` // maxBlockReqSize
	HashReq  int `json:"hashreq"`
	Tasks    int `json:"tasks"`    // maxBlockReqTasks
	PendConn int `json:"pendconn"` // maxPendingConn
	MaxFail  int `json:"maxfail"`  // MaxPeerFailCount
	Faults   int `json:"faults"`   // deviation bound
}

func (c bcfg) String() string {
	return fmt.Sprintf("N=%d peers=%d fetch=%d hashreq=%d tasks=%d pendconn=%d maxfail=%d faults<=%d",
		c.N, c.Peers, c.Fetch, c.HashReq, c.Tasks, c.PendConn, c.MaxFail, c.Faults)
}

type breq struct {
	id      int
	peerNo  int
	peer    types.PeerID
	hashes  []message.BlockHash
	startNo uint64
	done    bool // answered (at most one answer per request)
}

type stopRec struct {
	who string
	err error
}

type world struct {
	c      bcfg
	bf     *syncer.BlockFetcher
	seq    uint64
	target uint64
	main   []*types.Block // trunk: the honest remote chain (and ancestor)
	alt    []*types.Block // linked side branch leaving the trunk after the ancestor; alt[i] has height ancNo+1+i
	byHash map[string]*types.Block

	hsNext   int // next height to be covered by a hash set (ancNo+1 ...)
	switched bool
	reqs     []*breq
	adds     []*types.Block
	acked    int
	ackErr   bool
	stops    []stopRec
	exited   bool
	faults   int
	sig, why string // first oracle violation on this path
}

// ---- stub requester (single threaded: called from inside the real step functions)

func (w *world) fail(sig, why string) {
	if w.sig == "" {
		w.sig, w.why = sig, why
	}
}

func (w *world) RequestToFutureResult(to string, m interface{}, _ time.Duration, _ string) (interface{}, error) {
	if _, ok := m.(*message.GetPeers); ok && to == message.P2PSvc {
		rsp := &message.GetPeersRsp{}
		for i := 0; i < w.c.Peers; i++ {
			rsp.Peers = append(rsp.Peers, &message.PeerInfo{Addr: &types.PeerAddress{PeerID: []byte(fmt.Sprintf("peer-%d", i))}, State: types.RUNNING})
		}
		return rsp, nil
	}
	w.fail("harness", fmt.Sprintf("unexpected future request %T to %s", m, to))
	return nil, errInjected
}

func (w *world) TellTo(to string, m interface{}) {
	switch msg := m.(type) {
	case *message.GetBlockChunks:
		first := w.byHash[string(msg.Hashes[0])]
		r := &breq{id: len(w.reqs), peer: msg.ToWhom, hashes: msg.Hashes, startNo: first.GetHeader().GetBlockNo()}
		r.peerNo, _ = strconv.Atoi(strings.TrimPrefix(string(msg.ToWhom), "peer-"))
		if msg.Seq != w.seq {
			w.fail("harness", "request with a foreign sequence number")
		}
		w.reqs = append(w.reqs, r)
	case *message.SyncStop:
		w.stops = append(w.stops, stopRec{msg.FromWho, msg.Err})
		if msg.Err == nil && (w.acked != w.c.N || len(w.adds) != w.c.N) {
			w.fail("B-early-complete", fmt.Sprintf("completion reported by %s although only %d of %d blocks were acknowledged (%d handed over)", msg.FromWho, w.acked, w.c.N, len(w.adds)))
		}
	default:
		w.fail("harness", fmt.Sprintf("unexpected TellTo %T", m))
	}
}

func (w *world) RequestTo(to string, m interface{}) {
	ab, ok := m.(*message.AddBlock)
	if !ok || to != message.ChainSvc {
		w.fail("harness", fmt.Sprintf("unexpected RequestTo %T", m))
		return
	}
	b := ab.Block
	prev := w.main[ancNo]
	if n := len(w.adds); n > 0 {
		prev = w.adds[n-1]
	}
	no := b.GetHeader().GetBlockNo()
	want := prev.GetHeader().GetBlockNo() + 1
	switch {
	case w.ackErr:
		w.fail("B-after-reject", fmt.Sprintf("block %d handed to the chain service after the chain service rejected block %d", no, w.adds[len(w.adds)-1].GetHeader().GetBlockNo()))
	case no < want:
		w.fail("B-duplicate", fmt.Sprintf("block %d handed to the chain service after block %d (duplicate / not ascending)", no, want-1))
	case no > want:
		w.fail("B-gap", fmt.Sprintf("block %d handed to the chain service after block %d (gap)", no, want-1))
	case no > w.target:
		w.fail("B-beyond-target", fmt.Sprintf("block %d handed over, target is %d", no, w.target))
	case string(b.GetHeader().GetPrevBlockHash()) != string(prev.GetHash()):
		sig := "B-not-child"
		if (int(no)-ancNo-1)%w.c.Fetch == 0 { // first block of a fetch task (hash set sizes are multiples of the fetch size)
			sig = "B-not-child-first-genuine" // a genuine block of another branch (the hash list switched branches)
			if w.byHash[string(b.GetHash())] != b {
				sig = "B-not-child-first-forged" // carries the requested identifier, names another parent
			}
		}
		w.fail(sig, fmt.Sprintf("block %d handed to the chain service is not a child of the previously handed block %d", no, want-1))
	}
	w.adds = append(w.adds, b)
}

// ---- construction

type blockSet struct {
	main, alt []*types.Block
	byHash    map[string]*types.Block
}

var blockSets = map[int]*blockSet{} // immutable once built; shared by all worlds

func blocksFor(top int) *blockSet {
	if bs := blockSets[top]; bs != nil {
		return bs
	}
	bs := &blockSet{byHash: map[string]*types.Block{}}
	bs.main = trunkTo(top)[:top+1]
	bs.alt = branch(3, ancNo, top)
	for _, b := range bs.main {
		bs.byHash[string(b.GetHash())] = b
	}
	for _, b := range bs.alt {
		bs.byHash[string(b.GetHash())] = b
	}
	blockSets[top] = bs
	return bs
}

func newWorld(c bcfg) *world {
	w := &world{c: c, seq: 5, target: uint64(ancNo + c.N)}
	bs := blocksFor(ancNo + c.N + c.Fetch + 1)
	w.main, w.alt, w.byHash = bs.main, bs.alt, bs.byHash
	w.hsNext = ancNo + 1
	syncer.MaxPeerFailCount = c.MaxFail
	cfg := syncer.VerifC17Cfg(uint64(c.HashReq), c.Fetch, c.PendConn, c.Tasks, time.Hour, false)
	ctx := types.NewSyncCtx(w.seq, types.PeerID("peer-0"), w.target, ancNo, nil)
	ctx.SetAncestor(w.main[ancNo])
	w.bf = syncer.VerifC17NewBF(ctx, w, cfg)
	if err := w.bf.VerifC17Init(); err != nil {
		w.fail("harness", "init: "+err.Error())
	}
	return w
}

// clone: an independent copy of the world (real objects through the shim's deep copy).
func (w *world) clone() *world {
	n := *w
	n.reqs = make([]*breq, len(w.reqs))
	for i, r := range w.reqs {
		c := *r
		n.reqs[i] = &c
	}
	n.adds = append([]*types.Block(nil), w.adds...)
	n.stops = append([]stopRec(nil), w.stops...)
	n.bf = w.bf.VerifC17Clone(&n)
	return &n
}

// chainAt returns the block of height no on the trunk (alt=false) or side branch.
func (w *world) chainAt(alt bool, no uint64) *types.Block {
	if alt {
		if no <= ancNo {
			return w.main[no]
		}
		return w.alt[no-ancNo-1]
	}
	return w.main[no]
}

func (w *world) isAlt(b *types.Block) bool {
	no := b.GetHeader().GetBlockNo()
	return no > ancNo && string(w.alt[no-ancNo-1].GetHash()) == string(b.GetHash())
}

// ---- environment view

func (w *world) final() bool { return len(w.stops) > 0 || w.exited || w.sig != "" }

// live: the request is unanswered and its task is still running at that peer
// (it is the latest request sent to the peer).
func (w *world) live(r *breq, running []syncer.VerifC17Task) bool {
	if r.done {
		return false
	}
	for _, q := range w.reqs[r.id+1:] {
		if q.peerNo == r.peerNo {
			return false
		}
	}
	for _, t := range running {
		if t.PeerNo == r.peerNo && t.StartNo == r.startNo {
			return true
		}
	}
	return false
}

func (w *world) envDump(running []syncer.VerifC17Task) string {
	var sb strings.Builder
	fmt.Fprintf(&sb, "hs%d sw%v f%d adds%d ack%d rej%v stops%d ex%v reqs[", w.hsNext, w.switched, w.faults, len(w.adds), w.acked, w.ackErr, len(w.stops), w.exited)
	for _, r := range w.reqs {
		if !r.done {
			fmt.Fprintf(&sb, "(p%d %d+%d %.3x %v)", r.peerNo, r.startNo, len(r.hashes), []byte(r.hashes[0]), w.live(r, running))
		}
	}
	sb.WriteString("]")
	return sb.String()
}

type digest [16]byte

func (w *world) digest() digest {
	running := w.bf.VerifC17Running()
	h := sha256.Sum256([]byte(w.bf.VerifC17Dump() + "|" + w.envDump(running)))
	var d digest
	copy(d[:], h[:16])
	return d
}

var answerFaults = []string{"err", "few", "many", "unlk", "fmid", "other", "ffirst"}

// enabled lists the events of the current state, simplest first.
func (w *world) enabled() []string {
	if w.final() {
		return nil
	}
	var evs []string
	running := w.bf.VerifC17Running()
	left := w.c.Faults - w.faults
	if w.acked < len(w.adds) {
		evs = append(evs, "A+")
	}
	var liveR, staleR []*breq
	for _, r := range w.reqs {
		if r.done {
			continue
		}
		if w.live(r, running) {
			liveR = append(liveR, r)
		} else {
			staleR = append(staleR, r)
		}
	}
	for _, r := range liveR {
		evs = append(evs, fmt.Sprintf("R%d:right", r.id))
	}
	canOffer := w.hsNext <= int(w.target) && w.bf.VerifC17Offered() == 0
	if canOffer {
		evs = append(evs, "H")
	}
	if w.bf.VerifC17HasHashSet() || w.bf.VerifC17Offered() > 0 {
		evs = append(evs, "T")
	}
	for _, r := range staleR {
		evs = append(evs, fmt.Sprintf("R%d:right", r.id), fmt.Sprintf("R%d:err", r.id))
	}
	// time-outs: the k oldest running tasks expire together (start times are ordered)
	cost := 0
	for k, t := range running {
		for _, r := range liveR {
			if r.peerNo == t.PeerNo {
				cost++
			}
		}
		if cost <= left {
			evs = append(evs, fmt.Sprintf("TO%d", k+1))
		}
	}
	if left > 0 {
		for _, r := range liveR {
			for _, k := range answerFaults {
				if w.answer(r, k) != nil {
					evs = append(evs, fmt.Sprintf("R%d:%s", r.id, k))
				}
			}
		}
		if w.acked < len(w.adds) {
			evs = append(evs, "A-", "A?")
		}
		if canOffer && !w.switched && w.switchPoint() > 0 {
			evs = append(evs, "Hsw")
		}
	}
	return evs
}

// hash set planned next: heights hsNext .. min(hsNext+HashReq-1, target)
func (w *world) nextSetRange() (from, to int) {
	from = w.hsNext
	to = from + w.c.HashReq - 1
	if to > int(w.target) {
		to = int(w.target)
	}
	return
}

// switchPoint: first height of the next hash set from which a lying sync peer
// reports the hashes of its side branch instead; it is placed on a fetch-task
// boundary (inside a task the processor's own linkage test rejects the chunk)
// and after at least one trunk block. 0 = no such point in the next set.
func (w *world) switchPoint() int {
	from, to := w.nextSetRange()
	for h := from; h <= to; h++ {
		if (h-from)%w.c.Fetch == 0 && h > ancNo+1 {
			return h
		}
	}
	return 0
}

// answer builds the peer's reply of the given kind to request r (nil = kind not applicable).
func (w *world) answer(r *breq, kind string) *message.GetBlockChunksRsp {
	rsp := &message.GetBlockChunksRsp{Seq: w.seq, ToWhom: r.peer}
	var right []*types.Block
	for _, h := range r.hashes {
		right = append(right, w.byHash[string(h)])
	}
	n := len(right)
	alt := w.isAlt(right[n-1])
	switch kind {
	case "right":
		rsp.Blocks = right
	case "err":
		rsp.Err = message.RemotePeerFailError
	case "few": // one block short (empty when the task has a single block)
		rsp.Blocks = right[: n-1 : n-1]
	case "many": // the requested blocks and the next one of the same chain
		rsp.Blocks = append(append([]*types.Block{}, right...), w.chainAt(alt, r.startNo+uint64(n)))
	case "unlk": // genuine blocks, the last one from the other branch: not linked
		if n < 2 {
			return nil
		}
		rsp.Blocks = append(append([]*types.Block{}, right[:n-1]...), w.chainAt(!alt, r.startNo+uint64(n)-1))
	case "fmid": // last block carries the requested identifier but another parent
		if n < 2 {
			return nil
		}
		rsp.Blocks = append(append([]*types.Block{}, right[:n-1]...), forge(right[n-1]))
	case "ffirst": // first block carries the requested identifier but another parent
		rsp.Blocks = append([]*types.Block{forge(right[0])}, right[1:]...)
	case "other": // the (correct) blocks of a neighbouring task
		s := r.startNo + uint64(n)
		if s+uint64(n)-1 > w.target {
			if r.startNo < ancNo+1+uint64(n) {
				return nil
			}
			s = r.startNo - uint64(n)
		}
		for i := 0; i < n; i++ {
			rsp.Blocks = append(rsp.Blocks, w.chainAt(alt, s+uint64(i)))
		}
	default:
		panic("unknown answer kind " + kind)
	}
	return rsp
}

var errRejected = errors.New("verif: chain service rejected the block")

// apply delivers one event to the real code.
func (w *world) apply(ev string) {
	step := func(tick bool, m interface{}) {
		defer func() {
			// the real goroutine has `defer RecoverSyncer`: a panic becomes SyncStop(ErrSyncerPanic)
			if r := recover(); r != nil {
				w.stops = append(w.stops, stopRec{"panic", syncer.ErrSyncerPanic})
				w.exited = true
			}
		}()
		if w.bf.VerifC17Step(tick, m) {
			w.exited = true
		}
	}
	running := w.bf.VerifC17Running()
	switch {
	case ev == "H" || ev == "Hsw":
		from, to := w.nextSetRange()
		sw := 0
		if ev == "Hsw" {
			sw = w.switchPoint()
			w.switched = true
			w.faults++
		}
		hs := &syncer.HashSet{StartNo: uint64(from)}
		for h := from; h <= to; h++ {
			b := w.chainAt(w.switched && (sw == 0 || h >= sw), uint64(h))
			hs.Hashes = append(hs.Hashes, message.BlockHash(b.GetHash()))
		}
		hs.Count = len(hs.Hashes)
		w.hsNext = to + 1
		if !w.bf.VerifC17Offer(hs) {
			w.fail("harness", "hash set offered twice")
		}
	case ev == "T":
		step(true, nil)
	case strings.HasPrefix(ev, "TO"):
		k, _ := strconv.Atoi(ev[2:])
		for _, t := range running[:k] {
			for _, r := range w.reqs {
				if r.peerNo == t.PeerNo && w.live(r, running) {
					w.faults++ // the peer stays silent: a deviation. (an expiry after a dropped answer is free)
				}
			}
		}
		w.bf.VerifC17Expire(k)
		step(true, nil)
	case ev[0] == 'A':
		b := w.adds[w.acked]
		rsp := &message.AddBlockRsp{BlockNo: b.GetHeader().GetBlockNo(), BlockHash: b.GetHash()}
		switch ev {
		case "A+":
			w.acked++
		case "A-":
			rsp.Err = errRejected
			w.ackErr = true
			w.faults++
		case "A?": // acknowledgement of a block that is not the current one
			rsp.BlockNo++
			w.ackErr = true
			w.faults++
		}
		step(false, rsp)
	case ev[0] == 'R':
		p := strings.SplitN(ev[1:], ":", 2)
		id, _ := strconv.Atoi(p[0])
		r := w.reqs[id]
		if r.done {
			w.fail("harness", "second answer to one request")
		}
		if p[1] != "right" && w.live(r, running) {
			w.faults++
		}
		rsp := w.answer(r, p[1])
		r.done = true
		step(false, rsp)
	default:
		panic("unknown event " + ev)
	}
}

func replayB(c bcfg, hist []string) *world {
	w := newWorld(c)
	for _, ev := range hist {
		w.apply(ev)
	}
	return w
}

func (w *world) outcome() string {
	switch {
	case w.sig != "":
		return "violation"
	case len(w.stops) > 0 && w.stops[0].err == nil:
		return "completed"
	case len(w.stops) > 0:
		e := w.stops[0].err
		switch {
		case e == syncer.ErrAllPeerBad:
			return "error-stop: all peers bad"
		case e == errRejected:
			return "error-stop: chain service rejected a block"
		case e == syncer.ErrSyncerPanic:
			return "error-stop: recovered panic"
		}
		if _, ok := e.(*syncer.ErrSyncMsg); ok {
			return "error-stop: invalid message"
		}
		return "error-stop: " + e.Error()
	case w.exited:
		return "exited-without-report"
	}
	return "running"
}

type bfsStats struct {
	states, trans, cross int64
	maxDepth             int
	finals               map[string]int64
}

// bfs explores every state of configuration c. The visited set is keyed by the
// digest of the real objects plus the environment. A successor is computed on a
// deep copy of the real objects (or by replaying the history on fresh ones when
// the frontier is too large to keep the objects); every 64th transition is
// recomputed by replay from scratch and must give the same digest.
func bfs(ctx *xplor.Ctx, c bcfg, st *bfsStats) (complete bool) {
	type node struct {
		hist []string
		w    *world
	}
	root := replayB(c, nil)
	if root.sig != "" {
		panic("C17 harness: " + root.why)
	}
	seen := map[digest]struct{}{root.digest(): {}}
	frontier := []node{{nil, root}}
	st.states++
	depth := 0
	sampled := false
	hstr := func(h []string) string { return strings.Join(h, " ") }
	for len(frontier) > 0 {
		var next []node
		for fi := range frontier {
			nd := frontier[fi]
			frontier[fi].w = nil
			if ctx.Expired() {
				return false
			}
			w := nd.w
			if w == nil {
				w = replayB(c, nd.hist)
			}
			evs := w.enabled()
			if len(evs) == 0 {
				continue // final
			}
			here := w.digest()
			progress := false
			for i, ev := range evs {
				w2 := w
				if i < len(evs)-1 {
					w2 = w.clone()
				}
				hist2 := append(append(make([]string, 0, len(nd.hist)+1), nd.hist...), ev)
				setBeat(c, hist2)
				w2.apply(ev)
				st.trans++
				if w2.sig == "harness" {
					panic(fmt.Sprintf("C17 harness: %s in %s %v", w2.why, c, hist2))
				}
				var d digest
				if w2.sig == "" {
					d = w2.digest()
				}
				if st.trans&63 == 0 {
					w3 := replayB(c, hist2)
					if w3.sig != w2.sig || (w3.sig == "" && w3.digest() != d) {
						panic(fmt.Sprintf("C17 harness: copy and replay diverge in %s after %v", c, hist2))
					}
					st.cross++
				}
				if w2.sig != "" {
					progress = true
					report(ctx, sigB(w2, hist2), fmt.Sprintf("fetcher/processor after %s: %s", hstr(hist2), w2.why), replayT{Part: "B", B: &c, Hist: hist2})
					st.finals["violation "+sigB(w2, hist2)]++
					continue
				}
				if d != here {
					progress = true
				}
				if _, ok := seen[d]; ok {
					continue
				}
				seen[d] = struct{}{}
				st.states++
				if w2.faults > 0 {
					ctx.Distinct(xplor.Hash("B", c.String(), d[:]))
				}
				if w2.final() {
					oc := w2.outcome()
					st.finals[oc]++
					if w2.faults == 0 && oc != "completed" {
						report(ctx, "B-honest-failed", fmt.Sprintf("fetcher/processor after %s: no deviation at all (every answer correct, every block accepted), yet the session ended with %q", hstr(hist2), oc), replayT{Part: "B", B: &c, Hist: hist2})
					}
					if oc == "exited-without-report" {
						report(ctx, "B-silent-exit", fmt.Sprintf("fetcher/processor after %s: the fetcher ended without completing and without reporting an error", hstr(hist2)), replayT{Part: "B", B: &c, Hist: hist2})
					}
					if !sampled && w2.faults == c.Faults && oc == "completed" {
						sampled = true
						ctx.Sample(map[string]interface{}{"part": "B", "config": c.String(), "history": hstr(hist2), "outcome": oc})
					}
					continue
				}
				if len(next) < 8000 {
					next = append(next, node{hist2, w2})
				} else {
					next = append(next, node{hist2, nil})
				}
			}
			if !progress {
				report(ctx, "B-stuck", fmt.Sprintf("fetcher/processor after %s: stuck: not finished, no stop reported, and no event (answer, time-out, acknowledgement, tick, hash set) changes the state", hstr(nd.hist)), replayT{Part: "B", B: &c, Hist: nd.hist, Stuck: true})
				st.finals["violation B-stuck"]++
			}
		}
		frontier = next
		if len(next) > 0 {
			depth++
		}
	}
	if depth > st.maxDepth {
		st.maxDepth = depth
	}
	return true
}

// sigB: the violation signature names the input class (oracle + the kind of
// deviation that caused it), not the property. F15 = a chunk whose first block is
// not a child of the previously connected block is handed over (two input classes).
func sigB(w *world, hist []string) string {
	cls := ""
	for _, ev := range hist {
		if i := strings.Index(ev, ":"); i > 0 && ev[i+1:] != "right" {
			cls = "/" + ev[i+1:]
		}
	}
	switch w.sig {
	case "B-not-child-first-genuine":
		return "F15/hashset-switch"
	case "B-not-child-first-forged":
		return "F15/ffirst"
	}
	return w.sig + cls
}

func replayOneB(ctx *xplor.Ctx, r replayT) {
	c := *r.B
	setBeat(c, r.Hist)
	w := replayB(c, r.Hist)
	if w.sig != "" {
		report(ctx, sigB(w, r.Hist), fmt.Sprintf("fetcher/processor after %s: %s", strings.Join(r.Hist, " "), w.why), r)
		return
	}
	if w.final() && w.faults == 0 && w.outcome() != "completed" {
		report(ctx, "B-honest-failed", fmt.Sprintf("fetcher/processor after %s: no deviation at all (every answer correct, every block accepted), yet the session ended with %q", strings.Join(r.Hist, " "), w.outcome()), r)
		return
	}
	if w.final() && w.outcome() == "exited-without-report" {
		report(ctx, "B-silent-exit", fmt.Sprintf("fetcher/processor after %s: the fetcher ended without completing and without reporting an error", strings.Join(r.Hist, " ")), r)
		return
	}
	if r.Stuck {
		here := w.digest()
		for _, ev := range w.enabled() {
			w2 := replayB(c, r.Hist)
			w2.apply(ev)
			if w2.sig != "" || w2.digest() != here {
				return
			}
		}
		if !w.final() {
			report(ctx, "B-stuck", fmt.Sprintf("fetcher/processor after %s: stuck: not finished, no stop reported, and no event (answer, time-out, acknowledgement, tick, hash set) changes the state", strings.Join(r.Hist, " ")), r)
		}
	}
}

// configsB: the configurations of a tier.
// quick:    N<=4 every variant; N=5 (hash sets 4+1, 2 peers) and N=6 (hash sets 2+2+2 with
//
//	peers/tasks 3/3, 2/2, 2/1; one set of 6 with 3/3, 2/2), both with
//	(pendconn,maxfail) in {(10,3),(1,1)}; <= 2 deviations.
//
// thorough: N<=6 every variant with <= 3 deviations; N=7..9 with <= 2 deviations and
//
//	(pendconn,maxfail) in {(10,3),(1,1)}.
func configsB(tier string) []bcfg {
	var cs []bcfg
	thorough := tier == "thorough"
	maxN := 6
	if thorough {
		maxN = 9
	}
	for n := 1; n <= maxN; n++ {
		faults := 2
		if thorough && n <= 6 {
			faults = 3
		}
		for _, peers := range []int{2, 3} {
			for _, tasks := range []int{1, 2, 3} {
				for _, hr := range []int{2, 4, 16} {
					// HashReq only shapes the hash sets: skip sizes that give the same partition
					if hr == 4 && n <= 2 || hr == 16 && n <= 4 {
						continue
					}
					if !thorough && n >= 5 {
						pt := peers*10 + tasks
						keep := n == 5 && hr == 4 && peers == 2 ||
							n == 6 && hr == 2 && (pt == 33 || pt == 22 || pt == 21) ||
							n == 6 && hr == 16 && (pt == 33 || pt == 22)
						if !keep {
							continue
						}
					}
					for _, pc := range []int{1, 10} {
						for _, mf := range []int{1, 3} {
							diag := pc == 10 && mf == 3 || pc == 1 && mf == 1
							if !diag && (!thorough && n >= 5 || thorough && n >= 7) {
								continue
							}
							cs = append(cs, bcfg{N: n, Peers: peers, Fetch: 2, HashReq: hr, Tasks: tasks, PendConn: pc, MaxFail: mf, Faults: faults})
						}
					}
				}
			}
		}
	}
	// largest first, so that the round-robin over shards balances
	wt := func(c bcfg) int { return c.Faults*100000 + c.N*1000 + c.Peers*100 + c.Tasks*10 + 9 - c.HashReq/2 }
	sort.SliceStable(cs, func(i, j int) bool { return wt(cs[i]) > wt(cs[j]) })
	return cs
}

func partB(ctx *xplor.Ctx, idx *int) {
	st := &bfsStats{finals: map[string]int64{}}
	for _, c := range configsB(ctx.Tier) {
		i := *idx
		*idx++
		if !ctx.Mine(i) {
			continue
		}
		if ctx.Expired() {
			break
		}
		before := st.states
		if !bfs(ctx, c, st) {
			ctx.Count("B_configs_cut_by_deadline", 1)
			break
		}
		ctx.Count("B_configs", 1)
		ctx.Max("max_B_states_one_config", st.states-before)
	}
	ctx.State(st.states)
	ctx.Trans(st.trans)
	ctx.Trace(st.trans)
	ctx.Eval(st.trans)
	ctx.Max("max_depth", int64(st.maxDepth))
	ctx.Count("B_copy_vs_replay_crosschecks", st.cross)
	for k, v := range st.finals {
		ctx.Count("outcome B "+k, v)
	}
}
