// C17: block sync delivers a gap-free ascending chain from a true common ancestor.
//
// Part A  every (local chain, fork point, remote chain, peer answer) in the bound through the
//
//	real Finder (light scan, full scan, binary search), driven synchronously.
//
// Part B  explicit-state BFS over the real BlockFetcher/BlockProcessor: every order of peer
//
//	answers, faults, time-outs and chain-service acknowledgements within a deviation bound.
//
// Part C  scripted end-to-end sessions through the real Syncer message handler with the real
//
//	goroutines: external stop after every delivered message, restart after every ending.
//
// The transition function is the repo code (package syncer, reached through the add-only shim
// overlay/shims/syncer/zz_verif_c17.go); the Go code here is environment and oracle only.
package main

import (
	"encoding/json"
	"fmt"
	"strings"
	"sync"
	"sync/atomic"
	"time"

	"github.com/aergoio/aergo/v2/verif_h/xplor"
)

type replayT struct {
	Part  string   `json:"part"`
	A     *caseA   `json:"a,omitempty"`
	B     *bcfg    `json:"b,omitempty"`
	Hist  []string `json:"hist,omitempty"`
	Stuck bool     `json:"stuck,omitempty"`
	C     *scriptC `json:"c,omitempty"`
}

// ---- watchdog: a real step function that never returns is a blocked fetcher.
// The exploration runs in its own goroutine; the watchdog only observes a
// heartbeat, it never decides an oracle that the code can influence by timing.

var (
	heart   atomic.Int64
	curMu   sync.Mutex
	curCfg  *bcfg
	curHist []string
	curC    *scriptC
)

func setScript(s *scriptC) {
	heart.Add(1)
	curMu.Lock()
	curC = s
	curMu.Unlock()
}

func beat() { heart.Add(1) }
func setBeat(c bcfg, hist []string) {
	heart.Add(1)
	curMu.Lock()
	curCfg, curHist = &c, hist
	curMu.Unlock()
}

// report: one violation per signature and shard (the first = shortest found); the
// rest is counted. Keeps one input class from crowding out the others in the
// runner's list.
var reported = map[string]bool{}

func report(ctx *xplor.Ctx, sig, desc string, r replayT) {
	if reported[sig] && ctx.Replay == nil {
		ctx.Count("violations_same_signature_not_listed", 1)
		return
	}
	reported[sig] = true
	ctx.Violation(sig, desc, r)
}

func run(ctx *xplor.Ctx) {
	if ctx.Replay != nil {
		var r replayT
		if err := json.Unmarshal(ctx.Replay, &r); err != nil {
			panic(err)
		}
		switch r.Part {
		case "A":
			reportA(ctx, *r.A, runA(*r.A))
		case "B":
			replayOneB(ctx, r)
		case "C":
			sig, why, classes := runC(*r.C)
			reportC(ctx, *r.C, sig, why, classes)
		}
		return
	}
	idx := 0
	partC(ctx, &idx)
	partA(ctx, &idx)
	curMu.Lock()
	curCfg, curHist = nil, nil
	curMu.Unlock()
	partB(ctx, &idx)
}

func guardedRun(ctx *xplor.Ctx) {
	done := make(chan struct{})
	go func() {
		defer close(done)
		run(ctx)
	}()
	last, idle := int64(-1), 0
	tk := time.NewTicker(5 * time.Second)
	defer tk.Stop()
	for {
		select {
		case <-done:
			return
		case <-tk.C:
			h := heart.Load()
			if h != last {
				last, idle = h, 0
				continue
			}
			idle++
			if idle < 6 {
				continue
			}
			curMu.Lock()
			c, hist, sc := curCfg, curHist, curC
			curMu.Unlock()
			if sc != nil {
				ctx.Violation("C-blocked", "end-to-end ["+sc.String()+"]: the syncer's message handler (or a stop it performs) did not return within 30 s", replayT{Part: "C", C: sc})
				return
			}
			if c != nil {
				ctx.Violation("B-blocked", fmt.Sprintf("fetcher/processor [%s] after %s: the last step did not return within 30 s (blocked inside the fetcher)", *c, strings.Join(hist, " ")), replayT{Part: "B", B: c, Hist: hist})
				return
			}
			panic("C17 harness: no progress for 30 s outside part B")
		}
	}
}

func main() {
	xplor.Main(xplor.Check{
		ID:    "C17",
		Level: "model_checking",
		Rule: "distinct = (A) finder cases with a real fork (fork < local length) or an injected fault, " +
			"(B) fetcher/processor states (digest of the real queues, peer set, connect queue, current blocks + environment) reached with at least one deviation, " +
			"(C) end-to-end scripts; states/transitions are those of part B, traces = executions of real syncer code (A cases + B transitions + C scripts)",
		Assumptions: []string{
			"the environment is the harness: p2p (peer answers), the chain service (anchors, acknowledgements) and the hash fetcher's output in part B are modelled, not run; remote answers to the anchor query come from an independent statement of chain.findAncestor / getAnchorsNew over plain slices",
			"at most one answer per request (the p2p receivers consume the request id); unsolicited duplicates are outside the environment model",
			"part B steps the fetcher loop body synchronously through VerifC17Step, a 20-line copy of the select loop's composition (checkTaskTimeout | blockProcessor.run, then schedule); interleavings inside one goroutine step and races between a response and stop are only covered by part C's scripted runs",
			"time-outs are injected by resetting FetchTask.started (part B) or by a 1 ns finder time-out set at the faulty request (part A); tasks expire oldest first",
			"block identifiers are the Hash field carried by the block, as everywhere in the syncer and p2p",
		},
		Shards: func(tier string) int {
			if tier == "thorough" {
				return 64
			}
			return 48
		},
		Budget: func(tier string) time.Duration {
			if tier == "thorough" {
				return 25 * time.Minute
			}
			return 150 * time.Second
		},
		Run: guardedRun,
	})
}
