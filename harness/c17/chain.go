package main

// Deterministic block trees and a plain ChainAccessor over one branch.
// Everything is a pure function of (height, branch salt): no clock, no randomness.

import (
	"bytes"
	"errors"
	"math/big"
	"sync"

	"github.com/aergoio/aergo/v2/types"
)

var chainID = []byte("verif-c17")

func mkBlock(prev *types.Block, no uint64, salt uint64) *types.Block {
	var ph []byte
	if prev != nil {
		ph = prev.GetHash()
	}
	b := &types.Block{
		Header: &types.BlockHeader{ChainID: chainID, PrevBlockHash: ph, BlockNo: no,
			Timestamp: 1600000000_000000000 + int64(no)*1_000_000_000 + int64(salt)},
		Body: &types.BlockBody{},
	}
	b.BlockHash() // fills b.Hash with the real header digest
	return b
}

// forge returns a block that carries the identifier (Hash field) of b but whose
// header names another parent. GetHash() of such a block is what the peer says.
func forge(b *types.Block) *types.Block {
	h := b.GetHeader()
	return &types.Block{
		Hash: b.GetHash(),
		Header: &types.BlockHeader{ChainID: h.GetChainID(), PrevBlockHash: bytes.Repeat([]byte{0xEE}, 32),
			BlockNo: h.GetBlockNo(), Timestamp: h.GetTimestamp()},
		Body: &types.BlockBody{},
	}
}

// trunk is the shared base chain (salt 0), grown on demand.
var (
	trunkMu sync.Mutex
	trunk   []*types.Block
	brCache = map[[2]uint64][]*types.Block{}
)

func trunkTo(n int) []*types.Block {
	trunkMu.Lock()
	defer trunkMu.Unlock()
	for len(trunk) <= n {
		var prev *types.Block
		if len(trunk) > 0 {
			prev = trunk[len(trunk)-1]
		}
		trunk = append(trunk, mkBlock(prev, uint64(len(trunk)), 0))
	}
	return trunk
}

// branch returns blocks fork+1..upto of the branch `salt` that leaves the trunk after height fork.
func branch(salt uint64, fork, upto int) []*types.Block {
	t := trunkTo(fork)
	trunkMu.Lock()
	defer trunkMu.Unlock()
	k := [2]uint64{salt, uint64(fork)}
	br := brCache[k]
	for fork+len(br) < upto {
		prev := t[fork]
		if len(br) > 0 {
			prev = br[len(br)-1]
		}
		br = append(br, mkBlock(prev, uint64(fork+len(br)+1), salt))
	}
	brCache[k] = br
	if upto < fork {
		upto = fork
	}
	return br[:upto-fork]
}

// mkChain = trunk[0..fork] + branch(salt)[fork+1..length]
func mkChain(salt uint64, fork, length int) *chainT {
	c := &chainT{}
	c.blocks = append(c.blocks, trunkTo(fork)[:fork+1]...)
	c.blocks = append(c.blocks, branch(salt, fork, length)...)
	return c
}

var errNoBlock = errors.New("verif: no such block")

// chainT is a main chain: blocks[i] has height i. It implements types.ChainAccessor.
type chainT struct {
	mu     sync.Mutex
	blocks []*types.Block
}

func (c *chainT) best() int { c.mu.Lock(); defer c.mu.Unlock(); return len(c.blocks) - 1 }
func (c *chainT) at(no uint64) *types.Block {
	c.mu.Lock()
	defer c.mu.Unlock()
	if no >= uint64(len(c.blocks)) {
		return nil
	}
	return c.blocks[no]
}
func (c *chainT) hashAt(no uint64) []byte {
	if b := c.at(no); b != nil {
		return b.GetHash()
	}
	return nil
}
func (c *chainT) has(no uint64, hash []byte) bool {
	h := c.hashAt(no)
	return h != nil && bytes.Equal(h, hash)
}
func (c *chainT) find(hash []byte) *types.Block {
	c.mu.Lock()
	defer c.mu.Unlock()
	for _, b := range c.blocks {
		if bytes.Equal(b.GetHash(), hash) {
			return b
		}
	}
	return nil
}

// connect is the stub chain service: a block is accepted iff it is a child of a
// main-chain block; the chain is cut back to the parent first (reorganisation).
func (c *chainT) connect(b *types.Block) error {
	c.mu.Lock()
	defer c.mu.Unlock()
	no := b.GetHeader().GetBlockNo()
	if no == 0 || no > uint64(len(c.blocks)) {
		return errors.New("verif chain: orphan block")
	}
	if !bytes.Equal(c.blocks[no-1].GetHash(), b.GetHeader().GetPrevBlockHash()) {
		return errors.New("verif chain: parent mismatch")
	}
	c.blocks = append(c.blocks[:no:no], b)
	return nil
}

func (c *chainT) GetGenesisInfo() *types.Genesis { return nil }
func (c *chainT) GetConsensusInfo() string       { return "" }
func (c *chainT) GetChainStats() string          { return "" }
func (c *chainT) GetBestBlock() (*types.Block, error) {
	return c.at(uint64(c.best())), nil
}
func (c *chainT) GetBlock(h []byte) (*types.Block, error) {
	if b := c.find(h); b != nil {
		return b, nil
	}
	return nil, errNoBlock
}
func (c *chainT) GetHashByNo(no types.BlockNo) ([]byte, error) {
	if h := c.hashAt(no); h != nil {
		return h, nil
	}
	return nil, errNoBlock
}
func (c *chainT) GetSystemValue(types.SystemValue) (*big.Int, error) { return nil, nil }
func (c *chainT) GetEnterpriseConfig(string) (*types.EnterpriseConfig, error) {
	return nil, nil
}
func (c *chainT) ChainID(types.BlockNo) *types.ChainID      { return nil }
func (c *chainT) HardforkHeights() map[string]types.BlockNo { return nil }

var _ types.ChainAccessor = (*chainT)(nil)

// refAnchors is an independent statement of chain.getAnchorsNew: best, best-16,
// ... (at most 32), the last one forced to 0 when fewer than 16 remain.
func refAnchors(c *chainT) ([][]byte, uint64) {
	var hs [][]byte
	no := uint64(c.best())
	last := no
	for i := 0; i < 32; i++ {
		hs = append(hs, c.hashAt(no))
		last = no
		if no == 0 {
			break
		}
		if no < 16 {
			no = 0
		} else {
			no -= 16
		}
	}
	return hs, last
}

// refFindAncestor is an independent statement of chain.findAncestor: the first
// hash of the list that is on the main chain.
func refFindAncestor(c *chainT, hashes [][]byte) *types.BlockInfo {
	for _, h := range hashes {
		if b := c.find(h); b != nil {
			return &types.BlockInfo{Hash: b.GetHash(), No: b.GetHeader().GetBlockNo()}
		}
	}
	return nil
}
