package main

// Part C: scripted end-to-end runs through the real Syncer.Receive/handleMessage
// with the real finder / hash fetcher / block fetcher goroutines.
//
// The harness thread plays the actor system. Determinism is owned as follows:
//   - the syncer's goroutines talk to the outside only through the recording
//     requester; futures (GetAnchors, GetPeers) are answered synchronously inside
//     the call;
//   - before the harness takes its next step it waits until every syncer
//     goroutine is parked in a channel operation (runtime.Stack, states "select",
//     "chan send", "chan receive"): everything the last input caused has then
//     been emitted;
//   - the emitted messages form a pool; the next one handled is the smallest (or
//     largest: second policy) in a fixed order on (kind, content), so the mailbox
//     order chosen by the Go scheduler does not matter;
//   - the fetcher's 100 ms scheduler tick is replaced by an explicit tick event
//     (tick period set to 1 h; a tick is emulated by a block response from an
//     unknown peer, which the processor drops and after which the loop runs
//     schedule() exactly as after a real tick) delivered only when nothing else
//     is pending.
//
// Used for: the glue code inside the goroutine closures, an external stop after
// every delivered message, a late chain-service acknowledgement reaching the
// next session, and "a later synchronisation can start".

import (
	"bytes"
	"errors"
	"fmt"
	"os"
	"runtime"
	"sort"
	"strings"
	"time"

	"github.com/aergoio/aergo/v2/syncer"
	"github.com/aergoio/aergo/v2/types"
	"github.com/aergoio/aergo/v2/types/message"
	"github.com/aergoio/aergo/v2/verif_h/vtime"
	"github.com/aergoio/aergo/v2/verif_h/xplor"
)

type scriptC struct {
	Name   string `json:"name"`
	Mode   int    `json:"mode"` // 1 = useFullScanOnly
	Local  int    `json:"local"`
	Fork   int    `json:"fork"`
	Remote int    `json:"remote"`
	Peers  int    `json:"peers"`
	Tasks  int    `json:"tasks"`
	Order  int    `json:"order"`  // 0: smallest pending message first, 1: largest first
	StopAt int    `json:"stopat"` // external stop after this many handled messages of session 1 (-1: never)
	Fault  string `json:"fault"`  // chunk-<kind>@<startNo> | add-err@<no> | hold-add@<no> | anc-nil | hashbyno-err | hashes-<short|silent|err>@<prevNo> | anc-dup | chunk-dup@<startNo>
	Extend int    `json:"extend"` // blocks added to the remote chain before the second session
}

func (s scriptC) String() string {
	return fmt.Sprintf("%s mode=%d local=%d fork=%d remote=%d peers=%d tasks=%d order=%d stopat=%d fault=%q extend=%d", s.Name, s.Mode, s.Local, s.Fork, s.Remote, s.Peers, s.Tasks, s.Order, s.StopAt, s.Fault, s.Extend)
}

type outMsg struct {
	to  string
	m   interface{}
	key string
}

type e2e struct {
	s             scriptC
	local, remote *chainT
	sy            *syncer.Syncer
	out           chan outMsg
	pool          []outMsg
	peers         int

	// per session
	seq       uint64
	notify    chan error
	ancestor  *types.BlockInfo
	adds      []*types.Block
	acked     int
	target    uint64
	delivered int
	stopNow   bool

	faultUsed bool
	held      *message.AddBlock // an AddBlock of an ended session the chain service has not answered yet
	sig, why  string
}

var traceC = os.Getenv("VERIF_C17_TRACE") != ""

var errExternalStop = errors.New("verif: external stop request")

// ---- recording requester (called from the syncer's goroutines and from the harness thread)

func (e *e2e) TellTo(to string, m interface{})    { e.out <- outMsg{to: to, m: m} }
func (e *e2e) RequestTo(to string, m interface{}) { e.out <- outMsg{to: to, m: m} }
func (e *e2e) RequestToFutureResult(to string, m interface{}, _ time.Duration, _ string) (interface{}, error) {
	switch g := m.(type) {
	case *message.GetAnchors:
		e.sy.VerifC17BufferLight() // on the finder goroutine, before it asks the peer
		hs, last := refAnchors(e.local)
		return message.GetAnchorsRsp{Seq: g.Seq, Hashes: hs, LastNo: last}, nil
	case *message.GetPeers:
		rsp := &message.GetPeersRsp{}
		for i := 0; i < e.peers; i++ {
			rsp.Peers = append(rsp.Peers, &message.PeerInfo{Addr: &types.PeerAddress{PeerID: []byte(fmt.Sprintf("peer-%d", i))}, State: types.RUNNING})
		}
		return rsp, nil
	}
	return nil, errInjected
}

func (e *e2e) fail(sig, why string) {
	if e.sig == "" {
		e.sig, e.why = sig, why
	}
}

func (e *e2e) fault(kind string, at uint64) bool {
	if e.faultUsed || e.s.Fault != fmt.Sprintf("%s@%d", kind, at) {
		return false
	}
	e.faultUsed = true
	return true
}

// msgKey: the fixed order in which pending messages are handled.
func msgKey(m interface{}) string {
	switch x := m.(type) {
	case *message.SyncStop:
		return "0 stop " + x.FromWho
	case *message.FinderResult:
		return "1 finder-result"
	case *message.CloseFetcher:
		return "2 close " + x.FromWho
	case *message.GetSyncAncestor:
		return "3 get-ancestor"
	case *message.GetHashByNo:
		return fmt.Sprintf("4 get-hash-by-no %08d", x.BlockNo)
	case *message.GetHashes:
		return fmt.Sprintf("5 get-hashes %08d", x.PrevInfo.No)
	case *message.GetBlockChunks:
		return fmt.Sprintf("6 get-blocks %x %s", []byte(x.Hashes[0]), x.ToWhom)
	case *message.AddBlock:
		return fmt.Sprintf("7 add-block %08d", x.Block.GetHeader().GetBlockNo())
	}
	return fmt.Sprintf("9 %T", m)
}

// parked reports whether every goroutine of package syncer is blocked in a
// channel operation (nothing left to run until the next input or timer).
func parked() bool {
	buf := make([]byte, 1<<18)
	n := runtime.Stack(buf, true)
	for _, g := range bytes.Split(buf[:n], []byte("\n\n")) {
		if !bytes.Contains(g, []byte("aergo/v2/syncer.")) || bytes.Contains(g, []byte("main.(*e2e).session")) || bytes.Contains(g, []byte("main.(*e2e).drain")) {
			continue // not a syncer goroutine / the harness thread itself
		}
		i, j := bytes.IndexByte(g, '['), bytes.IndexByte(g, ']')
		if i < 0 || j < i {
			return false
		}
		st := string(g[i+1 : j])
		if !(strings.HasPrefix(st, "select") || strings.HasPrefix(st, "chan send") || strings.HasPrefix(st, "chan receive")) {
			return false
		}
	}
	return true
}

// settle waits until the syncer's goroutines are parked, then moves what they
// emitted into the pool.
func (e *e2e) settle() {
	for i := 0; !parked(); i++ {
		if i < 100 {
			runtime.Gosched()
		} else {
			time.Sleep(50 * time.Microsecond)
		}
	}
	for {
		select {
		case o := <-e.out:
			o.key = msgKey(o.m)
			e.pool = append(e.pool, o)
		default:
			return
		}
	}
}

func (e *e2e) take() (outMsg, bool) {
	if len(e.pool) == 0 {
		return outMsg{}, false
	}
	sort.SliceStable(e.pool, func(i, j int) bool { return e.pool[i].key < e.pool[j].key })
	k := 0
	if e.s.Order == 1 {
		k = len(e.pool) - 1
	}
	o := e.pool[k]
	e.pool = append(e.pool[:k], e.pool[k+1:]...)
	return o, true
}

// handle plays p2p / chain service / actor mailbox for one outgoing message.
// deliver hands m to the syncer's message handler on a goroutine of its own and waits for the
// handler to return. The handler must never block for ever (the syncer is an actor: a handler that
// does not return stops all further messages, stop requests included): if it is still inside the
// call while every syncer goroutine is parked in a channel operation, that is reported.
func (e *e2e) deliver(m interface{}) {
	done := make(chan struct{})
	go func() {
		defer close(done)
		e.sy.VerifC17Receive(m)
	}()
	stable := 0
	for i := 0; ; i++ {
		select {
		case <-done:
			return
		default:
		}
		if i < 200 {
			runtime.Gosched()
			continue
		}
		if parked() {
			stable++
		} else {
			stable = 0
		}
		if stable >= 20 {
			e.fail("C-handler-blocked", fmt.Sprintf("the syncer's message handler does not return from %T: it is blocked in a channel operation while every other syncer goroutine is parked too", m))
			return
		}
		time.Sleep(200 * time.Microsecond)
	}
}

func (e *e2e) handle(o outMsg) {
	rcv := e.deliver
	switch m := o.m.(type) {
	case *message.FinderResult:
		if m.Seq == e.seq && m.Ancestor != nil && m.Err == nil {
			a := m.Ancestor
			if !e.local.has(a.No, a.Hash) || !e.remote.has(a.No, a.Hash) {
				e.fail("C-ancestor-not-common", fmt.Sprintf("finder reported ancestor no=%d which is not on both chains", a.No))
			}
			e.ancestor = a
		}
		rcv(m)
	case *message.SyncStop, *message.CloseFetcher:
		rcv(m)
	case *message.GetSyncAncestor:
		anc := refFindAncestor(e.remote, m.Hashes)
		if e.s.Fault == "anc-nil" && !e.faultUsed {
			e.faultUsed = true
			anc = nil
		}
		rcv(&message.GetSyncAncestorRsp{Seq: m.Seq, Ancestor: anc})
		if e.s.Fault == "anc-dup" && !e.faultUsed && e.sig == "" {
			// the peer answers the same request a second and a third time (the light-scan channel is
			// 1-buffered in this part, see RequestToFutureResult: the second answer fills the buffer,
			// the third finds nobody receiving)
			e.faultUsed = true
			rcv(&message.GetSyncAncestorRsp{Seq: m.Seq, Ancestor: anc})
			if e.sig == "" {
				rcv(&message.GetSyncAncestorRsp{Seq: m.Seq, Ancestor: anc})
			}
		}
	case *message.GetHashByNo:
		h := e.remote.hashAt(m.BlockNo)
		inject := e.s.Fault == "hashbyno-err" && !e.faultUsed
		if inject {
			e.faultUsed = true
		}
		if h == nil || inject {
			rcv(&message.GetHashByNoRsp{Seq: m.Seq, Err: message.RemotePeerFailError})
		} else {
			rcv(&message.GetHashByNoRsp{Seq: m.Seq, BlockHash: h})
		}
	case *message.GetHashes:
		if traceC {
			fmt.Fprintf(os.Stderr, "C: GetHashes prev=%d count=%d\n", m.PrevInfo.No, m.Count)
		}
		var hs []message.BlockHash
		for i := uint64(1); i <= m.Count; i++ {
			if h := e.remote.hashAt(m.PrevInfo.No + i); h != nil {
				hs = append(hs, h)
			}
		}
		switch at := m.PrevInfo.No; {
		case e.fault("hashes-silent", at):
			// the peer never answers this request: only the hash fetcher's own timer can end the session
			return
		case e.fault("hashes-short", at) && len(hs) > 1:
			// one hash too few, no error indication; the peer then stays silent
			rcv(&message.GetHashesRsp{Seq: m.Seq, PrevInfo: m.PrevInfo, Hashes: hs[:len(hs)-1], Count: uint64(len(hs) - 1)})
			return
		case e.fault("hashes-err", at):
			rcv(&message.GetHashesRsp{Seq: m.Seq, PrevInfo: m.PrevInfo, Hashes: hs[:1], Count: 1, Err: message.RemotePeerFailError})
			return
		}
		rcv(&message.GetHashesRsp{Seq: m.Seq, PrevInfo: m.PrevInfo, Hashes: hs, Count: uint64(len(hs))})
	case *message.GetBlockChunks:
		var blocks []*types.Block
		for _, h := range m.Hashes {
			if b := e.remote.find(h); b != nil {
				blocks = append(blocks, b)
			}
		}
		rsp := &message.GetBlockChunksRsp{Seq: m.Seq, ToWhom: m.ToWhom, Blocks: blocks}
		if len(blocks) != len(m.Hashes) {
			rsp = &message.GetBlockChunksRsp{Seq: m.Seq, ToWhom: m.ToWhom, Err: message.MissingHashError}
		} else {
			at := blocks[0].GetHeader().GetBlockNo()
			switch {
			case e.fault("chunk-err", at):
				rsp.Blocks, rsp.Err = nil, message.RemotePeerFailError
			case e.fault("chunk-few", at):
				rsp.Blocks, rsp.Err = nil, message.TooFewBlocksError // what p2p's receiver makes of a short answer
			case e.fault("chunk-fmid", at):
				rsp.Blocks = append(append([]*types.Block{}, blocks[:len(blocks)-1]...), forge(blocks[len(blocks)-1]))
			}
		}
		rcv(rsp)
		if rsp.Err == nil && len(rsp.Blocks) > 0 && e.fault("chunk-dup", rsp.Blocks[0].GetHeader().GetBlockNo()) && e.sig == "" {
			rcv(&message.GetBlockChunksRsp{Seq: m.Seq, ToWhom: m.ToWhom, Blocks: blocks})
		}
	case *message.AddBlock:
		if m.Block == nil {
			e.fail("harness", "AddBlock without block")
			return
		}
		no := m.Block.GetHeader().GetBlockNo()
		if e.held != nil && e.held != m {
			// the chain service finally answers the request of the ended session; the
			// acknowledgement carries no session number
			h := e.held
			e.held = nil
			herr := e.local.connect(h.Block)
			rcv(&message.AddBlockRsp{BlockNo: h.Block.GetHeader().GetBlockNo(), BlockHash: h.Block.GetHash(), Err: herr})
		}
		e.checkAdd(m.Block)
		if e.fault("hold-add", no) {
			e.held = m
			e.stopNow = true
			return
		}
		var err error
		if e.fault("add-err", no) {
			err = errRejected
		} else {
			err = e.local.connect(m.Block)
		}
		if err == nil && e.sig == "" {
			e.acked = len(e.adds)
		}
		rcv(&message.AddBlockRsp{BlockNo: no, BlockHash: m.Block.GetHash(), Err: err})
	default:
		e.fail("harness", fmt.Sprintf("unexpected outgoing message %T", o.m))
	}
}

func (e *e2e) checkAdd(b *types.Block) {
	no := b.GetHeader().GetBlockNo()
	if e.ancestor == nil {
		e.fail("C-add-before-ancestor", fmt.Sprintf("block %d handed to the chain service before an ancestor was determined", no))
		return
	}
	prevNo, prevHash := e.ancestor.No, e.ancestor.Hash
	if n := len(e.adds); n > 0 {
		prevNo, prevHash = e.adds[n-1].GetHeader().GetBlockNo(), e.adds[n-1].GetHash()
	}
	switch {
	case no <= prevNo:
		e.fail("C-duplicate", fmt.Sprintf("block %d handed over after block %d", no, prevNo))
	case no > prevNo+1:
		e.fail("C-gap", fmt.Sprintf("block %d handed over after block %d", no, prevNo))
	case no > e.target:
		e.fail("C-beyond-target", fmt.Sprintf("block %d handed over, target %d", no, e.target))
	case string(b.GetHeader().GetPrevBlockHash()) != string(prevHash):
		e.fail("C-not-child", fmt.Sprintf("block %d is not a child of the previously handed block %d", no, prevNo))
	}
	e.adds = append(e.adds, b)
}

const hangAfter = 3 * time.Second

// tick: the fetcher's scheduler tick, emulated by a block response of an unknown
// peer (dropped by the processor; the loop then runs schedule()).
func (e *e2e) tick() {
	e.sy.VerifC17Receive(&message.GetBlockChunksRsp{Seq: e.seq, ToWhom: types.PeerID("verif-tick"), Blocks: []*types.Block{trunkTo(0)[0]}})
}

// session runs one synchronisation to its end. stopAt >= 0: an external stop
// request is delivered after that many handled messages.
// result: "refused" (SyncStart did not start a session), "ok", "err:<class>", "hang".
func (e *e2e) session(stopAt int) string {
	e.notify = make(chan error, 1)
	e.ancestor, e.adds, e.acked, e.delivered, e.stopNow = nil, nil, 0, 0, false
	e.target = uint64(e.remote.best())
	e.sy.VerifC17Receive(&message.SyncStart{PeerID: types.PeerID("peer-0"), TargetNo: e.target, NotifyC: e.notify})
	if !e.sy.VerifC17Running() {
		return "refused"
	}
	e.seq = e.sy.GetSeq()
	ended := func() (string, bool) {
		select {
		case err := <-e.notify:
			if e.sy.VerifC17Running() {
				e.fail("C-notify-while-running", "result notified but the syncer is still running")
			}
			if f, h, b := e.sy.VerifC17Parts(); f || h || b {
				e.fail("C-parts-left", "result notified but finder/fetchers are still attached")
			}
			if err == nil {
				if e.acked != len(e.adds) || len(e.adds) == 0 || e.adds[len(e.adds)-1].GetHeader().GetBlockNo() != e.target {
					e.fail("C-early-complete", fmt.Sprintf("completion notified, %d blocks handed over, %d acknowledged, target %d", len(e.adds), e.acked, e.target))
				}
				return "ok", true
			}
			return "err:" + errClass(err), true
		default:
			return "", false
		}
	}
	ticked := false
	for {
		if e.delivered == stopAt || e.stopNow {
			stopAt, e.stopNow = -1, false
			e.sy.VerifC17Receive(&message.SyncStop{Seq: e.seq, FromWho: "verif", Err: errExternalStop})
		}
		if r, ok := ended(); ok {
			return r
		}
		if e.sig != "" {
			return "violation"
		}
		beat()
		e.settle()
		if o, ok := e.take(); ok {
			e.handle(o)
			e.delivered++
			ticked = false
			continue
		}
		if !ticked { // nothing pending: time passes, the scheduler tick fires
			ticked = true
			e.tick()
			continue
		}
		// nothing pending and a tick changed nothing: only a timer of the syncer can go on. The
		// hash fetcher's timer is virtual (rewrite vtime): the earliest armed one fires now
		if vtime.FireNext() {
			ticked = false
			continue
		}
		select {
		case o := <-e.out:
			o.key = msgKey(o.m)
			e.pool = append(e.pool, o)
			ticked = false
		case <-time.After(hangAfter):
			return "hang"
		}
	}
}

func errClass(err error) string {
	switch err {
	case errExternalStop:
		return "external-stop"
	case errRejected:
		return "chain-rejected"
	case syncer.ErrAllPeerBad:
		return "all-peers-bad"
	case syncer.ErrFinderInternal:
		return "finder-internal"
	case syncer.ErrSyncerPanic:
		return "panic-recovered"
	case syncer.ErrHashFetcherTimeout:
		return "hashfetcher-timeout"
	case message.RemotePeerFailError, errNoBlock:
		return "peer-error"
	case syncer.ErrAlreadySyncDone:
		return "already-synced"
	}
	if _, ok := err.(*syncer.ErrSyncMsg); ok {
		return "invalid-message"
	}
	return "other"
}

// drain handles what the ended session left in the mailbox (answers are dropped
// by the real Receive because nothing is running).
func (e *e2e) drain() {
	for {
		e.settle()
		o, ok := e.take()
		if !ok {
			return
		}
		e.handle(o)
	}
}

// runC executes a script: session 1 (with its fault / stop), then a second,
// honest session that must run to completion (for the late acknowledgement
// script: a third one, because the late answer may legitimately end the second).
func runC(s scriptC) (sig, why string, classes []string) {
	setScript(&s)
	defer setScript(nil)
	vtime.Reset()
	oldTick := syncer.VerifC17SetSchedTick(time.Hour)
	oldHT := syncer.VerifC17SetHashTimeout(time.Hour)
	defer func() {
		syncer.VerifC17SetSchedTick(oldTick)
		syncer.VerifC17SetHashTimeout(oldHT)
	}()
	syncer.MaxPeerFailCount = 3
	e := &e2e{s: s, out: make(chan outMsg, 4096), peers: s.Peers}
	e.local = mkChain(1, s.Fork, s.Local)
	e.remote = mkChain(2, s.Fork, s.Remote)
	cfg := syncer.VerifC17Cfg(3, 2, 10, s.Tasks, time.Hour, s.Mode == 1)
	e.sy = syncer.NewSyncer(nil, e.local, cfg)
	e.sy.SetRequester(e)
	defer func() {
		if r := recover(); r != nil {
			sig, why = "C-handler-panic", "a panic escaped the syncer's message handler and its own recovery (the actor dies): "+firstLine(fmt.Sprint(r))
		}
	}()

	r1 := e.session(s.StopAt)
	classes = append(classes, "session1 "+r1)
	if e.sig == "" {
		switch {
		case r1 == "hang":
			e.fail("C-hang", "session 1 is dead: every syncer goroutine is parked in a channel operation, no message is pending, a scheduler tick changes nothing and no result was notified")
		case r1 == "refused":
			e.fail("C-refused", "first SyncStart with a target above the local best block was not accepted")
		case r1 != "ok" && s.Fault == "" && s.StopAt < 0:
			e.fail("C-honest-failed", "session 1 without any fault or stop ended with "+r1)
		case r1 == "ok" && s.Fault == "" && s.StopAt < 0:
			if !e.local.has(e.target, e.remote.hashAt(e.target)) {
				e.fail("C-wrong-result", "completed, but the local chain does not end with the target block")
			}
		}
	}
	if e.sig != "" {
		return e.sig, e.why, classes
	}
	// a later synchronisation can start
	if e.held == nil {
		e.drain()
	}
	if s.Extend > 0 {
		ext := mkChain(2, s.Fork, s.Remote+s.Extend)
		e.remote.mu.Lock()
		e.remote.blocks = ext.blocks
		e.remote.mu.Unlock()
	}
	e.faultUsed = true // the later sessions are honest
	for n := 2; n <= 3; n++ {
		late := e.held != nil
		rb := uint64(e.remote.best())
		needed := !e.local.has(rb, e.remote.hashAt(rb))
		r := e.session(-1)
		classes = append(classes, fmt.Sprintf("session%d %s", n, r))
		switch {
		case e.sig != "":
		case r == "hang":
			e.fail("C-hang", fmt.Sprintf("session %d (after %s) is dead: every syncer goroutine is parked, nothing pending, a tick changes nothing, no result notified", n, classes[len(classes)-2]))
		case r == "refused":
			if e.local.best() < e.remote.best() {
				e.fail("C-refused", "after "+classes[len(classes)-2]+" a new SyncStart with a target above the local best block was not accepted")
			}
		case r != "ok":
			if late {
				// ended by the late acknowledgement of the previous session: allowed
				// (an error stop), but the next attempt must then succeed
				e.drain()
				continue
			}
			if needed {
				e.fail("C-later-session-failed", "honest session after "+classes[len(classes)-2]+" ended with "+r)
			}
		default:
			if !e.local.has(e.target, e.remote.hashAt(e.target)) {
				e.fail("C-wrong-result", "later session completed, but the local chain does not end with the target block")
			}
		}
		break
	}
	return e.sig, e.why, classes
}

func firstLine(s string) string {
	if i := strings.IndexByte(s, '\n'); i >= 0 {
		return s[:i]
	}
	return s
}

func scriptsC(tier string) []scriptC {
	var ss []scriptC
	type topo struct{ mode, l, f, r int }
	topos := []topo{{0, 3, 3, 9}, {0, 5, 2, 9}, {0, 0, 0, 7}, {0, 20, 17, 30}, {1, 5, 2, 9}, {1, 3, 3, 8}}
	for _, t := range topos {
		for _, pt := range [][2]int{{2, 1}, {2, 2}, {3, 3}} {
			for order := 0; order < 2; order++ {
				ss = append(ss, scriptC{Name: "honest", Mode: t.mode, Local: t.l, Fork: t.f, Remote: t.r, Peers: pt[0], Tasks: pt[1], Order: order, StopAt: -1, Extend: 4})
			}
		}
	}
	// an external stop after every handled message of an honest run
	steps := 24
	stopTopos := []topo{{0, 5, 2, 9}, {1, 3, 3, 8}}
	if tier == "thorough" {
		steps = 70
		stopTopos = topos
	}
	for _, t := range stopTopos {
		for _, pt := range [][2]int{{2, 1}, {2, 2}} {
			for order := 0; order < 2; order++ {
				if tier != "thorough" && order == 1 && pt[1] == 2 {
					continue
				}
				for k := 0; k <= steps; k++ {
					ss = append(ss, scriptC{Name: "stop", Mode: t.mode, Local: t.l, Fork: t.f, Remote: t.r, Peers: pt[0], Tasks: pt[1], Order: order, StopAt: k})
				}
			}
		}
	}
	// one fault, then a new session
	for _, fl := range []string{"chunk-err@3", "chunk-err@5", "chunk-err@9", "chunk-few@5", "chunk-fmid@5", "chunk-fmid@7",
		"add-err@3", "add-err@6", "add-err@9", "anc-nil",
		"hold-add@3", "hold-add@4", "hold-add@6", "hold-add@9"} {
		for order := 0; order < 2; order++ {
			ss = append(ss, scriptC{Name: "fault", Mode: 0, Local: 5, Fork: 2, Remote: 9, Peers: 3, Tasks: 2, Order: order, StopAt: -1, Fault: fl})
		}
	}
	ss = append(ss, scriptC{Name: "fault", Mode: 1, Local: 5, Fork: 2, Remote: 9, Peers: 2, Tasks: 2, StopAt: -1, Fault: "hashbyno-err"})
	// a peer that answers a request twice
	// (ancestor and block-chunk answers only: these two handlers are written to drop what nobody waits
	// for. A second GetHashesRsp for one request is not in the alphabet: p2p's BlockHashesReceiver
	// forwards exactly one answer per request and HashFetcher.GetHahsesRsp relies on that.)
	for _, fl := range []string{"anc-dup", "chunk-dup@1", "chunk-dup@3", "chunk-dup@5"} {
		for _, mode := range []int{0, 1} {
			for order := 0; order < 2; order++ {
				ss = append(ss, scriptC{Name: "fault", Mode: mode, Local: 5, Fork: 2, Remote: 9, Peers: 3, Tasks: 2, Order: order, StopAt: -1, Fault: fl, Extend: 2})
			}
		}
	}
	// the hash fetcher's peer: silent, one hash short without an error indication (then silent), error
	// answer - at the first and at a later request (requests of 3 hashes start after block 0, 3, 6, 9)
	for _, kind := range []string{"hashes-silent", "hashes-short", "hashes-err"} {
		for _, at := range []int{0, 3, 6} {
			for order := 0; order < 2; order++ {
				ss = append(ss, scriptC{Name: "fault", Mode: 0, Local: 5, Fork: 2, Remote: 12, Peers: 3, Tasks: 2, Order: order, StopAt: -1, Fault: fmt.Sprintf("%s@%d", kind, at), Extend: 2})
			}
		}
	}
	return ss
}

func partC(ctx *xplor.Ctx, idx *int) {
	sampled := false
	for _, s := range scriptsC(ctx.Tier) {
		i := *idx
		*idx++
		if !ctx.Mine(i) {
			continue
		}
		if ctx.Expired() {
			return
		}
		s := s
		sig, why, classes := runC(s)
		reportC(ctx, s, sig, why, classes)
		if !sampled {
			sampled = true
			ctx.Sample(map[string]interface{}{"part": "C", "script": s.String(), "outcome": strings.Join(classes, ", ")})
		}
	}
}

func reportC(ctx *xplor.Ctx, s scriptC, sig, why string, classes []string) {
	ctx.Eval(1)
	ctx.Trace(1)
	ctx.Count("C_scripts", 1)
	for _, c := range classes {
		ctx.Count("outcome C "+c, 1)
	}
	ctx.Distinct(xplor.Hash("C", s.String()))
	if sig == "harness" {
		panic("C17 harness: " + why + " in " + s.String())
	}
	if sig != "" {
		report(ctx, sig, "end-to-end ["+s.String()+"]: "+why, replayT{Part: "C", C: &s})
	}
}
