package main

// Part A: the real Finder (lightscan / fullscan / binarySearch / hasSameHash /
// getAnchors / getAncestor) driven synchronously over every pair of chains in
// the bound. The peer's and the chain service's answers are deposited by a
// synchronous stub requester before the finder's select runs.

import (
	"errors"
	"fmt"
	"strconv"
	"strings"
	"time"

	"github.com/aergoio/aergo/v2/syncer"
	"github.com/aergoio/aergo/v2/types"
	"github.com/aergoio/aergo/v2/types/message"
	"github.com/aergoio/aergo/v2/verif_h/xplor"
)

type caseA struct {
	Mode   int    `json:"mode"` // 0: light scan then full scan; 1: useFullScanOnly
	Local  int    `json:"local"`
	Fork   int    `json:"fork"`
	Remote int    `json:"remote"`
	Fault  string `json:"fault"` // "" | anchors-err | anc-nil | anc-none | anc-quit | hash<k>-{err,nil,none,quit}
}

func (c caseA) String() string {
	return fmt.Sprintf("mode=%d local=%d fork=%d remote=%d fault=%q", c.Mode, c.Local, c.Fork, c.Remote, c.Fault)
}

var errInjected = errors.New("verif: injected failure")

type rqA struct {
	c             caseA
	local, remote *chainT
	f             *syncer.Finder
	nHash         int
	hashK         int
	hashKind      string
	bad           string // harness-level protocol surprise
}

func (r *rqA) RequestTo(string, interface{}) { r.bad = "unexpected RequestTo" }
func (r *rqA) RequestToFutureResult(to string, m interface{}, _ time.Duration, _ string) (interface{}, error) {
	g, ok := m.(*message.GetAnchors)
	if !ok || to != message.ChainSvc {
		r.bad = fmt.Sprintf("unexpected future request %T", m)
		return nil, errInjected
	}
	if r.c.Fault == "anchors-err" {
		return nil, errInjected
	}
	hs, last := refAnchors(r.local)
	return message.GetAnchorsRsp{Seq: g.Seq, Hashes: hs, LastNo: last}, nil
}
func (r *rqA) TellTo(to string, m interface{}) {
	switch msg := m.(type) {
	case *message.GetSyncAncestor:
		switch r.c.Fault {
		case "anc-nil":
			r.f.VerifC17PutAncestor(nil)
		case "anc-none":
			r.f.VerifC17SetTimeout(time.Nanosecond)
		case "anc-quit":
			r.f.VerifC17Quit()
		default:
			r.f.VerifC17PutAncestor(refFindAncestor(r.remote, msg.Hashes))
		}
	case *message.GetHashByNo:
		k := r.nHash
		r.nHash++
		if r.hashKind != "" && k == r.hashK {
			switch r.hashKind {
			case "err":
				r.f.VerifC17PutHash(&message.GetHashByNoRsp{Seq: msg.Seq, Err: message.RemotePeerFailError})
			case "nil":
				r.f.VerifC17PutHash(&message.GetHashByNoRsp{Seq: msg.Seq})
			case "none":
				r.f.VerifC17SetTimeout(time.Nanosecond)
			case "quit":
				r.f.VerifC17Quit()
			}
			return
		}
		if h := r.remote.hashAt(msg.BlockNo); h != nil {
			r.f.VerifC17PutHash(&message.GetHashByNoRsp{Seq: msg.Seq, BlockHash: h})
		} else { // what p2p reports when the remote peer has no such block
			r.f.VerifC17PutHash(&message.GetHashByNoRsp{Seq: msg.Seq, Err: message.RemotePeerFailError})
		}
	default:
		r.bad = fmt.Sprintf("unexpected message %T", m)
	}
}

type resA struct {
	class    string
	nHash    int
	sig, why string
}

func errName(err error) string {
	switch err {
	case nil:
		return "nil"
	case syncer.ErrAlreadySyncDone:
		return "already-synced"
	case syncer.ErrFinderQuit:
		return "quit"
	case syncer.ErrorGetSyncAncestorTimeout, syncer.ErrFinderTimeout:
		return "timeout"
	case errInjected, message.RemotePeerFailError:
		return "peer-or-chain-error"
	case errNoBlock:
		return "local-lookup-error"
	}
	return "other:" + err.Error()
}

func runA(c caseA) (res resA) {
	local := mkChain(1, c.Fork, c.Local)
	remote := mkChain(2, c.Fork, c.Remote)
	rq := &rqA{c: c, local: local, remote: remote}
	if strings.HasPrefix(c.Fault, "hash") {
		p := strings.SplitN(c.Fault[4:], "-", 2)
		rq.hashK, _ = strconv.Atoi(p[0])
		rq.hashKind = p[1]
	}
	cfg := syncer.VerifC17Cfg(3, 2, 10, 3, time.Hour, c.Mode == 1)
	ctx := types.NewSyncCtx(7, types.PeerID("peer-0"), uint64(c.Remote), uint64(c.Local), nil)
	f := syncer.VerifC17NewFinder(ctx, rq, local, cfg)
	rq.f = f

	var anc, lanc *types.BlockInfo
	var err, lerr error
	panicked := ""
	func() {
		defer func() {
			if r := recover(); r != nil {
				panicked = fmt.Sprint(r)
			}
		}()
		// composition of Finder.start's run closure (finder.go:67-93)
		lanc, lerr = f.VerifC17Light()
		anc, err = lanc, lerr
		if anc == nil && err == nil {
			anc, err = f.VerifC17Full()
		}
	}()
	res.nHash = rq.nHash
	if rq.bad != "" {
		res.sig, res.why = "harness", rq.bad
		return
	}
	if panicked != "" { // the real goroutine recovers and stops the session with ErrSyncerPanic
		res.class = "panic-recovered"
		return
	}
	lightNone := lanc == nil && lerr == nil
	switch {
	case err != nil:
		res.class = "error:" + errName(err)
	case anc == nil:
		res.class = "no-ancestor"
	case lightNone:
		res.class = "found-by-fullscan"
	default:
		res.class = "found-by-lightscan"
	}
	honest := c.Fault == ""
	if err == nil && anc != nil {
		if !local.has(anc.No, anc.Hash) {
			res.sig, res.why = "A-not-on-local", fmt.Sprintf("ancestor no=%d is not a block of the local main chain", anc.No)
			return
		}
		if !remote.has(anc.No, anc.Hash) {
			res.sig, res.why = "A-not-on-remote", fmt.Sprintf("ancestor no=%d is a block the remote chain lacks (highest common block is %d)", anc.No, c.Fork)
			return
		}
		if anc.No > uint64(c.Remote) {
			res.sig, res.why = "A-above-target", fmt.Sprintf("ancestor no=%d above target %d", anc.No, c.Remote)
			return
		}
	}
	if honest && lightNone && err == nil {
		// the anchor comparison found none: the result must be the highest common block
		if anc == nil || anc.No != uint64(c.Fork) {
			got := "none"
			if anc != nil {
				got = fmt.Sprint(anc.No)
			}
			res.sig, res.why = "A-not-highest", fmt.Sprintf("light scan found none, full scan returned %s, highest common block is %d", got, c.Fork)
			return
		}
	}
	if honest && c.Remote > c.Local && (err != nil || anc == nil) {
		res.sig, res.why = "A-honest-failed", fmt.Sprintf("honest peer, target above local best, but the finder ended with %s", res.class)
	}
	return
}

func longLocals(tier string) []int {
	if tier == "thorough" {
		var r []int
		for l := 490; l <= 560; l++ {
			r = append(r, l)
		}
		return r
	}
	return []int{495, 496, 497, 498, 500, 511, 512, 513, 527, 528, 529}
}

// casesA enumerates the chain pairs (without faults).
func casesA(tier string) []caseA {
	L, K := 40, 8
	if tier == "thorough" {
		L, K = 72, 10
	}
	var cs []caseA
	for mode := 0; mode < 2; mode++ {
		for l := 0; l <= L; l++ {
			for f := 0; f <= l; f++ {
				for r := f; r <= f+K; r++ {
					cs = append(cs, caseA{Mode: mode, Local: l, Fork: f, Remote: r})
				}
			}
		}
		// chains long enough that the 32 anchors do not reach genesis (LastAnchor = l-496 > 0)
		for _, l := range longLocals(tier) {
			la := l - 496
			fs := map[int]bool{0: true, 1: true, l: true, l - 1: true, l - 16: true, l - 17: true, l / 2: true}
			for d := -3; d <= 3; d++ {
				if la+d >= 0 {
					fs[la+d] = true
				}
			}
			for f := 0; f <= l; f++ {
				if !fs[f] {
					continue
				}
				for i, r := range []int{f, l, l + 1, l + 5} {
					if r >= f && !(i == 1 && r == f) {
						cs = append(cs, caseA{Mode: mode, Local: l, Fork: f, Remote: r})
					}
				}
			}
		}
	}
	return cs
}

func reportA(ctx *xplor.Ctx, c caseA, r resA) {
	ctx.Eval(1)
	ctx.Trace(1)
	ctx.Count("A_cases", 1)
	ctx.Count("outcome A "+r.class, 1)
	if c.Fork < c.Local || c.Fault != "" {
		ctx.Distinct(xplor.Hash("A", c.Mode, c.Local, c.Fork, c.Remote, c.Fault))
	}
	if r.sig == "harness" {
		panic("C17 harness: " + r.why + " in " + c.String())
	}
	if r.sig != "" {
		report(ctx, r.sig, "finder "+c.String()+": "+r.why, replayT{Part: "A", A: &c})
	}
}

func partA(ctx *xplor.Ctx, idx *int) {
	sampled := false
	for _, c := range casesA(ctx.Tier) {
		i := *idx
		*idx++
		if !ctx.Mine(i) {
			continue
		}
		if ctx.Expired() {
			return
		}
		beat()
		h := runA(c)
		reportA(ctx, c, h)
		if !sampled && c.Fork < c.Local && c.Remote > c.Local {
			sampled = true
			ctx.Sample(map[string]interface{}{"part": "A", "case": c.String(), "outcome": h.class})
		}
		faults := []string{"anchors-err", "anc-nil", "anc-none", "anc-quit"}
		if c.Mode == 1 {
			faults = faults[:0] // no anchors are requested in full-scan-only mode
		}
		// a fault at every request of the binary search that this pair performs
		// (mode 0 reaches the binary search only when the honest light scan found none)
		for k := 0; k < h.nHash; k++ {
			for _, kind := range []string{"err", "nil", "none", "quit"} {
				faults = append(faults, fmt.Sprintf("hash%d-%s", k, kind))
			}
		}
		for _, fl := range faults {
			cf := c
			cf.Fault = fl
			reportA(ctx, cf, runA(cf))
		}
	}
}
