// C08: DPoS finality - the irreversible block is monotone, on-chain and never undone.
//
// Explicit-state BFS over a simulated network of REAL nodes (ChainService + real
// dpos.DPoS/Status on in-memory stores). Events:
//
//	tick            the owner of the next slot produces on its node's best tip with
//	                Confirms = blockNo - (number of its last produced block), exactly as the
//	                block factory does, and connects the block to its own node; a Byzantine
//	                owner produces nothing / one block / two blocks (equivocation) on any two
//	                tips it knows, with Confirms in {honest, 1, blockNo}
//	deliver(b, i)   any produced block to any correct node that has not stored it (any delay,
//	                any order, never = loss / partition)
//	restart(i)      node i is stopped and restarted on its stores
//
// A state is identified by the event history that reaches it; successors are computed
// by replaying the history on fresh nodes. States are merged by a digest of every node
// (both stores, orphan pool, bad-block cache, full DPoS status) + slot + produced blocks.
package main

import (
	"crypto/sha256"
	"encoding/json"
	"fmt"
	"os"
	"sort"
	"strconv"
	"strings"
	"time"

	"github.com/aergoio/aergo/v2/types"
	nk "github.com/aergoio/aergo/v2/verif_h/nodekit"
	"github.com/aergoio/aergo/v2/verif_h/xplor"
)

// ------------------------------------------------------------------ configuration

type cfg struct {
	N        int  `json:"n"`         // producers
	Byz      int  `json:"byz"`       // index of the Byzantine producer (-1 none)
	T        int  `json:"t"`         // slots
	Restarts int  `json:"restarts"`  // restart budget
	Lossy    bool `json:"lossy"`     // unused marker
}

// Event: "T" tick (honest), "B<k>" Byzantine tick with choice k, "D<b>.<i>" deliver, "R<i>" restart
type event string

type blockRec struct {
	blk      *types.Block
	producer int
	slot     int
	parent   int // index into blocks (-1 = genesis)
	height   uint64
}

type world struct {
	c      cfg
	net    nk.Net
	nodes  []*nk.Node // nodes[i] for correct i; nil for the Byzantine one
	omni   *nk.Node   // receives every block at once: used to build Byzantine blocks and as the block tree oracle
	blocks []*blockRec
	byID   map[string]int
	slot   int
	lpb    []uint64 // last produced block number per producer
	rest   int
	names  []string
}

var wseq int

func newWorld(c cfg) *world {
	net := nk.DefaultNet()
	net.NBP = c.N
	w := &world{c: c, net: net, byID: map[string]int{}, lpb: make([]uint64, c.N)}
	wseq++
	for i := 0; i < c.N; i++ {
		name := fmt.Sprintf("w%d-n%d", wseq, i)
		w.names = append(w.names, name)
		if i == c.Byz {
			w.nodes = append(w.nodes, nil)
			continue
		}
		n, err := nk.NewNode(net, name)
		if err != nil {
			panic(err)
		}
		w.nodes = append(w.nodes, n)
	}
	o, err := nk.NewNode(net, fmt.Sprintf("w%d-omni", wseq))
	if err != nil {
		panic(err)
	}
	w.omni = o
	return w
}

func (w *world) close() {
	for _, n := range w.nodes {
		if n != nil {
			n.Stop()
			n.Drop()
		}
	}
	w.omni.Stop()
	w.omni.Drop()
}

func (w *world) slotTs() int64 {
	return nk.SlotTs(w.net.SlotBase()+int64(w.slot), 0)
}

func (w *world) addBlock(b *types.Block, producer int) int {
	rec := &blockRec{blk: b, producer: producer, slot: w.slot, parent: -1, height: b.BlockNo()}
	if pi, ok := w.byID[b.PrevID()]; ok {
		rec.parent = pi
	}
	w.blocks = append(w.blocks, rec)
	w.byID[b.ID()] = len(w.blocks) - 1
	_ = w.omni.Deliver(b)
	return len(w.blocks) - 1
}

// enabled lists the events enabled in the current world (canonical order).
func (w *world) enabled(lastDeliverNode int) []event {
	var ev []event
	// deliveries: any produced block to any correct node that has not stored it
	for i, n := range w.nodes {
		if n == nil || i < lastDeliverNode {
			continue
		}
		for bi, b := range w.blocks {
			if b.producer == i && i != w.c.Byz {
				continue
			}
			if _, err := n.CS.VerifGetBlock(b.blk.BlockHash()); err == nil {
				continue
			}
			ev = append(ev, event(fmt.Sprintf("D%d.%d", bi, i)))
		}
	}
	if w.slot < w.c.T {
		owner := (w.slot + 1) % w.c.N
		if owner == w.c.Byz {
			// choices: nothing; one block on tip a with confirms mode m; two blocks on tips a<b
			ev = append(ev, "B-")
			tips := w.tips()
			for a := range tips {
				for m := 0; m < 3; m++ {
					ev = append(ev, event(fmt.Sprintf("B%d:%d", a, m)))
				}
				for b := a + 1; b < len(tips); b++ {
					ev = append(ev, event(fmt.Sprintf("B%d:0+%d:0", a, b)))
				}
			}
		} else {
			ev = append(ev, "T")
		}
	}
	if w.rest < w.c.Restarts {
		for i, n := range w.nodes {
			if n != nil {
				ev = append(ev, event(fmt.Sprintf("R%d", i)))
			}
		}
	}
	return ev
}

// tips: the blocks the Byzantine producer may build on: genesis (-1) and every produced block, highest first, at most 3
func (w *world) tips() []int {
	idx := []int{}
	for i := range w.blocks {
		idx = append(idx, i)
	}
	sort.SliceStable(idx, func(a, b int) bool { return w.blocks[idx[a]].height > w.blocks[idx[b]].height })
	if len(idx) > 3 {
		idx = idx[:3]
	}
	if len(idx) == 0 {
		idx = []int{-1}
	}
	return idx
}

func (w *world) parentBlock(i int) *types.Block {
	if i < 0 {
		return w.omni.Genesis()
	}
	return w.blocks[i].blk
}

// apply executes one event. It returns a description of what the oracle must look at.
func (w *world) apply(e event) {
	s := string(e)
	switch s[0] {
	case 'T':
		w.slot++
		p := w.slot % w.c.N
		n := w.nodes[p]
		best := n.Best()
		no := best.BlockNo() + 1
		b, err := n.ProduceAt(best, nil, p, w.slotTs(), no-w.lpb[p])
		if err != nil {
			panic(fmt.Sprintf("produce: %v", err))
		}
		if err := n.ConnectProduced(b); err == nil {
			w.lpb[p] = no
		}
		w.addBlock(b.Block, p)
	case 'B':
		w.slot++
		p := w.c.Byz
		if s == "B-" {
			return
		}
		tips := w.tips()
		for k, part := range strings.Split(s[1:], "+") {
			var a, m int
			fmt.Sscanf(part, "%d:%d", &a, &m)
			parent := w.parentBlock(tips[a])
			no := parent.BlockNo() + 1
			conf := no - w.lpb[p]
			switch m {
			case 1:
				conf = 1
			case 2:
				conf = no
			}
			// the second block of an equivocation gets another timestamp inside the same slot
			ts := w.slotTs() + int64(k)*int64(time.Millisecond)
			b, err := w.omni.ProduceAt(parent, nil, p, ts, conf)
			if err != nil {
				panic(fmt.Sprintf("byz produce: %v", err))
			}
			if no > w.lpb[p] {
				w.lpb[p] = no
			}
			w.addBlock(b.Block, p)
		}
	case 'D':
		var bi, i int
		fmt.Sscanf(s, "D%d.%d", &bi, &i)
		_ = w.nodes[i].Deliver(w.blocks[bi].blk)
	case 'R':
		var i int
		fmt.Sscanf(s, "R%d", &i)
		n, err := w.nodes[i].Restart(nil)
		if err != nil {
			panic(fmt.Sprintf("restart: %v", err))
		}
		w.nodes[i] = n
		w.rest++
	}
}

// ------------------------------------------------------------------ observation / oracle

type nodeObs struct {
	libNo   uint64
	libHash string
	main    []string // main chain ids by height
	digest  string
}

func observe(n *nk.Node) nodeObs {
	var o nodeObs
	o.libHash, o.libNo = n.DPoS.VerifLIB()
	best := n.Best()
	for h := uint64(0); h <= best.BlockNo(); h++ {
		b, err := n.CS.VerifGetBlockByNo(h)
		if err != nil {
			o.main = append(o.main, "?")
		} else {
			o.main = append(o.main, b.ID())
		}
	}
	return o
}

func (w *world) key(lastDeliverNode int) string {
	h := sha256.New()
	fmt.Fprintf(h, "slot=%d rest=%d lpb=%v ldn=%d|", w.slot, w.rest, w.lpb, lastDeliverNode)
	for _, b := range w.blocks {
		fmt.Fprintf(h, "%s,", b.blk.ID())
	}
	for _, n := range w.nodes {
		if n == nil {
			continue
		}
		fmt.Fprintf(h, "|%s|%v|%s", n.StoreDigest(), n.CS.VerifErrBlocks(), n.DPoS.VerifStatusDigest())
	}
	return fmt.Sprintf("%x", h.Sum(nil)[:16])
}

// isAncestor: a is an ancestor of (or equal to) b in the global block tree (ids).
func (w *world) isAncestor(a, b string) bool {
	g := w.omni.Genesis().ID()
	if a == g {
		return true
	}
	cur, ok := w.byID[b]
	for ok && cur >= 0 {
		if w.blocks[cur].blk.ID() == a {
			return true
		}
		cur = w.blocks[cur].parent
	}
	return false
}

// check evaluates the invariants after event e (pre/post observations of every correct node).
func (w *world) check(e event, pre, post []nodeObs) string {
	need := w.c.N*2/3 + 1
	for i, n := range w.nodes {
		if n == nil {
			continue
		}
		a, b := pre[i], post[i]
		// monotone
		if b.libNo < a.libNo {
			if e[0] == 'R' {
				return fmt.Sprintf("node %d: after a restart the irreversible block is at height %d, before it was at %d", i, b.libNo, a.libNo)
			}
			return fmt.Sprintf("node %d: irreversible block height decreased %d -> %d", i, a.libNo, b.libNo)
		}
		if e[0] == 'R' && (b.libNo != a.libNo || (a.libNo > 0 && b.libHash != a.libHash)) {
			return fmt.Sprintf("node %d: finality status restored after the restart (LIB %d/%s) differs from the one before (%d/%s)", i, b.libNo, short(b.libHash), a.libNo, short(a.libHash))
		}
		// LIB lies on the main chain
		if b.libNo > 0 {
			if int(b.libNo) >= len(b.main) || b.main[b.libNo] != b.libHash {
				return fmt.Sprintf("node %d: irreversible block %d/%s is not on the node's main chain", i, b.libNo, short(b.libHash))
			}
		}
		// nothing at or below a reported LIB is ever replaced
		for h := uint64(0); h <= a.libNo && int(h) < len(a.main); h++ {
			if int(h) >= len(b.main) || b.main[h] != a.main[h] {
				return fmt.Sprintf("node %d: main-chain block at height %d (<= irreversible height %d) was replaced", i, h, a.libNo)
			}
		}
		// an irreversible block is confirmed by blocks of more than 2/3 of the distinct producers
		if b.libNo > 0 {
			prods := map[int]bool{}
			for h := b.libNo; int(h) < len(b.main); h++ {
				if bi, ok := w.byID[b.main[h]]; ok {
					prods[w.blocks[bi].producer] = true
				}
			}
			if len(prods) < need {
				return fmt.Sprintf("node %d: irreversible block %d is followed on the main chain by blocks of only %d distinct producers, %d are required", i, b.libNo, len(prods), need)
			}
		}
	}
	// two correct nodes never hold irreversible blocks on conflicting branches
	for i := range w.nodes {
		for j := i + 1; j < len(w.nodes); j++ {
			if w.nodes[i] == nil || w.nodes[j] == nil || post[i].libNo == 0 || post[j].libNo == 0 {
				continue
			}
			x, y := post[i].libHash, post[j].libHash
			if !w.isAncestor(x, y) && !w.isAncestor(y, x) {
				return fmt.Sprintf("nodes %d and %d hold irreversible blocks on conflicting branches: %d/%s vs %d/%s", i, j, post[i].libNo, short(x), post[j].libNo, short(y))
			}
		}
	}
	return ""
}

func short(s string) string {
	if len(s) > 8 {
		return s[:8]
	}
	return s
}

// ------------------------------------------------------------------ exploration

type replay struct {
	Cfg  cfg      `json:"cfg"`
	Hist []string `json:"history"`
	Ev   string   `json:"event"`
}

func lastDeliverNodeOf(hist []string) int {
	// deliveries after the last non-delivery event must go to non-decreasing node indices
	last := 0
	for _, e := range hist {
		if e[0] == 'D' {
			var bi, i int
			fmt.Sscanf(e, "D%d.%d", &bi, &i)
			last = i
		} else {
			last = 0
		}
	}
	return last
}

// runHistory replays hist and then ev; returns (violation, key of the successor, enabled events there, max LIB)
func runHistory(c cfg, hist []string, ev string) (msg, key string, en []event, maxLib uint64, forked bool) {
	w := newWorld(c)
	defer w.close()
	for _, e := range hist {
		w.apply(event(e))
	}
	var pre []nodeObs
	for _, n := range w.nodes {
		if n == nil {
			pre = append(pre, nodeObs{})
		} else {
			pre = append(pre, observe(n))
		}
	}
	if ev != "" {
		w.apply(event(ev))
	}
	var post []nodeObs
	for _, n := range w.nodes {
		if n == nil {
			post = append(post, nodeObs{})
		} else {
			o := observe(n)
			post = append(post, o)
			if o.libNo > maxLib {
				maxLib = o.libNo
			}
		}
	}
	if ev != "" {
		msg = w.check(event(ev), pre, post)
	}
	full := append([]string{}, hist...)
	if ev != "" {
		full = append(full, ev)
	}
	ldn := lastDeliverNodeOf(full)
	seenH := map[uint64]bool{}
	for _, b := range w.blocks {
		if seenH[b.height] {
			forked = true
		}
		seenH[b.height] = true
	}
	return msg, w.key(ldn), w.enabled(ldn), maxLib, forked
}

func configs(tier string) []cfg {
	// the Byzantine producer has index 1 so that it owns two slots (1 and 5) inside the horizon
	if tier == "thorough" {
		return []cfg{{N: 3, Byz: -1, T: 6, Restarts: 1}, {N: 4, Byz: 1, T: 5, Restarts: 0}, {N: 4, Byz: -1, T: 6, Restarts: 0}}
	}
	return []cfg{{N: 3, Byz: -1, T: 4, Restarts: 1}, {N: 4, Byz: 1, T: 3, Restarts: 0}}
}

func explore(ctx *xplor.Ctx, c cfg, shard, nshards int, seedDepth int) {
	type item struct{ hist []string }
	_, k0, en0, _, _ := runHistory(c, nil, "")
	seen := map[string]bool{k0: true}
	queue := []item{{nil}}
	_ = en0
	depth := 0
	limit, _ := strconv.Atoi(os.Getenv("VERIF_LIMIT"))
	nproc := 0
	for len(queue) > 0 {
		if ctx.Expired() {
			ctx.Note(fmt.Sprintf("deadline hit in %+v with %d states queued at depth %d", c, len(queue), depth))
			return
		}
		it := queue[0]
		queue = queue[1:]
		if len(it.hist) > depth {
			depth = len(it.hist)
		}
		// the frontier at seedDepth is partitioned over the workers
		if len(it.hist) == seedDepth {
			h := xplor.Hash(strings.Join(it.hist, " "))
			if int(h%uint64(nshards)) != shard {
				continue
			}
		}
		_, _, en, _, _ := runHistory(c, it.hist, "")
		if len(it.hist) == 0 {
			en = en0
		}
		for _, e := range en {
			if limit > 0 && nproc >= limit {
				ctx.Incomplete("VERIF_LIMIT")
				return
			}
			nproc++
			msg, key, _, maxLib, forked := runHistory(c, it.hist, string(e))
			counted := len(it.hist) >= seedDepth || shard == 0
			if counted {
				ctx.Trans(1)
				ctx.Trace(1)
				ctx.Eval(1)
				ctx.Max("max_lib_height_reached", int64(maxLib))
				if maxLib > 0 {
					ctx.Count("transitions_with_lib_above_genesis", 1)
				}
				if forked && maxLib > 0 {
					ctx.Count("transitions_with_fork_and_lib", 1)
				}
			}
			if msg != "" {
				ctx.Violation("", fmt.Sprintf("%+v after %v event %s: %s", c, it.hist, e, msg), replay{c, it.hist, string(e)})
				continue
			}
			if !seen[key] {
				seen[key] = true
				if counted {
					ctx.State(1)
					ctx.Distinct(xplor.Hash(fmt.Sprint(c), key))
				}
				queue = append(queue, item{append(append([]string{}, it.hist...), string(e))})
			}
		}
	}
	ctx.Max("max_bfs_depth", int64(depth))
}

func run(ctx *xplor.Ctx) {
	defer nk.Cleanup()
	if ctx.Replay != nil {
		var r replay
		if err := json.Unmarshal(ctx.Replay, &r); err != nil {
			panic(err)
		}
		msg, _, _, _, _ := runHistory(r.Cfg, r.Hist, r.Ev)
		if msg != "" {
			ctx.Violation("", fmt.Sprintf("%+v after %v event %s: %s", r.Cfg, r.Hist, r.Ev, msg), r)
		}
		return
	}
	cs := configs(ctx.Tier)
	// one Net (number of producers) per process: the shard picks its configuration
	ci := ctx.Shard % len(cs)
	explore(ctx, cs[ci], ctx.Shard/len(cs), ctx.NShards/len(cs), 3)
	if ctx.Shard == 0 {
		ctx.Sample(map[string]interface{}{"config": cs[0], "history": []string{"T", "D0.2", "T", "D1.0", "T", "D2.0", "D2.1", "T"},
			"legend": "T = slot owner produces on its best tip and connects it; Db.i = deliver produced block b to node i; Ri = restart node i; Bx:m = Byzantine producer builds on tip x with confirms mode m"})
	}
}

func main() {
	xplor.Main(xplor.Check{
		ID:    "C08",
		Level: "model_checking",
		Rule:  "explicit-state BFS over event histories of a simulated network of real nodes (ChainService + real dpos.Status per node on in-memory stores); events: tick (the slot owner produces on its own best tip with Confirms = blockNo - its last produced block number and connects the block; a Byzantine owner produces nothing, one block on any of the 3 highest known tips with Confirms in {honest,1,blockNo}, or two blocks in the same slot), deliver(block, node) for every block the node has not stored (arbitrary delay, reordering, loss), restart(node); deliveries to different nodes between two other events are explored in one canonical order (they commute); states merged by a digest of all nodes (stores, orphan pool, bad-block cache, complete DPoS status), slot and produced blocks. distinct_nontrivial = distinct states",
		Assumptions: []string{
			"block bodies are empty; producers below the bootstrap height are the genesis producers (no re-election in the explored horizon)",
			"a correct producer builds only on its own node's best tip and connects its block at once (as BlockFactory does); timestamps are fixed past slot times, so the future-timestamp rule never fires",
			"restart = a new ChainService + Status on the same stores (no crash in the middle of a write; that is C06)",
		},
		Shards: func(tier string) int {
			if tier == "thorough" {
				return 48
			}
			return 32
		},
		Budget: func(tier string) time.Duration {
			if tier == "thorough" {
				return 28 * time.Minute
			}
			return 7 * time.Minute
		},
		Run: run,
	})
}
