// C08: DPoS finality - the irreversible block is monotone, on-chain and never undone.
//
// Explicit-state BFS over a simulated network of REAL nodes (ChainService + real
// dpos.DPoS/Status on in-memory stores). Events:
//
//	tick            the owner of the next slot produces on its node's best tip with
//	                Confirms = blockNo - (number of its last produced block), exactly as the
//	                block factory does, and connects the block to its own node; a Byzantine
//	                owner produces nothing / one block / two blocks (equivocation) on any two
//	                tips it knows, with Confirms in {honest, 1, blockNo}
//	deliver(b, i)   any produced block to any correct node that has not stored it (any delay,
//	                any order, never = loss / partition)
//	restart(i)      node i is stopped and restarted on its stores
//
// A state is identified by the event history that reaches it; successors are computed
// by replaying the history on fresh nodes. States are merged by a digest of every node
// (both stores, orphan pool, bad-block cache, full DPoS status) + slot + produced blocks.
package main

import (
	"crypto/sha256"
	"encoding/json"
	"fmt"
	"os"
	"sort"
	"strconv"
	"strings"
	"time"

	"github.com/aergoio/aergo/v2/types"
	nk "github.com/aergoio/aergo/v2/verif_h/nodekit"
	"github.com/aergoio/aergo/v2/verif_h/xplor"
)

// ------------------------------------------------------------------ configuration

type cfg struct {
	N        int  `json:"n"`         // producers
	Byz      int  `json:"byz"`       // index of the Byzantine producer (-1 none)
	T        int  `json:"t"`         // slots
	Restarts int  `json:"restarts"`  // restart budget
	Lossy    bool `json:"lossy"`     // unused marker
}

// Event: "T" tick (honest), "B<k>" Byzantine tick with choice k, "D<b>.<i>" deliver, "R<i>" restart
type event string

type blockRec struct {
	blk      *types.Block
	producer int
	slot     int
	parent   int // index into blocks (-1 = genesis)
	height   uint64
}

type world struct {
	c      cfg
	net    nk.Net
	nodes  []*nk.Node // nodes[i] for correct i; nil for the Byzantine one
	omni   *nk.Node   // receives every block at once: used to build Byzantine blocks and as the block tree oracle
	blocks []*blockRec
	byID   map[string]int
	slot   int
	lpb    []uint64 // last produced block number per producer
	rest   int
	names  []string
}

var wseq int

func newWorld(c cfg) *world {
	net := nk.DefaultNet()
	net.NBP = c.N
	w := &world{c: c, net: net, byID: map[string]int{}, lpb: make([]uint64, c.N)}
	wseq++
	for i := 0; i < c.N; i++ {
		name := fmt.Sprintf("w%d-n%d", wseq, i)
		w.names = append(w.names, name)
		if i == c.Byz {
			w.nodes = append(w.nodes, nil)
			continue
		}
		n, err := nk.NewNode(net, name)
		if err != nil {
			panic(err)
		}
		w.nodes = append(w.nodes, n)
	}
	o, err := nk.NewNode(net, fmt.Sprintf("w%d-omni", wseq))
	if err != nil {
		panic(err)
	}
	w.omni = o
	return w
}

func (w *world) close() {
	for _, n := range w.nodes {
		if n != nil {
			n.Stop()
			n.Drop()
		}
	}
	w.omni.Stop()
	w.omni.Drop()
}

func (w *world) slotTs() int64 {
	return nk.SlotTs(w.net.SlotBase()+int64(w.slot), 0)
}

func (w *world) addBlock(b *types.Block, producer int) int {
	rec := &blockRec{blk: b, producer: producer, slot: w.slot, parent: -1, height: b.BlockNo()}
	if pi, ok := w.byID[b.PrevID()]; ok {
		rec.parent = pi
	}
	w.blocks = append(w.blocks, rec)
	w.byID[b.ID()] = len(w.blocks) - 1
	_ = w.omni.Deliver(b)
	return len(w.blocks) - 1
}

// enabled lists the events enabled in the current world (canonical order).
func (w *world) enabled(lastDeliverNode int) []event {
	var ev []event
	// deliveries: any produced block to any correct node that has not stored it
	for i, n := range w.nodes {
		if n == nil || i < lastDeliverNode {
			continue
		}
		for bi, b := range w.blocks {
			if b.producer == i && i != w.c.Byz {
				continue
			}
			if _, err := n.CS.VerifGetBlock(b.blk.BlockHash()); err == nil {
				continue
			}
			ev = append(ev, event(fmt.Sprintf("D%d.%d", bi, i)))
		}
	}
	if w.slot < w.c.T {
		owner := (w.slot + 1) % w.c.N
		if owner == w.c.Byz {
			// choices: nothing; one block on tip a with confirms mode m; two blocks on tips a<b
			ev = append(ev, "B-")
			tips := w.tips()
			for a := range tips {
				for m := 0; m < 3; m++ {
					ev = append(ev, event(fmt.Sprintf("B%d:%d", a, m)))
				}
				for b := a + 1; b < len(tips); b++ {
					ev = append(ev, event(fmt.Sprintf("B%d:0+%d:0", a, b)))
				}
			}
		} else {
			ev = append(ev, "T")
		}
	}
	if w.rest < w.c.Restarts {
		for i, n := range w.nodes {
			if n != nil {
				ev = append(ev, event(fmt.Sprintf("R%d", i)))
			}
		}
	}
	return ev
}

// tips: the blocks the Byzantine producer may build on: genesis (-1) and every produced block, highest first, at most 3
func (w *world) tips() []int {
	idx := []int{}
	for i := range w.blocks {
		idx = append(idx, i)
	}
	sort.SliceStable(idx, func(a, b int) bool { return w.blocks[idx[a]].height > w.blocks[idx[b]].height })
	if len(idx) > 3 {
		idx = idx[:3]
	}
	if len(idx) == 0 {
		idx = []int{-1}
	}
	return idx
}

func (w *world) parentBlock(i int) *types.Block {
	if i < 0 {
		return w.omni.Genesis()
	}
	return w.blocks[i].blk
}

// apply executes one event. It returns a description of what the oracle must look at.
func (w *world) apply(e event) {
	s := string(e)
	switch s[0] {
	case 'T':
		w.slot++
		p := w.slot % w.c.N
		n := w.nodes[p]
		best := n.Best()
		no := best.BlockNo() + 1
		b, err := n.ProduceAt(best, nil, p, w.slotTs(), no-w.lpb[p])
		if err != nil {
			panic(fmt.Sprintf("produce: %v", err))
		}
		if err := n.ConnectProduced(b); err == nil {
			w.lpb[p] = no
		}
		w.addBlock(b.Block, p)
	case 'B':
		w.slot++
		p := w.c.Byz
		if s == "B-" {
			return
		}
		tips := w.tips()
		for k, part := range strings.Split(s[1:], "+") {
			var a, m int
			fmt.Sscanf(part, "%d:%d", &a, &m)
			parent := w.parentBlock(tips[a])
			no := parent.BlockNo() + 1
			conf := no - w.lpb[p]
			switch m {
			case 1:
				conf = 1
			case 2:
				conf = no
			}
			// the second block of an equivocation gets another timestamp inside the same slot
			ts := w.slotTs() + int64(k)*int64(time.Millisecond)
			b, err := w.omni.ProduceAt(parent, nil, p, ts, conf)
			if err != nil {
				panic(fmt.Sprintf("byz produce: %v", err))
			}
			if no > w.lpb[p] {
				w.lpb[p] = no
			}
			w.addBlock(b.Block, p)
		}
	case 'D':
		var bi, i int
		fmt.Sscanf(s, "D%d.%d", &bi, &i)
		_ = w.nodes[i].Deliver(w.blocks[bi].blk)
	case 'R':
		var i int
		fmt.Sscanf(s, "R%d", &i)
		n, err := w.nodes[i].Restart(nil)
		if err != nil {
			panic(fmt.Sprintf("restart: %v", err))
		}
		w.nodes[i] = n
		w.rest++
	}
}

// ------------------------------------------------------------------ observation / oracle

type nodeObs struct {
	libNo   uint64
	libHash string
	main    []string // main chain ids by height
	digest  string
}

func observe(n *nk.Node) nodeObs {
	var o nodeObs
	o.libHash, o.libNo = n.DPoS.VerifLIB()
	best := n.Best()
	for h := uint64(0); h <= best.BlockNo(); h++ {
		b, err := n.CS.VerifGetBlockByNo(h)
		if err != nil {
			o.main = append(o.main, "?")
		} else {
			o.main = append(o.main, b.ID())
		}
	}
	return o
}

func (w *world) key(lastDeliverNode int) string {
	h := sha256.New()
	fmt.Fprintf(h, "slot=%d rest=%d lpb=%v ldn=%d|", w.slot, w.rest, w.lpb, lastDeliverNode)
	for _, b := range w.blocks {
		fmt.Fprintf(h, "%s,", b.blk.ID())
	}
	for _, n := range w.nodes {
		if n == nil {
			continue
		}
		fmt.Fprintf(h, "|%s|%v|%s", n.StoreDigest(), n.CS.VerifErrBlocks(), n.DPoS.VerifStatusDigest())
	}
	return fmt.Sprintf("%x", h.Sum(nil)[:16])
}

// isAncestor: a is an ancestor of (or equal to) b in the global block tree (ids).
func (w *world) isAncestor(a, b string) bool {
	g := w.omni.Genesis().ID()
	if a == g {
		return true
	}
	cur, ok := w.byID[b]
	for ok && cur >= 0 {
		if w.blocks[cur].blk.ID() == a {
			return true
		}
		cur = w.blocks[cur].parent
	}
	return false
}

// check evaluates the invariants after event e (pre/post observations of every correct node).
func (w *world) check(e event, pre, post []nodeObs) string {
	need := w.c.N*2/3 + 1
	for i, n := range w.nodes {
		if n == nil {
			continue
		}
		a, b := pre[i], post[i]
		// monotone
		if b.libNo < a.libNo {
			if e[0] == 'R' {
				return fmt.Sprintf("node %d: after a restart the irreversible block is at height %d, before it was at %d", i, b.libNo, a.libNo)
			}
			return fmt.Sprintf("node %d: irreversible block height decreased %d -> %d", i, a.libNo, b.libNo)
		}
		if e[0] == 'R' && (b.libNo != a.libNo || (a.libNo > 0 && b.libHash != a.libHash)) {
			return fmt.Sprintf("node %d: finality status restored after the restart (LIB %d/%s) differs from the one before (%d/%s)", i, b.libNo, short(b.libHash), a.libNo, short(a.libHash))
		}
		// LIB lies on the main chain
		if b.libNo > 0 {
			if int(b.libNo) >= len(b.main) || b.main[b.libNo] != b.libHash {
				return fmt.Sprintf("node %d: irreversible block %d/%s is not on the node's main chain", i, b.libNo, short(b.libHash))
			}
		}
		// nothing at or below a reported LIB is ever replaced
		for h := uint64(0); h <= a.libNo && int(h) < len(a.main); h++ {
			if int(h) >= len(b.main) || b.main[h] != a.main[h] {
				return fmt.Sprintf("node %d: main-chain block at height %d (<= irreversible height %d) was replaced", i, h, a.libNo)
			}
		}
		// an irreversible block is confirmed by blocks of more than 2/3 of the distinct producers
		if b.libNo > 0 {
			prods := map[int]bool{}
			for h := b.libNo; int(h) < len(b.main); h++ {
				if bi, ok := w.byID[b.main[h]]; ok {
					prods[w.blocks[bi].producer] = true
				}
			}
			if len(prods) < need {
				return fmt.Sprintf("node %d: irreversible block %d is followed on the main chain by blocks of only %d distinct producers, %d are required", i, b.libNo, len(prods), need)
			}
		}
	}
	// two correct nodes never hold irreversible blocks on conflicting branches
	for i := range w.nodes {
		for j := i + 1; j < len(w.nodes); j++ {
			if w.nodes[i] == nil || w.nodes[j] == nil || post[i].libNo == 0 || post[j].libNo == 0 {
				continue
			}
			x, y := post[i].libHash, post[j].libHash
			if !w.isAncestor(x, y) && !w.isAncestor(y, x) {
				return fmt.Sprintf("nodes %d and %d hold irreversible blocks on conflicting branches: %d/%s vs %d/%s", i, j, post[i].libNo, short(x), post[j].libNo, short(y))
			}
		}
	}
	return ""
}

func short(s string) string {
	if len(s) > 8 {
		return s[:8]
	}
	return s
}

// ------------------------------------------------------------------ exploration
//
// Deviation-bounded enumeration. The default environment is the synchronous network:
// at every slot the owner produces on its best tip and the block is delivered at once
// to every other correct node. A deviation is one of
//
//	delay(s, v, i, r)  the v-th block produced at slot s is withheld from node i until the
//	                   end of slot r (r in s+1..T) or for ever (r = 0): delay, reordering
//	                   (it arrives after later blocks: orphans, forks), loss, partition
//	byz(s, choice)     the Byzantine owner of slot s does not behave honestly: produces
//	                   nothing, builds on another of the 3 highest known tips, lies about
//	                   Confirms, or equivocates (two blocks in the slot)
//	restart(i, s)      node i is restarted on its stores after slot s
//
// Every run with at most k deviations is executed to the end of the horizon, and the
// invariants are evaluated after every single event (production, delivery, restart).

type dev struct {
	Kind string `json:"k"` // delay | byz | restart
	S    int    `json:"s"`
	V    int    `json:"v,omitempty"`
	I    int    `json:"i,omitempty"`
	R    int    `json:"r,omitempty"`
	Ch   string `json:"ch,omitempty"`
}

type replay struct {
	Cfg  cfg   `json:"cfg"`
	Devs []dev `json:"deviations"`
}

// universe lists the deviations of a configuration (static: blocks are named by slot and variant).
func universe(c cfg) []dev {
	var u []dev
	for s := 1; s <= c.T; s++ {
		owner := s % c.N
		vmax := 0
		if owner == c.Byz {
			vmax = 1
			u = append(u, dev{Kind: "byz", S: s, Ch: "-"})
			for a := 0; a < 3; a++ {
				for m := 0; m < 3; m++ {
					if a == 0 && m == 0 {
						continue // the honest behaviour
					}
					u = append(u, dev{Kind: "byz", S: s, Ch: fmt.Sprintf("%d:%d", a, m)})
				}
				for b := a + 1; b < 3; b++ {
					u = append(u, dev{Kind: "byz", S: s, Ch: fmt.Sprintf("%d:0+%d:0", a, b)})
				}
			}
		}
		for v := 0; v <= vmax; v++ {
			for i := 0; i < c.N; i++ {
				if i == c.Byz || (i == owner && owner != c.Byz) {
					continue
				}
				u = append(u, dev{Kind: "delay", S: s, V: v, I: i, R: 0})
				for r := s + 1; r <= c.T; r++ {
					u = append(u, dev{Kind: "delay", S: s, V: v, I: i, R: r})
				}
			}
		}
		if c.Restarts > 0 {
			for i := 0; i < c.N; i++ {
				if i != c.Byz {
					u = append(u, dev{Kind: "restart", S: s, I: i})
				}
			}
		}
	}
	return u
}

func conflict(a, b dev) bool {
	if a.Kind != b.Kind || a.S != b.S {
		return false
	}
	switch a.Kind {
	case "delay":
		return a.V == b.V && a.I == b.I
	case "byz":
		return true
	case "restart":
		return a.I == b.I
	}
	return false
}

type runResult struct {
	msg     string
	events  int
	endKey  string
	maxLib  uint64
	forked  bool
	probes  int
	vacuous bool // a deviation named a block that was never produced
}

// runDevs executes one run.
func runDevs(c cfg, devs []dev) runResult {
	w := newWorld(c)
	defer w.close()
	var res runResult
	obsAll := func() []nodeObs {
		var o []nodeObs
		for _, n := range w.nodes {
			if n == nil {
				o = append(o, nodeObs{})
			} else {
				o = append(o, observe(n))
			}
		}
		return o
	}
	step := func(e event) bool {
		pre := obsAll()
		w.apply(e)
		post := obsAll()
		res.events++
		for _, o := range post {
			if o.libNo > res.maxLib {
				res.maxLib = o.libNo
			}
		}
		if m := w.check(e, pre, post); m != "" {
			res.msg = fmt.Sprintf("at event %s (slot %d): %s", e, w.slot, m)
			return false
		}
		return true
	}
	find := func(kind string, s int) []dev {
		var r []dev
		for _, d := range devs {
			if d.Kind == kind && d.S == s {
				r = append(r, d)
			}
		}
		return r
	}
	// pending[i] = blocks withheld from node i: block index -> release slot (0 = never)
	type pend struct{ bi, r int }
	pending := make([][]pend, c.N)
	used := 0
	var dormant *types.Block
	for s := 1; s <= c.T; s++ {
		before := len(w.blocks)
		owner := s % c.N
		if owner == c.Byz {
			ch := "0:0"
			if b := find("byz", s); len(b) > 0 {
				ch = b[0].Ch
				used++
			}
			// tips beyond the number of known blocks do not exist: the choice is vacuous
			ok := true
			for _, part := range strings.Split(ch, "+") {
				var a, m int
				if ch != "-" {
					fmt.Sscanf(part, "%d:%d", &a, &m)
					if a >= len(w.tips()) {
						ok = false
					}
				}
			}
			if !ok {
				res.vacuous = true
				ch = "0:0"
			}
			if !step(event("B" + ch)) {
				return res
			}
		} else {
			if !step("T") {
				return res
			}
		}
		// deliveries of the blocks of this slot
		for bi := before; bi < len(w.blocks); bi++ {
			v := bi - before
			for i := 0; i < c.N; i++ {
				if i == c.Byz || (i == owner && owner != c.Byz) {
					continue
				}
				rel := s
				for _, d := range find("delay", s) {
					if d.V == v && d.I == i {
						rel = d.R
						used++
					}
				}
				if rel == s {
					if !step(event(fmt.Sprintf("D%d.%d", bi, i))) {
						return res
					}
				} else {
					pending[i] = append(pending[i], pend{bi, rel})
				}
			}
		}
		// releases due at the end of this slot (in production order per node)
		for i := 0; i < c.N; i++ {
			var keep []pend
			for _, pd := range pending[i] {
				if pd.r == s {
					if !step(event(fmt.Sprintf("D%d.%d", pd.bi, i))) {
						return res
					}
				} else {
					keep = append(keep, pd)
				}
			}
			pending[i] = keep
		}
		for _, d := range find("restart", s) {
			used++
			if !step(event(fmt.Sprintf("R%d", d.I))) {
				return res
			}
		}
		if s == 1 {
			// a dormant side block: a sibling of the first block (child of genesis, signed by the
			// owner of slot T+1) is stored by every node while nothing is irreversible yet. It never
			// becomes the best block (equal height); the veto probe at the end of the run extends it.
			slot := c.T + 1
			x, err := w.omni.ProduceAt(w.omni.Genesis(), nil, slot%c.N, nk.SlotTs(w.net.SlotBase()+int64(slot), 0), 1)
			if err != nil {
				panic(fmt.Sprintf("dormant block: %v", err))
			}
			dormant = x.Block
			for _, n := range w.nodes {
				if n != nil && n.Best().BlockNo() >= 1 {
					_ = n.Deliver(dormant)
				}
			}
		}
	}
	if used < len(devs) {
		res.vacuous = true // e.g. a delay of the second block of a slot without equivocation
	}
	// veto probe: at the end of the run every correct node that reports a LIB >= 1 is offered a
	// competing branch that forks BELOW its LIB and is longer than its main chain, every block
	// signed by the owner of its (later) slot. Such a branch cannot arise while fewer than a third
	// of the producers misbehave, but the refusal rule is unconditional: blocks numbered at or
	// below the LIB and reorganisations forking below it are refused.
	for i, n := range w.nodes {
		if n == nil {
			continue
		}
		pre := observe(n)
		if pre.libNo < 1 {
			continue
		}
		parent := w.omni.Genesis()
		if pre.libNo >= 2 {
			bi, ok := w.byID[pre.main[pre.libNo-1]]
			if !ok {
				continue
			}
			parent = w.blocks[bi].blk
		}
		need := len(pre.main) - int(pre.libNo) + 1 // one block more than the main chain has above the fork point
		slot := c.T + 40 // slots of the probe branch do not collide with the dormant block's
		cur := parent
		var branch []*types.Block
		for k := 0; k < need; k++ {
			slot++
			p := slot % c.N
			b, err := w.omni.ProduceAt(cur, nil, p, nk.SlotTs(w.net.SlotBase()+int64(slot), 0), 1)
			if err != nil {
				panic(fmt.Sprintf("probe produce: %v", err))
			}
			branch = append(branch, b.Block)
			cur = b.Block
		}
		for k, b := range branch {
			err := n.Deliver(b)
			res.events++
			if k == 0 && err == nil {
				if _, e := n.CS.VerifGetBlock(b.BlockHash()); e == nil {
					res.msg = fmt.Sprintf("veto probe: node %d accepted and stored a block numbered %d although its irreversible block is at height %d", i, b.BlockNo(), pre.libNo)
					return res
				}
			}
		}
		post := observe(n)
		res.probes++
		for h := 0; h < len(pre.main); h++ {
			if h >= len(post.main) || post.main[h] != pre.main[h] {
				res.msg = fmt.Sprintf("veto probe: node %d (irreversible height %d) replaced its main-chain block at height %d after being offered a longer branch forking below the irreversible block", i, pre.libNo, h)
				return res
			}
		}
		if post.libNo < pre.libNo {
			res.msg = fmt.Sprintf("veto probe: node %d: irreversible height decreased %d -> %d", i, pre.libNo, post.libNo)
			return res
		}
		// second probe: the dormant side block (stored before anything was irreversible, forking at
		// genesis, i.e. below the LIB by now) grows longer than the main chain: every new block is
		// numbered above the LIB, so only the reorganisation veto stands between it and the main chain
		if dormant != nil {
			if _, e := n.CS.VerifGetBlock(dormant.BlockHash()); e == nil {
				cur := dormant
				slot := c.T + 1
				for k := 1; k < len(pre.main); k++ {
					slot++
					b, err := w.omni.ProduceAt(cur, nil, slot%c.N, nk.SlotTs(w.net.SlotBase()+int64(slot), 0), 1)
					if err != nil {
						panic(fmt.Sprintf("probe produce: %v", err))
					}
					_ = n.Deliver(b.Block)
					res.events++
					cur = b.Block
				}
				post2 := observe(n)
				res.probes++
				for h := 0; h < len(pre.main); h++ {
					if h >= len(post2.main) || post2.main[h] != pre.main[h] {
						res.msg = fmt.Sprintf("veto probe: node %d (irreversible height %d) replaced its main-chain block at height %d when a side branch forking at genesis grew longer than the main chain", i, pre.libNo, h)
						return res
					}
				}
			}
		}
	}
	seenH := map[uint64]bool{}
	for _, b := range w.blocks {
		if seenH[b.height] {
			res.forked = true
		}
		seenH[b.height] = true
	}
	res.endKey = w.key(0)
	return res
}

// plan: one entry per configuration with its deviation bound and the number of worker processes it
// gets (a process hosts one network size; the shares follow the number of runs each entry needs)
type plan struct {
	c      cfg
	k      int
	shards int
}

func configs(tier string) []plan {
	// the Byzantine producer has index 1 so that it owns two slots inside the horizon
	if tier == "thorough" {
		return []plan{
			{cfg{N: 3, Byz: -1, T: 6, Restarts: 1}, 3, 30},
			{cfg{N: 4, Byz: 1, T: 6, Restarts: 1}, 2, 7},
			{cfg{N: 4, Byz: -1, T: 7, Restarts: 1}, 2, 6},
			{cfg{N: 3, Byz: -1, T: 8, Restarts: 1}, 2, 5},
		}
	}
	// n=3 runs to slot 8: the first reorganisation that rebuilds the finality status below an
	// irreversible block needs a fork at slot 6 or later (F28 was found at T=8, not at T=6)
	return []plan{{cfg{N: 3, Byz: -1, T: 8, Restarts: 1}, 2, 20}, {cfg{N: 4, Byz: 1, T: 6, Restarts: 0}, 2, 12}}
}

func explore(ctx *xplor.Ctx, c cfg, k, shard, nshards int) {
	u := universe(c)
	limit, _ := strconv.Atoi(os.Getenv("VERIF_LIMIT"))
	idx := 0
	done := 0
	var rec func(start int, cur []dev)
	stop := false
	rec = func(start int, cur []dev) {
		if stop {
			return
		}
		mine := idx%nshards == shard
		idx++
		if mine {
			if ctx.Expired() {
				ctx.Note(fmt.Sprintf("deadline hit in %+v", c))
				stop = true
				return
			}
			if limit > 0 && done >= limit {
				ctx.Incomplete("VERIF_LIMIT")
				stop = true
				return
			}
			done++
			r := runDevs(c, cur)
			ctx.Eval(1)
			ctx.Trace(1)
			ctx.Trans(int64(r.events))
			ctx.Max("max_lib_height_reached", int64(r.maxLib))
			if r.maxLib > 0 {
				ctx.Count("runs_with_lib_above_genesis", 1)
			}
			if r.forked {
				ctx.Count("runs_with_a_fork", 1)
				if r.maxLib > 0 {
					ctx.Count("runs_with_fork_and_lib", 1)
				}
			}
			if r.vacuous {
				ctx.Count("runs_with_a_vacuous_deviation", 1)
			}
			ctx.Count("veto_probes", int64(r.probes))
			ctx.Count(fmt.Sprintf("runs_with_%d_deviations", len(cur)), 1)
			ctx.Count(fmt.Sprintf("runs_n%d_byz%d_T%d_restarts%d_bound%d", c.N, c.Byz, c.T, c.Restarts, k), 1)
			if r.msg != "" {
				ctx.Violation(sigOf(c, cur, r.msg), fmt.Sprintf("%+v deviations %v: %s", c, devList(cur), r.msg), replay{c, cur})
			} else if r.endKey != "" {
				if ctx.Distinct(xplor.Hash(fmt.Sprint(c), r.endKey)) {
					ctx.State(1)
				}
			}
		}
		if len(cur) == k {
			return
		}
		for i := start; i < len(u); i++ {
			bad := false
			for _, d := range cur {
				if conflict(d, u[i]) {
					bad = true
				}
			}
			// the second block of a slot only exists when the Byzantine owner equivocates there
			if u[i].Kind == "delay" && u[i].V == 1 {
				eq := false
				for _, d := range cur {
					if d.Kind == "byz" && d.S == u[i].S && strings.Contains(d.Ch, "+") {
						eq = true
					}
				}
				if !eq {
					bad = true
				}
			}
			if bad {
				continue
			}
			rec(i+1, append(append([]dev{}, cur...), u[i]))
		}
	}
	rec(0, nil)
	ctx.Max("max_deviation_universe", int64(len(u)))
}

// sigOf: F23 = the "distinct producers" clause fails in a run in which the Byzantine producer
// announced a confirmation range larger than the honest one (Confirms = blockNo): its block then
// confirms blocks it has already confirmed, so one producer is counted twice.
func sigOf(c cfg, ds []dev, msg string) string {
	if c.Byz < 0 || !strings.Contains(msg, "distinct producers") {
		return ""
	}
	for _, d := range ds {
		if d.Kind == "byz" && strings.Contains(d.Ch, ":2") {
			return "F23"
		}
	}
	return ""
}

func devList(ds []dev) string {
	var p []string
	for _, d := range ds {
		switch d.Kind {
		case "delay":
			r := fmt.Sprint("until slot ", d.R)
			if d.R == 0 {
				r = "for ever"
			}
			p = append(p, fmt.Sprintf("block %d.%d withheld from node %d %s", d.S, d.V, d.I, r))
		case "byz":
			p = append(p, fmt.Sprintf("byzantine slot %d choice %s", d.S, d.Ch))
		case "restart":
			p = append(p, fmt.Sprintf("restart node %d after slot %d", d.I, d.S))
		}
	}
	return "[" + strings.Join(p, "; ") + "]"
}

func run(ctx *xplor.Ctx) {
	defer nk.Cleanup()
	if ctx.Replay != nil {
		var r replay
		if err := json.Unmarshal(ctx.Replay, &r); err != nil {
			panic(err)
		}
		res := runDevs(r.Cfg, r.Devs)
		if res.msg != "" {
			ctx.Violation(sigOf(r.Cfg, r.Devs, res.msg), fmt.Sprintf("%+v deviations %v: %s", r.Cfg, devList(r.Devs), res.msg), r)
		}
		return
	}
	cs := configs(ctx.Tier)
	// one Net (number of producers) per process: the shard picks its configuration
	total := 0
	for _, p := range cs {
		total += p.shards
	}
	if total != ctx.NShards {
		panic(fmt.Sprintf("plan wants %d shards, runner has %d", total, ctx.NShards))
	}
	sh := ctx.Shard
	for _, p := range cs {
		if sh < p.shards {
			explore(ctx, p.c, p.k, sh, p.shards)
			break
		}
		sh -= p.shards
	}
	if ctx.Shard == 0 {
		ctx.Sample(map[string]interface{}{"config": cs[0].c, "deviations": []dev{{Kind: "delay", S: 2, I: 0, R: 5}, {Kind: "restart", S: 4, I: 1}},
			"meaning": "the block of slot 2 reaches node 0 only at the end of slot 5 (node 0 forks at slot 3); node 1 restarts after slot 4; everything else synchronous"})
	}
}

func main() {
	xplor.Main(xplor.Check{
		ID:    "C08",
		Level: "model_checking",
		Rule:  "stateless exploration with iterative deviation bounding of a simulated network of real nodes (ChainService + real dpos.Status per node on in-memory stores): default = synchronous network (the slot owner produces on its own best tip with Confirms = blockNo - its last produced block number, connects the block, and it is delivered at once to every other correct node); deviations = withhold the block of slot s from node i until the end of slot r or for ever (delay, reordering, loss, partition), a Byzantine owner producing nothing / on another tip / with wrong Confirms / two blocks in its slot, restart of a node after a slot; every run with at most k deviations is executed to the horizon and the invariants are evaluated after every event. states = distinct final network states, transitions = events executed, traces_validated_against_impl = runs; distinct_nontrivial = distinct final states",
		Assumptions: []string{
			"block bodies are empty; producers below the bootstrap height are the genesis producers (no re-election in the explored horizon)",
			"a correct producer builds only on its own node's best tip and connects its block at once (as BlockFactory does); timestamps are fixed past slot times, so the future-timestamp rule never fires",
			"restart = a new ChainService + Status on the same stores (no crash in the middle of a write; that is C06)",
			"withheld blocks released in the same slot reach a node in production order",
		},
		Shards: func(tier string) int {
			if tier == "thorough" {
				return 48
			}
			return 32
		},
		Budget: func(tier string) time.Duration {
			if tier == "thorough" {
				return 28 * time.Minute
			}
			return 7 * time.Minute
		},
		Run: run,
	})
}
