// Package vtime is a virtual clock for source files rewritten by tools/mkoverlay (rewrite kind
// "vtime"): time.NewTimer and time.Now of such a file become vtime.NewTimer / vtime.Now. Time
// stands still until the harness fires the earliest armed timer (FireNext), which moves the clock
// to that timer's deadline plus one nanosecond. A run is therefore a function of the harness's
// decisions, and "no message pending, no timer armed, not finished" is a deadlock that can be
// observed without waiting.
package vtime

import (
	"sync"
	"time"
)

var (
	mu     sync.Mutex
	now    = time.Unix(1600000000, 0)
	timers []*Timer
	fired  int
)

// Timer mirrors the part of *time.Timer the rewritten code uses.
type Timer struct {
	C     chan time.Time
	at    time.Time
	armed bool
}

func Now() time.Time {
	mu.Lock()
	defer mu.Unlock()
	return now
}

func NewTimer(d time.Duration) *Timer {
	mu.Lock()
	defer mu.Unlock()
	t := &Timer{C: make(chan time.Time, 1), at: now.Add(d), armed: true}
	timers = append(timers, t)
	return t
}

func (t *Timer) Stop() bool {
	mu.Lock()
	defer mu.Unlock()
	was := t.armed
	t.armed = false
	return was
}

func (t *Timer) Reset(d time.Duration) bool {
	mu.Lock()
	defer mu.Unlock()
	was := t.armed
	t.armed = true
	t.at = now.Add(d)
	return was
}

// Armed returns the number of armed timers.
func Armed() int {
	mu.Lock()
	defer mu.Unlock()
	n := 0
	for _, t := range timers {
		if t.armed {
			n++
		}
	}
	return n
}

// FireNext moves the clock just past the earliest deadline among the armed timers (the oldest
// timer wins a tie) and fires that timer. It returns false when no timer is armed.
func FireNext() bool {
	mu.Lock()
	defer mu.Unlock()
	var best *Timer
	for _, t := range timers {
		if t.armed && (best == nil || t.at.Before(best.at)) {
			best = t
		}
	}
	if best == nil {
		return false
	}
	if n := best.at.Add(time.Nanosecond); n.After(now) {
		now = n
	}
	best.armed = false
	fired++
	select {
	case best.C <- now:
	default:
	}
	return true
}

// Fired returns the number of timers fired since the last Reset.
func Fired() int {
	mu.Lock()
	defer mu.Unlock()
	return fired
}

// Reset forgets every timer (timers of goroutines that have ended) and restarts the clock.
func Reset() {
	mu.Lock()
	defer mu.Unlock()
	timers, fired = nil, 0
	now = time.Unix(1600000000, 0)
}
