// Package vorder turns the iteration order of Go maps into an explored choice.
// Consensus-critical packages are rewritten at check time so that every
// `for k, v := range m` over a map becomes `range vorder.Map(m)`. Outside an
// exploration Map walks the map in ascending key order (deterministic); inside
// one, the explorer (Begin/End) decides the permutation at chosen visits.
package vorder

import (
	"fmt"
	"iter"
	"sort"
	"sync"
)

var mu sync.Mutex

// state of one exploration run (single-threaded use: block execution in the
// harness runs on one goroutine; calls from other goroutines use the default order)
var (
	active   bool
	visit    int
	devAt    = map[int]int{} // visit index -> alternative number (1..)
	sizes    []int           // size of the map at every visit with >= 2 entries
	ownerGID int64
)

// Begin starts recording; dev maps visit index -> alternative to apply there.
func Begin(dev map[int]int) {
	mu.Lock()
	defer mu.Unlock()
	active = true
	visit = 0
	devAt = dev
	sizes = sizes[:0]
}

// End stops recording and returns the sizes of the maps visited (with >= 2 entries).
func End() []int {
	mu.Lock()
	defer mu.Unlock()
	active = false
	r := append([]int{}, sizes...)
	return r
}

// Alternatives returns how many non-default orders are explored for a map of n entries.
func Alternatives(n int) int {
	switch {
	case n < 2:
		return 0
	case n == 2:
		return 1
	case n == 3:
		return 5
	default:
		return 4 // reverse, rotate by 1, rotate by n-1, swap of the first two
	}
}

func perm(n, alt int) []int {
	p := make([]int, n)
	for i := range p {
		p[i] = i
	}
	if alt == 0 {
		return p
	}
	switch {
	case n == 2:
		p[0], p[1] = 1, 0
	case n == 3:
		all := [][]int{{0, 1, 2}, {0, 2, 1}, {1, 0, 2}, {1, 2, 0}, {2, 0, 1}, {2, 1, 0}}
		copy(p, all[alt])
	default:
		switch alt {
		case 1:
			for i := range p {
				p[i] = n - 1 - i
			}
		case 2:
			for i := range p {
				p[i] = (i + 1) % n
			}
		case 3:
			for i := range p {
				p[i] = (i + n - 1) % n
			}
		case 4:
			p[0], p[1] = 1, 0
		}
	}
	return p
}

// Map iterates over m in an order owned by the explorer.
func Map[K comparable, V any](m map[K]V) iter.Seq2[K, V] {
	return func(yield func(K, V) bool) {
		n := len(m)
		if n == 0 {
			return
		}
		keys := make([]K, 0, n)
		for k := range m {
			keys = append(keys, k)
		}
		if n > 1 {
			strs := make([]string, n)
			for i, k := range keys {
				strs[i] = fmt.Sprintf("%v", k)
			}
			idx := make([]int, n)
			for i := range idx {
				idx[i] = i
			}
			sort.SliceStable(idx, func(a, b int) bool { return strs[idx[a]] < strs[idx[b]] })
			sorted := make([]K, n)
			for i, j := range idx {
				sorted[i] = keys[j]
			}
			keys = sorted
		}
		order := perm(n, 0)
		mu.Lock()
		if active && n > 1 {
			if alt, ok := devAt[visit]; ok {
				order = perm(n, alt)
			}
			sizes = append(sizes, n)
			visit++
		}
		mu.Unlock()
		for _, i := range order {
			k := keys[i]
			v, ok := m[k]
			if !ok {
				continue // deleted during the iteration: a native range would skip it too
			}
			if !yield(k, v) {
				return
			}
		}
	}
}
