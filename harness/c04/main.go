// C04: authorisation and replay protection for executed transactions.
package main

import (
	"bytes"
	"encoding/json"
	"fmt"
	"os"
	"sort"
	"strconv"
	"time"

	"github.com/aergoio/aergo/v2/mempool"
	"github.com/aergoio/aergo/v2/types"
	"github.com/aergoio/aergo/v2/types/message"
	fx "github.com/aergoio/aergo/v2/verif_h/forkx"
	lx "github.com/aergoio/aergo/v2/verif_h/ledgerx"
	nk "github.com/aergoio/aergo/v2/verif_h/nodekit"
	"github.com/aergoio/aergo/v2/verif_h/xplor"
)

const shardsPerNet = 12

func words(n, k int) [][]int {
	var out [][]int
	var rec func(w []int)
	rec = func(w []int) {
		if len(w) > 0 {
			out = append(out, append([]int{}, w...))
		}
		if len(w) == k {
			return
		}
		for i := 0; i < n; i++ {
			rec(append(w, i))
		}
	}
	rec(nil)
	return out
}

func senderIdx(tx *types.Tx) int {
	acc := tx.GetBody().GetAccount()
	if string(acc) == lx.NameB {
		return 1
	}
	for i := range nk.UserAddrs {
		if bytes.Equal(nk.UserAddrs[i], acc) {
			return i
		}
	}
	return -1
}

// checkCase: (descriptor, signature, message)
func checkCase(ctx *xplor.Ctx, p *lx.Prepared, net nk.Net, word []int, alpha []lx.Gen) (string, string, string) {
	txs, names := p.MakeTxs(word, alpha)
	x, err := p.ProduceDump(txs, names)
	if err != nil {
		return "", "", "HARNESS " + err.Error()
	}
	desc := x.Describe()
	// ---- producer side: a tx bound to another chain, or whose nonce is not exactly the sender's
	// current nonce + 1 at its position, must not be executed. The nonce that is due is tracked
	// along the block (a letter's fault label is relative to optimistic nonce assignment: when an
	// earlier tx of the same sender was rejected, "nonce-1" is in fact the due nonce).
	next := map[int]uint64{}
	for u := range p.Nonces {
		next[u] = p.Nonces[u]
	}
	for i, o := range x.Out {
		f := alpha[word[i]].Fault
		if f == "chainid" && o.Status != "" {
			return desc, "", fmt.Sprintf("tx %d (%s) bound to another chain id was executed by the producer with status %s", i, o.Gen, o.Status)
		}
		u := senderIdx(o.Tx)
		if u < 0 || o.Status == "" {
			continue
		}
		n := o.Tx.GetBody().GetNonce()
		switch {
		case n < next[u]:
			return desc, "", fmt.Sprintf("tx %d (%s) with nonce %d was executed (status %s) although nonce %d of %s is due (replay)", i, o.Gen, n, o.Status, next[u], nk.UserNames[u])
		case n > next[u]:
			return desc, "F17", fmt.Sprintf("tx %d (%s) with nonce %d was executed (status %s) although nonce %d of %s is due: a nonce gap is accepted by block execution", i, o.Gen, n, o.Status, next[u], nk.UserNames[u])
		}
		next[u] = n + 1
	}
	for u := 0; u < 4; u++ {
		if got := x.Dump.NonceOf(nk.UserAddrs[u]); got != next[u]-1 {
			return desc, "", fmt.Sprintf("after the block the nonce of %s is %d, executed txs end at %d", nk.UserNames[u], got, next[u]-1)
		}
	}

	// ---- validator side
	p.Node.ResetGlobals()
	before := p.Node.StoreDigest()
	refuse := func(what string, b *types.Block) string {
		err := p.Node.Deliver(b)
		ctx.Count("adversarial_blocks_delivered", 1)
		if err == nil || p.Node.Best().ID() == b.ID() {
			_ = p.Reset()
			return fmt.Sprintf("a block containing %s was accepted by the validator", what)
		}
		if p.Node.StoreDigest() != before {
			defer p.Reset()
			return fmt.Sprintf("a block containing %s was refused (%v) but the node changed: [chain store, state store, pointers] %s -> %v", what, err, before, p.Node.StoreDigestParts())
		}
		return ""
	}
	forged := x.ForgedIncluded(alpha, word)
	if forged {
		if m := refuse("a tx signed with a foreign key", x.Built.Block); m != "" {
			return desc, "", m
		}
	}
	// every tx the producer rejected, put back at its position
	if len(x.Included) != len(txs) {
		if m := refuse("txs the producer rejected ("+desc+")", lx.Forge(x.Built.Block, txs, 1)); m != "" {
			return desc, "", m
		}
	}
	// a replay of a tx that is already on the chain (the warm-up block's first tx), appended
	if p.Parent.BlockNo() > 0 && len(p.Parent.GetBody().GetTxs()) > 0 {
		old := p.Parent.GetBody().GetTxs()[0]
		if m := refuse("a replay of an already included tx", lx.Forge(x.Built.Block, append(append([]*types.Tx{}, x.Included...), old), 1)); m != "" {
			return desc, "", m
		}
	}
	// the same tx twice in one block
	if len(x.Included) > 0 {
		if m := refuse("the same tx twice", lx.Forge(x.Built.Block, append(append([]*types.Tx{}, x.Included...), x.Included[len(x.Included)-1]), 1)); m != "" {
			return desc, "", m
		}
	}
	// a block with a foreign-signed tx delivered right after a block that failed during
	// execution (its signature-verification result was never awaited): must still be refused
	if !forged && len(x.Included) > 0 {
		cid := p.Node.ChainIDHashFor(p.Parent.BlockNo() + 1)
		ftx := nk.MakeTx(nk.TxSpec{From: 2, Nonce: x.Dump.NonceOf(nk.UserAddrs[2]) + 1, To: nk.UserAddrs[3], Type: types.TxType_TRANSFER, SignWith: 3}, cid)
		fb, err := p.Node.Produce(p.Parent, append(append([]*types.Tx{}, x.Included...), ftx), 1, 3, 1)
		p.Node.ResetGlobals()
		if err == nil && len(fb.Block.GetBody().GetTxs()) == len(x.Included)+1 {
			before = p.Node.StoreDigest()
			low := nk.MakeTx(nk.TxSpec{From: 3, Nonce: 0, To: nk.UserAddrs[0], Type: types.TxType_TRANSFER}, cid)
			bad := lx.Forge(x.Built.Block, append(append([]*types.Tx{}, x.Included...), low), 1)
			_ = p.Node.Deliver(bad) // valid signatures, fails in executeTx (nonce too low) after ValidateBody started the verification
			if m := refuse("a tx signed with a foreign key (delivered after a block that failed during execution)", fb.Block); m != "" {
				return desc, "F18", m
			}
		}
	}
	// completeness: the honest block is accepted
	if !forged {
		if err := p.Node.Deliver(x.Built.Block); err != nil {
			_ = p.Reset()
			return desc, "", fmt.Sprintf("the validator refuses the honestly produced block: %v", err)
		}
		if err := p.Reset(); err != nil {
			panic(err)
		}
	}
	return desc, "", ""
}

// ---- fork/reorg part: executed nonces along the main chain are 1,2,3,.. and no tx id twice
func oracleChain(t *fx.Tree, n *nk.Node, hist []int, ev int, pre, post *fx.Obs, err error) (string, string) {
	best := n.Best()
	next := map[string]uint64{}
	seen := map[string]bool{}
	for h := uint64(1); h <= best.BlockNo(); h++ {
		b, e := n.CS.VerifGetBlockByNo(h)
		if e != nil {
			return "", fmt.Sprintf("main chain block %d unreadable", h)
		}
		for _, tx := range b.GetBody().GetTxs() {
			id := string(tx.GetHash())
			if seen[id] {
				return "", fmt.Sprintf("tx %x is executed twice on the main chain (second time in block %d)", tx.GetHash()[:4], h)
			}
			seen[id] = true
			a := string(tx.GetBody().GetAccount())
			if tx.GetBody().GetNonce() != next[a]+1 {
				return "", fmt.Sprintf("main chain block %d executes nonce %d of %s after nonce %d", h, tx.GetBody().GetNonce(), nk.AddrName(tx.GetBody().GetAccount()), next[a])
			}
			next[a]++
		}
	}
	d, e := n.DumpState(n.CS.SDB().GetRoot())
	if e != nil {
		return "", "state unreadable: " + e.Error()
	}
	for a, nn := range next {
		if d.NonceOf([]byte(a)) != nn {
			return "", fmt.Sprintf("state nonce of %s is %d, the main chain executed %d txs of it", nk.AddrName([]byte(a)), d.NonceOf([]byte(a)), nn)
		}
	}
	for u := 0; u < 4; u++ {
		if _, ok := next[string(nk.UserAddrs[u])]; !ok && d.NonceOf(nk.UserAddrs[u]) != 0 {
			return "", fmt.Sprintf("state nonce of %s is %d without any executed tx on the main chain", nk.UserNames[u], d.NonceOf(nk.UserAddrs[u]))
		}
	}
	return "", ""
}

// ---- fork/reorg part with a REAL transaction pool attached to the node: the pool is filled
// with every tx of the scenario, is told about every connected block (MemPoolDel) and gets back
// the txs of abandoned branches (MemPoolPut) exactly as the chain service sends them; after
// every delivery the txs the pool offers to a producer must all be executable on the node's
// best block (none is refused as already executed or out of order), and the block built from
// them keeps the main chain's nonce sequences intact.
var pools = map[*nk.Node]*mempool.MemPool{}

func poolStart(t *fx.Tree, n *nk.Node) {
	mp := mempool.VerifC14New(n.Cfg, n.CS, n.Hub(), n.Best())
	pools[n] = mp
	// every tx of every block of the scenario reaches the pool before the blocks do
	var ids []string
	for id := range t.TxOf {
		ids = append(ids, id)
	}
	sort.Strings(ids)
	for _, id := range ids {
		tx := types.NewTransaction(t.TxOf[id])
		if mp.VerifC14VerifyTx(tx) == nil {
			_ = mp.VerifC14Put(tx)
		}
	}
}

func poolAfter(t *fx.Tree, n *nk.Node, msgs []nk.Msg) {
	mp := pools[n]
	if mp == nil {
		return
	}
	for _, m := range msgs {
		switch v := m.Obj.(type) {
		case *message.MemPoolDel:
			_ = mp.VerifC13Block(v.Block)
		case *message.MemPoolPut:
			perr := mp.VerifC14Put(types.NewTransaction(v.Tx))
			if perr != nil {
				// a tx handed back by the chain that is the next executable tx of its account on the
				// new best state must be taken back by the pool (a refusal loses it for ever)
				d, e := n.DumpState(n.CS.SDB().GetRoot())
				if e == nil && d.NonceOf(v.Tx.GetBody().GetAccount())+1 == v.Tx.GetBody().GetNonce() && mp.VerifC13Exist(v.Tx.GetHash()) == nil {
					poolRefused[n] = fmt.Sprintf("the pool refuses (%v) tx %s#%d handed back by the reorganisation although the account's nonce in the new state is %d", perr,
						nk.AddrName(v.Tx.GetBody().GetAccount()), v.Tx.GetBody().GetNonce(), d.NonceOf(v.Tx.GetBody().GetAccount()))
				}
			}
		}
	}
}

var poolRefused = map[*nk.Node]string{}

func oraclePool(t *fx.Tree, n *nk.Node, hist []int, ev int, pre, post *fx.Obs, err error) (string, string) {
	if s, m := oracleChain(t, n, hist, ev, pre, post, err); m != "" {
		return s, m
	}
	mp := pools[n]
	defer delete(pools, n)
	if m := poolRefused[n]; m != "" {
		delete(poolRefused, n)
		return "", m
	}
	offered, gerr := mp.VerifC13Get(1 << 20)
	if gerr != nil {
		return "", ""
	}
	var txs []*types.Tx
	for _, x := range offered {
		txs = append(txs, x.GetTx())
	}
	if len(txs) == 0 {
		return "", ""
	}
	best := n.Best()
	b, perr := n.Produce(best, txs, 1, 9, 1)
	n.ResetGlobals()
	if perr != nil {
		return "", "HARNESS produce from pool: " + perr.Error()
	}
	if b.Skipped != 0 {
		var off []string
		for _, tx := range txs {
			off = append(off, fmt.Sprintf("%s#%d", nk.AddrName(tx.GetBody().GetAccount()), tx.GetBody().GetNonce()))
		}
		return "", fmt.Sprintf("the pool offers %v on best block %d but %d of them cannot be executed there (already executed or beyond a gap)", off, best.BlockNo(), b.Skipped)
	}
	return "", ""
}

type replay struct {
	Kind string     `json:"kind"` // block | fork
	Net  int        `json:"net"`
	Pre  int        `json:"pre"`
	Word []int      `json:"word"`
	Fork *fx.Replay `json:"fork,omitempty"`
}

func forkScenarios(tier string) []fx.Scenario {
	m, leaves := 4, 2
	if tier == "thorough" {
		m, leaves = 5, 3
	}
	var out []fx.Scenario
	for _, p := range fx.Trees(m, leaves) {
		out = append(out, fx.Scenario{Parents: p, Flavour: "tx"})
	}
	return out
}

func run(ctx *xplor.Ctx) {
	defer nk.Cleanup()
	nets := lx.Nets(ctx.Tier)
	alpha := lx.Alphabet()
	limit, _ := strconv.Atoi(os.Getenv("VERIF_LIMIT"))
	doCase := func(p *lx.Prepared, r replay) {
		desc, sig, msg := checkCase(ctx, p, nets[r.Net], r.Word, alpha)
		ctx.Eval(1)
		if msg != "" {
			ctx.Violation(sig, fmt.Sprintf("net{%v} pre=%d block %s: %s", nets[r.Net], r.Pre, desc, msg), r)
			if err := p.Reset(); err != nil {
				panic(err)
			}
		} else {
			ctx.Distinct(xplor.Hash(r.Net, r.Pre, desc, fmt.Sprint(r.Word)))
		}
	}
	if ctx.Replay != nil {
		var r replay
		if err := json.Unmarshal(ctx.Replay, &r); err != nil {
			panic(err)
		}
		if r.Kind == "fork" {
			fx.Hooks.Start, fx.Hooks.After = poolStart, poolAfter
			fx.ReplayOne(ctx, nets[r.Net], *r.Fork, oraclePool)
			return
		}
		p, err := lx.Prepare(nets[r.Net], r.Pre, "p")
		if err != nil {
			panic(err)
		}
		doCase(p, r)
		return
	}
	ni := ctx.Shard % len(nets)
	sub, nsub := ctx.Shard/len(nets), ctx.NShards/len(nets)
	ws := words(len(alpha), 2)
	done := 0
	for pre := 0; pre < 2; pre++ {
		p, err := lx.Prepare(nets[ni], pre, fmt.Sprintf("p%d", pre))
		if err != nil {
			panic(err)
		}
		for i, w := range ws {
			if i%nsub != sub || ctx.Expired() {
				continue
			}
			if limit > 0 && done >= limit {
				ctx.Incomplete("VERIF_LIMIT")
				break
			}
			done++
			doCase(p, replay{Kind: "block", Net: ni, Pre: pre, Word: w})
		}
		p.Node.Stop()
	}
	// fork / reorg histories on the first net only (one Net per process)
	if ni == 0 && limit == 0 {
		fx.Hooks.Start, fx.Hooks.After = poolStart, poolAfter
		for i, sc := range forkScenarios(ctx.Tier) {
			if i%nsub != sub || ctx.Expired() {
				continue
			}
			fx.ExploreWrap(ctx, nets[ni], sc, oraclePool, 20000, func(r fx.Replay) interface{} {
				return replay{Kind: "fork", Net: ni, Fork: &r}
			})
		}
	}
	if sub == 0 && ni == 0 {
		ctx.Sample(map[string]interface{}{"net": nets[ni].String(), "pre_state": "warm", "block": []string{"A->B 1 other chain", "B->A 1 nonce+1 (gap)"},
			"checked": "producer outcome per fault, nonce sequence of the block, adversarial variants refused without any change, honest block accepted"})
	}
}

func main() {
	xplor.Main(xplor.Check{
		ID:    "C04",
		Level: "exploration",
		Rule:  "every block of <= 2 transactions over the 42-letter alphabet (which contains txs signed by a foreign key, bound to another chain id, with nonce-1 (replay) and nonce+1 (gap), sent under a name signed by its owner / by a non-owner) x pre-state {genesis, warm} x 5 (thorough 40) network configurations: producer outcome per fault, executed nonces of the block are exactly state+1.., adversarial variants (rejected txs re-inserted, replay of an included tx, same tx twice, foreign signature) are refused by ChainService.addBlock (signature verification on, no mempool shortcut) and leave both stores / best / state root unchanged, the honest block is accepted; plus, on every state of the C05/C07 block-arrival BFS over all trees with <= 4 (5) blocks whose branches share txs: executed nonces along the main chain are 1,2,3.. per account, no tx id twice, state nonce = number of executed txs. distinct_nontrivial = distinct (net, pre-state, word, outcome vector) + distinct fork states",
		Assumptions: []string{
			"pool admission (mempool verifyTx/put) is judged in C13/C14; here the pool is absent and every signature is verified by the block validator itself",
		},
		Shards: func(tier string) int { return shardsPerNet * len(lx.Nets(tier)) },
		Budget: func(tier string) time.Duration {
			if tier == "thorough" {
				return 25 * time.Minute
			}
			return 6 * time.Minute
		},
		Run: run,
	})
}
