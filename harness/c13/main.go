// C13: transaction pool — per-account nonce order, no stale or duplicate
// entries, truthful totals; sequentially (part SEQ: every operation sequence up
// to a depth, against a plain-Go model) and under concurrency (part SCHED:
// every interleaving of three pool operations with a bounded number of
// preemptions, under a cooperative scheduler; package mempool and
// state/statedb are compiled against vsync instead of sync).
//
// The pool under test is the real mempool.MemPool + txList over a real
// state.ChainStateDB ("memorydb"); account nonces/balances are read by the pool
// from state tries written by this harness, block notifications are real
// types.Block values handed to removeOnBlockArrival. See NOTES.md.
package main

import (
	"bytes"
	"crypto/sha256"
	"encoding/json"
	"fmt"
	"math/big"
	"os"
	"runtime"
	"sort"
	"strings"
	"sync"
	"sync/atomic"
	"time"

	"github.com/aergoio/aergo/v2/account/key"
	crypto "github.com/aergoio/aergo/v2/account/key/crypto"
	"github.com/aergoio/aergo/v2/config"
	"github.com/aergoio/aergo/v2/internal/common"
	"github.com/aergoio/aergo/v2/mempool"
	"github.com/aergoio/aergo/v2/state"
	"github.com/aergoio/aergo/v2/types"
	"github.com/aergoio/aergo/v2/verif_h/vsched"
	"github.com/aergoio/aergo/v2/verif_h/vsync"
	"github.com/aergoio/aergo/v2/verif_h/xplor"
	"github.com/btcsuite/btcd/btcec/v2"
)

// ------------------------------------------------------------------ universe

const (
	nAcc   = 2
	nNonce = 4
	nVar   = 2
	nTx    = nAcc * nNonce * nVar
	bal0   = uint64(1_000_000_000_000)
	maxGet = uint32(1 << 24)

	// signature of the reorg-window finding (see NOTES.md §5)
	sigReorgWindow = "C13/reorg-first-block-partial-filter"
)

var accName = [nAcc]string{"A", "B"}

type universe struct {
	cfg   *config.Config
	sdb   *state.ChainStateDB
	accs  [nAcc][]byte
	keys  [nAcc]*btcec.PrivateKey
	rcpt  []byte
	cid   []byte
	tx    [nTx]*types.Tx
	byID  map[types.TxID]int
	addr  map[string]int // encoded address -> account index
	raw   map[string]int // raw address bytes -> account index
	roots map[[nAcc]uint64][]byte
	gen   *types.Block
	mu    sync.Mutex
}

var U *universe

func txIdx(acc, nonce, v int) int { return acc*nNonce*nVar + (nonce-1)*nVar + v }
func txAcc(i int) int             { return i / (nNonce * nVar) }
func txNonce(i int) uint64        { return uint64(i%(nNonce*nVar))/nVar + 1 }
func txVar(i int) int             { return i % nVar }
func txName(i int) string {
	return fmt.Sprintf("%s%d%c", accName[txAcc(i)], txNonce(i), 'a'+txVar(i))
}

func initUniverse() {
	u := &universe{byID: map[types.TxID]int{}, addr: map[string]int{}, raw: map[string]int{}, roots: map[[nAcc]uint64][]byte{}}
	u.cfg = config.NewServerContext("", "").GetDefaultConfig().(*config.Config)
	u.cfg.Mempool.EnableFadeout = true // evictPeriod = FadeoutPeriod hours
	u.cfg.Mempool.FadeoutPeriod = 1
	u.sdb = state.NewChainStateDB()
	if err := u.sdb.Init("memorydb", "", nil, false, nil); err != nil {
		panic(err)
	}
	for i := 0; i < nAcc+1; i++ {
		b := make([]byte, 32)
		b[0], b[31] = 0x13, byte(i+1)
		k, _ := btcec.PrivKeyFromBytes(b)
		a := crypto.GenerateAddress(k.PubKey().ToECDSA())
		if i == nAcc {
			u.rcpt = a // a third account: only ever a recipient
			break
		}
		u.keys[i], u.accs[i] = k, a
		u.addr[types.EncodeAddress(a)] = i
		u.raw[string(a)] = i
	}
	cid := types.NewChainID()
	cid.AsDefault()
	cid.PublicNet = true // public chain: no enterprise whitelist in front of the pool
	cb, err := cid.Bytes()
	if err != nil {
		panic(err)
	}
	u.cid = types.MakeChainId(cb, u.cfg.Hardfork.Version(1))
	for i := 0; i < nTx; i++ {
		tx := &types.Tx{Body: &types.TxBody{
			Nonce: txNonce(i), Account: u.accs[txAcc(i)], Recipient: u.rcpt,
			Amount:      new(big.Int).SetUint64(uint64(1 + txVar(i))).Bytes(),
			Type:        types.TxType_TRANSFER,
			ChainIdHash: common.Hasher(u.cid),
		}}
		if err := key.SignTx(tx, u.keys[txAcc(i)]); err != nil {
			panic(err)
		}
		u.tx[i] = tx
		u.byID[types.ToTxID(tx.Hash)] = i
	}
	if len(u.byID) != nTx {
		panic("universe: tx hash collision")
	}
	U = u
	u.gen = types.NewBlock(&types.BlockHeaderInfo{No: 0, Ts: 1600000000e9, ChainId: u.cid}, u.root([nAcc]uint64{}), nil, nil, nil, nil)
	u.gen.BlockHash()
	mempool.VerifC13Clock(time.Hour, time.Hour) // evictWorkTimeout can never fire inside a run
	// every alphabet transaction passes the pool's signature/format verifier once
	mp := mempool.VerifC13New(u.cfg, u.sdb, u.gen)
	for i := 0; i < nTx; i++ {
		if err := mp.VerifC13VerifyTx(types.NewTransaction(u.tx[i])); err != nil {
			panic(fmt.Sprintf("universe tx %s does not pass verifyTx: %v", txName(i), err))
		}
	}
}

// root returns the state root in which account i has nonce n[i] and the
// balance left after its n[i] variant-a transfers (amount 1 each); built from
// the empty trie each time, so the root is a function of n alone.
func (u *universe) root(n [nAcc]uint64) []byte {
	u.mu.Lock()
	defer u.mu.Unlock()
	if r, ok := u.roots[n]; ok {
		return r
	}
	if vsched.Active() {
		panic("state root built during a schedule run")
	}
	bs := u.sdb.NewBlockState(nil)
	for i := 0; i < nAcc; i++ {
		st := &types.State{Nonce: n[i], Balance: new(big.Int).SetUint64(bal0 - n[i]).Bytes()}
		if err := bs.PutState(types.ToAccountID(u.accs[i]), st); err != nil {
			panic(err)
		}
	}
	if err := bs.Update(); err != nil {
		panic(err)
	}
	if err := bs.Commit(); err != nil {
		panic(err)
	}
	r := append([]byte(nil), bs.GetRoot()...)
	u.roots[n] = r
	return r
}

// ------------------------------------------------------------------ operations

const (
	opPut    = 0           // +tx index (16)
	opRemove = opPut + nTx // +tx index (16)
	opAdv    = opRemove + nTx
	opReorg  = opAdv + 4 // acc*2 + (0: rewind acc by 1 | 1: rewind acc by 1 and advance the other by 1)
	opEvict  = opReorg + 4
	opEvict0 = opEvict + nAcc
	opUnconf = opEvict0 + 1
	nOps     = opUnconf + 1
)

func opName(op int) string {
	switch {
	case op < opRemove:
		return "put(" + txName(op-opPut) + ")"
	case op < opAdv:
		return "removeTx(" + txName(op-opRemove) + ")"
	case op < opReorg:
		return fmt.Sprintf("block(%s+%d)", accName[(op-opAdv)/2], (op-opAdv)%2+1)
	case op < opEvict:
		a := (op - opReorg) / 2
		if (op-opReorg)%2 == 1 {
			return fmt.Sprintf("reorg(%s-1,%s+1)", accName[a], accName[1-a])
		}
		return fmt.Sprintf("reorg(%s-1)", accName[a])
	case op < opEvict0:
		return "evict(" + accName[op-opEvict] + " aged)"
	case op == opEvict0:
		return "evict(none aged)"
	}
	return "unconfirmed([A,B])"
}

func wordString(w []byte) string {
	s := make([]string, len(w))
	for i, o := range w {
		s[i] = opName(int(o))
	}
	return strings.Join(s, " ; ")
}

// ------------------------------------------------------------------ world (real pool) and model

type world struct {
	mp   *mempool.MemPool
	best *types.Block
	n    [nAcc]uint64 // account nonces of the state the pool was last told
}

func newWorld() *world {
	return &world{mp: mempool.VerifC13New(U.cfg, U.sdb, U.gen), best: U.gen}
}

func (w *world) mkBlock(prev []byte, no uint64, n [nAcc]uint64, txs []*types.Tx) *types.Block {
	b := types.NewBlock(&types.BlockHeaderInfo{No: no, Ts: int64(1600000000+no) * 1e9, ChainId: U.cid, PrevBlockHash: prev},
		U.root(n), nil, txs, nil, nil)
	b.BlockHash()
	return b
}

// advBlock: the next block on top of the pool's best block carrying k
// transactions of acc (variant a) with the next nonces.
func (w *world) advBlock(acc, k int) (*types.Block, [nAcc]uint64) {
	n := w.n
	var txs []*types.Tx
	for j := 0; j < k; j++ {
		n[acc]++
		if n[acc] <= nNonce {
			txs = append(txs, U.tx[txIdx(acc, int(n[acc]), 0)])
		} else {
			txs = append(txs, outsideTx(acc, n[acc]))
		}
	}
	return w.mkBlock(w.best.BlockHash(), w.best.BlockNo()+1, n, txs), n
}

// outsideTx: a transaction of acc with a nonce beyond the pool alphabet (only
// ever appears inside blocks).
func outsideTx(acc int, nonce uint64) *types.Tx {
	tx := &types.Tx{Body: &types.TxBody{Nonce: nonce, Account: U.accs[acc], Recipient: U.rcpt,
		Amount: []byte{1}, Type: types.TxType_TRANSFER, ChainIdHash: common.Hasher(U.cid)}}
	tx.Hash = tx.CalculateTxHash()
	return tx
}

// reorgBlocks: the notifications the chain service sends while it switches to
// another branch (chain/reorg.go rollforward -> executeBlock -> notifyEvents ->
// MemPoolDel, one per block of the new branch, after a silent rollback): the
// first block c1 does not descend from the block the pool saw last, the later
// ones do. A new branch that wins has at least two blocks. In the state of the
// new branch acc's last transaction is undone (nonce-1); with other=true c1
// carries the next transaction of the other account.
func (w *world) reorgBlocks(acc int, other bool) (c1, c2 *types.Block, n [nAcc]uint64) {
	n = w.n
	n[acc]--
	var txs []*types.Tx
	if other {
		n[1-acc]++
		if n[1-acc] <= nNonce {
			txs = append(txs, U.tx[txIdx(1-acc, int(n[1-acc]), 0)])
		} else {
			txs = append(txs, outsideTx(1-acc, n[1-acc]))
		}
	}
	fork := sha256.Sum256(append([]byte("c13 fork point below "), w.best.BlockHash()...))
	c1 = w.mkBlock(fork[:], w.best.BlockNo(), n, txs)
	c2 = w.mkBlock(c1.BlockHash(), c1.BlockNo()+1, n, nil)
	return
}

type model struct {
	n    [nAcc]uint64
	held [nAcc][nNonce + 1]int8 // per nonce: -1 none, else variant
}

func newModel() *model {
	m := &model{}
	for a := range m.held {
		for i := range m.held[a] {
			m.held[a][i] = -1
		}
	}
	return m
}

func (m *model) dropStale() {
	for a := 0; a < nAcc; a++ {
		for nn := 1; nn <= nNonce; nn++ {
			if uint64(nn) <= m.n[a] {
				m.held[a][nn] = -1
			}
		}
	}
}

// run returns the nonces state+1.. that are held consecutively.
func (m *model) run(a int) []int {
	var r []int
	for nn := m.n[a] + 1; nn <= nNonce && m.held[a][nn] >= 0; nn++ {
		r = append(r, txIdx(a, int(nn), int(m.held[a][nn])))
	}
	return r
}

func (m *model) all(a int) []int {
	var r []int
	for nn := 1; nn <= nNonce; nn++ {
		if m.held[a][nn] >= 0 {
			r = append(r, txIdx(a, nn, int(m.held[a][nn])))
		}
	}
	return r
}

func errClass(err error) string {
	if err == nil {
		return "ok"
	}
	return err.Error()
}

// applicable: operations whose precondition fails are not part of a word.
func applicable(op int, n [nAcc]uint64) bool {
	if op >= opReorg && op < opEvict {
		return n[(op-opReorg)/2] >= 1
	}
	return true
}

// step applies op to the real pool and to the model. It returns a non-empty
// failure text when the pool's immediate answer contradicts the model; the
// whole-state oracle is checkAll.
func step(w *world, m *model, op int, win *[]string) (fail string) {
	defer func() {
		if r := recover(); r != nil {
			fail = fmt.Sprintf("panic in %s: %v", opName(op), r)
		}
	}()
	switch {
	case op < opRemove:
		i := op - opPut
		a, nn, v := txAcc(i), txNonce(i), int8(txVar(i))
		err := w.mp.VerifC13Put(types.NewTransaction(U.tx[i]))
		cur := m.held[a][nn]
		switch {
		case cur == v:
			if err == nil {
				return "put of a transaction that is already pooled was accepted"
			}
		case nn <= m.n[a]:
			if err == nil {
				return fmt.Sprintf("put of nonce %d accepted although the account nonce in the state is %d", nn, m.n[a])
			}
		case cur >= 0:
			// same account and nonce, other hash: the text does not say which one
			// wins; the pool's answer is taken as the witness, the invariants
			// (exactly one of them pooled) are checked by checkAll.
			if err == nil {
				m.held[a][nn] = v
			}
		default:
			if err != nil {
				return fmt.Sprintf("put of a fresh transaction (nonce %d > state nonce %d, slot free) was rejected: %s", nn, m.n[a], errClass(err))
			}
			m.held[a][nn] = v
		}
	case op < opAdv:
		i := op - opRemove
		a, nn, v := txAcc(i), txNonce(i), int8(txVar(i))
		w.mp.VerifC13RemoveTx(U.tx[i])
		if m.held[a][nn] == v {
			m.held[a][nn] = -1
		}
	case op < opReorg:
		a, k := (op-opAdv)/2, (op-opAdv)%2+1
		b, n := w.advBlock(a, k)
		if err := w.mp.VerifC13Block(b); err != nil {
			return "removeOnBlockArrival: " + err.Error()
		}
		w.best, w.n = b, n
		m.n = n
		m.dropStale()
	case op < opEvict:
		a, other := (op-opReorg)/2, (op-opReorg)%2 == 1
		c1, c2, n := w.reorgBlocks(a, other)
		if err := w.mp.VerifC13Block(c1); err != nil {
			return "removeOnBlockArrival(c1): " + err.Error()
		}
		// side observation between the two notifications of one reorganisation
		if win != nil {
			mm := *m
			mm.n = n
			mm.dropStale()
			if f := checkGet(w, &mm); f != "" {
				*win = append(*win, f)
			}
		}
		if err := w.mp.VerifC13Block(c2); err != nil {
			return "removeOnBlockArrival(c2): " + err.Error()
		}
		w.best, w.n = c2, n
		m.n = n
		m.dropStale()
	case op < opEvict0:
		a := op - opEvict
		if w.mp.VerifC13Age(U.accs[a]) {
			for nn := range m.held[a] {
				m.held[a][nn] = -1
			}
		}
		w.mp.VerifC13Evict()
	case op == opEvict0:
		w.mp.VerifC13Evict()
	default:
		if _, err := w.mp.VerifC13Unconfirmed([]types.Address{U.accs[0], U.accs[1]}, false); err != nil {
			return "getUnconfirmed: " + err.Error()
		}
	}
	return ""
}

// ------------------------------------------------------------------ oracle

func names(ix []int) string {
	s := make([]string, len(ix))
	for i, x := range ix {
		s[i] = txName(x)
	}
	return "[" + strings.Join(s, " ") + "]"
}

// checkGet: what the pool offers a block producer is, per account, exactly the
// gap-free ascending run starting at state nonce + 1.
func checkGet(w *world, m *model) string {
	txs, err := w.mp.VerifC13Get(maxGet)
	if err != nil {
		return "get: " + err.Error()
	}
	var got [nAcc][]int
	for _, tx := range txs {
		i, ok := U.byID[types.ToTxID(tx.GetHash())]
		if !ok {
			return "get returned a transaction outside the alphabet"
		}
		got[txAcc(i)] = append(got[txAcc(i)], i)
	}
	for a := 0; a < nAcc; a++ {
		if want := m.run(a); names(want) != names(got[a]) {
			return fmt.Sprintf("get offers %s for account %s, but the state nonce is %d and the pool was given %s: the run from nonce %d is %s",
				names(got[a]), accName[a], m.n[a], names(m.all(a)), m.n[a]+1, names(want))
		}
	}
	return ""
}

type unconfJSON struct {
	Address string `json:"address"`
	Pooled  struct {
		Count int      `json:"count"`
		IDs   []string `json:"id"`
	} `json:"pooled"`
	Orphaned struct {
		Count int      `json:"count"`
		IDs   []string `json:"id"`
	} `json:"orphaned"`
}

func idStrings(ix []int) string {
	s := make([]string, len(ix))
	for i, x := range ix {
		s[i] = types.ToTxID(U.tx[x].Hash).String()
	}
	return strings.Join(s, ",")
}

// canon renders the private bookkeeping of the pool canonically (also the
// memoisation key of the SEQ search, together with the told state).
func canon(d *mempool.VerifC13Dump, n [nAcc]uint64) string {
	var sb strings.Builder
	fmt.Fprintf(&sb, "n=%v len=%d orph=%d", n, d.Length, d.Orphan)
	for _, l := range d.Lists {
		a, ok := U.raw[string(l.Account)]
		an := "?"
		if ok {
			an = accName[a]
		}
		fmt.Fprintf(&sb, " | %s base=%d/%d ready=%d aged=%v [", an, l.BaseNonce, new(big.Int).SetBytes(l.BaseBal), l.Ready, l.Aged)
		for i, h := range l.Hashes {
			if ix, ok := U.byID[types.ToTxID(h)]; ok {
				sb.WriteString(txName(ix))
			} else {
				fmt.Fprintf(&sb, "?%d", l.Nonces[i])
			}
			sb.WriteByte(' ')
		}
		sb.WriteByte(']')
	}
	sb.WriteString(" | cache[")
	var cs []string
	for _, k := range d.Cache {
		if ix, ok := U.byID[types.ToTxID(k)]; ok {
			cs = append(cs, txName(ix))
		} else {
			cs = append(cs, "?")
		}
	}
	sort.Strings(cs)
	sb.WriteString(strings.Join(cs, " "))
	sb.WriteByte(']')
	return sb.String()
}

// checkStructure: invariants of the bookkeeping that need no model except the
// state nonces n: ascending lists, no duplicate nonce/hash, nothing stale,
// ready prefix = gap-free run, hash index <=> lists, counters = content.
func checkStructure(d *mempool.VerifC13Dump, n [nAcc]uint64) string {
	seenAcc := map[int]bool{}
	seenHash := map[string]bool{}
	total, orphans := 0, 0
	for _, l := range d.Lists {
		a, ok := U.raw[string(l.Account)]
		if !ok {
			return "a list for an unknown account"
		}
		if seenAcc[a] {
			return "two lists for account " + accName[a]
		}
		seenAcc[a] = true
		prev := uint64(0)
		run := 0
		for i, nn := range l.Nonces {
			if nn <= prev {
				return fmt.Sprintf("list of %s is not strictly ascending in nonce (two entries with the same account and nonce, or disorder): %v", accName[a], l.Nonces)
			}
			prev = nn
			if nn <= n[a] {
				return fmt.Sprintf("pool holds a transaction of %s with nonce %d although the account nonce in the state it was told is %d", accName[a], nn, n[a])
			}
			if run == i && nn == n[a]+uint64(i)+1 {
				run++
			}
			h := string(l.Hashes[i])
			if seenHash[h] {
				return "the same transaction hash is held twice"
			}
			seenHash[h] = true
			ix, ok := U.byID[types.ToTxID(l.Hashes[i])]
			if !ok || txAcc(ix) != a || txNonce(ix) != nn {
				return "a list entry is filed under the wrong account/nonce"
			}
		}
		if l.Ready != run {
			return fmt.Sprintf("list of %s %v with state nonce %d: ready prefix is %d but the gap-free run has length %d", accName[a], l.Nonces, n[a], l.Ready, run)
		}
		total += len(l.Nonces)
		orphans += len(l.Nonces) - run
	}
	if len(d.Cache) != len(seenHash) {
		return fmt.Sprintf("hash index has %d entries but the lists hold %d transactions", len(d.Cache), len(seenHash))
	}
	for _, k := range d.Cache {
		if !seenHash[string(k)] {
			return "hash index contains a transaction that is in no list"
		}
	}
	if !d.CacheHashOK {
		return "hash index maps an id to a transaction with another hash"
	}
	if d.Length != total || d.Orphan != orphans {
		return fmt.Sprintf("counters say total=%d orphan=%d but the lists hold total=%d orphan=%d", d.Length, d.Orphan, total, orphans)
	}
	return ""
}

// checkAll is the whole-state oracle of the SEQ part.
func checkAll(w *world, m *model) (fail string, key string) {
	defer func() {
		if r := recover(); r != nil {
			fail = fmt.Sprintf("panic in an observer: %v", r)
		}
	}()
	d := w.mp.VerifC13Snapshot()
	key = canon(&d, w.n)
	if w.n != m.n {
		return "harness: model and world disagree on the told state", key
	}
	if f := checkStructure(&d, m.n); f != "" {
		return f + "  {" + key + "}", key
	}
	// content = model
	var have [nAcc][]int
	for _, l := range d.Lists {
		a := U.raw[string(l.Account)]
		for _, h := range l.Hashes {
			have[a] = append(have[a], U.byID[types.ToTxID(h)])
		}
	}
	total, ready := 0, 0
	for a := 0; a < nAcc; a++ {
		if names(have[a]) != names(m.all(a)) {
			return fmt.Sprintf("pool holds %s for %s, expected %s  {%s}", names(have[a]), accName[a], names(m.all(a)), key), key
		}
		total += len(m.all(a))
		ready += len(m.run(a))
	}
	// public observers
	if l, o := w.mp.Size(); l != total || o != total-ready {
		return fmt.Sprintf("Size() = (%d,%d) but the pool holds %d transactions, %d of them beyond a gap", l, o, total, total-ready), key
	}
	st := *w.mp.Statistics()
	if st["total"] != total || st["orphan"] != total-ready {
		return fmt.Sprintf("Statistics() total=%v orphan=%v, content %d/%d", st["total"], st["orphan"], total, total-ready), key
	}
	if f := checkGet(w, m); f != "" {
		return f, key
	}
	ids, more := w.mp.VerifC13ListHash(64)
	if more || len(ids) != ready {
		return fmt.Sprintf("listHash returns %d ids (more=%v), %d are executable", len(ids), more, ready), key
	}
	for _, id := range ids {
		ix, ok := U.byID[id]
		if !ok || m.held[txAcc(ix)][txNonce(ix)] != int8(txVar(ix)) || txNonce(ix) > m.n[txAcc(ix)]+uint64(len(m.run(txAcc(ix)))) {
			return "listHash returns an id that is not in the executable run", key
		}
	}
	for i := 0; i < nTx; i++ {
		tx := w.mp.VerifC13Exist(U.tx[i].Hash)
		held := m.held[txAcc(i)][txNonce(i)] == int8(txVar(i))
		if (tx != nil) != held {
			return fmt.Sprintf("exist(%s) = %v but held = %v", txName(i), tx != nil, held), key
		}
		if tx != nil && !bytes.Equal(tx.Hash, U.tx[i].Hash) {
			return "exist returns another transaction", key
		}
	}
	for _, countOnly := range []bool{true, false} {
		b, err := w.mp.VerifC13Unconfirmed(nil, countOnly)
		if err != nil {
			return "getUnconfirmed: " + err.Error(), key
		}
		var us []unconfJSON
		if err := json.Unmarshal(b, &us); err != nil {
			return "getUnconfirmed json: " + err.Error(), key
		}
		seen := map[int]bool{}
		for _, u := range us {
			a, ok := U.addr[u.Address]
			if !ok || seen[a] {
				return "unconfirmed report lists an unknown account or one account twice", key
			}
			seen[a] = true
			run, all := m.run(a), m.all(a)
			if u.Pooled.Count != len(run) || u.Orphaned.Count != len(all)-len(run) {
				return fmt.Sprintf("unconfirmed report for %s: pooled=%d orphaned=%d, content %d/%d", accName[a], u.Pooled.Count, u.Orphaned.Count, len(run), len(all)-len(run)), key
			}
			if !countOnly {
				if strings.Join(u.Pooled.IDs, ",") != idStrings(run) || strings.Join(u.Orphaned.IDs, ",") != idStrings(all[len(run):]) {
					return fmt.Sprintf("unconfirmed report for %s lists other transactions than the pool holds", accName[a]), key
				}
			}
		}
		for a := 0; a < nAcc; a++ {
			if len(m.all(a)) > 0 && !seen[a] {
				return "unconfirmed report misses account " + accName[a], key
			}
		}
	}
	d2 := w.mp.VerifC13Snapshot()
	if k2 := canon(&d2, w.n); k2 != key {
		return "a read-only query changed the pool: {" + key + "} -> {" + k2 + "}", key
	}
	return "", key
}

// ------------------------------------------------------------------ SEQ search

type replayObj struct {
	Part    string `json:"part"`
	Word    []byte `json:"word,omitempty"`
	Scn     int    `json:"scn,omitempty"`
	Choices []int  `json:"choices,omitempty"`
}

// execWord replays word on a fresh pool; with checkEvery the oracle runs after
// every step, otherwise only after the last one. Returns (failure, step index,
// canonical key, window findings).
func execWord(word []byte, checkEvery bool) (string, int, string, []string) {
	w, m := newWorld(), newModel()
	var win []string
	key := ""
	for i, op := range word {
		last := i == len(word)-1
		var wp *[]string
		if last || checkEvery {
			wp = &win
		}
		if f := step(w, m, int(op), wp); f != "" {
			return f, i, "", win
		}
		if last || checkEvery {
			var f string
			f, key = checkAll(w, m)
			if f != "" {
				return f, i, key, win
			}
		}
	}
	if len(word) == 0 {
		var f string
		f, key = checkAll(w, m)
		return f, -1, key, win
	}
	return "", -1, key, win
}

type seqNode struct {
	word []byte
	n    [nAcc]uint64
}

func seqDepth(tier string) int {
	if v := os.Getenv("C13_DEPTH"); v != "" {
		var d int
		fmt.Sscan(v, &d)
		return d
	}
	if tier == "thorough" {
		return 7
	}
	return 5
}

func nOf(key string) (n [nAcc]uint64) {
	fmt.Sscanf(key, "n=[%d %d]", &n[0], &n[1])
	return
}

var hardViolations atomic.Int64 // violations that are not the known reorg-window finding

// runSeq: level-synchronous breadth-first search, parallel inside this one
// worker process (a shared visited set means no state is expanded twice).
func runSeq(ctx *xplor.Ctx) {
	depth := seqDepth(ctx.Tier)
	nw := runtime.NumCPU()
	runtime.GOMAXPROCS(nw)
	var mu sync.Mutex
	seen := map[string]struct{}{}
	var winShown atomic.Int64
	f, _, key0, _ := execWord(nil, true)
	if f != "" {
		ctx.Violation("seq", "initial state: "+f, replayObj{Part: "seq"})
		return
	}
	seen[key0] = struct{}{}
	frontier := []seqNode{{}}
	ctx.State(1)
	levelDone := 0
	for level := 1; level <= depth && len(frontier) > 0; level++ {
		var next []seqNode
		var idx atomic.Int64
		var stop atomic.Bool
		var wg sync.WaitGroup
		for g := 0; g < nw; g++ {
			wg.Add(1)
			go func() {
				defer wg.Done()
				var local []seqNode
				for {
					i := int(idx.Add(1)) - 1
					if i >= len(frontier) || stop.Load() {
						break
					}
					if ctx.Expired() || hardViolations.Load() >= 8 {
						stop.Store(true)
						break
					}
					nd := frontier[i]
					for op := 0; op < nOps; op++ {
						if !applicable(op, nd.n) {
							continue
						}
						word := append(append(make([]byte, 0, len(nd.word)+1), nd.word...), byte(op))
						fail, at, key, win := execWord(word, false)
						ctx.Trans(1)
						ctx.Eval(1)
						ctx.Trace(1)
						for _, wf := range win {
							ctx.Count("reorg_window_observations", 1)
							if winShown.Add(1) <= 3 {
								ctx.Violation(sigReorgWindow, "after "+wordString(word[:len(word)-1])+" ; first block of "+opName(op)+" delivered (its parent is not the pool's best block): "+wf,
									replayObj{Part: "seq", Word: word})
							}
						}
						if fail != "" {
							hardViolations.Add(1)
							ctx.Violation("seq", fmt.Sprintf("%s  -- step %d: %s", wordString(word), at+1, fail), replayObj{Part: "seq", Word: word})
							continue
						}
						mu.Lock()
						_, dup := seen[key]
						if !dup {
							seen[key] = struct{}{}
						}
						mu.Unlock()
						if dup {
							continue
						}
						ctx.State(1)
						ctx.Distinct(xplor.Hash("seq", key))
						if level < depth {
							local = append(local, seqNode{word: word, n: nOf(key)})
						}
					}
				}
				mu.Lock()
				next = append(next, local...)
				mu.Unlock()
			}()
		}
		wg.Wait()
		if stop.Load() {
			if hardViolations.Load() < 8 {
				ctx.Incomplete(fmt.Sprintf("seq: deadline inside level %d (levels <= %d complete)", level, levelDone))
			}
			break
		}
		levelDone = level
		ctx.Count(fmt.Sprintf("seq_new_states_level_%d", level), int64(len(next)))
		// deterministic frontier order (representatives may differ between runs,
		// the set of states per level does not)
		sort.Slice(next, func(i, j int) bool { return bytes.Compare(next[i].word, next[j].word) < 0 })
		frontier = next
	}
	ctx.Max("max_seq_depth_completed", int64(levelDone))
	ctx.Sample(map[string]interface{}{"part": "seq", "depth": depth, "alphabet_size": nOps,
		"example_word": wordString([]byte{byte(opPut + txIdx(0, 3, 0)), byte(opPut + txIdx(0, 1, 1)), byte(opPut + txIdx(0, 2, 0)), byte(opAdv + 1), byte(opReorg)})})
}

// ------------------------------------------------------------------ SCHED

const (
	thPut = iota
	thBlock
	thGet
)

type thSpec struct {
	kind int
	arg  int // put: tx index; block: op code (opAdv.. | opReorg..)
}

type scenario struct {
	name    string
	setup   []int
	threads []thSpec
	desc    bool // walk mp.pool in descending account order under the scheduler
}

func (t thSpec) String() string {
	switch t.kind {
	case thPut:
		return "put(" + txName(t.arg) + ")"
	case thBlock:
		return opName(t.arg)
	}
	return "get"
}

func scenarios() []scenario {
	A, B := 0, 1
	P := func(a, n, v int) int { return opPut + txIdx(a, n, v) }
	type fam struct {
		name     string
		setup    []int
		tx1, tx2 int
		blk      int
		twoAcc   bool
	}
	fams := []fam{
		{"adjacent", nil, txIdx(A, 1, 0), txIdx(A, 2, 0), opAdv + 0, false},
		{"same-tx-twice", nil, txIdx(A, 1, 0), txIdx(A, 1, 0), opAdv + 0, false},
		{"same-nonce-two-hashes", nil, txIdx(A, 1, 0), txIdx(A, 1, 1), opAdv + 0, false},
		{"gap-fill", []int{P(A, 3, 0)}, txIdx(A, 1, 0), txIdx(A, 2, 0), opAdv + 0, false},
		{"two-accounts", []int{P(B, 2, 0)}, txIdx(A, 1, 0), txIdx(B, 1, 0), opAdv + 0, true},
		{"stale-by-block+2", []int{P(A, 1, 0)}, txIdx(A, 2, 0), txIdx(A, 3, 0), opAdv + 1, false},
		{"reorg-rewind", []int{P(A, 1, 0), opAdv + 0, P(A, 2, 0)}, txIdx(A, 1, 0), txIdx(A, 3, 0), opReorg + 0, false},
		{"reorg-rewind+other", []int{P(A, 1, 0), opAdv + 0, P(A, 2, 0), P(B, 2, 0)}, txIdx(A, 1, 0), txIdx(B, 1, 0), opReorg + 1, true},
	}
	var out []scenario
	for _, f := range fams {
		p1, p2, bl, g := thSpec{thPut, f.tx1}, thSpec{thPut, f.tx2}, thSpec{thBlock, f.blk}, thSpec{thGet, 0}
		sets := [][]thSpec{{p1, p2, bl}, {p1, p2, g}, {p1, bl, g}, {p2, bl, g}}
		if f.tx1 == f.tx2 {
			sets = sets[:3] // the fourth would repeat the third
		}
		for _, ts := range sets {
			out = append(out, scenario{name: f.name, setup: f.setup, threads: ts})
			if f.twoAcc {
				out = append(out, scenario{name: f.name + "/map-descending", setup: f.setup, threads: ts, desc: true})
			}
		}
	}
	return out
}

func (s scenario) String() string {
	var t []string
	for _, x := range s.threads {
		t = append(t, x.String())
	}
	var su []string
	for _, o := range s.setup {
		su = append(su, opName(o))
	}
	return fmt.Sprintf("%s: setup{%s} threads{%s}", s.name, strings.Join(su, " ; "), strings.Join(t, " || "))
}

// schedRun is one instance of a scenario: fresh pool, prepared blocks, thread
// bodies and the observation slots they fill.
type schedRun struct {
	s      scenario
	w      *world
	told   [][nAcc]uint64 // told[0] = state after setup, told[k] = state of the k-th notification
	start  []bool         // notification k has been handed to the pool
	done   []bool         // notification k has returned
	known  map[int]bool   // transactions that were ever given to the pool
	putRes []string       // per thread
	gets   []getObs
	fails  []string
	winObs []string
}

type getObs struct {
	thread     int
	minState   int   // latest notification that had returned when get started
	maxState   int   // latest notification that had started when get returned
	txs        []int // tx indices in returned order
	unknownTxs int
}

func newSchedRun(s scenario) (*schedRun, []func()) {
	r := &schedRun{s: s, w: newWorld(), known: map[int]bool{}}
	vsync.MapDescending = s.desc
	m := newModel()
	for _, op := range s.setup {
		if f := step(r.w, m, op, nil); f != "" {
			panic("sched setup failed (checked sequentially before the exploration): " + f)
		}
		if op < opRemove {
			r.known[op-opPut] = true
		}
	}
	r.told = append(r.told, r.w.n)
	r.start, r.done = []bool{true}, []bool{true}
	r.putRes = make([]string, len(s.threads))
	var bodies []func()
	for ti, t := range s.threads {
		ti, t := ti, t
		switch t.kind {
		case thPut:
			tx := types.NewTransaction(U.tx[t.arg])
			bodies = append(bodies, func() {
				r.known[t.arg] = true
				r.putRes[ti] = errClass(r.w.mp.VerifC13Put(tx))
			})
		case thBlock:
			var blocks []*types.Block
			if t.arg < opReorg {
				b, n := r.w.advBlock((t.arg-opAdv)/2, (t.arg-opAdv)%2+1)
				blocks = append(blocks, b)
				r.told = append(r.told, n)
			} else {
				c1, c2, n := r.w.reorgBlocks((t.arg-opReorg)/2, (t.arg-opReorg)%2 == 1)
				blocks = append(blocks, c1, c2)
				r.told = append(r.told, n, n)
			}
			for range blocks {
				r.start = append(r.start, false)
				r.done = append(r.done, false)
			}
			bodies = append(bodies, func() {
				for k, b := range blocks {
					r.start[k+1] = true
					if err := r.w.mp.VerifC13Block(b); err != nil {
						r.fails = append(r.fails, "removeOnBlockArrival: "+err.Error())
					}
					r.done[k+1] = true
				}
			})
		case thGet:
			bodies = append(bodies, func() {
				g := getObs{thread: ti}
				for k := range r.done {
					if r.done[k] {
						g.minState = k
					}
				}
				txs, err := r.w.mp.VerifC13Get(maxGet)
				if err != nil {
					r.fails = append(r.fails, "get: "+err.Error())
				}
				for k := range r.start {
					if r.start[k] {
						g.maxState = k
					}
				}
				for _, tx := range txs {
					if ix, ok := U.byID[types.ToTxID(tx.GetHash())]; ok {
						g.txs = append(g.txs, ix)
					} else {
						g.unknownTxs++
					}
				}
				r.gets = append(r.gets, g)
			})
		}
	}
	return r, bodies
}

// runOK reports whether the transactions of account a inside one get result
// are a gap-free ascending run starting at na+1 made of transactions the pool
// was given.
func (r *schedRun) runOK(txs []int, a int, na uint64) bool {
	next := na + 1
	for _, ix := range txs {
		if txAcc(ix) != a {
			continue
		}
		if !r.known[ix] || txNonce(ix) != next {
			return false
		}
		next++
	}
	return true
}

// runIs: runOK for every account against one told state.
func (r *schedRun) runIs(txs []int, n [nAcc]uint64) bool {
	for a := 0; a < nAcc; a++ {
		if !r.runOK(txs, a, n[a]) {
			return false
		}
	}
	return true
}

// judge evaluates one finished execution. Returns (signature, failure) — empty
// failure when everything holds — and the observation string (outcome).
func (r *schedRun) judge(x *vsched.Exec) (sig, fail, obs string) {
	var ob strings.Builder
	for ti, t := range r.s.threads {
		if t.kind == thPut {
			fmt.Fprintf(&ob, "T%d %s=%s; ", ti, t, r.putRes[ti])
		}
	}
	for _, g := range r.gets {
		c := append([]int(nil), g.txs...)
		sort.SliceStable(c, func(i, j int) bool { return txAcc(c[i]) < txAcc(c[j]) })
		fmt.Fprintf(&ob, "T%d get=%s; ", g.thread, names(c))
	}
	final := r.told[len(r.told)-1]
	d := r.w.mp.VerifC13Snapshot()
	key := canon(&d, final)
	ob.WriteString("final{" + key + "}")
	obs = ob.String()

	if x.Deadlock {
		return "sched", "deadlock: no thread can continue; blocked: " + strings.Join(x.Blocked, ", "), obs
	}
	if x.Horizon {
		return "sched", "execution exceeded the step horizon (livelock?)", obs
	}
	if len(x.Panics) > 0 {
		return "sched", "panic in a thread: " + strings.Join(x.Panics, "; "), obs
	}
	if len(r.fails) > 0 {
		return "sched", r.fails[0], obs
	}
	// (b) every get observed mid-run is a gap-free run for a state the pool had
	// been told: any notification that had started before the get returned and
	// is not older than the last one that had returned before the get started.
	for _, g := range r.gets {
		if g.unknownTxs > 0 {
			return "sched", "get returned a transaction that was never submitted", obs
		}
		ok := false
		for k := g.minState; k <= g.maxState; k++ {
			if r.runIs(g.txs, r.told[k]) {
				ok = true
			}
		}
		if ok {
			continue
		}
		desc := fmt.Sprintf("get returned %s, which is not a gap-free ascending run from state nonce+1 for any state the pool had been told at that time (candidates:", names(g.txs))
		for k := g.minState; k <= g.maxState; k++ {
			desc += fmt.Sprintf(" %v", r.told[k])
		}
		desc += ")"
		// known window: only the first block of a reorganisation had been
		// processed, and the result is a run for the state before it
		if r.s.threads[blockThread(r.s)].arg >= opReorg && g.minState <= 1 && g.maxState >= 1 {
			window := true
			for a := 0; a < nAcc; a++ {
				if !r.runOK(g.txs, a, r.told[0][a]) && !r.runOK(g.txs, a, r.told[1][a]) {
					window = false
				}
			}
			if window {
				return sigReorgWindow, desc + " — the get overlaps the window between the two notifications of one reorganisation; per account the result is the run for the state before or after the first of them", obs
			}
		}
		return "sched", desc, obs
	}
	// (a) sequential invariants at quiescence against the last told state
	if f := checkStructure(&d, final); f != "" {
		return "sched", "at quiescence: " + f + "  {" + key + "}", obs
	}
	held := map[int]bool{}
	for _, l := range d.Lists {
		for _, h := range l.Hashes {
			ix := U.byID[types.ToTxID(h)]
			held[ix] = true
			if !r.known[ix] {
				return "sched", "at quiescence the pool holds " + txName(ix) + " which was never submitted", obs
			}
		}
	}
	if l, o := r.w.mp.Size(); l != d.Length || o != d.Orphan {
		return "sched", "Size() differs from the counters", obs
	}
	txs, _ := r.w.mp.VerifC13Get(maxGet)
	var gi []int
	for _, tx := range txs {
		gi = append(gi, U.byID[types.ToTxID(tx.GetHash())])
	}
	if !r.runIs(gi, final) {
		return "sched", "at quiescence get returns " + names(gi) + ", not a gap-free run for state " + fmt.Sprint(final), obs
	}
	nready := 0
	for _, l := range d.Lists {
		nready += l.Ready
	}
	if len(gi) != nready {
		return "sched", fmt.Sprintf("at quiescence get returns %d transactions, the ready prefixes hold %d", len(gi), nready), obs
	}
	// an accepted submission is held until a block makes it stale
	for ti, t := range r.s.threads {
		if t.kind == thPut && r.putRes[ti] == "ok" && txNonce(t.arg) > final[txAcc(t.arg)] && !held[t.arg] {
			return "sched", fmt.Sprintf("at quiescence %s is gone although its submission was accepted and the state nonce of %s is %d  {%s}",
				txName(t.arg), accName[txAcc(t.arg)], final[txAcc(t.arg)], key), obs
		}
	}
	return "", "", obs
}

func blockThread(s scenario) int {
	for i, t := range s.threads {
		if t.kind == thBlock {
			return i
		}
	}
	return 0
}

func schedBound(tier string) int {
	if v := os.Getenv("C13_BOUND"); v != "" {
		var d int
		fmt.Sscan(v, &d)
		return d
	}
	if tier == "thorough" {
		return 3
	}
	return 2
}

func pointsSig(x *vsched.Exec) string {
	var sb strings.Builder
	for _, p := range x.Points {
		fmt.Fprintf(&sb, "%v>%d,", p.Enabled, p.Chosen)
	}
	return sb.String()
}

// engineSelfTest: the scheduler must find the textbook bugs (lock-order
// deadlock, lost update between two scheduling points, read-lock recursion
// across a pending writer) before its silence about the pool means anything.
func engineSelfTest() {
	fail := func(m string) {
		fmt.Fprintln(os.Stderr, "C13 harness error: vsched/vsync self-test failed:", m)
		os.Exit(2)
	}
	// 1. opposite lock order: deadlock needs one preemption
	for bound, want := range []bool{false, true} {
		found := false
		vsched.Explore(bound, func() []func() {
			var a, b vsync.Mutex
			return []func(){
				func() { a.Lock(); b.Lock(); b.Unlock(); a.Unlock() },
				func() { b.Lock(); a.Lock(); a.Unlock(); b.Unlock() },
			}
		}, func(x *vsched.Exec, _ int) bool {
			if x.Deadlock {
				found = true
			}
			return true
		})
		if found != want {
			fail(fmt.Sprintf("lock-order deadlock at bound %d: found=%v", bound, found))
		}
	}
	// 2. lost update: read under lock, write under lock, not atomic together
	outcomes := map[int]bool{}
	var cnt *int
	st := vsched.Explore(1, func() []func() {
		var m vsync.Mutex
		c := 0
		cnt = &c
		inc := func() {
			m.Lock()
			v := c
			m.Unlock()
			m.Lock()
			c = v + 1
			m.Unlock()
		}
		return []func(){inc, inc}
	}, func(x *vsched.Exec, _ int) bool { outcomes[*cnt] = true; return true })
	if !outcomes[1] || !outcomes[2] || st.BoundDone != 1 {
		fail(fmt.Sprintf("lost update outcomes %v", outcomes))
	}
	// 3. recursive RLock with a writer arriving in between deadlocks (Go semantics)
	found := false
	vsched.Explore(1, func() []func() {
		var m vsync.RWMutex
		return []func(){
			func() { m.RLock(); m.RLock(); m.RUnlock(); m.RUnlock() },
			func() { m.Lock(); m.Unlock() },
		}
	}, func(x *vsched.Exec, _ int) bool {
		if x.Deadlock {
			found = true
		}
		return true
	})
	if !found {
		fail("recursive RLock across a pending writer not reported as deadlock")
	}
}

func runSched(ctx *xplor.Ctx) {
	runtime.GOMAXPROCS(1)
	engineSelfTest()
	bound := schedBound(ctx.Tier)
	scs := scenarios()
	for si, s := range scs {
		if !ctx.Mine(si + 1) {
			continue
		}
		// the setup prefix is a SEQ word: judge it with the sequential oracle first
		sw := make([]byte, len(s.setup))
		for i, o := range s.setup {
			sw[i] = byte(o)
		}
		if fail, at, _, _ := execWord(sw, true); fail != "" {
			hardViolations.Add(1)
			ctx.Violation("seq", fmt.Sprintf("%s  -- step %d: %s", wordString(sw), at+1, fail), replayObj{Part: "seq", Word: sw})
			continue
		}
		var cur *schedRun
		mk := func() []func() {
			r, b := newSchedRun(s)
			cur = r
			return b
		}
		outcomes := map[string]int{}
		nexec := int64(0)
		winShown := 0
		visit := func(x *vsched.Exec, b int) bool {
			r := cur
			sig, fail, obs := r.judge(x)
			nexec++
			ctx.Eval(1)
			ctx.Trace(1)
			ctx.Trans(int64(len(x.Points)))
			if _, ok := outcomes[obs]; !ok {
				ctx.Distinct(xplor.Hash("sched", si, obs))
				ctx.State(1)
			}
			outcomes[obs]++
			// determinism: re-run the same schedule and require the same
			// scheduling structure and observations (all executions of bounds
			// 0 and 1, every 16th beyond, and every failing one)
			if b <= 1 || nexec%16 == 0 || fail != "" {
				x2 := vsched.Run(x.Choices(), mk())
				sig2, fail2, obs2 := cur.judge(x2)
				ctx.Count("sched_replays_compared", 1)
				if pointsSig(x) != pointsSig(x2) || obs != obs2 || fail != fail2 || sig != sig2 {
					fmt.Fprintf(os.Stderr, "C13 harness error: schedule %v of scenario %d does not replay identically\n%s\n%s\n", x.Choices(), si, obs, obs2)
					os.Exit(2)
				}
			}
			if fail != "" {
				if sig == sigReorgWindow {
					ctx.Count("reorg_window_observations", 1)
					if winShown++; winShown > 2 {
						return !ctx.Expired()
					}
				} else {
					hardViolations.Add(1)
				}
				ctx.Violation(sig, fmt.Sprintf("scenario %d [%s] schedule %s (%d preemptions): %s  -- observed: %s", si, s, x.Describe(), x.Preemptions(), fail, obs),
					replayObj{Part: "sched", Scn: si, Choices: x.Choices()})
			}
			return !ctx.Expired() && hardViolations.Load() < 8
		}
		st := vsched.Explore(bound, mk, visit)
		ctx.Count("sched_schedules", st.Executions)
		ctx.Count("sched_scenarios", 1)
		ctx.Max("max_sched_points_per_execution", int64(st.MaxPoints))
		ctx.Note(fmt.Sprintf("sched scenario %02d %s: schedules=%d preemption_bound_completed=%d distinct_outcomes=%d", si, s, st.Executions, st.BoundDone, len(outcomes)))
		if st.Stopped {
			if hardViolations.Load() < 8 {
				ctx.Incomplete(fmt.Sprintf("sched scenario %d stopped at preemption bound %d (deadline)", si, st.BoundDone+1))
			}
			return
		}
		ctx.Count(fmt.Sprintf("sched_bound_%d_scenarios_completed", st.BoundDone), 1)
		if len(outcomes) < 2 && hardViolations.Load() == 0 {
			fmt.Fprintf(os.Stderr, "C13 harness error: scenario %d [%s] is vacuous: one observable outcome over %d schedules\n", si, s, st.Executions)
			os.Exit(2)
		}
		if si == 0 {
			ctx.Sample(map[string]interface{}{"part": "sched", "scenario": s.String(), "schedules": st.Executions, "outcomes": len(outcomes)})
		}
	}
}

// ------------------------------------------------------------------ replay and main

func runReplay(ctx *xplor.Ctx) {
	var ro replayObj
	if err := json.Unmarshal(ctx.Replay, &ro); err != nil {
		fmt.Fprintln(os.Stderr, "bad replay object:", err)
		os.Exit(2)
	}
	switch ro.Part {
	case "seq":
		fail, at, _, win := execWord(ro.Word, true)
		for _, wf := range win {
			ctx.Violation(sigReorgWindow, "window after the first block of a reorganisation in "+wordString(ro.Word)+": "+wf, ro)
		}
		if fail != "" {
			ctx.Violation("seq", fmt.Sprintf("%s  -- step %d: %s", wordString(ro.Word), at+1, fail), ro)
		}
	case "sched":
		runtime.GOMAXPROCS(1)
		s := scenarios()[ro.Scn]
		r, bodies := newSchedRun(s)
		x := vsched.Run(ro.Choices, bodies)
		sig, fail, obs := r.judge(x)
		if fail != "" {
			ctx.Violation(sig, fmt.Sprintf("scenario %d [%s] schedule %s (%d preemptions): %s  -- observed: %s", ro.Scn, s, x.Describe(), x.Preemptions(), fail, obs), ro)
		}
	default:
		fmt.Fprintln(os.Stderr, "bad replay part")
		os.Exit(2)
	}
}

func run(ctx *xplor.Ctx) {
	initUniverse()
	if ctx.Replay != nil {
		runReplay(ctx)
		return
	}
	// shard 0 runs the SEQ search (multi-threaded inside, shared visited set);
	// shards 1.. run one SCHED scenario each.
	part := os.Getenv("C13_PART")
	if ctx.Shard == 0 {
		if part == "" || part == "seq" {
			runSeq(ctx)
		}
		return
	}
	if part == "" || part == "sched" {
		runSched(ctx)
	}
}

func main() {
	xplor.Main(xplor.Check{
		ID:    "C13",
		Level: "model_checking",
		Rule: "SEQ: breadth-first search over all words of length <= d (quick 5, thorough 7) over 44 pool operations " +
			"(put of 16 txs = 2 accounts x nonce 1..4 x 2 hashes; removeTx of each; block advancing A|B by 1|2; reorganisation rewinding A|B by 1, optionally advancing the other; evict with A|B|none aged; unconfirmed([A,B])) " +
			"on the real MemPool over a real state DB; each transition = the word replayed on a fresh pool; after every transition the whole pool (lists, ready prefixes, hash index, counters) and every query " +
			"(get, listHash, exist x16, Size, Statistics, getUnconfirmed x2) is compared with a plain-Go model; states are merged by a canonical rendering of the pool's complete bookkeeping + told state nonces. " +
			"SCHED: 39 scenarios (8 collision families x the 4 (3 when tx1 = tx2) choices of 3 threads out of put(tx1), put(tx2), block/reorg notification, get; the two-account families in both walk orders of the account map), every schedule with <= 2 (thorough 3) preemptions over the scheduling points " +
			"= every sync.Mutex/RWMutex/Map/atomic operation of packages mempool and state/statedb (import rewrite to vsync); deadlock, panics, every mid-run get and the bookkeeping at quiescence are judged. " +
			"states = SEQ distinct canonical pool states + SCHED distinct outcomes per scenario; transitions = SEQ transitions + SCHED scheduling steps; traces = executions of the real code (one per SEQ transition, one per schedule). " +
			"distinct_nontrivial = distinct canonical pool states reached by SEQ (every one differs in pool content, counters or state nonces) + distinct observable outcomes (put answers, get results, final bookkeeping) per SCHED scenario.",
		Assumptions: []string{
			"mp.put/get/removeOnBlockArrival/removeTx/evictTransactions/getUnconfirmed are called directly (the actor mailbox and the TxVerifier actor are not run); signature verification (verifyTx) is not on the explored path — the 16 alphabet transactions are really signed and each passes mp.verifyTx once at start",
			"fee.EnableZeroFee (NewMemPoolService without chain service, as in the package's own tests); balances are ample, so no transaction is ever unaffordable",
			"state roots are written by the harness (account nonce/balance only); blocks are not executed, the notification carries the root and the transactions",
			"eviction time is owned: evictPeriod 1h via config, lists are aged by setting lastTime to the epoch, evictWorkTimeout raised to 1h so the wall-clock cut-off cannot fire",
			"SCHED sees interleavings at the granularity of sync operations of mempool and state/statedb; unsynchronised accesses between two scheduling points of one thread execute atomically; sync.Map.Range is one snapshot",
			"SEQ state merging: same canonical bookkeeping => same futures, because block ids are only compared for equality with ids the harness supplies, the hardfork version is constant (all forks enabled at 0) and list timestamps only matter through the aged/fresh class",
		},
		Shards: func(tier string) int { return 1 + len(scenarios()) },
		Budget: func(tier string) time.Duration {
			if tier == "thorough" {
				return 24 * time.Minute
			}
			return 5 * time.Minute
		},
		Run: run,
	})
}
