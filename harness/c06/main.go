// C06: crash recovery - every crash point leaves a recoverable, consistent chain.
//
// For a scenario (a block tree built by real execution + a delivery order) the
// uncrashed run is journalled: every durable write unit (single set/delete,
// committed DB transaction, flushed bulk) issued to the chain store and the
// state store, in issue order. For EVERY prefix of that journal (and for every
// proper prefix of the op list of a bulk) the two stores are rebuilt, a node is
// started on them (NewChainService incl. ChainDB.recover, consensus, Recover)
// and the oracles are applied; then all blocks are delivered again and the
// result is compared with the uncrashed run.
package main

import (
	"encoding/json"
	"fmt"
	"os"
	"path/filepath"
	"strconv"
	"strings"
	"time"

	"github.com/aergoio/aergo-lib/db"
	"github.com/aergoio/aergo/v2/types"
	"github.com/aergoio/aergo/v2/types/dbkey"
	fx "github.com/aergoio/aergo/v2/verif_h/forkx"
	nk "github.com/aergoio/aergo/v2/verif_h/nodekit"
	"github.com/aergoio/aergo/v2/verif_h/xplor"
)

type scen struct {
	Tree  fx.Scenario `json:"tree"`
	Order []int       `json:"order"`
	// Produce: the node builds the blocks itself (real block-production path) and connects them
	// through the commit-only path of addBlock, instead of receiving them from the network
	Produce bool `json:"produce,omitempty"`
}

type crashPoint struct {
	Units   int `json:"units"`   // complete journal units applied
	Partial int `json:"partial"` // ops of the next unit (a bulk) applied in addition
}

type replay struct {
	Sc    scen       `json:"scenario"`
	Crash crashPoint `json:"crash"`
	Inner int        `json:"inner"` // crash point inside the recovery run (-1 none)
}

func perms(n int) [][]int {
	var out [][]int
	var rec func(cur []int, used []bool)
	rec = func(cur []int, used []bool) {
		if len(cur) == n {
			out = append(out, append([]int{}, cur...))
			return
		}
		for i := 1; i <= n; i++ {
			if !used[i] {
				used[i] = true
				rec(append(cur, i), used)
				used[i] = false
			}
		}
	}
	rec(nil, make([]bool, n+1))
	return out
}

func scenarios(tier string) []scen {
	var out []scen
	m := 4
	if tier == "thorough" {
		m = 5
	}
	for _, p := range fx.Trees(m, 2) {
		n := len(p)
		sc := fx.Scenario{Parents: p, Flavour: "tx"}
		ps := perms(n)
		if tier != "thorough" || n == 5 {
			// index order, reverse order (children before parents), and one rotation
			var sel [][]int
			sel = append(sel, ps[0], ps[len(ps)-1], ps[len(ps)/2])
			ps = sel
		}
		seen := map[string]bool{}
		for _, o := range ps {
			k := fmt.Sprint(o)
			if !seen[k] {
				seen[k] = true
				out = append(out, scen{Tree: sc, Order: o})
			}
		}
	}
	// the node as block producer (linear chains), and contract-storage blocks received from the network
	for _, l := range []int{2, 3} {
		var par, ord []int
		for i := 0; i < l; i++ {
			par = append(par, i)
			ord = append(ord, i+1)
		}
		for _, fl := range []string{"tx", "ctr"} {
			out = append(out, scen{Tree: fx.Scenario{Parents: par, Flavour: fl}, Order: ord, Produce: true})
		}
		out = append(out, scen{Tree: fx.Scenario{Parents: par, Flavour: "ctr"}, Order: ord})
	}
	out = append(out, scen{Tree: fx.Scenario{Parents: []int{0, 0, 2}, Flavour: "ctr"}, Order: []int{1, 2, 3}})
	return out
}

// feed hands block i to the node: from the network, or produced by the node itself.
func feed(n *nk.Node, t *fx.Tree, sc scen, i int) {
	if !sc.Produce {
		_ = n.Deliver(t.Blocks[i].Block)
		return
	}
	b := t.Blocks[i]
	best := n.Best()
	if best.ID() != t.Blocks[b.Parent].Block.ID() {
		// not the next block of the chain (re-delivery after recovery when nothing was lost, or
		// recovery ended on an earlier block): hand the finished block over as a network block
		_ = n.Deliver(b.Block)
		return
	}
	built, err := n.Produce(best, b.Block.GetBody().GetTxs(), b.Idx%n.Net.NBP, b.Idx, 1)
	if err != nil {
		panic(fmt.Sprintf("produce block %d: %v", i, err))
	}
	if built.Block.ID() != b.Block.ID() {
		panic(fmt.Sprintf("harness: block %d produced on the node differs from the builder's block", i))
	}
	_ = n.ConnectProduced(built)
}

type golden struct {
	t       *fx.Tree
	snap0   *nk.Stores
	journal []db.VerifUnit
	bounds  []int    // journal length after delivery j
	bests   []string // best id before delivery 0, after delivery 0, ...
	final   string   // final best id
	fdump   string   // canonical final state dump
	fdpos   string
	name    string
}

var seq int

func record(net nk.Net, sc scen) (*golden, error) {
	t, err := fx.Build(net, sc.Tree)
	if err != nil {
		return nil, err
	}
	seq++
	g := &golden{t: t, name: fmt.Sprintf("crash%d", seq)}
	n, err := nk.NewNode(net, g.name)
	if err != nil {
		return nil, err
	}
	g.snap0 = n.SaveStores()
	g.bests = append(g.bests, n.Best().ID())
	db.VerifJournalStart()
	for _, i := range sc.Order {
		feed(n, t, sc, i)
		g.bounds = append(g.bounds, db.VerifJournalLen())
		g.bests = append(g.bests, n.Best().ID())
	}
	g.journal = db.VerifJournalStop()
	// the reference continues exactly like the crashed runs do after recovery: the same
	// blocks are fed again, twice (a second round connects blocks whose parents arrived
	// later in the order and orphans that were dropped because their slot was taken)
	for r := 0; r < 2; r++ {
		for _, i := range sc.Order {
			feed(n, t, sc, i)
		}
	}
	g.final = n.Best().ID()
	d, err := n.DumpState(n.CS.SDB().GetRoot())
	if err != nil {
		return nil, err
	}
	g.fdump = d.Canon()
	g.fdpos = libOf(n)
	n.Stop()
	return g, nil
}

// storesAt rebuilds the two stores as they are after crash point cp.
func (g *golden) storesAt(cp crashPoint, extra []db.VerifUnit, ecp crashPoint) *nk.Stores {
	st := &nk.Stores{Chain: map[string][]byte{}, State: map[string][]byte{}}
	for k, v := range g.snap0.Chain {
		st.Chain[k] = v
	}
	for k, v := range g.snap0.State {
		st.State[k] = v
	}
	apply := func(u db.VerifUnit, nops int) {
		m := st.State
		if filepath.Base(u.Store) == "chain" {
			m = st.Chain
		}
		for i := 0; i < nops; i++ {
			op := u.Ops[i]
			if op.Del {
				delete(m, op.Key)
			} else {
				m[op.Key] = op.Val
			}
		}
	}
	for i := 0; i < cp.Units; i++ {
		apply(g.journal[i], len(g.journal[i].Ops))
	}
	if cp.Partial > 0 {
		apply(g.journal[cp.Units], cp.Partial)
	}
	for i := 0; i < ecp.Units; i++ {
		apply(extra[i], len(extra[i].Ops))
	}
	if ecp.Partial > 0 {
		apply(extra[ecp.Units], ecp.Partial)
	}
	return st
}

// deliveryOf returns the index j of the delivery during which the crash happens.
func (g *golden) deliveryOf(cp crashPoint) int {
	for j, b := range g.bounds {
		if cp.Units < b || (cp.Units == b && cp.Partial == 0) {
			return j
		}
	}
	return len(g.bounds) - 1
}

// crashOnce starts a node on the stores of a crash point and applies the oracles.
// When innerJournal is requested the recovery run itself is journalled and returned.
func crashOnce(ctx *xplor.Ctx, net nk.Net, sc scen, g *golden, st *nk.Stores, cp crashPoint, journalRecovery bool) (msg string, rec []db.VerifUnit) {
	// core.init ends the process (logger.Fatal) when the block the latest pointer names cannot be
	// loaded; that exit cannot be caught in-process, so this one condition is evaluated on the
	// crashed store before the node is started
	if lb := st.Chain[string(dbkey.LatestBlock())]; len(lb) > 0 {
		no := types.BlockNoFromBytes(lb)
		h := st.Chain[string(types.BlockNoToBytes(no))]
		if len(h) == 0 || len(st.Chain[string(h)]) == 0 {
			return fmt.Sprintf("restart impossible: the latest pointer names height %d but the height index has no loadable block there (the node exits with 'failed to load latest block from DB')", no), nil
		}
	}
	dirC, dirS := filepath.Join(nk.BaseDir(), g.name, "chain"), filepath.Join(nk.BaseDir(), g.name, "state")
	db.VerifRestore(dirC, st.Chain)
	db.VerifRestore(dirS, st.State)
	if journalRecovery {
		db.VerifJournalStart()
	}
	var n *nk.Node
	var err error
	func() {
		defer func() {
			if r := recover(); r != nil {
				err = fmt.Errorf("panic during restart: %v", r)
			}
		}()
		n, err = nk.NewNode(net, g.name)
	}()
	if journalRecovery {
		rec = db.VerifJournalStop()
	}
	if n != nil {
		defer n.Stop()
	}
	if err != nil {
		return fmt.Sprintf("restart/recovery fails: %v", err), rec
	}
	// coherent chain DB (all C05 invariants)
	post := &fx.Obs{}
	if m := fx.CheckDB(g.t, n, post); m != "" {
		return "after recovery: " + m, rec
	}
	// state root of the best block is available (the whole state is readable)
	best := n.Best()
	if _, err := n.DumpState(best.GetHeader().GetBlocksRootHash()); err != nil {
		return fmt.Sprintf("after recovery the state of the best block %d is not readable: %v", best.BlockNo(), err), rec
	}
	if !n.CS.SDB().GetStateDB().HasMarker(best.GetHeader().GetBlocksRootHash()) && best.BlockNo() > 0 {
		return fmt.Sprintf("after recovery the state marker of the best block %d is missing", best.BlockNo()), rec
	}
	if n.CS.VerifReorgMarker() {
		return "after recovery the reorg marker is still present", rec
	}
	// best is one the node had legitimately reached or was about to reach
	j := g.deliveryOf(cp)
	if id := best.ID(); id != g.bests[j] && id != g.bests[j+1] && !g.between(g.bests[j], g.bests[j+1], id) {
		return fmt.Sprintf("after recovery best is block %d, expected the tip before (%d) or after (%d) delivery #%d", idx(g, id), idx(g, g.bests[j]), idx(g, g.bests[j+1]), j), rec
	}
	// feeding the same blocks again gives the uncrashed final state
	for _, i := range sc.Order {
		feed(n, g.t, sc, i)
	}
	for _, i := range sc.Order { // a second round connects blocks whose parents arrived later in the order
		feed(n, g.t, sc, i)
	}
	if m := fx.CheckDB(g.t, n, post); m != "" {
		return "after recovery and re-delivery: " + m, rec
	}
	fb := n.Best()
	gf := g.t.ByID[g.final]
	if b, ok := g.t.ByID[fb.ID()]; !ok || b.Height != gf.Height {
		m := fmt.Sprintf("after recovery and re-delivery best is block %d, the uncrashed run ends at block %d", idx(g, fb.ID()), gf.Idx)
		if b, ok := g.t.ByID[fb.ID()]; ok && b.Height < gf.Height {
			if _, err := n.CS.VerifGetBlock(gf.Block.BlockHash()); err == nil {
				// the longer branch is completely stored (as a side branch) but re-delivered blocks are
				// dropped as "already connected", so the reorganisation is never attempted again
				return "F20|" + m + " although that block is stored", rec
			}
		}
		return m, rec
	}
	d, err := n.DumpState(n.CS.SDB().GetRoot())
	if err != nil {
		return "after re-delivery state unreadable: " + err.Error(), rec
	}
	if fb.ID() == g.final {
		if d.Canon() != g.fdump {
			return "after recovery and re-delivery the world state differs from the uncrashed run", rec
		}
		if s := libOf(n); s != g.fdpos {
			return fmt.Sprintf("after recovery and re-delivery the irreversible block differs from the uncrashed run: %s vs %s", s, g.fdpos), rec
		}
	}
	return "", rec
}

// between: when the delivery extended the main chain by several blocks (orphans
// connected one after the other inside one addBlock), every block on the way from
// the old tip to the new tip was legitimately the best block for a moment.
func (g *golden) between(oldID, newID, id string) bool {
	o, n, x := g.t.ByID[oldID], g.t.ByID[newID], g.t.ByID[id]
	if o == nil || n == nil || x == nil {
		return false
	}
	onPath := false
	for i := n.Idx; i >= 0; i = g.t.Blocks[i].Parent {
		if i == x.Idx {
			onPath = true
		}
		if i == o.Idx {
			return onPath // old tip is an ancestor of the new tip and x lies in between
		}
		if i == 0 {
			break
		}
	}
	return false
}

func libOf(n *nk.Node) string {
	h, no := n.DPoS.VerifLIB()
	return fmt.Sprintf("%d/%s", no, h)
}

func idx(g *golden, id string) int {
	if b, ok := g.t.ByID[id]; ok {
		return b.Idx
	}
	return -1
}

func points(j []db.VerifUnit) []crashPoint {
	var out []crashPoint
	for k := 0; k <= len(j); k++ {
		out = append(out, crashPoint{k, 0})
		if k < len(j) && j[k].Kind == "bulk" {
			for p := 1; p < len(j[k].Ops); p++ {
				out = append(out, crashPoint{k, p})
			}
		}
	}
	return out
}

func runScenario(ctx *xplor.Ctx, net nk.Net, sc scen, only *replay) {
	g, err := record(net, sc)
	if err != nil {
		panic(fmt.Sprintf("%v: %v", sc, err))
	}
	defer func() {
		db.VerifDrop(filepath.Join(nk.BaseDir(), g.name))
	}()
	ctx.Count("journal_units", int64(len(g.journal)))
	// a second crash inside the recovery run: in both tiers (quick has fewer scenarios, not fewer crash points)
	deep := true
	for _, cp := range points(g.journal) {
		if only != nil && only.Crash != cp {
			continue
		}
		if ctx.Expired() {
			return
		}
		st := g.storesAt(cp, nil, crashPoint{})
		msg, rec := crashOnce(ctx, net, sc, g, st, cp, deep || (only != nil && only.Inner >= 0))
		ctx.Eval(1)
		ctx.Count("crash_points", 1)
		if cp.Partial > 0 {
			ctx.Count("torn_bulk_points", 1)
		}
		if msg != "" && (only == nil || only.Inner < 0) {
			sig := ""
			if strings.HasPrefix(msg, "F20|") {
				sig, msg = "F20", msg[4:]
			}
			ctx.Violation(sig, fmt.Sprintf("%v order %v crash after %d units+%d ops of %d: %s", sc.Tree, sc.Order, cp.Units, cp.Partial, len(g.journal), msg), replay{sc, cp, -1})
			continue
		}
		ctx.Distinct(xplor.Hash(fmt.Sprint(sc), cp.Units, cp.Partial))
		// crash inside the recovery run (depth 2)
		if len(rec) > 0 {
			ips := points(rec)
			for ii, ip := range ips {
				if ii == len(ips)-1 {
					break // complete recovery = the case above
				}
				if only != nil && only.Inner != ii {
					continue
				}
				st2 := g.storesAt(cp, rec, ip)
				msg, _ := crashOnce(ctx, net, sc, g, st2, cp, false)
				ctx.Eval(1)
				ctx.Count("crash_in_recovery_points", 1)
				if msg != "" {
					sig := ""
					if strings.HasPrefix(msg, "F20|") {
						sig, msg = "F20", msg[4:]
					}
					ctx.Violation(sig, fmt.Sprintf("%v order %v crash after %d units+%d ops, then a second crash after %d+%d units of the recovery: %s", sc.Tree, sc.Order, cp.Units, cp.Partial, ip.Units, ip.Partial, msg), replay{sc, cp, ii})
				}
			}
		}
	}
	ctx.Count("scenarios", 1)
}

func run(ctx *xplor.Ctx) {
	defer nk.Cleanup()
	net := nk.DefaultNet()
	if ctx.Replay != nil {
		var r replay
		if err := json.Unmarshal(ctx.Replay, &r); err != nil {
			panic(err)
		}
		runScenario(ctx, net, r.Sc, &r)
		return
	}
	limit, _ := strconv.Atoi(os.Getenv("VERIF_LIMIT"))
	scs := scenarios(ctx.Tier)
	done := 0
	for i, sc := range scs {
		if !ctx.Mine(i) || ctx.Expired() {
			continue
		}
		if limit > 0 && done >= limit {
			ctx.Incomplete("VERIF_LIMIT")
			break
		}
		done++
		runScenario(ctx, net, sc, nil)
		if i == 5 {
			ctx.Sample(map[string]interface{}{"tree": sc.Tree, "delivery_order": sc.Order, "what": "every prefix of the durable-write journal of this run (and every partial flush of each bulk) -> restart -> recovery -> invariants -> re-delivery"})
		}
	}
}

func main() {
	xplor.Main(xplor.Check{
		ID:    "C06",
		Level: "fault_enumeration",
		Rule:  "scenario = block tree (<= 4 / 5 blocks, <= 2 leaves, blocks carry shared and conflicting txs) x delivery order (index order, reverse order, one rotation; thorough: every permutation for <= 4 blocks); the uncrashed run is journalled (every Set/Delete, Tx.Commit, Bulk.Flush on the chain store and the state store, in issue order); crash point = every journal prefix + every proper prefix of the op list of each bulk (torn bulk); additionally, for every crash point whose recovery writes anything, every crash point of the recovery run itself (second crash). distinct_nontrivial = distinct (scenario, crash point) whose restart passed all oracles",
		Assumptions: []string{
			"a committed DB transaction is atomic and a bulk is flushed in issue order (badger/leveldb are the trusted base); writes of the single chain goroutine reach the two stores in issue order",
			"the op order inside a state-store bulk follows a Go map walk and differs between runs: the replay record stores the crash point by position, so a replay explores the same position of a freshly recorded journal",
		},
		Shards: func(tier string) int { return 48 },
		Budget: func(tier string) time.Duration {
			if tier == "thorough" {
				return 25 * time.Minute
			}
			return 6 * time.Minute
		},
		Run: run,
	})
}
