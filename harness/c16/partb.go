// C16 part B: membership change requests.
//
// For every cluster of n <= 5 applied members (plus 0..2 previously removed
// members), every health vector the leader's raft Status can express and every
// add / remove request, the real request path
//
//	BlockFactory.MakeConfChangeProposal -> Cluster.makeProposal ->
//	validateChangeMembership -> isEnableChangeMembership -> GetClusterProgress
//
// is executed (the raft node is a fake whose Status() the harness sets) and
// compared with an independent statement of the rule in the property. The
// apply path (validateChangeMembership as called for a committed conf-change
// entry, where the member id is given) is enumerated as well.
package main

import (
	"fmt"

	"github.com/aergoio/aergo/v2/consensus"
	"github.com/aergoio/aergo/v2/consensus/impl/raftv2"
	"github.com/aergoio/aergo/v2/types"
	"github.com/aergoio/aergo/v2/verif_h/xplor"
	raftlib "github.com/aergoio/etcd/raft"
	"github.com/aergoio/etcd/raft/raftpb"
)

// health classes of a follower as the leader's Status expresses them
const (
	hHealthy  = iota // replicating, match = leader's last index
	hLagging         // replicating, 50 entries behind (inside the slow-node gap): healthy
	hSlowGap         // replicating, 1000 entries behind (beyond the gap): slow
	hSlowProb        // probing: slow
	hSyncing         // receiving a snapshot: syncing
	nHealth
)

var healthNames = []string{"healthy", "lagging50", "slow1000", "probe", "snapshot"}

func isHealthyClass(c int) bool { return c == hHealthy || c == hLagging }

const leaderLast = 5000

func progressOf(c int) raftlib.Progress {
	switch c {
	case hHealthy:
		return raftlib.Progress{Match: leaderLast, Next: leaderLast + 1, State: raftlib.ProgressStateReplicate, RecentActive: true}
	case hLagging:
		return raftlib.Progress{Match: leaderLast - 50, Next: leaderLast + 1, State: raftlib.ProgressStateReplicate, RecentActive: true}
	case hSlowGap:
		return raftlib.Progress{Match: leaderLast - 1000, Next: leaderLast - 999, State: raftlib.ProgressStateReplicate, RecentActive: true}
	case hSlowProb:
		return raftlib.Progress{Match: leaderLast, Next: leaderLast + 1, State: raftlib.ProgressStateProbe}
	default:
		return raftlib.Progress{Match: 0, Next: 1, State: raftlib.ProgressStateSnapshot, PendingSnapshot: leaderLast}
	}
}

// attribute universe: members 1..5, removed 6..7, fresh 8, all distinct
func mName(i int) string { return fmt.Sprintf("node%d", i) }
func mAddr(i int) string { return fmt.Sprintf("/ip4/10.0.0.%d/tcp/7846", i) }
func mPeer(i int) []byte { return peerID(i) }
func mID(i int) uint64   { return uint64(100 + i) }

func mkMember(i int) *consensus.Member {
	return &consensus.Member{MemberAttr: types.MemberAttr{ID: mID(i), Name: mName(i), Address: mAddr(i), PeerID: mPeer(i)}}
}

const (
	firstRemoved = 6
	freshIdx     = 8
	unknownID    = 999
)

// breq is one case of part B (and its replay format).
type breq struct {
	N      int   `json:"n"`                // applied members 1..N (member 1 = this node)
	R      int   `json:"r"`                // removed members 6..5+R
	Leader int   `json:"leader"`           // 1 = this node leads, 0 = another node leads, 2 = leader but raft status not initialised
	Health []int `json:"health,omitempty"` // class per member 1..N (entry 0 = the leader's own progress entry)
	Path   int   `json:"path"`             // 0 = request path, 1 = apply path (validateChangeMembership with a given id)
	Add    bool  `json:"add"`
	ID     int   `json:"id,omitempty"`   // universe index whose id is used (0 = id 0, -1 = unknown id); request-path adds get a fresh id from the code
	Name   int   `json:"name,omitempty"` // universe index whose name is used (0 = empty)
	Addr   int   `json:"addr,omitempty"`
	Peer   int   `json:"peer,omitempty"`
}

func (q breq) String() string {
	hv := ""
	for i, c := range q.Health {
		if i > 0 {
			hv += ","
		}
		hv += healthNames[c]
	}
	ctxs := fmt.Sprintf("this node=%s health[%s] request path", []string{"follower", "leader", "leader(status empty)"}[q.Leader], hv)
	if q.Path == 1 {
		ctxs = "apply path (validateChangeMembership on a committed conf change)"
	}
	if q.Add {
		id := "assigned-by-code"
		if q.Path == 1 {
			id = uni(q.ID)
		}
		return fmt.Sprintf("cluster{members 1..%d, removed members %d} %s: ADD{id:%s name:%s addr:%s peer:%s}", q.N, q.R, ctxs, id, uni(q.Name), uni(q.Addr), uni(q.Peer))
	}
	return fmt.Sprintf("cluster{members 1..%d, removed members %d} %s: REMOVE{id:%s}", q.N, q.R, ctxs, uni(q.ID))
}

func uni(i int) string {
	switch {
	case i == -1:
		return "unknown"
	case i == 0:
		return "none"
	case i < firstRemoved:
		return fmt.Sprintf("of-member%d", i)
	case i < freshIdx:
		return fmt.Sprintf("of-removed%d", i)
	}
	return "fresh"
}

func idOf(i int) uint64 {
	switch i {
	case -1:
		return unknownID
	case 0:
		return 0
	}
	return mID(i)
}

type clusterEnv struct {
	n, r int
	env  *raftv2.VerifC16Env
}

// buildCluster makes the cluster through the real add/remove functions:
// members 1..n applied, members 6..5+r applied and then removed.
func buildCluster(n, r int) *clusterEnv {
	cl := raftv2.NewCluster([]byte("c16-chain"), nil, mName(1), types.PeerID(mPeer(1)), 0, nil)
	for i := 1; i <= n; i++ {
		if err := raftv2.VerifC16AddMember(cl, mkMember(i), true); err != nil {
			panic(err)
		}
	}
	for j := 0; j < r; j++ {
		m := mkMember(firstRemoved + j)
		if err := raftv2.VerifC16AddMember(cl, m, true); err != nil {
			panic(err)
		}
		if err := raftv2.VerifC16RemoveMember(cl, m); err != nil {
			panic(err)
		}
	}
	cl.SetNodeID(mID(1))
	return &clusterEnv{n: n, r: r, env: raftv2.VerifC16NewEnv(cl, leaderLast)}
}

// verdicts of the reference
const (
	vAccept      = iota
	vMustRefuse  // a reason stated in the property
	vOtherRefuse // a reason the property does not speak about (code's own extra guard): not judged
)

// reference states the property's rule; reason is for the report.
func reference(q breq) (int, string) {
	applied := func(i int) bool { return i >= 1 && i <= q.N }
	removed := func(i int) bool { return i >= firstRemoved && i < firstRemoved+q.R }
	if q.Path == 0 {
		if q.Leader == 0 {
			return vOtherRefuse, "not the leader"
		}
	}
	if q.Add {
		if q.Path == 1 {
			if applied(q.ID) {
				return vMustRefuse, "duplicates the id of a member"
			}
			if removed(q.ID) {
				return vMustRefuse, "re-adds a removed member"
			}
		}
		if applied(q.Name) {
			return vMustRefuse, "duplicates the name of a member"
		}
		if applied(q.Addr) {
			return vMustRefuse, "duplicates the address of a member"
		}
		if applied(q.Peer) {
			return vMustRefuse, "duplicates the peer id of a member"
		}
		if q.Name == 0 || q.Addr == 0 || q.Peer == 0 || (q.Path == 1 && q.ID == 0) {
			return vOtherRefuse, "incomplete member attributes"
		}
		if q.Path == 0 {
			if q.Leader == 2 {
				return vOtherRefuse, "raft status empty"
			}
			for i, c := range q.Health {
				if i > 0 && !isHealthyClass(c) { // entry 0 = the leader itself, healthy by definition
					return vOtherRefuse, "unhealthy member present (code refuses every add then)"
				}
			}
		}
		return vAccept, ""
	}
	// remove
	if !applied(q.ID) {
		if removed(q.ID) {
			return vMustRefuse, "removes an already removed (unknown) member"
		}
		return vMustRefuse, "removes an unknown member"
	}
	if q.Path == 1 {
		return vAccept, ""
	}
	if q.Leader == 2 {
		return vOtherRefuse, "raft status empty"
	}
	// this node (member 1) is the leader and counts as healthy whatever its own progress entry says
	healthy := 0
	for i, c := range q.Health {
		if i == 0 || isHealthyClass(c) {
			healthy++
		}
	}
	targetHealthy := q.ID == 1 || isHealthyClass(q.Health[q.ID-1])
	if targetHealthy {
		remaining, quorum := healthy-1, (q.N-1)/2+1
		if remaining < quorum {
			return vMustRefuse, fmt.Sprintf("removes a healthy node leaving %d healthy of %d (quorum %d)", remaining, q.N-1, quorum)
		}
	}
	return vAccept, ""
}

// execute runs the real code on the case.
func (ce *clusterEnv) execute(q breq) (err error) {
	defer func() {
		if r := recover(); r != nil {
			err = fmt.Errorf("panic: %v", r)
		}
	}()
	e := ce.env
	if q.Path == 0 {
		st := raftlib.Status{ID: mID(1), Progress: map[uint64]raftlib.Progress{}}
		st.Lead, st.RaftState = mID(1), raftlib.StateLeader
		if q.Leader == 2 {
			st.ID = 0
		}
		for i, c := range q.Health {
			st.Progress[mID(i+1)] = progressOf(c)
		}
		e.Node.St = st
		lead := mID(1)
		if q.Leader == 0 {
			lead = unknownID
			e.Node.St.Progress = nil // a follower's status carries no progress
			e.Node.St.Lead, e.Node.St.RaftState = lead, raftlib.StateFollower
		}
		e.VerifC16SetLeader(2, lead)
		req := &types.MembershipChange{RequestID: 77}
		if q.Add {
			req.Type = types.MembershipChangeType_ADD_MEMBER
			req.Attr = &types.MemberAttr{}
			if q.Name != 0 {
				req.Attr.Name = mName(q.Name)
			}
			if q.Addr != 0 {
				req.Attr.Address = mAddr(q.Addr)
			}
			if q.Peer != 0 {
				req.Attr.PeerID = mPeer(q.Peer)
			}
		} else {
			req.Type = types.MembershipChangeType_REMOVE_MEMBER
			req.Attr = &types.MemberAttr{ID: idOf(q.ID)}
		}
		_, err = e.BF.MakeConfChangeProposal(req)
		return err
	}
	m := &consensus.Member{MemberAttr: types.MemberAttr{ID: idOf(q.ID)}}
	cc := &raftpb.ConfChange{ID: 77, NodeID: idOf(q.ID), Type: raftpb.ConfChangeRemoveNode}
	if q.Add {
		cc.Type = raftpb.ConfChangeAddNode
		if q.Name != 0 {
			m.Name = mName(q.Name)
		}
		if q.Addr != 0 {
			m.Address = mAddr(q.Addr)
		}
		if q.Peer != 0 {
			m.PeerID = mPeer(q.Peer)
		}
	}
	return raftv2.VerifC16Validate(e.Cl, cc, m)
}

var notes int

// judge executes q and compares; "" = held.
func (ce *clusterEnv) judge(ctx *xplor.Ctx, q breq) string {
	err := ce.execute(q)
	ctx.Eval(1)
	want, why := reference(q)
	if err != nil && len(err.Error()) > 6 && err.Error()[:6] == "panic:" {
		return fmt.Sprintf("%s => %v", q, err)
	}
	switch want {
	case vMustRefuse:
		ctx.Count("b_must_refuse", 1)
		if err == nil {
			return fmt.Sprintf("%s => ACCEPTED, but the request %s", q, why)
		}
	case vAccept:
		if err != nil {
			// the property only says when a change must be refused; a refusal the
			// reference cannot explain is reported in the evidence, not as a violation
			ctx.Count("b_unexplained_refusals", 1)
			if notes++; notes <= 3 {
				ctx.Note(fmt.Sprintf("unexplained refusal (not judged): %s => %v", q, err))
			}
		} else {
			ctx.Count("b_accepted", 1)
		}
	case vOtherRefuse:
		if err == nil {
			ctx.Count("b_accepted_where_code_guard_expected", 1)
		} else {
			ctx.Count("b_refused_outside_property", 1)
		}
	}
	if q.Path == 0 && q.Add && err == nil && q.Name >= firstRemoved && q.Name < freshIdx && q.Name == q.Addr && q.Name == q.Peer {
		// observation, see NOTES: a removed node's name+address+peer id under a new raft id is a new member for the code
		ctx.Count("b_removed_attrs_readded_under_new_id", 1)
	}
	return ""
}

func (ce *clusterEnv) do(ctx *xplor.Ctx, q breq) {
	if msg := ce.judge(ctx, q); msg != "" {
		ctx.Violation(sigB(q), msg, replay{Part: "B", B: &q})
		return
	}
	ctx.Distinct(xplor.Hash("B", fmt.Sprint(q)))
}

func sigB(q breq) string { return "" }

// healthVectors enumerates all vectors for n members over the first k classes.
func healthVectors(n int, classes []int, f func([]int)) {
	v := make([]int, n)
	var rec func(i int)
	rec = func(i int) {
		if i == n {
			f(append([]int{}, v...))
			return
		}
		cs := classes
		if i == 0 { // the leader's own entry: replicate or probe, must not matter
			cs = []int{hHealthy, hSlowProb}
		}
		for _, c := range cs {
			v[i] = c
			rec(i + 1)
		}
	}
	rec(0)
}

func exploreB(ctx *xplor.Ctx, maxN int, classes []int) {
	idx := 0
	for n := 1; n <= maxN; n++ {
		for r := 0; r <= 2; r++ {
			var ce *clusterEnv
			get := func() *clusterEnv {
				if ce == nil {
					ce = buildCluster(n, r)
				}
				return ce
			}
			// universe indices an attribute can take: empty, each member, each removed, fresh
			var attr []int
			attr = append(attr, 0)
			for i := 1; i <= n; i++ {
				attr = append(attr, i)
			}
			for j := 0; j < r; j++ {
				attr = append(attr, firstRemoved+j)
			}
			attr = append(attr, freshIdx)
			ids := append([]int{-1}, attr...)

			// apply path: independent of health
			idx++
			if ctx.Mine(idx) && !ctx.Expired() {
				for _, id := range ids {
					get().do(ctx, breq{N: n, R: r, Path: 1, Add: false, ID: id})
					for _, nm := range attr {
						for _, ad := range attr {
							for _, pe := range attr {
								get().do(ctx, breq{N: n, R: r, Path: 1, Add: true, ID: id, Name: nm, Addr: ad, Peer: pe})
							}
						}
					}
				}
			}
			// request path
			for _, leader := range []int{1, 0, 2} {
				healthVectors(n, classes, func(hv []int) {
					if leader != 1 {
						// the health vector is irrelevant when the node does not lead / has no status:
						// one all-healthy and one all-slow vector are enough
						allSame := true
						for i := 1; i < len(hv); i++ {
							if hv[i] != hv[1] {
								allSame = false
							}
						}
						if !allSame || hv[0] != 0 || (len(hv) > 1 && hv[1] != hHealthy && hv[1] != hSlowGap) {
							return
						}
					}
					idx++
					if !ctx.Mine(idx) || ctx.Expired() {
						return
					}
					for _, id := range ids {
						get().do(ctx, breq{N: n, R: r, Leader: leader, Health: hv, Add: false, ID: id})
					}
					for _, nm := range attr {
						for _, ad := range attr {
							for _, pe := range attr {
								get().do(ctx, breq{N: n, R: r, Leader: leader, Health: hv, Add: true, Name: nm, Addr: ad, Peer: pe})
							}
						}
					}
				})
			}
		}
	}
}

func replayB(ctx *xplor.Ctx, q breq) {
	buildCluster(q.N, q.R).do(ctx, q)
}
