// C16 part A: the raft write-ahead log kept in the chain DB.
//
// Every sequence of operations up to the depth bound is executed on the real
// chain.ChainDB WAL functions through the real raftv2.WalDB (SaveEntry /
// WriteSnapshot / WriteIdentity / ClearWAL / ResetWAL), the way raftServer
// calls them, on the journaling in-memory store "verifdb". After every
// operation the complete observable WAL state is compared with a plain-Go
// reference log, on the handle that executed the operation and on a freshly
// opened ChainDB+WalDB over the same store (restart).
package main

import (
	"bytes"
	"crypto/sha256"
	"encoding/json"
	"fmt"
	"os"
	"sort"
	"strings"

	"github.com/aergoio/aergo-lib/db"
	"github.com/aergoio/aergo/v2/chain"
	"github.com/aergoio/aergo/v2/consensus"
	"github.com/aergoio/aergo/v2/consensus/impl/raftv2"
	"github.com/aergoio/aergo/v2/internal/enc/proto"
	"github.com/aergoio/aergo/v2/types"
	"github.com/aergoio/aergo/v2/verif_h/xplor"
	raftlib "github.com/aergoio/etcd/raft"
	"github.com/aergoio/etcd/raft/raftpb"
)

// probeMax: GetRaftEntry is probed for every index 1..probeMax after every
// operation (the longest log the deepest sequence can build is 3*depth+3).
const probeMax = 24

const (
	opAppend = iota
	opHard
	opSnap
	opIdent
	opClear
	opReset
)

const (
	kBlock = iota
	kEmpty
	kConf
)

// aop is one operation of the alphabet (and the replay format).
type aop struct {
	K int `json:"k"`           // opAppend..opReset
	S int `json:"s,omitempty"` // append: start 0=last+1 1=last 2=last-1 3=index 1; others: variant
	L int `json:"l,omitempty"` // append: number of entries 1..3
	T int `json:"t,omitempty"` // append: term = t + T
	P int `json:"p,omitempty"` // append: kind pattern 0..2, 3 = kind fixed by the index
}

var kindPatterns = [3][3]int{
	{kBlock, kBlock, kBlock},
	{kEmpty, kConf, kBlock},
	{kConf, kBlock, kEmpty},
}

var kindNames = []string{"B", "E", "C"}

func (o aop) String() string {
	r := ""
	switch o.K {
	case opAppend:
		st := []string{"last+1", "last", "last-1", "1"}[o.S]
		ks := ""
		for i := 0; i < o.L; i++ {
			if o.P == 3 {
				ks = "by-index"
				break
			}
			ks += kindNames[kindPatterns[o.P][i]]
		}
		return fmt.Sprintf("append(start=%s,kinds=%s,term=t+%d)%s", st, ks, o.T, r)
	case opHard:
		return fmt.Sprintf("hardstate(v%d)%s", o.S, r)
	case opSnap:
		return fmt.Sprintf("snapshot(v%d)%s", o.S, r)
	case opIdent:
		return fmt.Sprintf("identity(v%d)%s", o.S, r)
	case opClear:
		return "ClearWAL" + r
	case opReset:
		return fmt.Sprintf("ResetWAL(v%d)%s", o.S, r)
	}
	return "?"
}

func opsString(ops []aop) string {
	s := ""
	for i, o := range ops {
		if i > 0 {
			s += " ; "
		}
		s += o.String()
	}
	return s
}

// ---------------------------------------------------------------- reference

// model is the reference log: plain maps and values.
type model struct {
	ents map[uint64]raftpb.Entry // index -> entry most recently stored there
	last uint64
	hs   *raftpb.HardState
	snap *raftpb.Snapshot
	id   *consensus.RaftIdentity

	snapTag int // 0 none, 1 written by the snapshot op, 2 written by ResetWAL
	idTag   int
}

func newModel() *model { return &model{ents: map[uint64]raftpb.Entry{}} }

func (m *model) clone() *model {
	c := &model{ents: make(map[uint64]raftpb.Entry, len(m.ents)), last: m.last, hs: m.hs, snap: m.snap, id: m.id, snapTag: m.snapTag, idTag: m.idTag}
	for k, v := range m.ents {
		c.ents[k] = v
	}
	return c
}

// term = the highest term present anywhere in the WAL (>= 1).
func (m *model) term() uint64 {
	t := uint64(1)
	for _, e := range m.ents {
		if e.Term > t {
			t = e.Term
		}
	}
	if m.hs != nil && m.hs.Term > t {
		t = m.hs.Term
	}
	if m.snap != nil && m.snap.Metadata.Term > t {
		t = m.snap.Metadata.Term
	}
	return t
}

// mkey is the reference state as a comparable value (the explorer's state identity).
type mkey struct {
	ents [maxLog + 1]struct {
		term uint16
		kind int8
		has  bool
	}
	last    uint8
	hasHS   bool
	hs      [3]uint32
	snapTag uint8
	snap    [2]uint32
	idTag   uint8
}

const maxLog = 21

func (m *model) key() mkey {
	var k mkey
	for i, e := range m.ents {
		if i > maxLog {
			panic("log longer than maxLog")
		}
		k.ents[i].term, k.ents[i].kind, k.ents[i].has = uint16(e.Term), int8(kindOf(&e)), true
	}
	k.last = uint8(m.last)
	if m.hs != nil {
		k.hasHS, k.hs = true, [3]uint32{uint32(m.hs.Term), uint32(m.hs.Vote), uint32(m.hs.Commit)}
	}
	if m.snap != nil {
		k.snapTag, k.snap = uint8(m.snapTag), [2]uint32{uint32(m.snap.Metadata.Index), uint32(m.snap.Metadata.Term)}
	}
	k.idTag = uint8(m.idTag)
	return k
}

func (k *mkey) hash() uint64 {
	h := uint64(1469598103934665603)
	mix := func(v uint64) { h ^= v; h *= 1099511628211 }
	for i := range k.ents {
		e := &k.ents[i]
		if e.has {
			mix(uint64(i)<<32 | uint64(e.term)<<8 | uint64(uint8(e.kind)))
		}
	}
	mix(uint64(k.last))
	if k.hasHS {
		mix(uint64(k.hs[0])<<40 | uint64(k.hs[1])<<20 | uint64(k.hs[2]) | 1<<63)
	}
	mix(uint64(k.snapTag)<<60 | uint64(k.snap[0])<<30 | uint64(k.snap[1]))
	mix(uint64(k.idTag) + 77)
	h ^= h >> 29
	h *= 0xbf58476d1ce4e5b9
	h ^= h >> 32
	return h
}

func (m *model) logString() string {
	var idx []uint64
	for i := range m.ents {
		idx = append(idx, i)
	}
	sort.Slice(idx, func(a, c int) bool { return idx[a] < idx[c] })
	s := fmt.Sprintf("last=%d [", m.last)
	for _, i := range idx {
		e := m.ents[i]
		s += fmt.Sprintf(" %d:t%d:%s", e.Index, e.Term, kindNames[kindOf(&e)])
	}
	return s + " ]"
}

func kindOf(e *raftpb.Entry) int {
	if e.Type == raftpb.EntryConfChange {
		return kConf
	}
	if e.Data == nil {
		return kEmpty
	}
	return kBlock
}

// ---------------------------------------------------------------- fixtures

type fixtures struct {
	genesis     *types.Genesis
	gblock      *types.Block
	entries     map[[3]uint64]raftpb.Entry
	blockHash   map[[2]uint64][]byte
	members     []*consensus.Member
	resetSnap   map[[2]uint64]*raftpb.Snapshot
	opSnap      map[[2]uint64]*raftpb.Snapshot
	isBlockHash map[string]bool
}

func newFixtures() *fixtures {
	f := &fixtures{entries: map[[3]uint64]raftpb.Entry{}, blockHash: map[[2]uint64][]byte{}, resetSnap: map[[2]uint64]*raftpb.Snapshot{}, opSnap: map[[2]uint64]*raftpb.Snapshot{}, isBlockHash: map[string]bool{}}
	f.genesis = &types.Genesis{ID: types.ChainID{Magic: "c16.verif", Consensus: "raft"}, Timestamp: 1}
	f.gblock = f.genesis.Block()
	f.gblock.BlockHash()
	f.members = []*consensus.Member{
		{MemberAttr: types.MemberAttr{ID: 11, Name: "s1", Address: "/ip4/127.0.0.1/tcp/11001", PeerID: peerID(1)}},
		{MemberAttr: types.MemberAttr{ID: 12, Name: "s2", Address: "/ip4/127.0.0.1/tcp/11002", PeerID: peerID(2)}},
	}
	return f
}

// peerID: an identity-multihash peer id (valid for types.IDFromBytes).
func peerID(i int) []byte { return []byte{0x00, 0x05, 'p', 'e', 'e', 'r', byte('0' + i)} }

func (f *fixtures) block(idx, term uint64) *types.Block {
	prev := sha256.Sum256([]byte(fmt.Sprintf("prev-%d-%d", idx, term)))
	tx := &types.Tx{Body: &types.TxBody{Nonce: idx, Account: []byte(fmt.Sprintf("acct-%d", term)), Recipient: []byte("rcpt"), Amount: []byte{byte(idx)}, Payload: []byte(fmt.Sprintf("payload-%d-%d", idx, term))}}
	tx.Hash = tx.CalculateTxHash()
	b := types.NewBlock(&types.BlockHeaderInfo{No: idx, Ts: int64(1000 + term), PrevBlockHash: prev[:], ChainId: f.gblock.GetHeader().GetChainID()}, nil, nil, []*types.Tx{tx}, nil, nil)
	f.isBlockHash[string(b.BlockHash())] = true
	return b
}

// entry returns the raft entry the harness stores at (idx, term, kind); the
// content is a function of the triple so that equal logs are equal states.
func (f *fixtures) entry(idx, term uint64, kind int) raftpb.Entry {
	k := [3]uint64{idx, term, uint64(kind)}
	if e, ok := f.entries[k]; ok {
		return e
	}
	e := raftpb.Entry{Index: idx, Term: term}
	switch kind {
	case kBlock:
		b := f.block(idx, term)
		d, err := proto.Encode(b)
		if err != nil {
			panic(err)
		}
		e.Type, e.Data = raftpb.EntryNormal, d
		f.blockHash[[2]uint64{idx, term}] = b.BlockHash()
	case kEmpty:
		e.Type = raftpb.EntryNormal
	case kConf:
		m := &consensus.Member{MemberAttr: types.MemberAttr{ID: 7000 + idx, Name: fmt.Sprintf("n%d", idx), Address: fmt.Sprintf("/ip4/127.0.0.1/tcp/%d", 12000+idx), PeerID: peerID(int(idx % 10))}}
		cx, err := json.Marshal(m)
		if err != nil {
			panic(err)
		}
		cc := raftpb.ConfChange{ID: idx*100 + term, Type: raftpb.ConfChangeAddNode, NodeID: 7000 + idx, Context: cx}
		d, err := cc.Marshal()
		if err != nil {
			panic(err)
		}
		e.Type, e.Data = raftpb.EntryConfChange, d
	}
	f.entries[k] = e
	return e
}

func (f *fixtures) resetSnapshot(commit, term uint64) *raftpb.Snapshot {
	k := [2]uint64{commit, term}
	if sn := f.resetSnap[k]; sn != nil {
		return sn
	}
	d, err := consensus.NewSnapshotData(nil, nil, f.gblock).Encode()
	if err != nil {
		panic(err)
	}
	sn := &raftpb.Snapshot{Data: d, Metadata: raftpb.SnapshotMetadata{Index: commit, Term: term}}
	f.resetSnap[k] = sn
	return sn
}

func (f *fixtures) snapshot(idx, term uint64) *raftpb.Snapshot {
	k := [2]uint64{idx, term}
	if sn := f.opSnap[k]; sn != nil {
		return sn
	}
	sd := consensus.NewSnapshotData(f.members, nil, f.block(idx, term))
	d, err := sd.Encode()
	if err != nil {
		panic(err)
	}
	f.opSnap[k] = &raftpb.Snapshot{Data: d, Metadata: raftpb.SnapshotMetadata{Index: idx, Term: term, ConfState: raftpb.ConfState{Nodes: []uint64{11, 12}}}}
	return f.opSnap[k]
}

// ---------------------------------------------------------------- system under test

type handle struct {
	cdb *chain.ChainDB
	wal *raftv2.WalDB
}

type sut struct {
	name  string
	store db.DB
	fx    *fixtures
	empty map[string][]byte // store content right after genesis
	deep  bool              // thorough: additionally ReadAll(nil) below the snapshot
}

func newSut(name string, fx *fixtures) *sut {
	db.VerifDrop(name)
	s := &sut{name: name, fx: fx}
	s.store = db.NewDB(db.VerifImpl, name)
	h := s.open()
	if err := chain.VerifC16AddGenesis(h.cdb, fx.genesis); err != nil {
		panic(err)
	}
	s.empty = db.VerifHandleSnapshot(s.store)
	return s
}

// open = what a process start does: a new ChainDB (Init: load chain data,
// recover) and a new WalDB on the same store.
func (s *sut) open() *handle {
	st := db.NewDB(db.VerifImpl, s.name)
	cdb, err := chain.VerifC16OpenChainDB(st)
	if err != nil {
		panic(err)
	}
	return &handle{cdb: cdb, wal: raftv2.NewWalDB(cdb)}
}

// alphabet selects the operations of a pass.
type alphabet struct {
	name     string
	patterns []int // kind patterns of append batches (3 = kind by index)
	terms    []int
	hards    []int
	snaps    []int
	idents   []int
	resets   []int
}

var fullAlphabet = alphabet{name: "full", patterns: []int{0, 1, 2}, terms: []int{0, 1}, hards: []int{0, 1}, snaps: []int{0, 1}, idents: []int{0, 1}, resets: []int{0, 1}}

// the sub-alphabet used beyond the depth the full one can be completed to:
// same start indices, lengths and terms; entry kind fixed by the index
// (1:E 2:C 3:B 4:E ...); one hard state, snapshot at last, ClearWAL, one ResetWAL.
var coreAlphabet = alphabet{name: "core", patterns: []int{3}, terms: []int{0, 1}, hards: []int{0}, snaps: []int{0}, resets: []int{0}}

// core + the all-blocks pattern
var mediumAlphabet = alphabet{name: "medium", patterns: []int{0, 3}, terms: []int{0, 1}, hards: []int{0}, snaps: []int{0}, resets: []int{0}}

// enabled lists the alphabet in state m, simplest first.
func (a *alphabet) enabled(m *model) []aop {
	var r []aop
	seen := map[uint64]bool{}
	for s := 0; s < 4; s++ {
		st, ok := startIndex(m, s)
		if !ok || seen[st] {
			continue
		}
		seen[st] = true
		for l := 1; l <= 3; l++ {
			for _, t := range a.terms {
				for _, p := range a.patterns {
					r = append(r, aop{K: opAppend, S: s, L: l, T: t, P: p})
				}
			}
		}
	}
	for _, v := range a.hards {
		r = append(r, aop{K: opHard, S: v})
	}
	for _, v := range a.snaps {
		if _, ok := snapIndex(m, v); ok {
			r = append(r, aop{K: opSnap, S: v})
		}
	}
	for _, v := range a.idents {
		r = append(r, aop{K: opIdent, S: v})
	}
	r = append(r, aop{K: opClear})
	for _, v := range a.resets {
		r = append(r, aop{K: opReset, S: v})
	}
	return r
}

func startIndex(m *model, s int) (uint64, bool) {
	switch s {
	case 0:
		return m.last + 1, true
	case 1:
		return m.last, m.last >= 1
	case 2:
		return m.last - 1, m.last >= 2
	default:
		return 1, true
	}
}

// snapshots are taken at an index that holds an entry and never move back.
func snapIndex(m *model, v int) (uint64, bool) {
	if m.last < uint64(1+v) {
		return 0, false
	}
	idx := m.last - uint64(v)
	if _, ok := m.ents[idx]; !ok {
		return 0, false
	}
	if m.snap != nil && idx < m.snap.Metadata.Index {
		return 0, false
	}
	return idx, true
}

func kindAt(p int, pos int, idx uint64) int {
	if p == 3 {
		return []int{kBlock, kEmpty, kConf}[idx%3]
	}
	return kindPatterns[p][pos]
}

var identities = []*consensus.RaftIdentity{
	{ClusterID: 0xC16, ID: 11, Name: "s1", PeerID: "16Uiu2HAkvaAMCHkd9hZ6hQkdDLKoXP4eLJSqkMF1YqkSNy5v9SVn"},
	{ClusterID: 0xC17, ID: 12, Name: "s2", PeerID: "16Uiu2HAmJqEp9f9WAbzFxkLrnHnW4EuUDM69xkCDPF26HmNCsib6"},
}

// plan is an operation with its concrete arguments in a given state.
type plan struct {
	o    aop
	ents []raftpb.Entry
	hs   raftpb.HardState // zero = none
	snap *raftpb.Snapshot
	id   *consensus.RaftIdentity
	hi   *types.HardStateInfo
}

// mkPlan computes the arguments of o in reference state m (nil = not enabled).
func (s *sut) mkPlan(m *model, o aop) *plan {
	t := m.term()
	p := &plan{o: o}
	switch o.K {
	case opAppend:
		st, ok := startIndex(m, o.S)
		if !ok {
			return nil
		}
		term := t + uint64(o.T)
		p.ents = make([]raftpb.Entry, o.L)
		for i := 0; i < o.L; i++ {
			p.ents[i] = s.fx.entry(st+uint64(i), term, kindAt(o.P, i, st+uint64(i)))
		}
		if o.T == 1 { // a term change always comes with a hard state
			p.hs = raftpb.HardState{Term: term, Vote: 1, Commit: st - 1}
		}
	case opHard:
		p.hs = raftpb.HardState{Term: t, Vote: 1, Commit: m.last}
		if o.S == 1 {
			p.hs = raftpb.HardState{Term: t + 1, Vote: 2}
			if m.last > 0 {
				p.hs.Commit = m.last - 1
			}
		}
	case opSnap:
		idx, ok := snapIndex(m, o.S)
		if !ok {
			return nil
		}
		p.snap = s.fx.snapshot(idx, m.ents[idx].Term)
	case opIdent:
		p.id = identities[o.S]
	case opReset:
		p.hi = &types.HardStateInfo{Term: t, Commit: 3}
		if o.S == 1 {
			p.hi = &types.HardStateInfo{Term: t + 1, Commit: 1}
		}
	}
	return p
}

// apply is the reference semantics of an operation.
func (s *sut) apply(m *model, p *plan) *model {
	n := m.clone()
	switch p.o.K {
	case opAppend:
		st := p.ents[0].Index
		for i := range n.ents {
			if i >= st {
				delete(n.ents, i)
			}
		}
		for _, e := range p.ents {
			n.ents[e.Index] = e
		}
		n.last = p.ents[len(p.ents)-1].Index
		if !raftlib.IsEmptyHardState(p.hs) {
			n.hs = &p.hs
		}
	case opHard:
		n.hs = &p.hs
	case opSnap:
		n.snap, n.snapTag = p.snap, 1
	case opIdent:
		n.id, n.idTag = p.id, p.o.S+1
	case opClear:
		n = newModel()
	case opReset:
		n = newModel()
		n.last = p.hi.Commit
		n.hs = &raftpb.HardState{Term: p.hi.Term, Commit: p.hi.Commit}
		n.snap, n.snapTag = s.fx.resetSnapshot(p.hi.Commit, p.hi.Term), 2
	}
	return n
}

// exec runs the operation on the real code through handle h, the way raftServer does.
func (s *sut) exec(h *handle, p *plan) (err error) {
	defer func() {
		if r := recover(); r != nil {
			err = fmt.Errorf("panic: %v", r)
		}
	}()
	switch p.o.K {
	case opAppend, opHard:
		return h.wal.SaveEntry(p.hs, p.ents)
	case opSnap:
		return h.wal.WriteSnapshot(p.snap)
	case opIdent:
		return h.wal.WriteIdentity(p.id)
	case opClear:
		h.wal.ClearWAL()
	case opReset:
		return h.wal.ResetWAL(p.hi)
	}
	return nil
}

func sameEntry(a, b *raftpb.Entry) bool {
	return a.Type == b.Type && a.Term == b.Term && a.Index == b.Index && bytes.Equal(a.Data, b.Data) && (a.Data == nil) == (b.Data == nil)
}

func sameHS(a, b *raftpb.HardState) bool {
	return a.Term == b.Term && a.Vote == b.Vote && a.Commit == b.Commit
}

func sameSnap(a, b *raftpb.Snapshot) bool {
	if a == nil || b == nil {
		return a == b
	}
	x, e1 := a.Marshal()
	y, e2 := b.Marshal()
	return e1 == nil && e2 == nil && bytes.Equal(x, y)
}

// logView is what a (re)started node sees of the log proper.
type logView struct {
	last uint64
	ents map[uint64]consensus.WalEntry
	bad  string
}

func (s *sut) readLog(h *handle) (v logView) {
	v.ents = map[uint64]consensus.WalEntry{}
	last, err := h.cdb.GetRaftEntryLastIdx()
	if err != nil {
		v.bad = "GetRaftEntryLastIdx: " + err.Error()
		return
	}
	v.last = last
	for i := uint64(1); i <= probeMax; i++ {
		e, err := h.cdb.GetRaftEntry(i)
		if err == chain.ErrNoWalEntry {
			continue
		}
		if err != nil {
			v.bad = fmt.Sprintf("GetRaftEntry(%d): %v", i, err)
			return
		}
		v.ents[i] = *e
	}
	return
}

// matchLog compares a log view with the reference; "" = equal.
func (s *sut) matchLog(v *logView, m *model) string {
	if v.bad != "" {
		return v.bad
	}
	if v.last != m.last {
		return fmt.Sprintf("last index %d, reference %d", v.last, m.last)
	}
	for i := uint64(1); i <= probeMax; i++ {
		got, have := v.ents[i]
		want, should := m.ents[i]
		switch {
		case have && !should:
			return fmt.Sprintf("GetRaftEntry(%d) returns an entry (term %d, %s) but the reference has none there (last=%d): a removed entry is not reported absent", i, got.Term, consensus.WalEntryType_name[got.Type], m.last)
		case !have && should:
			return fmt.Sprintf("GetRaftEntry(%d) reports no entry, reference has term %d %s", i, want.Term, kindNames[kindOf(&want)])
		case have:
			wt := consensus.EntryType(kindOf(&want)) // EntryBlock=0, EntryEmpty=1, EntryConfChange=2
			var wd []byte
			switch kindOf(&want) {
			case kBlock:
				wd = s.fx.blockHash[[2]uint64{want.Index, want.Term}]
			case kConf:
				wd = want.Data
			}
			if got.Index != i || got.Term != want.Term || got.Type != wt || !bytes.Equal(got.Data, wd) {
				return fmt.Sprintf("GetRaftEntry(%d) = {type %s term %d index %d data %x..}, reference {type %s term %d}", i, consensus.WalEntryType_name[got.Type], got.Term, got.Index, head(got.Data), kindNames[kindOf(&want)], want.Term)
			}
		}
	}
	return ""
}

func head(b []byte) []byte {
	if len(b) > 4 {
		return b[:4]
	}
	return b
}

// observe compares the complete observable WAL state behind h with m.
func (s *sut) observe(h *handle, m *model, light bool) (msg string) {
	defer func() {
		if r := recover(); r != nil {
			msg = fmt.Sprintf("panic while reading the WAL back: %v", r)
		}
	}()
	v := s.readLog(h)
	if d := s.matchLog(&v, m); d != "" {
		return d
	}
	// inverse map: the block carried by a live entry leads back to that entry
	for i, e := range m.ents {
		if light || kindOf(&e) != kBlock {
			continue
		}
		hash := s.fx.blockHash[[2]uint64{e.Index, e.Term}]
		we, err := h.cdb.GetRaftEntryOfBlock(hash)
		if err != nil || we.Index != i || we.Term != e.Term {
			return fmt.Sprintf("GetRaftEntryOfBlock(block of entry %d) = %v, %v", i, we.ToString(), err)
		}
		b, err := h.cdb.GetBlock(hash)
		if err != nil {
			return fmt.Sprintf("block carried by entry %d is not stored: %v", i, err)
		}
		d, _ := proto.Encode(b)
		if !bytes.Equal(d, e.Data) {
			return fmt.Sprintf("block carried by entry %d differs from the stored one", i)
		}
	}
	// hard state, snapshot, identity
	hs, err := h.cdb.GetHardState()
	switch {
	case m.hs == nil && err != chain.ErrWalNoHardState:
		return fmt.Sprintf("GetHardState = %v, %v; reference has none", hs, err)
	case m.hs != nil && (err != nil || hs.Term != m.hs.Term || hs.Vote != m.hs.Vote || hs.Commit != m.hs.Commit):
		return fmt.Sprintf("GetHardState = %v, %v; reference %v", hs, err, *m.hs)
	}
	sn, err := h.cdb.GetSnapshot()
	if err != nil || !sameSnap(sn, m.snap) {
		return fmt.Sprintf("GetSnapshot = %s, %v; reference %s", snapStr(sn), err, snapStr(m.snap))
	}
	id, err := h.cdb.GetIdentity()
	if err != nil || (id == nil) != (m.id == nil) || (id != nil && *id != *m.id) {
		return fmt.Sprintf("GetIdentity = %v, %v; reference %v", id, err, m.id)
	}
	if m.id != nil {
		ok, err := h.cdb.HasWal(*m.id)
		if ok != (m.hs != nil) || (ok && err != nil) {
			return fmt.Sprintf("HasWal(own identity) = %v, %v with hard state present=%v", ok, err, m.hs != nil)
		}
	}
	if light {
		return ""
	}
	// what replayWAL hands to raft: ReadAll(loadSnapshot())
	if d := s.readAll(h, m, m.snap, sn); d != "" {
		return d
	}
	// and from the very beginning when the log is complete from index 1
	complete := true
	for i := uint64(1); i <= m.last; i++ {
		if _, ok := m.ents[i]; !ok {
			complete = false
		}
	}
	if complete && m.snap != nil && s.deep {
		if d := s.readAll(h, m, nil, nil); d != "" {
			return "ReadAll(nil): " + d
		}
	}
	return ""
}

func snapStr(s *raftpb.Snapshot) string {
	if s == nil {
		return "<none>"
	}
	return fmt.Sprintf("{index %d term %d conf %v data %d bytes}", s.Metadata.Index, s.Metadata.Term, s.Metadata.ConfState.Nodes, len(s.Data))
}

func (s *sut) readAll(h *handle, m *model, msnap, snap *raftpb.Snapshot) string {
	id, st, ents, err := h.wal.ReadAll(snap)
	if m.hs == nil {
		if err == nil {
			return "ReadAll succeeds without a hard state"
		}
		return ""
	}
	if err != nil {
		return fmt.Sprintf("ReadAll: %v (reference: %s)", err, m.logString())
	}
	if (id == nil) != (m.id == nil) || (id != nil && *id != *m.id) {
		return fmt.Sprintf("ReadAll identity %v, reference %v", id, m.id)
	}
	if st == nil || st.Term != m.hs.Term || st.Vote != m.hs.Vote || st.Commit != m.hs.Commit {
		return fmt.Sprintf("ReadAll hard state %v, reference %v", st, *m.hs)
	}
	from := uint64(1)
	if msnap != nil {
		from = msnap.Metadata.Index + 1
	}
	var want []raftpb.Entry
	for i := from; i <= m.last; i++ {
		e, ok := m.ents[i]
		if !ok {
			return fmt.Sprintf("harness: reference log has a hole at %d above the snapshot", i)
		}
		want = append(want, e)
	}
	if len(ents) != len(want) {
		return fmt.Sprintf("ReadAll returns %d entries, reference %d (%s)", len(ents), len(want), m.logString())
	}
	for i := range want {
		if !sameEntry(&ents[i], &want[i]) {
			return fmt.Sprintf("ReadAll entry #%d = {index %d term %d type %v data %d bytes}, reference {index %d term %d type %v data %d bytes}: the restarted node does not get back the entry it stored",
				i, ents[i].Index, ents[i].Term, ents[i].Type, len(ents[i].Data), want[i].Index, want[i].Term, want[i].Type, len(want[i].Data))
		}
	}
	// hand it to the consensus library exactly as replayWAL does
	ms := raftlib.NewMemoryStorage()
	if snap != nil {
		if err := ms.ApplySnapshot(*snap); err != nil {
			return fmt.Sprintf("raft storage refuses the stored snapshot: %v", err)
		}
	}
	if err := ms.SetHardState(*st); err != nil {
		return fmt.Sprintf("raft storage refuses the hard state: %v", err)
	}
	if err := ms.Append(ents); err != nil {
		return fmt.Sprintf("raft storage refuses the entries: %v", err)
	}
	li, _ := ms.LastIndex()
	wl := m.last
	if msnap != nil && msnap.Metadata.Index > wl {
		wl = msnap.Metadata.Index
	}
	if li != wl {
		return fmt.Sprintf("raft storage last index %d after replay, reference %d", li, wl)
	}
	for _, e := range want {
		if tm, err := ms.Term(e.Index); err != nil || tm != e.Term {
			return fmt.Sprintf("raft storage term(%d) = %d, %v after replay, reference %d", e.Index, tm, err, e.Term)
		}
	}
	return ""
}

// ---------------------------------------------------------------- crash points

func applyUnits(name string, units []db.VerifUnit) {
	for _, u := range units {
		db.VerifApply(name, u.Ops)
	}
}

// crashAppend: for every proper prefix of the durable units written by one
// SaveEntry (a flushed bulk is additionally cut after every key), a node
// restarted on that store sees the old log or the new log, never a mix; a new
// hard state is never visible before the entries it was saved with.
func (s *sut) crashAppend(ctx *xplor.Ctx, pre map[string][]byte, units []db.VerifUnit, old, new *model) string {
	type cut struct {
		k, j int
	}
	var cuts []cut
	for k := 0; k < len(units); k++ {
		if k > 0 { // the empty prefix is the pre-state, already verified
			cuts = append(cuts, cut{k, 0})
		}
		if units[k].Kind == "bulk" {
			for j := 1; j < len(units[k].Ops); j++ {
				cuts = append(cuts, cut{k, j})
			}
		}
	}
	for _, c := range cuts {
		db.VerifHandleRestore(s.store, pre)
		applyUnits(s.name, units[:c.k])
		if c.j > 0 {
			db.VerifApply(s.name, units[c.k].Ops[:c.j])
		}
		h := s.open()
		ctx.Count("crash_points", 1)
		v := s.readLog(h)
		dOld := s.matchLog(&v, old)
		dNew := s.matchLog(&v, new)
		if dOld != "" && dNew != "" {
			return fmt.Sprintf("crash after %d of %d durable units (+%d keys) of SaveEntry: the reopened log is neither the old log (%s) nor the new one (%s)", c.k, len(units), c.j, dOld, dNew)
		}
		hs, err := h.cdb.GetHardState()
		isOld := (old.hs == nil && err == chain.ErrWalNoHardState) || (old.hs != nil && err == nil && sameHS(hs, old.hs))
		isNew := (new.hs == nil && err == chain.ErrWalNoHardState) || (new.hs != nil && err == nil && sameHS(hs, new.hs))
		if !isOld && !isNew {
			return fmt.Sprintf("crash after %d of %d durable units of SaveEntry: hard state %v, %v is neither the old nor the new one", c.k, len(units), hs, err)
		}
		if isNew && !isOld && dNew != "" {
			return fmt.Sprintf("crash after %d of %d durable units of SaveEntry: the new hard state is durable but the entries saved with it are not (%s)", c.k, len(units), dNew)
		}
	}
	return ""
}

// crashRerun: ClearWAL / ResetWAL are re-executed by startRaft when the node
// comes back without an identity; after a crash at any point (bulk cut after
// every key) the re-execution must end in the state of an uninterrupted run.
func (s *sut) crashRerun(ctx *xplor.Ctx, pre map[string][]byte, units []db.VerifUnit, p *plan, new *model) string {
	type cut struct {
		k, j int
	}
	var cuts []cut
	for k := 0; k < len(units); k++ {
		if k > 0 {
			cuts = append(cuts, cut{k, 0})
		}
		if units[k].Kind == "bulk" {
			for j := 1; j < len(units[k].Ops); j++ {
				cuts = append(cuts, cut{k, j})
			}
		}
	}
	for _, c := range cuts {
		db.VerifHandleRestore(s.store, pre)
		applyUnits(s.name, units[:c.k])
		if c.j > 0 {
			db.VerifApply(s.name, units[c.k].Ops[:c.j])
		}
		ctx.Count("crash_points", 1)
		if err := s.exec(s.open(), p); err != nil {
			return fmt.Sprintf("crash after %d of %d durable units (+%d keys) of %s: re-execution fails: %v", c.k, len(units), c.j, p.o, err)
		}
		if d := s.observe(s.open(), new, false); d != "" {
			return fmt.Sprintf("crash after %d of %d durable units (+%d keys) of %s, then re-execution: %s", c.k, len(units), c.j, p.o, d)
		}
	}
	return ""
}

// ---------------------------------------------------------------- exploration
//
// The explorer walks the graph of reference states breadth first (cheap, done
// identically by every shard), keeps the breadth-first tree, and re-creates
// the real store of every tree node by executing the node's operation on its
// parent's store (stateless exploration: a state is the shortest operation
// sequence reaching it). Every edge (state, operation) of the graph - i.e.
// every sequence of the bound, because sequences reaching the same reference
// state are merged - is executed on the real code with all oracles by exactly
// one shard: the one owning the hash of the edge's target state. Merging by
// reference state is justified inside the check: the owner of a target state
// compares the canonical raw store content produced by every edge arriving
// there (first arrival recorded, later ones must be byte-identical), so the
// store the code sees is the same function of the reference state whatever
// sequence led to it.

type tnode struct {
	parent int32
	op     aop
	depth  uint8
}

type explorerA struct {
	ctx   *xplor.Ctx
	s     *sut
	alpha *alphabet
	used  *handle // the long-lived handle (never reopened)

	nodes    []tnode
	kids     map[int32][]int32
	index    map[mkey]int32
	frontier []int32
	level    int // nodes of depth < level are expanded

	arrival map[mkey][32]byte // owned target states: canonical raw content of the first arrival
	arrPath map[mkey][]aop
	stop    bool

	probeDead bool // also look up the blocks of truncated entries (observation only)
}

func newExplorerA(ctx *xplor.Ctx, s *sut, a *alphabet) *explorerA {
	x := &explorerA{ctx: ctx, s: s, alpha: a, used: s.open(), kids: map[int32][]int32{}, index: map[mkey]int32{}, arrival: map[mkey][32]byte{}, arrPath: map[mkey][]aop{}}
	x.probeDead = ctx.Tier == "thorough" || os.Getenv("C16_STRICT_INVERSE") != "" || ctx.Replay != nil
	x.nodes = []tnode{{parent: -1}}
	x.index[newModel().key()] = 0
	x.frontier = []int32{0}
	return x
}

func (x *explorerA) pathOf(n int32) []aop {
	var rev []aop
	for n > 0 {
		rev = append(rev, x.nodes[n].op)
		n = x.nodes[n].parent
	}
	for i, j := 0, len(rev)-1; i < j; i, j = i+1, j-1 {
		rev[i], rev[j] = rev[j], rev[i]
	}
	return rev
}

// modelOf replays the reference along the tree path (no real code).
func (x *explorerA) modelOf(n int32) *model {
	m := newModel()
	for _, o := range x.pathOf(n) {
		m = x.s.apply(m, x.s.mkPlan(m, o))
	}
	return m
}

// rawCanon hashes everything the WAL code can read back in reference state m:
// every r_entry.*, r_last, r_identity, r_state, r_snap key, the block body and
// the inverse-index key of every block a live entry carries, and any key that
// is neither chain data present since genesis, nor a block body / inverse key
// / conf-change progress record. Bodies and inverse keys of blocks that no
// entry refers to any more are garbage the code can only reach through an
// entry (or a hash handed in by the caller) and are left out.
func (s *sut) rawCanon(content map[string][]byte, m *model) [32]byte {
	live := map[string]bool{}
	for _, e := range m.ents {
		if kindOf(&e) == kBlock {
			live[string(s.fx.blockHash[[2]uint64{e.Index, e.Term}])] = true
		}
	}
	var keys []string
	for k, v := range content {
		if bv, ok := s.empty[k]; ok && bytes.Equal(bv, v) {
			continue
		}
		switch {
		case len(k) > 6 && k[:6] == "r_inv.":
			if !live[k[6:]] {
				continue
			}
		case len(k) > 11 && k[:11] == "r_ccstatus.":
			continue
		case s.fx.isBlockHash[k]:
			if !live[k] {
				continue
			}
		}
		keys = append(keys, k)
	}
	sort.Strings(keys)
	h := sha256.New()
	for _, k := range keys {
		fmt.Fprintf(h, "%d:", len(k))
		h.Write([]byte(k))
		v := content[k]
		fmt.Fprintf(h, "%d:", len(v))
		h.Write(v)
	}
	var r [32]byte
	copy(r[:], h.Sum(nil))
	return r
}

// staleInverse asks for the raft entry of every block whose entry is gone.
func (s *sut) staleInverse(ctx *xplor.Ctx, content map[string][]byte, m *model) string {
	live := map[string]bool{}
	for _, e := range m.ents {
		if kindOf(&e) == kBlock {
			live[string(s.fx.blockHash[[2]uint64{e.Index, e.Term}])] = true
		}
	}
	var dead []string
	for k := range content {
		if len(k) > 6 && k[:6] == "r_inv." && !live[k[6:]] {
			dead = append(dead, k[6:])
		}
	}
	if len(dead) == 0 {
		return ""
	}
	sort.Strings(dead)
	h := s.open()
	msg := ""
	for _, hash := range dead {
		we, err := h.cdb.GetRaftEntryOfBlock([]byte(hash))
		if err != nil {
			ctx.Count("a_dead_block_lookup_absent", 1)
			continue
		}
		ctx.Count("a_dead_block_lookup_returns_other_entry", 1)
		if msg == "" {
			msg = fmt.Sprintf("GetRaftEntryOfBlock(block of a truncated entry) returns the entry now at index %d (term %d, %s) which does not carry that block, instead of ErrNoWalEntryForBlock", we.Index, we.Term, consensus.WalEntryType_name[we.Type])
		}
	}
	return msg
}

func sameContent(a, b map[string][]byte) string {
	for k, v := range a {
		w, ok := b[k]
		if !ok {
			return fmt.Sprintf("key %q only written by one of them", k)
		}
		if !bytes.Equal(v, w) {
			return fmt.Sprintf("key %q differs", k)
		}
	}
	for k := range b {
		if _, ok := a[k]; !ok {
			return fmt.Sprintf("key %q only written by one of them", k)
		}
	}
	return ""
}

// checked executes one edge with every oracle. content/m = source state.
func (x *explorerA) checked(content map[string][]byte, m *model, p *plan, nm *model) (string, map[string][]byte) {
	s := x.s
	// (1) right after a restart: a freshly opened ChainDB+WalDB executes the operation
	db.VerifHandleRestore(s.store, content)
	if err := s.exec(s.open(), p); err != nil {
		return fmt.Sprintf("%s on a freshly restarted node fails: %v", p.o, err), nil
	}
	postFresh := db.VerifHandleSnapshot(s.store)
	// (2) without a restart: the long-lived handle executes it; journal for the crash points
	db.VerifHandleRestore(s.store, content)
	db.VerifJournalStart()
	err := s.exec(x.used, p)
	units := db.VerifJournalStop()
	x.ctx.Eval(1)
	if err != nil {
		return fmt.Sprintf("%s fails: %v", p.o, err), nil
	}
	post := db.VerifHandleSnapshot(s.store)
	if d := sameContent(post, postFresh); d != "" {
		return fmt.Sprintf("%s leaves a different store when executed right after a restart than when executed by the running node: %s", p.o, d), nil
	}
	// (3) read everything back: running node, then restarted node
	if d := s.observe(x.used, nm, true); d != "" {
		return "after " + p.o.String() + " (running node): " + d, nil
	}
	if d := s.observe(s.open(), nm, false); d != "" {
		return "after " + p.o.String() + " and a restart: " + d, nil
	}
	// (3b) observation, not judged by default (see NOTES.md "stale inverse index"):
	// the inverse index of a block whose entry was truncated away is left behind
	if x.probeDead {
		if d := s.staleInverse(x.ctx, post, nm); d != "" && os.Getenv("C16_STRICT_INVERSE") != "" {
			return "after " + p.o.String() + ": " + d, nil
		}
	}
	// (4) crash points
	x.ctx.Max("max_durable_units_per_op", int64(len(units)))
	switch p.o.K {
	case opAppend:
		if d := s.crashAppend(x.ctx, content, units, m, nm); d != "" {
			return d, nil
		}
	case opClear, opReset:
		if d := s.crashRerun(x.ctx, content, units, p, nm); d != "" {
			return d, nil
		}
	}
	return "", post
}

// cheap executes the operation only (used to re-create tree nodes).
func (x *explorerA) cheap(content map[string][]byte, p *plan) (map[string][]byte, error) {
	db.VerifHandleRestore(x.s.store, content)
	if err := x.s.exec(x.used, p); err != nil {
		return nil, err
	}
	return db.VerifHandleSnapshot(x.s.store), nil
}

func (x *explorerA) owns(k *mkey) bool { return int(k.hash()%uint64(x.ctx.NShards)) == x.ctx.Shard }

// expandLevel runs every edge leaving a state of depth == level-1 (those are
// the sequences of exactly `level` operations, modulo merging) and grows the
// tree by the states first reached at depth == level.
func (x *explorerA) expandLevel(final bool) {
	x.level++
	var next []int32
	// group the frontier by walking the tree so that each store is derived from its parent's
	inFrontier := map[int32]bool{}
	for _, n := range x.frontier {
		inFrontier[n] = true
	}
	var walk func(n int32, content map[string][]byte, m *model)
	walk = func(n int32, content map[string][]byte, m *model) {
		if x.stop {
			return
		}
		if inFrontier[n] {
			if x.ctx.Expired() {
				x.stop = true
				return
			}
			for _, o := range x.alpha.enabled(m) {
				p := x.s.mkPlan(m, o)
				nm := x.s.apply(m, p)
				k := nm.key()
				if _, ok := x.index[k]; !ok && !final {
					id := int32(len(x.nodes))
					x.nodes = append(x.nodes, tnode{parent: n, op: o, depth: uint8(x.level)})
					x.index[k] = id
					x.kids[n] = append(x.kids[n], id)
					next = append(next, id)
				}
				if !x.owns(&k) {
					continue
				}
				msg, post := x.checked(content, m, p, nm)
				path := append(x.pathOf(n), o)
				if msg != "" {
					x.ctx.Violation(sigA(msg), opsString(path)+" => "+msg, replay{Part: "A", Ops: path})
					if x.ctx.NViolations() >= 20 {
						x.stop = true
						return
					}
					continue
				}
				rc := x.s.rawCanon(post, nm)
				if first, ok := x.arrival[k]; !ok {
					x.arrival[k] = rc
					x.arrPath[k] = path
					if nm.last > 0 && len(nm.ents) > 0 {
						x.ctx.Distinct(xplor.Hash("A", x.alpha.name, fmt.Sprint(k)))
					}
				} else if first != rc {
					other := x.arrPath[k]
					x.ctx.Violation("", fmt.Sprintf("two sequences reach the same reference log (%s) but leave different WAL content in the store: [%s] vs [%s]", nm.logString(), opsString(other), opsString(path)), replay{Part: "A2", Ops: other, Ops2: path})
					continue
				}
				x.ctx.Max("max_log_len", int64(nm.last))
			}
			return
		}
		for _, c := range x.kids[n] {
			if x.stop {
				return
			}
			p := x.s.mkPlan(m, x.nodes[c].op)
			cc, err := x.cheap(content, p)
			if err != nil {
				// reported by the owner of that edge; nothing below can be re-created
				continue
			}
			walk(c, cc, x.s.apply(m, p))
		}
	}
	walk(0, x.s.empty, newModel())
	if !x.stop {
		// = number of shards (32) when the level is complete
		x.ctx.Count(fmt.Sprintf("a_shards_done_%s_level%d", x.alpha.name, x.level), 1)
		x.ctx.Max("max_depth_"+x.alpha.name, int64(x.level))
		if x.ctx.Shard == 0 {
			x.ctx.Count("a_states_expanded_"+x.alpha.name, int64(len(x.frontier)))
		}
	}
	x.frontier = next
}

func sigA(msg string) string {
	if strings.Contains(msg, "GetRaftEntryOfBlock(block of a truncated entry)") {
		return "C16-stale-inverse-index"
	}
	return ""
}

// replayA re-executes one recorded sequence from the empty WAL, all oracles after every step.
func replayA(ctx *xplor.Ctx, s *sut, ops []aop) {
	x := newExplorerA(ctx, s, &fullAlphabet)
	content, m := s.empty, newModel()
	for i, o := range ops {
		p := s.mkPlan(m, o)
		if p == nil {
			ctx.Note("replay: operation not enabled")
			return
		}
		nm := s.apply(m, p)
		msg, post := x.checked(content, m, p, nm)
		if msg != "" {
			ctx.Violation(sigA(msg), opsString(ops[:i+1])+" => "+msg, replay{Part: "A", Ops: ops[:i+1]})
			return
		}
		content, m = post, nm
	}
}

// replayA2 re-executes two sequences and compares the canonical raw content.
func replayA2(ctx *xplor.Ctx, s *sut, a, b []aop) {
	x := newExplorerA(ctx, s, &fullAlphabet)
	run := func(ops []aop) ([32]byte, *model) {
		content, m := s.empty, newModel()
		for _, o := range ops {
			p := s.mkPlan(m, o)
			c, err := x.cheap(content, p)
			if err != nil {
				panic(err)
			}
			content, m = c, s.apply(m, p)
		}
		return s.rawCanon(content, m), m
	}
	ra, ma := run(a)
	rb, _ := run(b)
	if ra != rb {
		ctx.Violation("", fmt.Sprintf("two sequences reach the same reference log (%s) but leave different WAL content in the store: [%s] vs [%s]", ma.logString(), opsString(a), opsString(b)), replay{Part: "A2", Ops: a, Ops2: b})
	}
}
