// C16: Raft log storage and membership: durable, truncating correctly, quorum-safe.
// Part A (parta.go): bounded exhaustive operation sequences on the real WAL
// code with restart and crash points; part B (partb.go): exhaustive truth
// table of membership change requests.
package main

import (
	"encoding/json"
	"fmt"
	"runtime/debug"
	"time"

	"github.com/aergoio/aergo-lib/db"
	"github.com/aergoio/aergo/v2/verif_h/xplor"
)

type replay struct {
	Part string `json:"part"`
	Ops  []aop  `json:"ops,omitempty"`
	Ops2 []aop  `json:"ops2,omitempty"`
	B    *breq  `json:"b,omitempty"`
}

var allClasses = []int{hHealthy, hLagging, hSlowGap, hSlowProb, hSyncing}
var quickClasses = []int{hHealthy, hSlowGap, hSyncing}

func run(ctx *xplor.Ctx) {
	name := fmt.Sprintf("c16-%d", ctx.Shard)
	defer db.VerifDrop(name)
	fx := newFixtures()

	if ctx.Replay != nil {
		var r replay
		if err := json.Unmarshal(ctx.Replay, &r); err != nil {
			panic(err)
		}
		switch r.Part {
		case "A":
			replayA(ctx, newSut(name, fx), r.Ops)
		case "A2":
			replayA2(ctx, newSut(name, fx), r.Ops, r.Ops2)
		case "B":
			replayB(ctx, *r.B)
		}
		return
	}

	// part B first (short, fixed size), then part A pass by pass, level by level
	classes := quickClasses
	type pass struct {
		a        *alphabet
		from, to int
	}
	passes := []pass{{&fullAlphabet, 1, 4}}
	if ctx.Tier == "thorough" {
		classes = allClasses
		// the deep passes over the smaller alphabets first: they are certain to
		// finish; level 5 of the full alphabet takes whatever budget is left
		passes = []pass{{&fullAlphabet, 1, 4}, {&coreAlphabet, 1, 6}, {&mediumAlphabet, 1, 5}, {&fullAlphabet, 5, 5}}
	}
	exploreB(ctx, 5, classes)
	if ctx.NViolations() > 0 {
		return // fail fast: the run is a violation whatever part A finds
	}

	debug.SetGCPercent(400)
	s := newSut(name, fx)
	s.deep = ctx.Tier == "thorough"
	expl := map[*alphabet]*explorerA{}
	for _, p := range passes {
		x := expl[p.a]
		if x == nil {
			x = newExplorerA(ctx, s, p.a)
			expl[p.a] = x
		}
		last := p.to
		for _, q := range passes {
			if q.a == p.a && q.to > last {
				last = q.to
			}
		}
		for l := p.from; l <= p.to && !x.stop; l++ {
			x.expandLevel(l == last)
		}
		if x.stop && ctx.NViolations() == 0 {
			ctx.Note(fmt.Sprintf("part A: %s alphabet: level %d not completed inside the budget (levels below it are complete)", p.a.name, x.level))
			break
		}
	}
	if ctx.Shard == 0 {
		ctx.Sample(map[string]interface{}{"part": "A", "sequence": opsString([]aop{
			{K: opAppend, S: 0, L: 3, T: 0, P: 0}, {K: opSnap, S: 1}, {K: opAppend, S: 2, L: 1, T: 1, P: 1}, {K: opHard, S: 0}}),
			"what": "every operation executed by the running and by a restarted node; then last index, GetRaftEntry(1..24) present/absent and content, hard state, snapshot, identity on both, block re-materialisation, inverse block index and ReadAll(snapshot) fed into raft MemoryStorage on the restarted one; every crash prefix of the operation's durable units"})
		ctx.Sample(map[string]interface{}{"part": "B", "case": breq{N: 3, R: 1, Leader: 1, Health: []int{0, hSlowGap, hHealthy}, Add: false, ID: 3}.String(),
			"what": "request executed through BlockFactory.MakeConfChangeProposal with a fake raft node status; verdict compared with the property's refusal rule"})
	}
}

func main() {
	xplor.Main(xplor.Check{
		ID:    "C16",
		Level: "exploration",
		Rule: "part A (storage): every sequence of <= d operations from the empty WAL, each operation executed both by the running node and by a freshly restarted one (new ChainDB+WalDB on the same store), over the alphabet FULL = {append batch through WalDB.SaveEntry: start in {last+1,last,last-1,1} (conflict truncation shorter, equal, longer than the stored suffix), 1..3 entries, kind patterns BBB/ECB/CBE (B block-carrying, E empty, C conf-change), term t or t+1 (t = highest term in the WAL; t+1 comes with a hard state as in raft) | hard state x2 | snapshot at last / last-1 | identity x2 | ClearWAL | ResetWAL x2}: d=4 in quick; thorough adds d=6 over CORE (same starts/lengths/terms, entry kind fixed by the index, one hard state, snapshot at last, ClearWAL, one ResetWAL), d=5 over MEDIUM (CORE + the all-blocks pattern) and, budget permitting, level 5 of FULL (evidence: a_shards_done_<alphabet>_level<k> = 32 when level k is complete). Sequences reaching the same reference state are merged; the merge is checked, not assumed: the shard owning a reference state compares the canonical raw store content left by every edge arriving there byte for byte. After every operation: store written by the restarted node == store written by the running node; then on the running node and again on a reopened ChainDB+WalDB: last index, GetRaftEntry(i) for i=1..24 (content where stored, absent above the new last and in holes), hard state, snapshot, identity, HasWal; on the reopened one also the block of every block entry, the inverse block->entry index of live entries, and ReadAll(stored snapshot) (entries equal to what was stored, blocks re-materialised byte for byte), fed into raft's MemoryStorage as replayWAL does. CRASH: for every append, every non-empty proper prefix of its durable write units is applied to the pre-state and the reopened log must equal the old or the new reference log and a new hard state must not be durable without its entries; for ClearWAL/ResetWAL every prefix (the bulk cut after every key) followed by the re-execution startRaft performs must equal the uninterrupted result. " +
			"part B (membership): for n=1..5 applied members, 0..2 previously removed members, this node leader / follower / leader with empty raft status, every health vector (quick: healthy|slow|syncing per follower; thorough: healthy|lagging inside the gap|slow beyond the gap|probing|snapshot; the leader's own progress entry replicate|probe), every REMOVE(id of a member, of a removed member, unknown, 0) and every ADD(name, address, peer id each in {empty, of member k, of removed member j, fresh}) through the real request path BlockFactory.MakeConfChangeProposal, and the same with explicit ids through validateChangeMembership as the apply path calls it: the code must refuse whenever the request duplicates a member's name/id/address/peer id, re-adds a removed id, removes an id that is not a member, or removes a healthy node so that (healthy-1) < (n-1)/2+1. Refusals for other reasons are counted, not judged. distinct_nontrivial = reference states with a non-empty log whose every incoming edge passed (part A, per alphabet) + membership cases with verdict accept or must-refuse that passed (part B).",
		Assumptions: []string{
			"verifdb models the store: a committed transaction is atomic, a flushed bulk is applied in key order and may be cut anywhere, single Set/Delete are atomic",
			"the WAL code reads nothing but the keys r_entry.*, r_last, r_identity, r_state, r_snap, and the block body / inverse index key of a hash it got from an entry or from its caller (garbage left by truncated entries - dead block bodies, their inverse keys, conf-change progress records - is not part of the compared raw state)",
			"raft hands SaveEntry contiguous batches that start at most one past the last index and never below index 1; terms never decrease",
			"entry contents are a function of (index, term, kind); blocks carry one transaction",
			"member identity is the raft id (the code assigns a new id to every add request); health classes are the code's: probing or more than MaxSlowNodeGap(100) behind = slow, snapshot = syncing, the leader itself healthy",
		},
		Shards: func(tier string) int { return 32 },
		Budget: func(tier string) time.Duration {
			// per worker; 32 workers run in two rounds on 16 cores
			if tier == "thorough" {
				return 13 * time.Minute
			}
			return 150 * time.Second
		},
		Run: run,
	})
}
