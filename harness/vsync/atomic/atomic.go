// Package atomic stands in for sync/atomic in packages rewritten with
// "vsync:<pkg>": the function forms are scheduling points (vsched.Yield) in
// front of the real atomic operation; the typed atomics (Int32, Value, ...)
// are the real types without scheduling points.
package atomic

import (
	"sync/atomic"
	"unsafe"

	"github.com/aergoio/aergo/v2/verif_h/vsched"
)

type (
	Bool    = atomic.Bool
	Int32   = atomic.Int32
	Int64   = atomic.Int64
	Uint32  = atomic.Uint32
	Uint64  = atomic.Uint64
	Uintptr = atomic.Uintptr
	Value   = atomic.Value
)

type Pointer[T any] struct{ atomic.Pointer[T] }

func y(op string) {
	if vsched.Active() {
		vsched.Yield(op, nil)
	}
}

func LoadInt32(p *int32) int32     { y("atomic.Load"); return atomic.LoadInt32(p) }
func LoadInt64(p *int64) int64     { y("atomic.Load"); return atomic.LoadInt64(p) }
func LoadUint32(p *uint32) uint32  { y("atomic.Load"); return atomic.LoadUint32(p) }
func LoadUint64(p *uint64) uint64  { y("atomic.Load"); return atomic.LoadUint64(p) }
func StoreInt32(p *int32, v int32) { y("atomic.Store"); atomic.StoreInt32(p, v) }
func StoreInt64(p *int64, v int64) { y("atomic.Store"); atomic.StoreInt64(p, v) }
func StoreUint32(p *uint32, v uint32) {
	y("atomic.Store")
	atomic.StoreUint32(p, v)
}
func StoreUint64(p *uint64, v uint64) {
	y("atomic.Store")
	atomic.StoreUint64(p, v)
}
func AddInt32(p *int32, d int32) int32     { y("atomic.Add"); return atomic.AddInt32(p, d) }
func AddInt64(p *int64, d int64) int64     { y("atomic.Add"); return atomic.AddInt64(p, d) }
func AddUint32(p *uint32, d uint32) uint32 { y("atomic.Add"); return atomic.AddUint32(p, d) }
func AddUint64(p *uint64, d uint64) uint64 { y("atomic.Add"); return atomic.AddUint64(p, d) }
func SwapInt32(p *int32, v int32) int32    { y("atomic.Swap"); return atomic.SwapInt32(p, v) }
func SwapInt64(p *int64, v int64) int64    { y("atomic.Swap"); return atomic.SwapInt64(p, v) }
func CompareAndSwapInt32(p *int32, o, n int32) bool {
	y("atomic.CAS")
	return atomic.CompareAndSwapInt32(p, o, n)
}
func CompareAndSwapInt64(p *int64, o, n int64) bool {
	y("atomic.CAS")
	return atomic.CompareAndSwapInt64(p, o, n)
}
func CompareAndSwapUint32(p *uint32, o, n uint32) bool {
	y("atomic.CAS")
	return atomic.CompareAndSwapUint32(p, o, n)
}
func CompareAndSwapUint64(p *uint64, o, n uint64) bool {
	y("atomic.CAS")
	return atomic.CompareAndSwapUint64(p, o, n)
}
func LoadPointer(p *unsafe.Pointer) unsafe.Pointer { y("atomic.Load"); return atomic.LoadPointer(p) }
func StorePointer(p *unsafe.Pointer, v unsafe.Pointer) {
	y("atomic.Store")
	atomic.StorePointer(p, v)
}
