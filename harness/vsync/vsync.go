// Package vsync stands in for package sync in copies of repo packages that are
// compiled for schedule exploration (tools/mkoverlay rewrite "vsync:<pkg>").
//
// Outside a vsched.Run every type behaves exactly like its sync counterpart
// (it delegates to an embedded real primitive), so the rewritten package can be
// used normally by sequential harness code in the same binary. Inside a
// vsched.Run every operation first calls vsched.Yield (a scheduling point) with
// the condition under which the operation can complete, and then updates a
// plain model of the primitive's state: blocking is cooperative, the real
// primitive is not touched. An object must not be held across the start or the
// end of a Run (the harness builds the objects, runs the threads to completion
// and only then inspects them).
//
// Model notes:
//   - RWMutex follows Go's writer preference: Lock first takes the writer slot
//     (from then on new RLocks block), then waits for the active readers to
//     drain. A recursive read lock with a writer in between therefore
//     deadlocks under the model as it does in Go.
//   - Map.Range takes one snapshot of the entries (insertion order) at a single
//     scheduling point and then calls f without further scheduling points of
//     its own.
//   - Pool, Cond, Locker are the real sync types (no scheduling points).
//   - RangeMap (rewrite "vrange") walks a map in sorted key order while a Run is
//     active (ascending, or descending when MapDescending is set), so that an
//     execution is a function of the schedule alone; outside a Run it is the
//     native randomised range.
package vsync

import (
	"fmt"
	"iter"
	"sort"
	"sync"

	"github.com/aergoio/aergo/v2/verif_h/vsched"
)

type (
	Locker = sync.Locker
	Pool   = sync.Pool
	Cond   = sync.Cond
)

func NewCond(l Locker) *Cond { return sync.NewCond(l) }

// ---------------------------------------------------------------- Mutex

type Mutex struct {
	mu   sync.Mutex
	held bool
}

func (m *Mutex) Lock() {
	if vsched.Active() {
		vsched.Yield("Mutex.Lock", func() bool { return !m.held })
		m.held = true
		return
	}
	m.mu.Lock()
}

func (m *Mutex) TryLock() bool {
	if vsched.Active() {
		vsched.Yield("Mutex.TryLock", nil)
		if m.held {
			return false
		}
		m.held = true
		return true
	}
	return m.mu.TryLock()
}

func (m *Mutex) Unlock() {
	if vsched.Active() {
		vsched.Yield("Mutex.Unlock", nil)
		if !m.held && !vsched.Aborting() {
			panic("vsync: unlock of unlocked Mutex")
		}
		m.held = false
		return
	}
	m.mu.Unlock()
}

// ---------------------------------------------------------------- RWMutex

type RWMutex struct {
	mu      sync.RWMutex
	wslot   bool // a writer owns the writer slot (pending or active)
	writing bool
	readers int
}

func (m *RWMutex) Lock() {
	if vsched.Active() {
		vsched.Yield("RWMutex.Lock(slot)", func() bool { return !m.wslot })
		m.wslot = true
		vsched.Yield("RWMutex.Lock(drain)", func() bool { return m.readers == 0 })
		m.writing = true
		return
	}
	m.mu.Lock()
}

func (m *RWMutex) TryLock() bool {
	if vsched.Active() {
		vsched.Yield("RWMutex.TryLock", nil)
		if m.wslot || m.readers > 0 {
			return false
		}
		m.wslot, m.writing = true, true
		return true
	}
	return m.mu.TryLock()
}

func (m *RWMutex) Unlock() {
	if vsched.Active() {
		vsched.Yield("RWMutex.Unlock", nil)
		if !m.writing && !vsched.Aborting() {
			panic("vsync: Unlock of unlocked RWMutex")
		}
		m.writing, m.wslot = false, false
		return
	}
	m.mu.Unlock()
}

func (m *RWMutex) RLock() {
	if vsched.Active() {
		vsched.Yield("RWMutex.RLock", func() bool { return !m.wslot })
		m.readers++
		return
	}
	m.mu.RLock()
}

func (m *RWMutex) TryRLock() bool {
	if vsched.Active() {
		vsched.Yield("RWMutex.TryRLock", nil)
		if m.wslot {
			return false
		}
		m.readers++
		return true
	}
	return m.mu.TryRLock()
}

func (m *RWMutex) RUnlock() {
	if vsched.Active() {
		vsched.Yield("RWMutex.RUnlock", nil)
		if m.readers <= 0 && !vsched.Aborting() {
			panic("vsync: RUnlock of unlocked RWMutex")
		}
		m.readers--
		return
	}
	m.mu.RUnlock()
}

type rlocker RWMutex

func (r *rlocker) Lock()   { (*RWMutex)(r).RLock() }
func (r *rlocker) Unlock() { (*RWMutex)(r).RUnlock() }

func (m *RWMutex) RLocker() Locker { return (*rlocker)(m) }

// ---------------------------------------------------------------- WaitGroup

type WaitGroup struct {
	wg sync.WaitGroup
	n  int
}

func (w *WaitGroup) Add(d int) {
	if vsched.Active() {
		vsched.Yield("WaitGroup.Add", nil)
		w.n += d
		if w.n < 0 && !vsched.Aborting() {
			panic("vsync: negative WaitGroup counter")
		}
		return
	}
	w.wg.Add(d)
}

func (w *WaitGroup) Done() { w.Add(-1) }

func (w *WaitGroup) Wait() {
	if vsched.Active() {
		vsched.Yield("WaitGroup.Wait", func() bool { return w.n == 0 })
		return
	}
	w.wg.Wait()
}

// ---------------------------------------------------------------- Once

type Once struct {
	once    sync.Once
	done    bool
	running bool
}

func (o *Once) Do(f func()) {
	if vsched.Active() {
		vsched.Yield("Once.Do", func() bool { return !o.running })
		if o.done {
			return
		}
		o.running = true
		defer func() { o.running, o.done = false, true }()
		f()
		return
	}
	o.once.Do(func() { o.done = true; f() })
}

// ---------------------------------------------------------------- Map

// Map is a mutex-protected ordered map with the method set of sync.Map.
type Map struct {
	mu   sync.Mutex
	m    map[any]any
	keys []any // insertion order (deterministic Range)
}

func (m *Map) point(op string) {
	if vsched.Active() {
		vsched.Yield(op, nil)
	}
}

func (m *Map) del(key any) {
	delete(m.m, key)
	for i, k := range m.keys {
		if k == key {
			m.keys = append(m.keys[:i:i], m.keys[i+1:]...)
			break
		}
	}
}

func (m *Map) set(key, value any) {
	if m.m == nil {
		m.m = map[any]any{}
	}
	if _, ok := m.m[key]; !ok {
		m.keys = append(m.keys, key)
	}
	m.m[key] = value
}

func (m *Map) Load(key any) (value any, ok bool) {
	m.point("Map.Load")
	m.mu.Lock()
	defer m.mu.Unlock()
	value, ok = m.m[key]
	return
}

func (m *Map) Store(key, value any) {
	m.point("Map.Store")
	m.mu.Lock()
	defer m.mu.Unlock()
	m.set(key, value)
}

func (m *Map) LoadOrStore(key, value any) (actual any, loaded bool) {
	m.point("Map.LoadOrStore")
	m.mu.Lock()
	defer m.mu.Unlock()
	if v, ok := m.m[key]; ok {
		return v, true
	}
	m.set(key, value)
	return value, false
}

func (m *Map) LoadAndDelete(key any) (value any, loaded bool) {
	m.point("Map.LoadAndDelete")
	m.mu.Lock()
	defer m.mu.Unlock()
	value, loaded = m.m[key]
	if loaded {
		m.del(key)
	}
	return
}

func (m *Map) Delete(key any) {
	m.point("Map.Delete")
	m.mu.Lock()
	defer m.mu.Unlock()
	if _, ok := m.m[key]; ok {
		m.del(key)
	}
}

func (m *Map) Swap(key, value any) (previous any, loaded bool) {
	m.point("Map.Swap")
	m.mu.Lock()
	defer m.mu.Unlock()
	previous, loaded = m.m[key]
	m.set(key, value)
	return
}

func (m *Map) CompareAndSwap(key, old, new any) bool {
	m.point("Map.CompareAndSwap")
	m.mu.Lock()
	defer m.mu.Unlock()
	if v, ok := m.m[key]; ok && v == old {
		m.m[key] = new
		return true
	}
	return false
}

func (m *Map) CompareAndDelete(key, old any) bool {
	m.point("Map.CompareAndDelete")
	m.mu.Lock()
	defer m.mu.Unlock()
	if v, ok := m.m[key]; ok && v == old {
		m.del(key)
		return true
	}
	return false
}

func (m *Map) Clear() {
	m.point("Map.Clear")
	m.mu.Lock()
	defer m.mu.Unlock()
	m.m, m.keys = nil, nil
}

func (m *Map) Range(f func(key, value any) bool) {
	m.point("Map.Range")
	m.mu.Lock()
	ks := append([]any(nil), m.keys...)
	vs := make([]any, len(ks))
	for i, k := range ks {
		vs[i] = m.m[k]
	}
	m.mu.Unlock()
	for i, k := range ks {
		if !f(k, vs[i]) {
			return
		}
	}
}

// ---------------------------------------------------------------- RangeMap

// MapDescending selects the key order RangeMap uses under the scheduler.
var MapDescending bool

func RangeMap[M ~map[K]V, K comparable, V any](m M) iter.Seq2[K, V] {
	return func(yield func(K, V) bool) {
		if !vsched.Active() {
			for k, v := range m {
				if !yield(k, v) {
					return
				}
			}
			return
		}
		type kk struct {
			s string
			k K
		}
		ks := make([]kk, 0, len(m))
		for k := range m {
			ks = append(ks, kk{fmt.Sprintf("%x", any(k)), k})
		}
		sort.Slice(ks, func(i, j int) bool {
			if MapDescending {
				return ks[i].s > ks[j].s
			}
			return ks[i].s < ks[j].s
		})
		for _, e := range ks {
			v, ok := m[e.k] // entries deleted during the walk are skipped, as in a native range
			if !ok {
				continue
			}
			if !yield(e.k, v) {
				return
			}
		}
	}
}
