package main

import (
	"crypto/sha256"
	"fmt"
	"sort"

	"github.com/aergoio/aergo/v2/account/key"
	"github.com/aergoio/aergo/v2/config"
	"github.com/aergoio/aergo/v2/types"
	"github.com/btcsuite/btcd/btcec/v2"
	"github.com/libp2p/go-libp2p/core/crypto"
	"github.com/willf/bloom"
)

func hN(parts ...interface{}) []byte {
	h := sha256.Sum256([]byte(fmt.Sprint(parts...)))
	return h[:]
}

// nb returns n deterministic bytes, none of them zero, first byte < 0x80.
func nb(n int, parts ...interface{}) []byte {
	out := make([]byte, 0, n)
	for c := 0; len(out) < n; c++ {
		for _, x := range hN(append(parts, c)...) {
			if x == 0 {
				x = 1
			}
			out = append(out, x)
		}
	}
	out = out[:n]
	if n > 0 {
		out[0] &= 0x7f
		if out[0] == 0 {
			out[0] = 1
		}
	}
	return out
}

// ---- keys -----------------------------------------------------------------

var (
	txPriv  *btcec.PrivateKey
	txAddr  []byte
	bpPriv  crypto.PrivKey
	sysAddr = types.AddressPadding([]byte(types.AergoSystem)) // 0x80 | "aergo.system" | 0…
)

func initKeys() {
	txPriv, _ = btcec.PrivKeyFromBytes(hN("c19 tx key"))
	txAddr = txPriv.PubKey().SerializeCompressed()
	var err error
	bpPriv, err = crypto.UnmarshalSecp256k1PrivateKey(hN("c19 bp key"))
	if err != nil {
		panic(err)
	}
}

// keyAddr: a 33-byte key-derived address (first byte 0x02/0x03).
func keyAddr(i int) []byte {
	p, _ := btcec.PrivKeyFromBytes(hN("c19 addr", i))
	return p.PubKey().SerializeCompressed()
}

var addrCache = map[int][]byte{}

func addrK(i int) []byte {
	if a, ok := addrCache[i]; ok {
		return a
	}
	a := keyAddr(i)
	addrCache[i] = a
	return a
}

// ---- hardfork versions ------------------------------------------------------

var versions = []int{0, 2, 3, 4, 5}

const blockNoUnderTest = types.BlockNo(10)

// cfgFor returns a real HardforkConfig under which block 10 has version v.
func cfgFor(v int) *config.HardforkConfig {
	hs := [4]uint64{100, 100, 100, 100}
	for k := 2; k <= 5; k++ {
		if v >= k {
			hs[k-2] = 5
		}
	}
	return &config.HardforkConfig{V2: hs[0], V3: hs[1], V4: hs[2], V5: hs[3]}
}

// ---- block headers ----------------------------------------------------------

// mkHeader: variant 0 is a realistic signed header; variant k>0 has short
// variable-length fields (1..4 bytes) and is not signed.
func mkHeader(variant int) *types.BlockHeader {
	if variant == 0 {
		cid, err := (&types.ChainID{Version: 3, PublicNet: true, MainNet: false, Magic: "c19.chain", Consensus: "dpos"}).Bytes()
		if err != nil {
			panic(err)
		}
		h := &types.BlockHeader{
			ChainID:          cid,
			PrevBlockHash:    hN("prev"),
			BlockNo:          0x1234,
			Timestamp:        1600000000123456789,
			BlocksRootHash:   hN("state root"),
			TxsRootHash:      hN("txs root"),
			ReceiptsRootHash: hN("receipts root"),
			Confirms:         0x0203,
			CoinbaseAccount:  addrK(100),
			Consensus:        nb(12, "consensus"),
		}
		if hdr0Sig == nil {
			blk := &types.Block{Header: h}
			if err := blk.Sign(bpPriv); err != nil {
				panic(err)
			}
			hdr0Pub, hdr0Sig = h.PubKey, h.Sign
		}
		h.PubKey, h.Sign = hdr0Pub, hdr0Sig
		return h
	}
	l := func(i int) int { return 1 + (i*variant+variant)%4 }
	return &types.BlockHeader{
		ChainID:          nb(l(0), "h", variant, 0),
		PrevBlockHash:    nb(l(1), "h", variant, 1),
		BlockNo:          uint64(0x0102 + variant),
		Timestamp:        int64(0x030405 + variant),
		BlocksRootHash:   nb(l(2), "h", variant, 2),
		TxsRootHash:      nb(l(3), "h", variant, 3),
		ReceiptsRootHash: nb(l(4), "h", variant, 4),
		Confirms:         uint64(0x0607 + variant),
		PubKey:           nb(l(5), "h", variant, 5),
		CoinbaseAccount:  nb(l(6), "h", variant, 6),
		Sign:             nb(l(7), "h", variant, 7),
		Consensus:        nb(l(8), "h", variant, 8),
	}
}

type H = types.BlockHeader

var hdrFields = []fld[H]{
	{name: "ChainID", kind: kBytes, b: func(h *H) *[]byte { return &h.ChainID }},
	{name: "PrevBlockHash", kind: kBytes, b: func(h *H) *[]byte { return &h.PrevBlockHash }},
	{name: "BlockNo", kind: kNum, bits: 64, gn: func(h *H) uint64 { return h.BlockNo }, sn: func(h *H, v uint64) { h.BlockNo = v }},
	{name: "Timestamp", kind: kNum, bits: 64, gn: func(h *H) uint64 { return uint64(h.Timestamp) }, sn: func(h *H, v uint64) { h.Timestamp = int64(v) }},
	{name: "BlocksRootHash", kind: kBytes, b: func(h *H) *[]byte { return &h.BlocksRootHash }},
	{name: "TxsRootHash", kind: kBytes, b: func(h *H) *[]byte { return &h.TxsRootHash }},
	{name: "ReceiptsRootHash", kind: kBytes, b: func(h *H) *[]byte { return &h.ReceiptsRootHash }},
	{name: "Confirms", kind: kNum, bits: 64, gn: func(h *H) uint64 { return h.Confirms }, sn: func(h *H, v uint64) { h.Confirms = v }},
	{name: "PubKey", kind: kBytes, b: func(h *H) *[]byte { return &h.PubKey }},
	{name: "CoinbaseAccount", kind: kBytes, b: func(h *H) *[]byte { return &h.CoinbaseAccount }},
	{name: "Sign", kind: kBytes, b: func(h *H) *[]byte { return &h.Sign }},
	{name: "Consensus", kind: kBytes, b: func(h *H) *[]byte { return &h.Consensus }},
}

func blockID(h *H) []byte { return (&types.Block{Header: h}).BlockHash() }

func hdrDigest(h *H) []byte {
	b, err := types.VerifC19HeaderDigest(h)
	if err != nil {
		panic(err)
	}
	return b
}

func hdrSigOK(h *H) bool {
	ok := false
	func() {
		defer func() { recover() }()
		v, err := (&types.Block{Header: h}).VerifySign()
		ok = v && err == nil
	}()
	return ok
}

// ---- transactions -----------------------------------------------------------

type B = types.TxBody

var (
	hdr0Pub, hdr0Sig []byte
	txSigCache       = map[int][]byte{}
)

// mkTx: variant 0..2 are realistic signed transactions (three different ones,
// used as the 3-element list); variant k>=3 has short fields, unsigned.
func mkTx(variant int) *types.Tx {
	if variant < 3 {
		body := &types.TxBody{
			Nonce:       uint64(0x0102 + variant),
			Account:     txAddr,
			Recipient:   addrK(200 + variant),
			Amount:      []byte{0x0d, 0xe0, 0xb6, 0xb3, byte(0xa7 + variant), 0x64},
			Payload:     []byte(fmt.Sprintf(`{"Name":"f%d","Args":[1,"x"]}`, variant)),
			GasLimit:    uint64(0x030405 + variant),
			GasPrice:    []byte{0x0b, 0xa4, 0x3b, 0x74},
			Type:        types.TxType_CALL,
			ChainIdHash: hN("chain id hash"),
		}
		tx := &types.Tx{Body: body}
		if sg, ok := txSigCache[variant]; ok {
			body.Sign = sg
			tx.Hash = tx.CalculateTxHash()
			return tx
		}
		if err := key.SignTx(tx, txPriv); err != nil {
			panic(err)
		}
		txSigCache[variant] = body.Sign
		return tx
	}
	l := func(i int) int { return 1 + (i*variant+variant)%4 }
	body := &types.TxBody{
		Nonce:       uint64(0x0a0b + variant),
		Account:     nb(l(0), "t", variant, 0),
		Recipient:   nb(l(1), "t", variant, 1),
		Amount:      nb(l(2), "t", variant, 2),
		Payload:     nb(l(3), "t", variant, 3),
		GasLimit:    uint64(0x0c0d + variant),
		GasPrice:    nb(l(4), "t", variant, 4),
		Type:        types.TxType(0x0102 + variant),
		ChainIdHash: nb(l(5), "t", variant, 5),
		Sign:        nb(l(6), "t", variant, 6),
	}
	if variant >= txTypeVariant0 {
		// one variant per transaction type the protocol defines: an identifier or digest that
		// leaves a field out for one type only (seed C19e) is seen by the same field mutations
		body.Type = realTxTypes()[variant-txTypeVariant0]
	}
	tx := &types.Tx{Body: body}
	tx.Hash = tx.CalculateTxHash()
	return tx
}

const txTypeVariant0 = 8

func realTxTypes() []types.TxType {
	var ts []types.TxType
	for k := range types.TxType_name {
		ts = append(ts, types.TxType(k))
	}
	sort.Slice(ts, func(i, j int) bool { return ts[i] < ts[j] })
	return ts
}

// txTypeVariants: the mkTx variants that carry the defined transaction types.
func txTypeVariants() []int {
	var vs []int
	for i := range realTxTypes() {
		vs = append(vs, txTypeVariant0+i)
	}
	return vs
}

var txFields = []fld[B]{
	{name: "Nonce", kind: kNum, bits: 64, gn: func(b *B) uint64 { return b.Nonce }, sn: func(b *B, v uint64) { b.Nonce = v }},
	{name: "Account", kind: kBytes, b: func(b *B) *[]byte { return &b.Account }},
	{name: "Recipient", kind: kBytes, b: func(b *B) *[]byte { return &b.Recipient }},
	{name: "Amount", kind: kBytes, b: func(b *B) *[]byte { return &b.Amount }},
	{name: "Payload", kind: kBytes, b: func(b *B) *[]byte { return &b.Payload }},
	{name: "GasLimit", kind: kNum, bits: 64, gn: func(b *B) uint64 { return b.GasLimit }, sn: func(b *B, v uint64) { b.GasLimit = v }},
	{name: "GasPrice", kind: kBytes, b: func(b *B) *[]byte { return &b.GasPrice }},
	{name: "Type", kind: kNum, bits: 32, gn: func(b *B) uint64 { return uint64(uint32(b.Type)) }, sn: func(b *B, v uint64) { b.Type = types.TxType(int32(uint32(v))) }},
	{name: "ChainIdHash", kind: kBytes, b: func(b *B) *[]byte { return &b.ChainIdHash }},
	{name: "Sign", kind: kBytes, b: func(b *B) *[]byte { return &b.Sign }},
}

func txSigOK(tx *types.Tx) bool {
	ok := false
	func() {
		defer func() { recover() }()
		ok = key.VerifyTx(tx) == nil
	}()
	return ok
}

// ---- receipts ---------------------------------------------------------------

type R = types.Receipt

func bloomOf(r *R, extra ...string) *bloom.BloomFilter {
	bf := bloom.New(types.BloomBitBits, types.BloomHashKNum)
	for _, e := range r.Events {
		bf.Add(e.ContractAddress)
		bf.Add([]byte(e.EventName))
	}
	for _, x := range extra {
		bf.Add([]byte(x))
	}
	return bf
}

func bloomBytes(bf *bloom.BloomFilter) []byte {
	b, err := bf.GobEncode()
	if err != nil {
		panic(err)
	}
	return b[24:]
}

// mkReceipt: receipt number i (distinct for distinct i) with every field
// non-empty, two events (own contract, and the name-padded system account).
func mkReceipt(i int, status int) *R {
	addr := addrK(300 + i)
	r := &R{
		ContractAddress:   addr,
		Status:            statuses[status],
		Ret:               fmt.Sprintf(`{"ret":%d}`, i),
		TxHash:            hN("receipt tx", i),
		FeeUsed:           []byte{0x12, byte(0x34 + i)},
		CumulativeFeeUsed: []byte{0x56, byte(0x78 + i)},
		GasUsed:           uint64(0x1357 + i),
		FeeDelegation:     i%2 == 0,
	}
	r.Events = []*types.Event{
		{ContractAddress: addr, EventName: "transfer", JsonArgs: fmt.Sprintf(`[%d,"x"]`, i), TxHash: r.TxHash, EventIdx: int32(0x0201 + i)},
		{ContractAddress: sysAddr, EventName: "stake", JsonArgs: `["1000"]`, TxHash: r.TxHash, EventIdx: int32(0x0302 + i)},
	}
	r.Bloom = bloomBytes(bloomOf(r))
	return r
}

func evB(e int, g func(*types.Event) *[]byte) func(*R) *[]byte {
	return func(r *R) *[]byte { return g(r.Events[e]) }
}
func evS(e int, g func(*types.Event) *string) func(*R) *string {
	return func(r *R) *string { return g(r.Events[e]) }
}

// expectation classes of a receipt field w.r.t. the receipts root
const (
	xMust    = iota // every version
	xMustV2         // format v2+ only; earlier formats do not contain the field
	xRet            // must change unless status is ERROR, then must not change
	xObserve        // recorded only (the property does not list the field)
)

type rfld struct {
	fld[R]
	x int
}

func evListOp(r *R, m int) bool {
	ev := r.Events
	switch m {
	case 0:
		r.Events = append([]*types.Event{}, ev[1:]...)
	case 1:
		r.Events = append([]*types.Event{}, ev[:len(ev)-1]...)
	case 2:
		c := *ev[len(ev)-1]
		cp := &types.Event{ContractAddress: c.ContractAddress, EventName: c.EventName, JsonArgs: c.JsonArgs, TxHash: c.TxHash, EventIdx: c.EventIdx}
		r.Events = append(append([]*types.Event{}, ev...), cp)
	case 3:
		r.Events = []*types.Event{ev[1], ev[0]}
	case 4:
		r.Events = nil
	}
	return true
}

func rcptFields() []rfld {
	fs := []rfld{
		{fld[R]{name: "ContractAddress", kind: kBytes, b: func(r *R) *[]byte { return &r.ContractAddress }}, xMust},
		{fld[R]{name: "Status", kind: kStatus, s: func(r *R) *string { return &r.Status }}, xMust},
		{fld[R]{name: "Ret", kind: kStr, s: func(r *R) *string { return &r.Ret }}, xRet},
		{fld[R]{name: "TxHash", kind: kBytes, b: func(r *R) *[]byte { return &r.TxHash }}, xMust},
		{fld[R]{name: "FeeUsed", kind: kBytes, b: func(r *R) *[]byte { return &r.FeeUsed }}, xMust},
		{fld[R]{name: "CumulativeFeeUsed", kind: kBytes, b: func(r *R) *[]byte { return &r.CumulativeFeeUsed }}, xMust},
		{fld[R]{name: "GasUsed", kind: kNum, bits: 64, gn: func(r *R) uint64 { return r.GasUsed }, sn: func(r *R, v uint64) { r.GasUsed = v }}, xMustV2},
		{fld[R]{name: "FeeDelegation", kind: kBool, gb: func(r *R) bool { return r.FeeDelegation }, sbo: func(r *R, v bool) { r.FeeDelegation = v }}, xMustV2},
		{fld[R]{name: "Events", kind: kEvList, ev: evListOp}, xMust},
		{fld[R]{name: "Bloom", kind: kBytes, b: func(r *R) *[]byte { return &r.Bloom }}, xObserve},
	}
	for e := 0; e < 2; e++ {
		p := fmt.Sprintf("Events[%d].", e)
		fs = append(fs,
			rfld{fld[R]{name: p + "ContractAddress", kind: kBytes, b: evB(e, func(v *types.Event) *[]byte { return &v.ContractAddress })}, xMust},
			rfld{fld[R]{name: p + "EventName", kind: kStr, s: evS(e, func(v *types.Event) *string { return &v.EventName })}, xMust},
			rfld{fld[R]{name: p + "JsonArgs", kind: kStr, s: evS(e, func(v *types.Event) *string { return &v.JsonArgs })}, xMust},
			rfld{fld[R]{name: p + "TxHash", kind: kBytes, b: evB(e, func(v *types.Event) *[]byte { return &v.TxHash })}, xMust},
			rfld{fld[R]{name: p + "EventIdx", kind: kNum, bits: 32,
				gn: func(e int) func(*R) uint64 {
					return func(r *R) uint64 { return uint64(uint32(r.Events[e].EventIdx)) }
				}(e),
				sn: func(e int) func(*R, uint64) {
					return func(r *R, v uint64) { r.Events[e].EventIdx = int32(uint32(v)) }
				}(e)}, xMust},
		)
	}
	return fs
}

// mkReceipts wraps a list like state.BlockState does: version switch from the
// real HardforkConfig, optional block bloom merged from the receipts' events.
func mkReceipts(list []*R, v int, withBloom bool) *types.Receipts {
	rs := &types.Receipts{}
	rs.SetHardFork(cfgFor(v), blockNoUnderTest)
	rs.Set(list)
	if withBloom {
		bf := bloom.New(types.BloomBitBits, types.BloomHashKNum)
		bf.Add([]byte("c19"))
		if err := rs.MergeBloom(bf); err != nil {
			panic(err)
		}
		for _, r := range list {
			if len(r.Events) > 0 {
				if err := rs.MergeBloom(bloomOf(r)); err != nil {
					panic(err)
				}
			}
		}
	}
	return rs
}

// blockIDOver builds a block through types.NewBlock on the given receipts and
// transactions and returns its id.
func blockIDOver(rs *types.Receipts, txs []*types.Tx) []byte {
	bi := &types.BlockHeaderInfo{No: blockNoUnderTest, Ts: 1600000000123456789, PrevBlockHash: hN("prev"), ChainId: []byte{3, 0, 0, 0, 1, 0, 'x', '/', 'y'}}
	return types.NewBlock(bi, hN("state root"), rs, txs, addrK(100), []byte("cons")).BlockHash()
}
