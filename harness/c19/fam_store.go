package main

import (
	"bytes"
	"fmt"
	"math/big"

	"github.com/aergoio/aergo/v2/chain"
	"github.com/aergoio/aergo/v2/config"
	"github.com/aergoio/aergo/v2/types"
	"github.com/aergoio/aergo/v2/verif_h/xplor"
)

// ---- receipt alphabet of the store round trip --------------------------------
//
// digits (simplest first): events {none, one own-contract event, one event of
// the name-padded system account, own + system + other key-addressed contract},
// per-receipt bloom {absent, present}, status x4, Ret {"" , json},
// FeeUsed {empty, 2 bytes}, (GasUsed, FeeDelegation) {(0,false), (0x0102030405,true)},
// thorough: contract address {key address, name-padded system account}.
var alphaRadix = []int{4, 2, 4, 2, 2, 2}

func alphaSize(th bool) int {
	n := 1
	for _, r := range alphaRadix {
		n *= r
	}
	if th {
		n *= 2
	}
	return n
}

func alphaReceipt(idx int, pos int) *R {
	d := make([]int, len(alphaRadix)+1)
	for i, r := range alphaRadix {
		d[i] = idx % r
		idx /= r
	}
	d[len(alphaRadix)] = idx
	r := &R{ContractAddress: addrK(400 + pos), TxHash: hN("stored tx", pos)}
	if d[6] == 1 {
		r.ContractAddress = sysAddr
	}
	own := &types.Event{ContractAddress: r.ContractAddress, EventName: "own", JsonArgs: `[1]`, TxHash: r.TxHash, EventIdx: 0}
	sys := &types.Event{ContractAddress: sysAddr, EventName: "stake", JsonArgs: `["10"]`, TxHash: r.TxHash, EventIdx: 1}
	oth := &types.Event{ContractAddress: addrK(410 + pos), EventName: "", JsonArgs: `[]`, TxHash: r.TxHash, EventIdx: 0x01020304}
	switch d[0] {
	case 1:
		r.Events = []*types.Event{own}
	case 2:
		r.Events = []*types.Event{sys}
	case 3:
		r.Events = []*types.Event{own, sys, oth}
	}
	if d[1] == 1 {
		r.Bloom = bloomBytes(bloomOf(r, "x"))
	}
	r.Status = statuses[d[2]]
	if d[3] == 1 {
		r.Ret = `{"a":[1,2]}`
	}
	if d[4] == 1 {
		r.FeeUsed = []byte{0x01, 0x00}
	}
	if d[5] == 1 {
		r.GasUsed = 0x0102030405
		r.FeeDelegation = true
	}
	return r
}

// cmpReceipt compares a read-back receipt with the written one in every field
// of the store format of version v.
func cmpReceipt(i int, w, g *R, v int) string {
	bad := func(f string, a, b interface{}) string {
		return fmt.Sprintf("receipt %d field %s: written %v, read back %v", i, f, a, b)
	}
	if !bytes.Equal(w.ContractAddress, g.ContractAddress) {
		return bad("ContractAddress", fmt.Sprintf("%x", w.ContractAddress), fmt.Sprintf("%x", g.ContractAddress))
	}
	if w.Status != g.Status {
		return bad("Status", w.Status, g.Status)
	}
	if w.Ret != g.Ret {
		return bad("Ret", fmt.Sprintf("%q", w.Ret), fmt.Sprintf("%q", g.Ret))
	}
	if !bytes.Equal(w.TxHash, g.TxHash) {
		return bad("TxHash", hx(w.TxHash), hx(g.TxHash))
	}
	if !bytes.Equal(w.FeeUsed, g.FeeUsed) {
		return bad("FeeUsed", fmt.Sprintf("%x", w.FeeUsed), fmt.Sprintf("%x", g.FeeUsed))
	}
	if !bytes.Equal(w.CumulativeFeeUsed, g.CumulativeFeeUsed) {
		return bad("CumulativeFeeUsed", fmt.Sprintf("%x", w.CumulativeFeeUsed), fmt.Sprintf("%x", g.CumulativeFeeUsed))
	}
	if !bytes.Equal(w.Bloom, g.Bloom) {
		return bad("Bloom", hx(w.Bloom), hx(g.Bloom))
	}
	if v >= 2 {
		if w.GasUsed != g.GasUsed {
			return bad("GasUsed", w.GasUsed, g.GasUsed)
		}
		if w.FeeDelegation != g.FeeDelegation {
			return bad("FeeDelegation", w.FeeDelegation, g.FeeDelegation)
		}
	}
	if len(w.Events) != len(g.Events) {
		return bad("len(Events)", len(w.Events), len(g.Events))
	}
	for e := range w.Events {
		we, ge := w.Events[e], g.Events[e]
		if !bytes.Equal(we.ContractAddress, ge.ContractAddress) {
			return bad(fmt.Sprintf("Events[%d].ContractAddress", e), fmt.Sprintf("%x", we.ContractAddress), fmt.Sprintf("%x", ge.ContractAddress))
		}
		if we.EventName != ge.EventName {
			return bad(fmt.Sprintf("Events[%d].EventName", e), we.EventName, ge.EventName)
		}
		if we.JsonArgs != ge.JsonArgs {
			return bad(fmt.Sprintf("Events[%d].JsonArgs", e), we.JsonArgs, ge.JsonArgs)
		}
		if we.EventIdx != ge.EventIdx {
			return bad(fmt.Sprintf("Events[%d].EventIdx", e), we.EventIdx, ge.EventIdx)
		}
	}
	return ""
}

func cmpReceipts(w []*R, got *types.Receipts, wroot []byte, v int) string {
	g := got.Get()
	if len(g) != len(w) {
		return fmt.Sprintf("wrote %d receipts, read back %d", len(w), len(g))
	}
	for i := range w {
		if g[i] == nil {
			return fmt.Sprintf("receipt %d read back as nil", i)
		}
		if m := cmpReceipt(i, w[i], g[i], v); m != "" {
			return m
		}
	}
	// the in-memory event fields are restored from the receipt by the read path
	for i, r := range g {
		r.SetMemoryInfo(hN("block"), blockNoUnderTest, int32(i))
	}
	if groot := got.MerkleRoot(); !bytes.Equal(groot, wroot) {
		return fmt.Sprintf("stored receipts hash to root %x, the written ones to %x", groot, wroot)
	}
	return ""
}

func describeList(l []*R) string {
	s := "["
	for i, r := range l {
		if i > 0 {
			s += " "
		}
		s += fmt.Sprintf("{%s ca=%s ret=%q fee=%x cum=%x gas=%d fd=%v bloom=%v events=%d", r.Status, hx(r.ContractAddress), r.Ret, r.FeeUsed, r.CumulativeFeeUsed, r.GasUsed, r.FeeDelegation, len(r.Bloom) > 0, len(r.Events))
		for _, e := range r.Events {
			s += fmt.Sprintf(" (%s %q %s %d)", hx(e.ContractAddress), e.EventName, e.JsonArgs, e.EventIdx)
		}
		s += "}"
	}
	return s + "]"
}

// typesRoundTrip: Receipts.MarshalBinary -> UnmarshalBinary under the same version.
func typesRoundTrip(list []*R, v int, bl bool) (msg string) {
	defer func() {
		if r := recover(); r != nil {
			msg = fmt.Sprintf("decoder panicked: %v", r)
		}
	}()
	rs := mkReceipts(list, v, bl)
	wroot := rs.MerkleRoot()
	b, err := rs.MarshalBinary()
	if err != nil {
		return "MarshalBinary: " + err.Error()
	}
	got := &types.Receipts{}
	got.SetHardFork(cfgFor(v), blockNoUnderTest)
	if err := got.UnmarshalBinary(b); err != nil {
		return "UnmarshalBinary: " + err.Error()
	}
	return cmpReceipts(list, got, wroot, v)
}

// chainRoundTrip: ChainDB.writeReceiptsAndOperations, then a new ChainDB handle
// on the same store (restart) and getReceipts / getReceipt.
func chainRoundTrip(store string, list []*R, v int, bl bool, single bool) (msg string) {
	defer func() {
		if r := recover(); r != nil {
			msg = fmt.Sprintf("chain db read path panicked: %v", r)
		}
	}()
	rs := mkReceipts(list, v, bl)
	wroot := rs.MerkleRoot()
	blk := &types.Block{Header: &types.BlockHeader{BlockNo: blockNoUnderTest}, Hash: hN("block")}
	chain.VerifC19OpenCDB(store).VerifC19WriteReceipts(blk, rs)
	cdb := chain.VerifC19OpenCDB(store)
	got, err := cdb.VerifC19GetReceipts(blk.Hash, blockNoUnderTest, cfgFor(v))
	if err != nil {
		return "getReceipts: " + err.Error()
	}
	if m := cmpReceipts(list, got, wroot, v); m != "" {
		return m
	}
	for i := range list {
		if !single {
			break
		}
		r, err := cdb.VerifC19GetReceipt(blk.Hash, blockNoUnderTest, int32(i), cfgFor(v))
		if err != nil {
			return fmt.Sprintf("getReceipt(%d): %v", i, err)
		}
		if m := cmpReceipt(i, list[i], r, v); m != "" {
			return "getReceipt: " + m
		}
		if r.BlockNo != blockNoUnderTest || !bytes.Equal(r.BlockHash, blk.Hash) || r.TxIndex != int32(i) {
			return fmt.Sprintf("getReceipt(%d): block info not restored", i)
		}
	}
	return ""
}

func init() {
	reg(&family{
		name:    "store",
		maxViol: 2,
		each: func(th bool, emit func(p ...int)) {
			n := alphaSize(th)
			for vi := range versions {
				for bl := 0; bl < 2; bl++ {
					emit(vi, bl, 0, 0, 0)
					for i := 0; i < n; i++ {
						emit(vi, bl, 1, i, 0)
					}
					for i := 0; i < n; i++ {
						for j := 0; j < n; j++ {
							emit(vi, bl, 2, i, j)
						}
					}
				}
			}
		},
		run: func(ctx *xplor.Ctx, th bool, p []int) []viol {
			v, bl, n := versions[p[0]], p[1] == 1, p[2]
			var list []*R
			if n >= 1 {
				list = append(list, alphaReceipt(p[3], 0))
			}
			if n >= 2 {
				list = append(list, alphaReceipt(p[4], 1))
			}
			ctx.Eval(1)
			if m := typesRoundTrip(list, v, bl); m != "" {
				return one("", "receipts store codec, version %d, block bloom %v, list %s: %s", v, bl, describeList(list), m)
			}
			if n > 0 {
				ctx.Eval(1)
				store := fmt.Sprintf("c19-rcpt-%d", ctx.Shard)
				// getReceipt(idx) decodes the whole list again: exercised for the 1-lists and the diagonal of the 2-lists
				if m := chainRoundTrip(store, list, v, bl, n == 1 || p[3] == p[4]); m != "" {
					return one("", "chain db receipts, version %d, block bloom %v, list %s: %s", v, bl, describeList(list), m)
				}
			}
			ctx.Distinct(xplor.Hash("store", p))
			return nil
		},
	})

	// F12: the same round trip with a non-empty CumulativeFeeUsed
	reg(&family{
		name: "F12",
		each: func(th bool, emit func(p ...int)) {
			for _, vi := range []int{0, 1} {
				for ev := 0; ev < 2; ev++ {
					for _, l := range []int{1, 4} {
						emit(vi, ev, l)
					}
				}
			}
		},
		run: func(ctx *xplor.Ctx, th bool, p []int) []viol {
			v := versions[p[0]]
			r := alphaReceipt(p[1], 0) // events digit is the lowest one: 0 none, 1 one own event
			r.CumulativeFeeUsed = nb(p[2], "cum")
			ctx.Eval(1)
			if m := typesRoundTrip([]*R{r}, v, false); m != "" {
				return one("F12", "receipts store codec, version %d, one receipt with non-empty CumulativeFeeUsed %s: %s", v, describeList([]*R{r}), m)
			}
			ctx.Distinct(xplor.Hash("F12", p))
			return nil
		},
	})

	// ---------------------------------------------------------------- cid
	cidVers := []int32{0, 1, 2, 3, 4, 5, -1, 0x7fffffff, -0x80000000, 0x01020304}
	magics := []string{"", "a", "dev.chain", "aergo.io", "x y\x00z"}
	conss := []string{"", "dpos", "raft", "sbp"}
	mkCid := func(p []int) *types.ChainID {
		return &types.ChainID{Version: cidVers[p[0]], PublicNet: p[1] == 1, MainNet: p[2] == 1, Magic: magics[p[3]], Consensus: conss[p[4]]}
	}
	eachCid := func(emit func(p ...int)) {
		for a := range cidVers {
			for b := 0; b < 2; b++ {
				for c := 0; c < 2; c++ {
					for d := range magics {
						for e := range conss {
							emit(a, b, c, d, e)
						}
					}
				}
			}
		}
	}
	reg(&family{
		name: "cid",
		each: func(th bool, emit func(p ...int)) {
			eachCid(emit)
			emit(-1)
		},
		run: func(ctx *xplor.Ctx, th bool, p []int) []viol {
			if p[0] == -1 { // injectivity over the whole alphabet
				seen := map[string]string{}
				var out []viol
				eachCid(func(q ...int) {
					id := mkCid(q)
					b, err := id.Bytes()
					if err != nil {
						return
					}
					ctx.Eval(1)
					if o, dup := seen[string(b)]; dup && len(out) == 0 {
						out = one("", "chain ids %s and %s have the same encoding %x", o, id.ToJSON(), b)
					}
					seen[string(b)] = id.ToJSON()
				})
				return out
			}
			id := mkCid(p)
			b, err := id.Bytes()
			if err != nil {
				return one("", "chain id %s does not encode: %v", id.ToJSON(), err)
			}
			ctx.Eval(1)
			back := types.NewChainID()
			if err := back.Read(b); err != nil {
				return one("", "chain id %s: encoding %x does not decode: %v", id.ToJSON(), b, err)
			}
			if !back.Equals(id) {
				return one("", "chain id %s read back as %s", id.ToJSON(), back.ToJSON())
			}
			if types.DecodeChainIdVersion(b) != id.Version {
				return one("", "chain id %s: DecodeChainIdVersion gives %d", id.ToJSON(), types.DecodeChainIdVersion(b))
			}
			for _, nv := range cidVers {
				ctx.Eval(1)
				nbts := types.MakeChainId(b, nv)
				want := *id
				want.Version = nv
				got := types.NewChainID()
				if err := got.Read(nbts); err != nil || !got.Equals(&want) {
					return one("", "MakeChainId(%s, %d) decodes to %s (err %v)", id.ToJSON(), nv, got.ToJSON(), err)
				}
				if !types.ChainIdEqualWithoutVersion(b, nbts) {
					return one("", "MakeChainId(%s, %d) changed more than the version", id.ToJSON(), nv)
				}
				if !bytes.Equal(b, mustBytes(id)) {
					return one("", "MakeChainId(%s, %d) modified its input", id.ToJSON(), nv)
				}
			}
			ctx.Distinct(xplor.Hash("cid", p))
			return nil
		},
	})

	// ---------------------------------------------------------------- gen
	genIDs := []types.ChainID{
		{Version: 0, PublicNet: false, MainNet: false, Magic: "dev.chain", Consensus: "sbp"},
		{Version: 0, PublicNet: true, MainNet: true, Magic: "aergo.io", Consensus: "dpos"},
		{Version: 2, PublicNet: true, MainNet: false, Magic: "", Consensus: "raft"},
	}
	tss := []int64{0, 1, 1559883600000000000, -1}
	bpss := [][]string{nil, {"16Uiu2HAkvvhjxVm2WE9yFBDdPQ9qx6pX9taF6TTwDNHs8VPi1EeR"}, {"a", "", "a"}}
	ebps := [][]types.EnterpriseBP{nil, {{Name: "bp1", Address: "/ip4/127.0.0.1/tcp/7846", PeerID: "16Uiu2"}}, {{Name: "", Address: "", PeerID: ""}, {Name: "x", Address: "y", PeerID: "z"}}}
	bals := []string{"", "1", "500000000000000000000000000"}
	mkGen := func(p []int) *types.Genesis {
		g := &types.Genesis{ID: genIDs[p[0]], Timestamp: tss[p[1]], BPs: bpss[p[2]], EnterpriseBPs: ebps[p[3]]}
		if bals[p[4]] != "" {
			g.Balance = map[string]string{"AmPkYbmz7hJFmBbVwi9UGtiunyBUMtfsg9RnTw8ijRNLLAnZ3eBa": bals[p[4]]}
			n, _ := new(big.Int).SetString(bals[p[4]], 10)
			g.AddBalance(n)
		}
		return g
	}
	cmpGen := func(w, g *types.Genesis, withBalance bool) string {
		if g == nil {
			return "read back as nil"
		}
		if !w.ID.Equals(&g.ID) {
			return fmt.Sprintf("chain id written %s, read back %s", w.ID.ToJSON(), g.ID.ToJSON())
		}
		if w.Timestamp != g.Timestamp {
			return fmt.Sprintf("timestamp written %d, read back %d", w.Timestamp, g.Timestamp)
		}
		if fmt.Sprintf("%q", w.BPs) != fmt.Sprintf("%q", g.BPs) {
			return fmt.Sprintf("BPs written %q, read back %q", w.BPs, g.BPs)
		}
		if fmt.Sprintf("%q", w.EnterpriseBPs) != fmt.Sprintf("%q", g.EnterpriseBPs) {
			return fmt.Sprintf("EnterpriseBPs written %q, read back %q", w.EnterpriseBPs, g.EnterpriseBPs)
		}
		if withBalance {
			a, b := w.TotalBalance(), g.TotalBalance()
			if (a == nil) != (b == nil) || (a != nil && a.Cmp(b) != 0) {
				return fmt.Sprintf("total balance written %v, read back %v", a, b)
			}
		}
		if !bytes.Equal(w.Block().BlockHash(), g.Block().BlockHash()) {
			return fmt.Sprintf("genesis block id written %x, read back %x", w.Block().BlockHash(), g.Block().BlockHash())
		}
		return ""
	}
	reg(&family{
		name: "gen",
		each: func(th bool, emit func(p ...int)) {
			for a := range genIDs {
				for b := range tss {
					for c := range bpss {
						for d := range ebps {
							for e := range bals {
								emit(a, b, c, d, e)
							}
						}
					}
				}
			}
		},
		run: func(ctx *xplor.Ctx, th bool, p []int) []viol {
			w := mkGen(p)
			ctx.Eval(2)
			if m := cmpGen(w, types.GetGenesisFromBytes(w.Bytes()), false); m != "" {
				return one("", "genesis %v through Bytes/GetGenesisFromBytes: %s", p, m)
			}
			store := fmt.Sprintf("c19-gen-%d", ctx.Shard)
			chain.VerifC19Clear(store)
			defer chain.VerifC19Clear(store)
			w2 := mkGen(p)
			if err := chain.VerifC19OpenCDB(store).VerifC19AddGenesis(w2); err != nil {
				return one("", "genesis %v: addGenesisBlock: %v", p, err)
			}
			got := chain.VerifC19OpenCDB(store).GetGenesisInfo()
			if m := cmpGen(mkGen(p), got, true); m != "" {
				return one("", "genesis %v through ChainDB (add, restart, GetGenesisInfo): %s", p, m)
			}
			ctx.Distinct(xplor.Hash("gen", p))
			return nil
		},
	})

	// ----------------------------------------------------------- hardfork
	hmaxH := func(th bool) (int, int) { // max fork height, max queried height
		if th {
			return 5, 8
		}
		return 4, 6
	}
	mkCfg := func(p []int) *config.HardforkConfig {
		return &config.HardforkConfig{V2: uint64(p[0]), V3: uint64(p[1]), V4: uint64(p[2]), V5: uint64(p[3])}
	}
	heights := func(c *config.HardforkConfig) [4]uint64 { return [4]uint64{c.V2, c.V3, c.V4, c.V5} }
	refVersion := func(c *config.HardforkConfig, h uint64) int32 {
		hs := heights(c)
		for k := 3; k >= 0; k-- {
			if hs[k] <= h {
				return int32(k + 2)
			}
		}
		return 0
	}
	vectors := func(H int, monotoneOnly bool) [][]int {
		var out [][]int
		for a := 0; a <= H; a++ {
			for b := 0; b <= H; b++ {
				for c := 0; c <= H; c++ {
					for d := 0; d <= H; d++ {
						if monotoneOnly && !(a <= b && b <= c && c <= d) {
							continue
						}
						out = append(out, []int{a, b, c, d})
					}
				}
			}
		}
		return out
	}
	reg(&family{
		name: "hfver",
		each: func(th bool, emit func(p ...int)) {
			H, _ := hmaxH(th)
			for _, v := range vectors(H, false) {
				emit(v...)
			}
		},
		run: func(ctx *xplor.Ctx, th bool, p []int) []viol {
			_, hm := hmaxH(th)
			c := mkCfg(p)
			mono := p[0] <= p[1] && p[1] <= p[2] && p[2] <= p[3]
			prev := int32(-1)
			for h := uint64(0); h <= uint64(hm); h++ {
				ctx.Eval(1)
				v := c.Version(h)
				if v < prev {
					return one("", "hardfork heights %v: Version(%d)=%d < Version(%d)=%d", p, h, v, h-1, prev)
				}
				prev = v
				if ref := refVersion(c, h); v != ref {
					return one("", "hardfork heights %v: Version(%d)=%d, the highest fork at or below that height is %d", p, h, v, ref)
				}
				if mono {
					is := []bool{c.IsV2Fork(h), c.IsV3Fork(h), c.IsV4Fork(h), c.IsV5Fork(h)}
					for k, b := range is {
						if b != (v >= int32(k+2)) {
							return one("", "hardfork heights %v: IsV%dFork(%d)=%v but Version(%d)=%d", p, k+2, h, b, h, v)
						}
					}
				}
			}
			ctx.Distinct(xplor.Hash("hfver", p))
			return nil
		},
	})
	fromDb := func(d config.HardforkDbConfig) *config.HardforkConfig {
		return &config.HardforkConfig{V2: d["V2"], V3: d["V3"], V4: d["V4"], V5: d["V5"]}
	}
	reg(&family{
		name: "hfper",
		each: func(th bool, emit func(p ...int)) {
			H, _ := hmaxH(th)
			for _, v := range vectors(H, true) {
				emit(v...)
			}
		},
		run: func(ctx *xplor.Ctx, th bool, p []int) []viol {
			_, hm := hmaxH(th)
			c := mkCfg(p)
			store := fmt.Sprintf("c19-hf-%d", ctx.Shard)
			chain.VerifC19Clear(store)
			defer chain.VerifC19Clear(store)
			cdb := chain.VerifC19OpenCDB(store)
			if pre := cdb.Hardfork(*c); len(pre) != 0 {
				return one("", "fresh chain db reports a stored hardfork config %v", pre)
			}
			if err := cdb.WriteHardfork(c); err != nil {
				return one("", "WriteHardfork(%v): %v", p, err)
			}
			cdb2 := chain.VerifC19OpenCDB(store) // restart
			for _, param := range []config.HardforkConfig{*c, {}, {V2: 9, V3: 9, V4: 9, V5: 9}} {
				dbc := cdb2.Hardfork(param)
				if len(dbc) != 4 {
					return one("", "hardfork heights %v: reloaded config has %d entries: %v", p, len(dbc), dbc)
				}
				back := fromDb(dbc)
				for h := uint64(0); h <= uint64(hm); h++ {
					ctx.Eval(1)
					if back.Version(h) != c.Version(h) {
						return one("", "hardfork heights %v: Version(%d)=%d before the restart, %d after reload (%v)", p, h, c.Version(h), back.Version(h), heights(back))
					}
				}
			}
			dbc := cdb2.Hardfork(*c)
			for best := uint64(0); best <= uint64(hm); best++ {
				ctx.Eval(1)
				if err := c.CheckCompatibility(dbc, best); err != nil {
					return one("", "hardfork heights %v: restart with the identical config at best height %d is refused: %v", p, best, err)
				}
			}
			ctx.Distinct(xplor.Hash("hfper", p))
			return nil
		},
	})
	reg(&family{
		name: "hfcmp",
		each: func(th bool, emit func(p ...int)) {
			H, _ := hmaxH(th)
			n := len(vectors(H, true))
			for i := 0; i < n; i++ {
				for j := 0; j < n; j++ {
					emit(i, j)
				}
			}
		},
		run: func(ctx *xplor.Ctx, th bool, p []int) []viol {
			H, hm := hmaxH(th)
			vs := vectors(H, true)
			old, nw := mkCfg(vs[p[0]]), mkCfg(vs[p[1]])
			store := fmt.Sprintf("c19-hf-%d", ctx.Shard)
			chain.VerifC19Clear(store)
			defer chain.VerifC19Clear(store)
			if err := chain.VerifC19OpenCDB(store).WriteHardfork(old); err != nil {
				return one("", "WriteHardfork: %v", err)
			}
			dbc := chain.VerifC19OpenCDB(store).Hardfork(*nw)
			for best := uint64(0); best <= uint64(hm); best++ {
				ctx.Eval(1)
				err := nw.CheckCompatibility(dbc, best)
				changed := -1
				// the reference version function, not the one under test, says what changes
				for h := uint64(0); h <= best; h++ {
					if refVersion(old, h) != refVersion(nw, h) {
						changed = int(h)
						break
					}
				}
				// cross-check of the oracle: "a fork at or below best differs" is the same predicate
				direct := false
				ho, hn := heights(old), heights(nw)
				for k := range ho {
					if ho[k] != hn[k] && (ho[k] <= best || hn[k] <= best) {
						direct = true
					}
				}
				if direct != (changed >= 0) {
					panic(fmt.Sprintf("harness: oracle formulations disagree for %v -> %v at %d", vs[p[0]], vs[p[1]], best))
				}
				switch {
				case p[0] == p[1] && err != nil:
					return one("", "stored hardfork heights %v, restart with the identical config at best height %d is refused: %v", vs[p[0]], best, err)
				case changed >= 0 && err == nil:
					return one("", "stored hardfork heights %v, best height %d: CheckCompatibility accepts the config %v, which changes the version of height %d from %d to %d", vs[p[0]], best, vs[p[1]], changed, refVersion(old, uint64(changed)), refVersion(nw, uint64(changed)))
				case changed < 0 && err != nil:
					ctx.Count("observed_future_change_refused", 1)
				}
			}
			ctx.Distinct(xplor.Hash("hfcmp", p))
			return nil
		},
	})
}

func mustBytes(id *types.ChainID) []byte {
	b, err := id.Bytes()
	if err != nil {
		panic(err)
	}
	return b
}

func samples(ctx *xplor.Ctx) {
	h := mkHeader(0)
	ctx.Sample(map[string]interface{}{"family": "hdr", "what": "realistic signed header; every one of the 12 fields x every mutation: id, signed digest, signature validity",
		"block_id": fmt.Sprintf("%x", blockID(h)), "chain_id": fmt.Sprintf("%x", h.ChainID), "sign_len": len(h.Sign)})
	t := mkTx(0)
	ctx.Sample(map[string]interface{}{"family": "tx", "tx_id": fmt.Sprintf("%x", t.Hash), "payload": string(t.Body.Payload), "amount": fmt.Sprintf("%x", t.Body.Amount)})
	l := []*R{mkReceipt(0, 0), mkReceipt(1, 3), mkReceipt(2, 2)}
	ctx.Sample(map[string]interface{}{"family": "rcpt", "list": describeList(l), "root_v0": fmt.Sprintf("%x", mkReceipts(l, 0, false).MerkleRoot()), "root_v2_bloom": fmt.Sprintf("%x", mkReceipts(l, 2, true).MerkleRoot())})
	ctx.Sample(map[string]interface{}{"family": "store", "list": describeList([]*R{alphaReceipt(alphaSize(false)-1, 0), alphaReceipt(2, 1)}), "what": "written with the block bloom under each version, read back through Receipts.UnmarshalBinary and ChainDB.getReceipts"})
}
