package main

import (
	"bytes"
	"fmt"
)

// Field descriptors and the single-field mutation alphabet.
//
// Quick alphabet (the one the property plan names), per field:
//   0 flip lowest bit, 1 flip highest bit, 2 append byte, 3 drop byte, 4 empty
// Thorough adds, per field: prepend 0x00, drop first byte, append 0x00 and the
// flip of every single bit of the field.
// Numeric fields use the same five on the integer (append = v<<8|0xA5,
// drop = v>>8, empty = 0) and, thorough, every single bit. Booleans have one
// mutation (negation); the receipt status has three (each other status).

const (
	kBytes = iota
	kStr
	kNum
	kBool
	kStatus
	kEvList
)

var mutNames = []string{"flip-lowest-bit", "flip-highest-bit", "append-byte", "drop-byte", "empty", "prepend-00", "drop-first-byte", "append-00"}

const nBaseMut = 5
const nExtraMut = 3

var statuses = []string{"SUCCESS", "CREATED", "ERROR", "RECREATED"}

type fld[T any] struct {
	name string
	kind int
	bits int
	b    func(*T) *[]byte
	s    func(*T) *string
	gn   func(*T) uint64
	sn   func(*T, uint64)
	gb   func(*T) bool
	sbo  func(*T, bool)
	// event list accessors (receipts only) are handled by the caller through ev
	ev func(*T, int) bool
}

func (f fld[T]) length(o *T) int {
	switch f.kind {
	case kBytes:
		return len(*f.b(o))
	case kStr:
		return len(*f.s(o))
	}
	return 0
}

func (f fld[T]) nmut(o *T, thorough bool) int {
	switch f.kind {
	case kBytes, kStr:
		if thorough {
			return nBaseMut + nExtraMut + 8*f.length(o)
		}
		return nBaseMut
	case kNum:
		if thorough {
			return nBaseMut + f.bits
		}
		return nBaseMut
	case kBool:
		return 1
	case kStatus:
		return 3
	case kEvList:
		return 5
	}
	return 0
}

func mutBytes(b []byte, m int) ([]byte, string) {
	n := len(b)
	c := append([]byte{}, b...)
	switch {
	case m == 0:
		if n == 0 {
			return nil, ""
		}
		c[n-1] ^= 1
		return c, mutNames[0]
	case m == 1:
		if n == 0 {
			return nil, ""
		}
		c[0] ^= 0x80
		return c, mutNames[1]
	case m == 2:
		return append(c, 0xA5), mutNames[2]
	case m == 3:
		if n == 0 {
			return nil, ""
		}
		return c[:n-1], mutNames[3]
	case m == 4:
		return []byte{}, mutNames[4]
	case m == 5:
		return append([]byte{0}, c...), mutNames[5]
	case m == 6:
		if n == 0 {
			return nil, ""
		}
		return c[1:], mutNames[6]
	case m == 7:
		return append(c, 0), mutNames[7]
	default:
		k := m - nBaseMut - nExtraMut
		if k >= 8*n {
			return nil, ""
		}
		c[k/8] ^= 1 << uint(7-k%8)
		return c, fmt.Sprintf("flip-bit-%d", k)
	}
}

func mutNum(v uint64, bits int, m int) (uint64, string) {
	mask := ^uint64(0)
	if bits < 64 {
		mask = (uint64(1) << uint(bits)) - 1
	}
	switch {
	case m == 0:
		return v ^ 1, mutNames[0]
	case m == 1:
		return v ^ (uint64(1) << uint(bits-1)), mutNames[1]
	case m == 2:
		return (v<<8 | 0xA5) & mask, mutNames[2]
	case m == 3:
		return v >> 8, mutNames[3]
	case m == 4:
		return 0, mutNames[4]
	default:
		k := m - nBaseMut
		return v ^ (uint64(1) << uint(k)), fmt.Sprintf("flip-bit-%d", k)
	}
}

// mutate applies mutation m to field f of o in place (copy on write for byte
// slices). ok=false when the mutation does not apply or leaves the value as it
// was (then the case is trivial and skipped).
func (f fld[T]) mutate(o *T, m int) (desc string, ok bool) {
	switch f.kind {
	case kBytes:
		p := f.b(o)
		nb, d := mutBytes(*p, m)
		if d == "" || bytes.Equal(nb, *p) {
			return "", false
		}
		*p = nb
		return d, true
	case kStr:
		p := f.s(o)
		nb, d := mutBytes([]byte(*p), m)
		if d == "" || string(nb) == *p {
			return "", false
		}
		*p = string(nb)
		return d, true
	case kNum:
		v := f.gn(o)
		nv, d := mutNum(v, f.bits, m)
		if nv == v {
			return "", false
		}
		f.sn(o, nv)
		if f.gn(o) == v {
			return "", false
		}
		return d, true
	case kBool:
		f.sbo(o, !f.gb(o))
		return "negate", true
	case kStatus:
		p := f.s(o)
		cur := 0
		for i, s := range statuses {
			if s == *p {
				cur = i
			}
		}
		nv := statuses[(cur+1+m)%4]
		*p = nv
		return "status:=" + nv, true
	case kEvList:
		if !f.ev(o, m) {
			return "", false
		}
		return []string{"drop-first-event", "drop-last-event", "duplicate-last-event", "swap-events", "no-events"}[m], true
	}
	return "", false
}

func hx(b []byte) string {
	if len(b) > 8 {
		return fmt.Sprintf("%x..", b[:8])
	}
	return fmt.Sprintf("%x", b)
}
