package main

import (
	"bytes"
	"fmt"

	"github.com/aergoio/aergo/v2/account/key"
	"github.com/aergoio/aergo/v2/types"
	"github.com/aergoio/aergo/v2/verif_h/xplor"
)

func selfcheck() {
	for _, v := range versions {
		if int(cfgFor(v).Version(blockNoUnderTest)) != v {
			panic(fmt.Sprintf("harness: cfgFor(%d) gives version %d", v, cfgFor(v).Version(blockNoUnderTest)))
		}
	}
	if !hdrSigOK(mkHeader(0)) {
		panic("harness: base header signature does not verify")
	}
	for i := 0; i < 3; i++ {
		if !txSigOK(mkTx(i)) {
			panic("harness: base tx signature does not verify")
		}
	}
}

func variants(thorough bool, quick, full []int) []int {
	if thorough {
		return full
	}
	return quick
}

func init() {
	// ---------------------------------------------------------------- hdr
	reg(&family{
		name: "hdr",
		each: func(th bool, emit func(p ...int)) {
			for _, v := range variants(th, []int{0, 1}, []int{0, 1, 2, 3, 4, 5, 6}) {
				base := mkHeader(v)
				for fi, f := range hdrFields {
					for m := 0; m < f.nmut(base, th); m++ {
						emit(v, fi, m)
					}
				}
			}
		},
		run: func(ctx *xplor.Ctx, th bool, p []int) []viol {
			v, f, m := p[0], hdrFields[p[1]], p[2]
			base, mut := mkHeader(v), mkHeader(v)
			d, ok := f.mutate(mut, m)
			if !ok {
				ctx.Count("trivial_skipped", 1)
				return nil
			}
			what := fmt.Sprintf("header(variant %d) field %s %s", v, f.name, d)
			id0, id1 := blockID(base), blockID(mut)
			dg0, dg1 := hdrDigest(base), hdrDigest(mut)
			ctx.Eval(2)
			if bytes.Equal(id0, id1) {
				return one("", "block id unchanged under %s: id=%x", what, id0)
			}
			if f.name == "Sign" {
				if !bytes.Equal(dg0, dg1) {
					return one("", "signed block digest depends on the signature itself (%s)", what)
				}
			} else {
				if bytes.Equal(dg0, dg1) {
					return one("", "signed block digest unchanged under %s (id changed %s -> %s)", what, hx(id0), hx(id1))
				}
				if v == 0 {
					ctx.Eval(1)
					if hdrSigOK(mut) {
						return one("", "block signature still verifies after %s", what)
					}
				}
			}
			ctx.Distinct(xplor.Hash("hdr", v, p[1], m))
			return nil
		},
	})

	// ----------------------------------------------------------------- tx
	reg(&family{
		name: "tx",
		each: func(th bool, emit func(p ...int)) {
			for _, v := range append(variants(th, []int{0, 3}, []int{0, 1, 2, 3, 4, 5, 6, 7}), txTypeVariants()...) {
				base := mkTx(v)
				for fi, f := range txFields {
					for m := 0; m < f.nmut(base.Body, th); m++ {
						emit(v, fi, m)
					}
				}
			}
		},
		run: func(ctx *xplor.Ctx, th bool, p []int) []viol {
			v, f, m := p[0], txFields[p[1]], p[2]
			base, mut := mkTx(v), mkTx(v)
			d, ok := f.mutate(mut.Body, m)
			if !ok {
				ctx.Count("trivial_skipped", 1)
				return nil
			}
			what := fmt.Sprintf("tx(variant %d) field %s %s", v, f.name, d)
			id0, id1 := base.CalculateTxHash(), mut.CalculateTxHash()
			dg0, dg1 := key.CalculateHashWithoutSign(base.Body), key.CalculateHashWithoutSign(mut.Body)
			ctx.Eval(2)
			if bytes.Equal(id0, id1) {
				return one("", "tx id unchanged under %s: id=%x", what, id0)
			}
			if f.name == "Sign" {
				if !bytes.Equal(dg0, dg1) {
					return one("", "tx signing digest depends on the signature itself (%s)", what)
				}
			} else {
				if bytes.Equal(dg0, dg1) {
					return one("", "tx signing digest unchanged under %s (id changed %s -> %s)", what, hx(id0), hx(id1))
				}
				if v < 3 {
					ctx.Eval(1)
					if txSigOK(mut) {
						return one("", "tx signature still verifies after %s", what)
					}
				}
			}
			mut.Hash = id1
			for pos := 0; pos < 3; pos++ {
				l0 := []*types.Tx{mkTx(0), mkTx(1), mkTx(2)}
				l1 := []*types.Tx{l0[0], l0[1], l0[2]}
				l0[pos], l1[pos] = base, mut
				ctx.Eval(2)
				r0, r1 := types.CalculateTxsRootHash(l0), types.CalculateTxsRootHash(l1)
				if bytes.Equal(r0, r1) {
					return one("", "tx root unchanged when tx %d of 3 changes by %s: root=%x", pos, what, r0)
				}
				if bytes.Equal(blockIDOver(nil, l0), blockIDOver(nil, l1)) {
					return one("", "block id unchanged when tx %d of 3 changes by %s", pos, what)
				}
			}
			ctx.Distinct(xplor.Hash("tx", v, p[1], m))
			return nil
		},
	})

	// --------------------------------------------------------------- rcpt
	rf := rcptFields()
	otherStatus := []int{0, 2, 1} // SUCCESS, ERROR, CREATED for the receipts that are not mutated
	mkList := func(pos, status int) []*R {
		l := make([]*R, 3)
		for i := range l {
			s := otherStatus[i]
			if i == pos {
				s = status
			}
			l[i] = mkReceipt(i, s)
		}
		return l
	}
	reg(&family{
		name: "rcpt",
		each: func(th bool, emit func(p ...int)) {
			for vi := range versions {
				for bl := 0; bl < 2; bl++ {
					for pos := 0; pos < 3; pos++ {
						for st := 0; st < 4; st++ {
							base := mkReceipt(pos, st)
							for fi, f := range rf {
								n := f.nmut(base, th && f.x != xObserve)
								for m := 0; m < n; m++ {
									emit(vi, bl, pos, st, fi, m)
								}
							}
						}
					}
				}
			}
		},
		run: func(ctx *xplor.Ctx, th bool, p []int) []viol {
			vi, bl, pos, st, f, m := p[0], p[1] == 1, p[2], p[3], rf[p[4]], p[5]
			v := versions[vi]
			l0, l1 := mkList(pos, st), mkList(pos, st)
			d, ok := f.mutate(l1[pos], m)
			if !ok {
				ctx.Count("trivial_skipped", 1)
				return nil
			}
			what := fmt.Sprintf("receipt %d of 3 (status %s, version %d, block bloom %v) field %s %s", pos, statuses[st], v, bl, f.name, d)
			rs0, rs1 := mkReceipts(l0, v, bl), mkReceipts(l1, v, bl)
			r0, r1 := rs0.MerkleRoot(), rs1.MerkleRoot()
			ctx.Eval(1)
			same := bytes.Equal(r0, r1)
			x := f.x
			if x == xMustV2 {
				if v >= 2 {
					x = xMust
				} else {
					x = xObserve
				}
			}
			switch x {
			case xObserve:
				if same {
					ctx.Count("observed_free_"+f.name, 1)
				} else {
					ctx.Count("observed_bound_"+f.name, 1)
				}
				return nil
			case xRet:
				if statuses[st] == "ERROR" {
					if !same {
						return one("", "receipts root depends on the return value of a failed execution: %s", what)
					}
					ctx.Distinct(xplor.Hash("rcpt", p))
					return nil
				}
				fallthrough
			case xMust:
				if same {
					return one("", "receipts root unchanged under %s: root=%x", what, r0)
				}
				ctx.Eval(1)
				if bytes.Equal(blockIDOver(rs0, nil), blockIDOver(rs1, nil)) {
					return one("", "block id unchanged under %s", what)
				}
			}
			ctx.Distinct(xplor.Hash("rcpt", p))
			return nil
		},
	})

	// --------------------------------------------------------------- list
	// universe of lists: every sequence over {0,1,2} of length <= L
	seqs := func(L int) [][]int {
		out := [][]int{{}}
		prev := [][]int{{}}
		for l := 1; l <= L; l++ {
			var cur [][]int
			for _, s := range prev {
				for e := 0; e < 3; e++ {
					cur = append(cur, append(append([]int{}, s...), e))
				}
			}
			out = append(out, cur...)
			prev = cur
		}
		return out
	}
	listLen := func(th bool) int {
		if th {
			return 5
		}
		return 4
	}
	type lkey struct{ kind, vi, bl, i int }
	rootCache := map[lkey][]byte{}
	var seqCache [][]int
	elemTx := []*types.Tx{}
	rootOf := func(th bool, k lkey) []byte {
		if r, ok := rootCache[k]; ok {
			return r
		}
		if seqCache == nil {
			seqCache = seqs(5)
			elemTx = []*types.Tx{mkTx(0), mkTx(1), mkTx(2)}
		}
		s := seqCache[k.i]
		var r []byte
		if k.kind == 0 {
			l := make([]*types.Tx, len(s))
			for i, e := range s {
				l[i] = elemTx[e]
			}
			r = types.CalculateTxsRootHash(l)
		} else {
			l := make([]*R, len(s))
			for i, e := range s {
				l[i] = mkReceipt(e, []int{0, 2, 3}[e])
			}
			r = mkReceipts(l, versions[k.vi], k.bl == 1).MerkleRoot()
		}
		rootCache[k] = r
		return r
	}
	reg(&family{
		name: "list",
		each: func(th bool, emit func(p ...int)) {
			n := len(seqs(listLen(th)))
			pairs := func(kind, vi, bl int) {
				for j := 1; j < n; j++ {
					for i := 0; i < j; i++ {
						emit(kind, vi, bl, i, j)
					}
				}
			}
			pairs(0, 0, 0)
			for vi := range versions {
				for bl := 0; bl < 2; bl++ {
					pairs(1, vi, bl)
				}
			}
		},
		run: func(ctx *xplor.Ctx, th bool, p []int) []viol {
			kind, vi, bl, i, j := p[0], p[1], p[2], p[3], p[4]
			ri, rj := rootOf(th, lkey{kind, vi, bl, i}), rootOf(th, lkey{kind, vi, bl, j})
			ctx.Eval(1)
			if bytes.Equal(ri, rj) {
				a, b := seqCache[i], seqCache[j]
				what := "tx root"
				if kind == 1 {
					what = fmt.Sprintf("receipts root (version %d, block bloom %v)", versions[vi], bl == 1)
				}
				return one(dupTailSig(a, b), "%s of list %v equals that of list %v (elements are 3 distinct objects): %x", what, a, b, ri)
			}
			ctx.Distinct(xplor.Hash("list", p))
			return nil
		},
	})

	// ---------------------------------------------------------------- F13
	f13max := func(th bool) int {
		if th {
			return 17
		}
		return 9
	}
	reg(&family{
		name: "F13",
		each: func(th bool, emit func(p ...int)) {
			for n := 1; n <= f13max(th); n++ {
				for k := 1; k <= n; k++ {
					emit(0, 0, 0, n, k)
					for vi := range versions {
						for bl := 0; bl < 2; bl++ {
							emit(1, vi, bl, n, k)
						}
					}
				}
			}
		},
		run: func(ctx *xplor.Ctx, th bool, p []int) []viol {
			kind, vi, bl, n, k := p[0], p[1], p[2] == 1, p[3], p[4]
			var r0, r1, b0, b1 []byte
			if kind == 0 {
				l := make([]*types.Tx, n)
				for i := range l {
					l[i] = mkTx(3 + i)
				}
				l2 := append(append([]*types.Tx{}, l...), l[n-k:]...)
				r0, r1 = types.CalculateTxsRootHash(l), types.CalculateTxsRootHash(l2)
				b0, b1 = blockIDOver(nil, l), blockIDOver(nil, l2)
			} else {
				l := make([]*R, n)
				for i := range l {
					l[i] = mkReceipt(i, i%4)
				}
				l2 := append(append([]*R{}, l...), l[n-k:]...)
				rs0, rs1 := mkReceipts(l, versions[vi], bl), mkReceipts(l2, versions[vi], bl)
				r0, r1 = rs0.MerkleRoot(), rs1.MerkleRoot()
				b0, b1 = blockIDOver(rs0, nil), blockIDOver(rs1, nil)
			}
			ctx.Eval(1)
			if bytes.Equal(r0, r1) {
				what := "tx root"
				if kind == 1 {
					what = fmt.Sprintf("receipts root (version %d, block bloom %v)", versions[vi], bl)
				}
				return one("F13", "%s of %d distinct elements [e0..e%d] equals the root of the %d-element list obtained by appending a copy of its last %d element(s): root=%x, block ids equal=%v", what, n, n-1, n+k, k, r0, bytes.Equal(b0, b1))
			}
			ctx.Distinct(xplor.Hash("F13", p))
			return nil
		},
	})

	// ---------------------------------------------------------------- F14
	// adjacent variable-length fields in digest order (indices into the field tables)
	txPairs := [][2]int{{1, 2}, {2, 3}, {3, 4}, {8, 9}}
	hdrPairs := [][2]int{{0, 1}, {4, 5}, {5, 6}, {8, 9}, {9, 10}, {10, 11}, {9, 11}}
	shift := func(x, y *[]byte, dir int) bool {
		a, b := *x, *y
		if dir == 0 {
			if len(a) < 2 {
				return false
			}
			*x = append([]byte{}, a[:len(a)-1]...)
			*y = append([]byte{a[len(a)-1]}, b...)
		} else {
			if len(b) < 2 {
				return false
			}
			*x = append(append([]byte{}, a...), b[0])
			*y = append([]byte{}, b[1:]...)
		}
		return true
	}
	phrase := func(dir int, x, y string) string {
		if dir == 0 {
			return fmt.Sprintf("the last byte of %s moved to the front of %s", x, y)
		}
		return fmt.Sprintf("the first byte of %s moved to the end of %s", y, x)
	}
	reg(&family{
		name: "F14",
		each: func(th bool, emit func(p ...int)) {
			for i := range txPairs {
				emit(0, i, 0)
				emit(0, i, 1)
			}
			for i := range hdrPairs {
				emit(1, i, 0)
				emit(1, i, 1)
			}
		},
		run: func(ctx *xplor.Ctx, th bool, p []int) []viol {
			obj, pi, dir := p[0], p[1], p[2]
			ctx.Eval(1)
			if obj == 0 {
				pr := txPairs[pi]
				fx, fy := txFields[pr[0]], txFields[pr[1]]
				base, mut := mkTx(0), mkTx(0)
				if !shift(fx.b(mut.Body), fy.b(mut.Body), dir) {
					return nil
				}
				idEq := bytes.Equal(base.CalculateTxHash(), mut.CalculateTxHash())
				dgEq := bytes.Equal(key.CalculateHashWithoutSign(base.Body), key.CalculateHashWithoutSign(mut.Body))
				if idEq || dgEq {
					return one("F14", "tx with %s (%s %s->%s, %s %s->%s): tx id equal=%v, signing digest equal=%v, original signature verifies on the shifted tx=%v; id=%x",
						phrase(dir, fx.name, fy.name), fx.name, hx(*fx.b(base.Body)), hx(*fx.b(mut.Body)), fy.name, hx(*fy.b(base.Body)), hx(*fy.b(mut.Body)), idEq, dgEq, txSigOK(mut), base.CalculateTxHash())
				}
			} else {
				pr := hdrPairs[pi]
				fx, fy := hdrFields[pr[0]], hdrFields[pr[1]]
				base, mut := mkHeader(0), mkHeader(0)
				if !shift(fx.b(mut), fy.b(mut), dir) {
					return nil
				}
				idEq := bytes.Equal(blockID(base), blockID(mut))
				dgEq := bytes.Equal(hdrDigest(base), hdrDigest(mut))
				if idEq || dgEq {
					return one("F14", "block header with %s: block id equal=%v, signed digest equal=%v, original signature verifies on the shifted header=%v; id=%x",
						phrase(dir, fx.name, fy.name), idEq, dgEq, hdrSigOK(mut), blockID(base))
				}
			}
			ctx.Distinct(xplor.Hash("F14", p))
			return nil
		},
	})
}

// dupTailSig classifies a root collision between two lists: "F13" when the
// longer list is the shorter one followed only by copies of elements of the
// shorter one's tail segment of the same length (the duplicated-tail shape of
// the merkle construction), "" (an unlabelled violation) otherwise.
func dupTailSig(a, b []int) string {
	if len(a) > len(b) {
		a, b = b, a
	}
	if len(a) == 0 || len(a) == len(b) {
		return ""
	}
	for i := range a {
		if a[i] != b[i] {
			return ""
		}
	}
	k := len(b) - len(a)
	if k > len(a) {
		return ""
	}
	for i := 0; i < k; i++ {
		if b[len(a)+i] != a[len(a)-k+i] {
			return ""
		}
	}
	return "F13"
}
