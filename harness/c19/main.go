// C19: canonical, binding encodings of blocks, transactions, receipts and chain id.
//
// Everything here runs the real encoders/decoders/digest writers of /repo
// (types, account/key, internal/merkle, config, chain.ChainDB on verifdb) on
// exhaustively enumerated inputs; the oracles are plain comparisons of
// identifiers, digests, roots and decoded objects.
//
// Families (each case is replayable from {f: family, p: parameters}):
//
//	hdr    block header: every field x every single-field mutation
//	tx     tx body: every field x every mutation (id, signing digest, tx root)
//	rcpt   receipt in a 3-list: every consensus field x mutation x version
//	list   all pairs of tx / receipt lists over 3 elements: distinct roots
//	store  receipts store round trip (types codec and chain.ChainDB)
//	cid    chain id round trip / version rewrite / injectivity
//	gen    genesis round trip (types codec and chain.ChainDB)
//	hfver  HardforkConfig.Version against a reference, monotone in the height
//	hfper  persist + restart + reload of the hardfork config
//	hfcmp  CheckCompatibility over all pairs of configs x best heights
//	F12 F13 F14   labelled sub-checks for the suspected defects
package main

import (
	"encoding/json"
	"fmt"
	"os"
	"runtime/debug"
	"runtime/pprof"
	"sort"
	"strings"
	"time"

	"github.com/aergoio/aergo/v2/verif_h/xplor"
)

type viol struct{ sig, msg string }

type family struct {
	name string
	// maxViol: the family is abandoned in a worker after this many unlabelled
	// violations (default 20). The store family uses 2: a broken decoder reads
	// garbage element counts and allocates gigabytes per case.
	maxViol int
	each    func(thorough bool, emit func(p ...int))
	run     func(ctx *xplor.Ctx, thorough bool, p []int) []viol
}

type rcase struct {
	F string `json:"f"`
	P []int  `json:"p"`
	// L is set on labelled (suspected-defect) cases only. It is ignored on
	// replay; it makes their replay records longer than any unlabelled one, and
	// the runner reports violations shortest replay first, so an unlabelled
	// violation is never pushed out of the printed report by labelled ones.
	L string `json:"label,omitempty"`
}

var families []*family

func reg(f *family) { families = append(families, f) }

func one(sig, format string, a ...interface{}) []viol {
	return []viol{{sig, fmt.Sprintf(format, a...)}}
}

// labelled (suspected-defect) violations are held back until the end of the
// worker and capped per signature, so that they can never crowd an unlabelled
// violation out of the runner's per-shard buffer.
type held struct {
	v viol
	c rcase
}

// canonical marks the smallest, most telling example of each suspected defect:
// F12 v0 receipt with one own event and a 1-byte CumulativeFeeUsed (silently
// loses the event), F13 tx lists [e0,e1,e2] / [e0,e1,e2,e2], F14 signed tx with
// the last byte of Amount moved to the front of Payload.
func canonical(c rcase) bool {
	want := map[string][]int{"F12": {0, 1, 1}, "F13": {0, 0, 0, 3, 1}, "F14": {0, 2, 0}}[c.F]
	return want != nil && fmt.Sprint(want) == fmt.Sprint(c.P)
}

func run(ctx *xplor.Ctx) {
	if pf := os.Getenv("C19_PROF"); pf != "" { // debugging aid
		f, _ := os.Create(pf)
		pprof.StartCPUProfile(f)
		defer pprof.StopCPUProfile()
	}
	debug.SetMemoryLimit(2 << 30) // soft: keeps the heap of a worker small when a decoder misbehaves
	initKeys()
	selfcheck()
	thorough := ctx.Tier == "thorough"
	var later []held
	nviol := map[string]int{}
	do := func(f *family, p []int) {
		maxFamViol := f.maxViol
		if maxFamViol == 0 {
			maxFamViol = 20
		}
		if nviol[f.name] >= maxFamViol {
			if nviol[f.name] == maxFamViol {
				nviol[f.name]++
				ctx.Incomplete(fmt.Sprintf("family %s abandoned after %d violations in one worker", f.name, maxFamViol))
			}
			ctx.Count("cases_skipped_after_violations", 1)
			return
		}
		c := rcase{F: f.name, P: append([]int{}, p...)}
		if inChild() {
			noteProgress(c)
		}
		var vs []viol
		func() {
			defer func() {
				if r := recover(); r != nil {
					vs = append(vs, viol{"", fmt.Sprintf("panic in %s%v: %v", f.name, p, r)})
				}
			}()
			vs = f.run(ctx, thorough, p)
		}()
		ctx.Count("cases_"+f.name, 1)
		for _, v := range vs {
			if v.sig != "" {
				ctx.Count("occurrences_"+v.sig, 1)
				later = append(later, held{v, c})
			} else {
				ctx.Count("unlabelled_violations", 1)
				ctx.Violation("", v.msg, c)
				nviol[f.name]++
				debug.FreeOSMemory()
			}
		}
	}
	flush := func() {
		sort.SliceStable(later, func(i, j int) bool {
			if ci, cj := canonical(later[i].c), canonical(later[j].c); ci != cj {
				return ci
			}
			return len(later[i].v.msg) < len(later[j].v.msg)
		})
		n := map[string]int{}
		for _, h := range later {
			if n[h.v.sig] < 3 {
				n[h.v.sig]++
				h.c.L = h.v.sig + ": separately labelled sub-check for a suspected defect, reported after every unlabelled violation"
				if !canonical(h.c) { // the canonical example of each signature is reported first
					h.c.L += strings.Repeat(".", 40)
				}
				ctx.Violation(h.v.sig, h.v.msg, h.c)
			}
		}
	}
	if ctx.Replay != nil {
		var c rcase
		if err := json.Unmarshal(ctx.Replay, &c); err != nil {
			panic(err)
		}
		if isIsolated(c.F) && !inChild() {
			replayIsolated(ctx, rcase{F: c.F, P: c.P})
			return
		}
		for _, f := range families {
			if f.name == c.F {
				do(f, c.P)
			}
		}
		flush()
		return
	}
	i := 0
	stop := false
	isolatedDone := false
	for _, f := range families {
		if !familySelected(f.name) { // C19_ONLY: the guarded child, or a debugging run
			continue
		}
		if isIsolated(f.name) && !inChild() {
			if !isolatedDone {
				isolatedDone = true
				runIsolated(ctx)
			}
			continue
		}
		f.each(thorough, func(p ...int) {
			mine := ctx.Mine(i)
			i++
			if !mine || stop {
				return
			}
			if i&1023 == 0 && ctx.Expired() {
				stop = true
				return
			}
			do(f, p)
		})
	}
	flush()
	if ctx.Shard == 0 && !inChild() {
		samples(ctx)
	}
}

func main() {
	xplor.Main(xplor.Check{
		ID:    "C19",
		Level: "exploration",
		Rule: "hdr/tx: base objects with all fields non-empty (one realistic signed object and objects with 1-4 byte fields) x every field (12 header, 10 tx body) x every single-field mutation {flip lowest bit, flip highest bit, append byte, drop byte, empty; thorough: + prepend/drop-first/append-00 and every single bit}: block id / tx id / tx root / block id over the tx root must change, the signed digest must change for every field but the signature and must not change for the signature, and the real signature must stop verifying. " +
			"rcpt: 3-receipt lists (all fields non-empty, 2 events each) x version {0,2,3,4,5} x block bloom on/off x position x status of the mutated receipt {SUCCESS,CREATED,ERROR,RECREATED} x field (status, contract address, tx hash, fee, cumulative fee, gas and fee-delegation flag from v2, every event field, event list edits, Ret) x mutation: receipts root and block id must change, except Ret of an ERROR receipt which must not. " +
			"list: all pairs of distinct lists of length <= 4 (thorough 5) over 3 txs / 3 receipts (x version x bloom) must have distinct roots. " +
			"store: every receipt list of <= 2 receipts over the field alphabet x block bloom on/off x version, written and read back through the types codec and through chain.ChainDB (write, reopen, getReceipts/getReceipt), must equal what was written in every field of the version's format and hash to the same receipts root. " +
			"cid/gen: every chain id over the alphabet and genesis over the alphabet round-trips; MakeChainId rewrites only the version; encodings are injective. " +
			"hfver/hfper/hfcmp: every height vector in {0..4}^4 (thorough {0..5}^4): Version(h) equals the reference max{k: Vk<=h}, is monotone in h in 0..6 (8), survives WriteHardfork + restart + Hardfork reload; for every pair (stored, new) of non-decreasing vectors and every best height CheckCompatibility accepts identical configs and rejects every config that changes the version of a height <= best. " +
			"F12/F13/F14 are separately labelled sub-checks. distinct_nontrivial = distinct (family, parameters) cases that were executed, whose mutation actually changed the field value, and that passed.",
		Assumptions: []string{
			"sha256 collision freedom",
			"single-field mutations only (the property's quantifier); multi-field boundary shifts are the labelled sub-check F14, duplicated list tails the labelled sub-check F13",
			"the claimed store round trip keeps CumulativeFeeUsed empty (the node never sets it); the non-empty case is the labelled sub-check F12",
			"chain id magic/consensus strings contain no '/' (the codec separator); a per-receipt bloom is 256 bytes or absent, contract addresses are 33 bytes and tx hashes 32 bytes in the store round trip (the store format is positional)",
			"Genesis.Balance is deliberately not stored by Genesis.Bytes and is not compared",
			"receipt fields outside the version's format (GasUsed/FeeDelegation before v2, per-receipt Bloom, in-memory block/tx info) are observed, not judged",
		},
		Shards: func(tier string) int { return 32 },
		Budget: func(tier string) time.Duration {
			if tier == "thorough" {
				return 20 * time.Minute
			}
			return 3 * time.Minute
		},
		Run: run,
	})
}
