package main

import (
	"bytes"
	"encoding/json"
	"fmt"
	"os"
	"os/exec"
	"path/filepath"
	"strconv"
	"strings"

	"github.com/aergoio/aergo/v2/verif_h/xplor"
)

// Isolation of the decoder families.
//
// The receipts store decoder takes element counts from the data. When a change
// to the tree makes it read them at the wrong offset, one case can ask for a
// multi-gigabyte slice; sixteen workers doing that take the machine down, and
// an out-of-memory abort is not recoverable in Go. The families that drive the
// decoders ("store", "F12") therefore run in a child process of the worker
// (the same binary, same shard) under an address-space limit. A child that
// dies is reported as a violation of the case it was executing (a decoder
// that cannot read back what the encoder wrote), and replays of these
// families go through the same guarded child.

const childLimitKB = 3 << 20 // 3 GB of address space (the binary needs ~1.6 GB to start)

var isolatedFamilies = []string{"store", "F12"}

func isIsolated(name string) bool {
	for _, n := range isolatedFamilies {
		if n == name {
			return true
		}
	}
	return false
}

func inChild() bool { return os.Getenv("C19_CHILD") != "" }

func familySelected(name string) bool {
	only := os.Getenv("C19_ONLY")
	if only == "" {
		return true
	}
	for _, n := range strings.Split(only, ",") {
		if n == name {
			return true
		}
	}
	return false
}

// progress file: the child records the case it is about to execute
var progressFile *os.File

func noteProgress(c rcase) {
	if progressFile == nil {
		p := os.Getenv("C19_PROGRESS")
		if p == "" {
			return
		}
		f, err := os.Create(p)
		if err != nil {
			return
		}
		progressFile = f
	}
	b, _ := json.Marshal(c)
	b = append(b, bytes.Repeat([]byte{' '}, 120)...)
	progressFile.WriteAt(b[:120], 0)
}

func guarded(env []string, args ...string) (stdout, stderr []byte, err error) {
	self, e := os.Executable()
	if e != nil {
		return nil, nil, e
	}
	sh := fmt.Sprintf("ulimit -v %d; exec \"$0\" \"$@\"", childLimitKB)
	cmd := exec.Command("/bin/sh", append([]string{"-c", sh, self}, args...)...)
	cmd.Env = append(append(os.Environ(), "C19_CHILD=1"), env...)
	var so, se bytes.Buffer
	cmd.Stdout, cmd.Stderr = &so, &se
	err = cmd.Run()
	return so.Bytes(), se.Bytes(), err
}

func crashReason(stderr []byte, err error) string {
	for _, l := range strings.Split(string(stderr), "\n") {
		if strings.HasPrefix(l, "fatal error:") || strings.HasPrefix(l, "runtime: out of memory") {
			l, _, _ = strings.Cut(l, " (") // drop the "(N in use)" tail, it varies between runs
			return strings.TrimSpace(l)
		}
	}
	return err.Error()
}

func crashDesc(c rcase, reason string) string {
	return fmt.Sprintf("family %s case %v: the process died under a %d MB address-space limit while reading back what the encoder had written (%s)", c.F, c.P, childLimitKB>>10, reason)
}

// runIsolated executes the isolated families of this shard in a guarded child
// worker and merges its result into ctx.
func runIsolated(ctx *xplor.Ctx) {
	dir, err := os.MkdirTemp("", "c19-child-")
	if err != nil {
		panic(err)
	}
	defer os.RemoveAll(dir)
	out, prog := filepath.Join(dir, "r.json"), filepath.Join(dir, "progress")
	_, stderr, err := guarded([]string{"C19_ONLY=" + strings.Join(isolatedFamilies, ","), "C19_PROGRESS=" + prog},
		"-tier", ctx.Tier, "-shard", strconv.Itoa(ctx.Shard), "-nshards", strconv.Itoa(ctx.NShards), "-out", out)
	if err != nil {
		var c rcase
		if b, e := os.ReadFile(prog); e == nil {
			json.Unmarshal(bytes.TrimSpace(b), &c)
		}
		if c.F == "" {
			panic(fmt.Sprintf("guarded child failed before its first case: %v\n%s", err, stderr))
		}
		ctx.Count("unlabelled_violations", 1)
		ctx.Count("child_crashes", 1)
		ctx.Violation("", crashDesc(c, crashReason(stderr, err)), c)
		ctx.Incomplete("the guarded child of a worker died; the rest of its store cases were not run")
		return
	}
	b, err := os.ReadFile(out)
	if err != nil {
		panic(err)
	}
	var r xplor.Result
	if err := json.Unmarshal(b, &r); err != nil {
		panic(err)
	}
	ctx.Eval(r.Evaluations)
	for _, h := range r.Distinct {
		ctx.Distinct(h)
	}
	for k, v := range r.Counters {
		if strings.HasPrefix(k, "max_") {
			ctx.Max(k, v)
		} else {
			ctx.Count(k, v)
		}
	}
	for _, v := range r.Violations {
		ctx.Violation(v.Sig, v.Desc, v.Replay)
	}
	for _, n := range r.Notes {
		if strings.HasPrefix(n, "incomplete: ") {
			ctx.Incomplete(strings.TrimPrefix(n, "incomplete: "))
		} else {
			ctx.Note(n)
		}
	}
	if !r.Exhaustive && len(r.Notes) == 0 {
		ctx.Incomplete("guarded child hit its deadline")
	}
}

// replayIsolated re-executes one case of an isolated family in a guarded child.
func replayIsolated(ctx *xplor.Ctx, c rcase) {
	dir, err := os.MkdirTemp("", "c19-replay-")
	if err != nil {
		panic(err)
	}
	defer os.RemoveAll(dir)
	f := filepath.Join(dir, "case.json")
	b, _ := json.Marshal(map[string]interface{}{"property": "C19", "replay": c})
	if err := os.WriteFile(f, b, 0o644); err != nil {
		panic(err)
	}
	stdout, stderr, err := guarded(nil, "-tier", ctx.Tier, "-replay", f)
	if err == nil {
		return
	}
	if ee, ok := err.(*exec.ExitError); ok && ee.ExitCode() == 1 {
		for _, l := range strings.Split(string(stdout), "\n") {
			if rest, ok := strings.CutPrefix(l, "REPLAY-VIOLATION sig="); ok {
				sig, desc, _ := strings.Cut(rest, " ")
				ctx.Violation(sig, desc, c)
			}
		}
		return
	}
	ctx.Violation("", crashDesc(c, crashReason(stderr, err)), c)
}
