// C12: state snapshots — reverting restores exactly the earlier visible state.
//
// Bounded exhaustive enumeration of operation sequences on the real
// state.BlockState / statedb.StateDB / statedb.ContractState code (real.go)
// against a plain-Go reference model with an explicit snapshot stack (model.go).
// Every sequence of the alphabet up to the depth bound is executed on a fresh
// instance over an empty in-memory store; after its last operation every
// account and every storage key is read back (through the account API, through
// a freshly opened contract handle and through every open handle) and compared
// with the model. When the sequence ends in update/commit the differential
// oracle runs: the state root (and after commit the complete persisted
// key-value content) must equal that of the same sequence with every
// reverted write and every snapshot/revert removed, executed on a second fresh
// instance of the real code.
package main

import (
	"encoding/json"
	"fmt"
	"os"
	"runtime"
	"strings"
	"time"

	"github.com/aergoio/aergo-lib/db"
	"github.com/aergoio/aergo/v2/verif_h/xplor"
)

// ---- profiles: sub-alphabets explored to their own depth

type profile struct {
	Name    string
	MaxSnap int
	Depth   int
	Prefix  int // sharding prefix length
	Allow   func(o op) bool
}

func profiles(tier string) []profile {
	// the alphabet of DESIGN §3 C12 (account puts on the plain accounts; puts on a contract's own
	// account and handle-level snapshots are in profile stor1)
	full := func(o op) bool { return !(o.K == kPut && o.A >= 2) && o.K != kSnapC }
	acct := func(o op) bool {
		switch o.K {
		case kPut:
			return o.A < 2
		case kSnapS, kSnapB, kRev, kUpdate, kCommit:
			return true
		}
		return false
	}
	// one contract (k1 with both values, k2 with one), the contract's own account state, one plain
	// account, and all three snapshot levels incl. handle-level ContractState.Snapshot
	stor1 := func(o op) bool {
		switch o.K {
		case kPut:
			return (o.A == 0 || o.A == 2) && o.B == 1
		case kOpen, kStage, kSnapC:
			return o.A == 0
		case kSet:
			return o.A == 0 && (o.B == 0 || o.C == 1)
		case kDel:
			return o.A == 0 && o.B == 0
		case kSnapS, kSnapB, kRev, kUpdate, kCommit:
			return true
		}
		return false
	}
	// two contracts, one key: which storages a block snapshot records / drops
	stor2 := func(o op) bool {
		switch o.K {
		case kOpen, kStage:
			return true
		case kSet:
			return o.B == 0 && o.C == 1
		case kDel:
			return o.B == 0
		case kSnapB, kRev, kUpdate, kCommit:
			return true
		}
		return false
	}
	if tier == "thorough" {
		return []profile{
			// cheapest first; full is run to depth 6 and then to depth 7 so that a completed
			// bound is on record even if the budget ends the deepest pass
			{"acct", 4, 8, 4, acct},
			{"stor1", 3, 7, 4, stor1},
			{"stor2", 3, 8, 4, stor2},
			{"full", 3, 6, 3, full},
			{"full", 3, 7, 4, full},
		}
	}
	return []profile{
		{"full", 3, 6, 3, full},
		{"acct", 4, 7, 3, acct},
		{"stor1", 3, 6, 3, stor1},
		{"stor2", 3, 7, 3, stor2},
	}
}

// ---- one execution

type replay struct {
	Ops     []string `json:"ops"`
	MaxSnap int      `json:"maxsnap"`
}

type explorer struct {
	ctx   *xplor.Ctx
	nameA string // store of the sequence under test
	nameB string // store of the reference (reduced) run
	memo  map[string]refResult
}

type refResult struct {
	root   string
	digest string
	nkeys  int
	work   string
}

func seqKey(seq []op) string {
	b := make([]byte, 0, 4*len(seq))
	for _, o := range seq {
		b = append(b, byte('a'+o.K), byte('0'+o.A), byte('0'+o.B), byte('0'+o.C))
	}
	return string(b)
}

func guard(f func() error) (err error) {
	defer func() {
		if r := recover(); r != nil {
			s := fmt.Sprint(r)
			if strings.HasPrefix(s, "harness:") || strings.HasPrefix(s, "model") {
				panic(r)
			}
			err = fmt.Errorf("panic: %s", s)
		}
	}()
	return f()
}

const layout = "layout: accounts A B X Y (0 absent,1 s1,2 s2,3 empty state) | X then Y through a fresh handle: per key value code + h if HasKey | X then Y through the open handle (.. = none)"

// execute runs seq on a fresh real instance (store name) next to a fresh model.
// Reads are compared after the last operation only (every prefix is a node of
// its own) unless all is set. Returns the failure description or "".
func execute(name string, seq []op, maxSnap int, all bool) (*model, *real, string) {
	m := newModel(maxSnap)
	r := newReal(name)
	for i, o := range seq {
		m.apply(o)
		if err := guard(func() error { return r.apply(o, m) }); err != nil {
			return m, r, fmt.Sprintf("step %d (%s) of %v failed: %v", i+1, o, seqStrings(seq), err)
		}
		r.sync(m)
		if all || i == len(seq)-1 {
			var got string
			err := guard(func() (e error) { got, e = r.obs(); return })
			if err != nil {
				return m, r, fmt.Sprintf("reading the state after step %d (%s) of %v failed: %v", i+1, o, seqStrings(seq), err)
			}
			if want := m.obs(); got != want {
				return m, r, fmt.Sprintf("after step %d (%s) of %v the reads are [%s], the model says [%s] (%s)", i+1, o, seqStrings(seq), got, want, layout)
			}
		}
	}
	return m, r, ""
}

// reference executes the reduced sequence on the second store (memoised).
func (e *explorer) reference(red []op, maxSnap int, commit bool) (refResult, string) {
	key := seqKey(red)
	if rr, ok := e.memo[key]; ok {
		e.ctx.Count("reference_runs_memoised", 1)
		return rr, ""
	}
	m2, r2, fail := execute(e.nameB, red, maxSnap, false)
	if fail != "" {
		return refResult{}, "reference run (no snapshot, no revert): " + fail
	}
	rr := refResult{root: fmt.Sprintf("%x", r2.sdb.GetRoot()), work: string(m2.obsWorking(nil))}
	if commit {
		rr.digest, rr.nkeys = r2.storeDigest()
	}
	e.ctx.Count("reference_runs", 1)
	if len(e.memo) < 400000 {
		e.memo[key] = rr
	}
	return rr, ""
}

// evalNode executes one sequence with all oracles. Returns the model after the sequence.
func (e *explorer) evalNode(seq []op, maxSnap int, all bool) *model {
	ctx := e.ctx
	m, r, fail := execute(e.nameA, seq, maxSnap, all)
	ctx.Eval(1)
	ctx.Count("executions", 1)
	ctx.Max("max_depth", int64(len(seq)))
	rpf := func() replay { return replay{Ops: seqStrings(seq), MaxSnap: maxSnap} }
	if fail != "" {
		ctx.Violation("", fail, rpf())
		return m
	}
	last := seq[len(seq)-1]
	if last.K == kRev {
		ctx.Count("revert_nodes", 1)
	}
	if last.K == kUpdate || last.K == kCommit {
		red, changed := m.reduced(seq)
		if changed {
			rr, fail := e.reference(red, maxSnap, last.K == kCommit)
			ctx.Eval(1)
			ctx.Count("differential_comparisons", 1)
			if fail != "" {
				ctx.Violation("", fail, rpf())
				return m
			}
			if w := string(m.obsWorking(nil)); w != rr.work {
				panic(fmt.Sprintf("harness: model of %v and of its reduction %v disagree: %s vs %s", seqStrings(seq), seqStrings(red), w, rr.work))
			}
			root := fmt.Sprintf("%x", r.sdb.GetRoot())
			if root != rr.root {
				ctx.Violation("", fmt.Sprintf("state root after %v is %s but after the same sequence without its reverted writes %v it is %s", seqStrings(seq), short(root), seqStrings(red), short(rr.root)), rpf())
				return m
			}
			if last.K == kCommit {
				d, n := r.storeDigest()
				if d != rr.digest {
					ctx.Violation("", fmt.Sprintf("persisted store content after %v (%d keys, digest %s) differs from the content after the same sequence without its reverted writes %v (%d keys, digest %s)", seqStrings(seq), n, d, seqStrings(red), rr.nkeys, rr.digest), rpf())
					return m
				}
			}
		}
	}
	if m.effRev > 0 {
		// non-trivial: at least one revert removed at least one write
		ctx.Count("sequences_with_effective_revert", 1)
		ctx.Distinct(xplor.Hash(m.canon()))
	}
	return m
}

func short(s string) string {
	if len(s) > 16 {
		return s[:16]
	}
	if s == "" {
		return "<empty>"
	}
	return s
}

// ---- enumeration

type walker struct {
	e       *explorer
	p       profile
	counter int
	sampled bool
	stop    bool
}

func modelAfter(seq []op, maxSnap int) *model {
	m := newModel(maxSnap)
	for _, o := range seq {
		m.apply(o)
	}
	return m
}

// expand evaluates every child of seq (m = model after seq) and then descends into each of
// them, so that within a subtree shorter sequences are judged before longer ones. Nodes up to
// the sharding prefix are numbered in visiting order (identical in every worker); a node of
// prefix length and everything below it belongs to one shard.
func (w *walker) expand(seq []op, m *model, owned bool) {
	ctx := w.e.ctx
	d := len(seq)
	if d >= w.p.Depth || w.stop {
		return
	}
	if d <= w.p.Depth-2 && ctx.Expired() {
		w.stop = true
		return
	}
	type kid struct {
		o     op
		m     *model
		owned bool
	}
	var kids []kid
	cd := d + 1
	for _, o := range m.enabled() {
		if !w.p.Allow(o) {
			continue
		}
		child := append(seq[:d:d], o)
		mine, cowned := owned, owned
		if cd <= w.p.Prefix {
			mine = ctx.Mine(w.counter)
			w.counter++
		}
		if cd == w.p.Prefix {
			cowned = mine
		}
		var cm *model
		if mine {
			if ctx.NViolations() >= 20 {
				w.stop = true
				return
			}
			cm = w.e.evalNode(child, w.p.MaxSnap, false)
			if !w.sampled && cd == w.p.Depth && cm.effRev > 0 {
				w.sampled = true
				ctx.Sample(map[string]interface{}{"profile": w.p.Name, "sequence": seqStrings(child), "reads": cm.obs()})
			}
		}
		if cd < w.p.Depth && (cd < w.p.Prefix || cowned) {
			kids = append(kids, kid{o, cm, cowned})
		}
	}
	for _, k := range kids {
		child := append(seq[:d:d], k.o)
		cm := k.m
		if cm == nil {
			cm = modelAfter(child, w.p.MaxSnap)
		}
		w.expand(child, cm, k.owned)
	}
}

func run(ctx *xplor.Ctx) {
	// The parallelism is one worker process per core. Inside a worker a single P halves the CPU
	// cost: the trie's per-subtree goroutines and the GC workers then need no futex wake-ups.
	runtime.GOMAXPROCS(1)
	e := &explorer{ctx: ctx, memo: map[string]refResult{}}
	e.nameA = fmt.Sprintf("c12-%d-%d-a", os.Getpid(), ctx.Shard)
	e.nameB = fmt.Sprintf("c12-%d-%d-b", os.Getpid(), ctx.Shard)
	defer db.VerifDrop(fmt.Sprintf("c12-%d-", os.Getpid()))

	if ctx.Replay != nil {
		var rp replay
		if err := json.Unmarshal(ctx.Replay, &rp); err != nil {
			panic(err)
		}
		seq := make([]op, len(rp.Ops))
		for i, s := range rp.Ops {
			seq[i] = parseOp(s)
		}
		e.evalNode(seq, rp.MaxSnap, false)
		return
	}
	if os.Getenv("C12_COUNT") != "" {
		countOnly(ctx.Tier)
		return
	}
	for _, p := range profiles(ctx.Tier) {
		w := &walker{e: e, p: p}
		w.expand(nil, newModel(p.MaxSnap), false)
		if !w.stop {
			// == number of shards when the profile was enumerated completely
			ctx.Count(fmt.Sprintf("shards_completed_%s_depth%d", p.Name, p.Depth), 1)
		}
	}
}

// countOnly prints the number of sequences per depth (model only).
func countOnly(tier string) {
	for _, p := range profiles(tier) {
		cnt := make([]int64, p.Depth+1)
		var rec func(seq []op)
		rec = func(seq []op) {
			cnt[len(seq)]++
			if len(seq) >= p.Depth {
				return
			}
			m := modelAfter(seq, p.MaxSnap)
			for _, o := range m.enabled() {
				if p.Allow(o) {
					rec(append(seq[:len(seq):len(seq)], o))
				}
			}
		}
		rec(nil)
		fmt.Fprintln(os.Stderr, p.Name, cnt)
	}
}

func main() {
	xplor.Main(xplor.Check{
		ID:    "C12",
		Level: "exploration",
		Rule:  "every sequence up to the depth bound over {put account (read-modify-write through state.AccountState), open contract handle, SetData, DeleteData, StageContractState, StateDB.Snapshot, BlockState.Snapshot, ContractState.Snapshot, revert to any live snapshot of any level (the target stays live, later ones are dropped), Update, Commit(+Update if not done)+reopen at the new root} is executed on the real code from an empty store; after the last operation every account (GetState and GetAccountState) and every storage key (GetData and HasKey through a freshly opened handle and through each open handle) must equal a plain-Go log model with an explicit snapshot stack; a sequence ending in Update/Commit that contains any snapshot, revert or dead write must additionally give the same state root (after Commit: byte-identical persisted key-value content) as the same sequence with all reverted / never staged writes and all snapshot/revert operations removed, executed on a second instance of the real code. Four alphabets (profiles), each enumerated completely to its own depth: full = DESIGN alphabet (put A|B s1|s2, open/stage X|Y, set c k1|k2 v1|v2, del c k, StateDB- and BlockState-level snapshots, <=3 live); acct = accounts only, <=4 live snapshots; stor1 = one contract incl. puts on the contract's own account and handle-level (ContractState) snapshots mixed with the other two levels; stor2 = two contracts, one key. distinct_nontrivial = distinct canonical model states (logs, cache, handles, snapshot stack) reached by sequences in which at least one revert removed at least one write.",
		Assumptions: []string{
			"usage protocol of the chain code: one open handle per contract (re-opening abandons the old one); a BlockState revert ends the handles opened after the snapshot; Update runs once per StateDB instance and only Commit follows it; snapshots do not outlive Update/Commit; after Commit work continues on a fresh StateDB at the new root. Outside this protocol the API misbehaves (double Update, write between Update and Commit, revert across Update: see NOTES.md) - none of it is reachable from chain/ or consensus/",
			"StateDB.Snapshot/Rollback is the account-buffer revision only (contract storage is covered by BlockState and ContractState snapshots), as the API defines it",
			"HasKey is judged with its implemented meaning: touched in the current buffer (a delete counts) or present in the storage trie",
			"sha256 collision freedom; stores are the in-memory verifdb; the trie code below statedb is trusted here (C10); no concurrency",
		},
		Shards: func(tier string) int { return 64 },
		Budget: func(tier string) time.Duration {
			if tier == "thorough" {
				return 25 * time.Minute
			}
			return 4 * time.Minute
		},
		Run: run,
	})
}
