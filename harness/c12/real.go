package main

// The system under test: the real state.BlockState / statedb.StateDB /
// statedb.ContractState objects, driven operation by operation.

import (
	"bytes"
	"crypto/sha256"
	"fmt"
	"sort"

	"github.com/aergoio/aergo-lib/db"
	"github.com/aergoio/aergo/v2/state"
	"github.com/aergoio/aergo/v2/state/statedb"
	"github.com/aergoio/aergo/v2/types"
)

var (
	acctIDs  [NA][]byte
	acctAIDs [NA]types.AccountID
	keyBytes = [NK][]byte{[]byte("k1"), []byte("k2")}
	valBytes = [3][]byte{nil, []byte("v1"), []byte("value-2")}
)

func init() {
	for a := 0; a < NA; a++ {
		acctIDs[a] = []byte("c12-account-" + acctName[a])
		acctAIDs[a] = types.ToAccountID(acctIDs[a])
	}
}

func stateOf(code int8) (uint64, []byte) {
	if code == 1 {
		return 1, []byte{1}
	}
	return 2, []byte{2, 0}
}

func codeOfState(st *types.State) byte {
	switch {
	case st == nil:
		return '0'
	case st.Nonce == 1 && bytes.Equal(st.Balance, []byte{1}):
		return '1'
	case st.Nonce == 2 && bytes.Equal(st.Balance, []byte{2, 0}):
		return '2'
	case st.Nonce == 0 && len(st.Balance) == 0:
		return '3'
	}
	return '?'
}

func codeOfVal(v []byte) byte {
	switch {
	case v == nil:
		return '0'
	case bytes.Equal(v, valBytes[1]):
		return '1'
	case bytes.Equal(v, valBytes[2]):
		return '2'
	}
	return '?'
}

type rsnap struct {
	id    int
	level int8
	c     int8
	s     statedb.Snapshot
	b     state.BlockSnapshot
}

type real struct {
	name  string
	store db.DB
	sdb   *statedb.StateDB
	bs    *state.BlockState
	hnd   [NC]*statedb.ContractState
	snaps []rsnap
	upd   bool // Update already ran on the current StateDB instance
}

var storeHandles = map[string]db.DB{}
var bsShell = map[string]*state.BlockState{}

// newReal returns a fresh working state over an empty store called name.
// Store handle and BlockState shell are created once per name (both build
// loggers / LRU caches, which is slow); the store content is emptied and a new
// StateDB is attached every time.
func newReal(name string) *real {
	h, ok := storeHandles[name]
	if !ok {
		h = db.NewDB(db.VerifImpl, name)
		storeHandles[name] = h
		bsShell[name] = state.NewBlockState(statedb.NewStateDB(h, nil, false))
	}
	db.VerifRestore(name, nil)
	r := &real{name: name, store: h, bs: bsShell[name]}
	r.sdb = statedb.NewStateDB(h, nil, false)
	r.bs.StateDB = r.sdb
	return r
}

// apply executes o on the real objects; the model m has already executed it.
func (r *real) apply(o op, m *model) error {
	switch o.K {
	case kPut:
		// read-modify-write through the real state.AccountState, like a transaction does
		as, err := state.GetAccountState(acctIDs[o.A], r.sdb)
		if err != nil {
			return err
		}
		n, b := stateOf(o.B)
		if o.B == 2 {
			// state s2 is written the way chain.executeTx writes the sender of a transaction that
			// failed in the VM: tentative changes, AccountState.Reset(), then the final values
			as.SetNonce(n + 40)
			as.State().Balance = append([]byte{0x7f}, b...)
			as.Reset()
		}
		as.SetNonce(n)
		as.State().Balance = b
		return as.PutState()
	case kOpen:
		cs, err := statedb.OpenContractStateAccount(acctIDs[2+o.A], r.sdb)
		if err != nil {
			return err
		}
		r.hnd[o.A] = cs
	case kSet:
		return r.hnd[o.A].SetData(keyBytes[o.B], append([]byte{}, valBytes[o.C]...))
	case kDel:
		return r.hnd[o.A].DeleteData(keyBytes[o.B])
	case kStage:
		err := statedb.StageContractState(r.hnd[o.A], r.sdb)
		r.hnd[o.A] = nil
		return err
	case kSnapS:
		r.snaps = append(r.snaps, rsnap{id: m.snaps[len(m.snaps)-1].id, level: kSnapS, s: r.sdb.Snapshot()})
	case kSnapB:
		r.snaps = append(r.snaps, rsnap{id: m.snaps[len(m.snaps)-1].id, level: kSnapB, b: r.bs.Snapshot()})
	case kSnapC:
		r.snaps = append(r.snaps, rsnap{id: m.snaps[len(m.snaps)-1].id, level: kSnapC, c: o.A, s: r.hnd[o.A].Snapshot()})
	case kRev:
		s := r.snaps[o.A]
		switch s.level {
		case kSnapS:
			return r.sdb.Rollback(s.s)
		case kSnapB:
			return r.bs.Rollback(s.b)
		case kSnapC:
			return r.hnd[s.c].Rollback(s.s)
		}
	case kUpdate:
		r.upd = true
		return r.bs.Update()
	case kCommit:
		if !r.upd {
			if err := r.bs.Update(); err != nil {
				return err
			}
		}
		r.upd = false
		if err := r.bs.Commit(); err != nil {
			return err
		}
		root := append([]byte{}, r.sdb.GetRoot()...)
		if len(root) == 0 {
			root = nil
		}
		r.sdb = statedb.NewStateDB(r.store, root, false)
		r.bs.StateDB = r.sdb
	}
	return nil
}

// sync makes the harness-side bookkeeping (which snapshots are live, which
// handles are open) follow the model's usage protocol. Called after both the
// model and the real system executed the operation.
func (r *real) sync(m *model) {
	if len(r.snaps) > 0 {
		w := r.snaps[:0]
		for _, s := range r.snaps {
			for _, ms := range m.snaps {
				if ms.id == s.id {
					w = append(w, s)
					break
				}
			}
		}
		r.snaps = w
	}
	if len(r.snaps) != len(m.snaps) {
		panic("harness: snapshot stacks out of sync")
	}
	for c := 0; c < NC; c++ {
		if m.hnd[c] == nil {
			r.hnd[c] = nil
		} else if r.hnd[c] == nil {
			panic("harness: handle bookkeeping out of sync")
		}
	}
}

func appendView(b []byte, cs *statedb.ContractState) ([]byte, error) {
	for k := 0; k < NK; k++ {
		v, err := cs.GetData(keyBytes[k])
		if err != nil {
			return b, err
		}
		b = append(b, codeOfVal(v))
		if cs.HasKey(keyBytes[k]) {
			b = append(b, 'h')
		} else {
			b = append(b, '-')
		}
	}
	return b, nil
}

// obs reads everything: every account, every key of every contract through a
// freshly opened handle, and every key through each open handle.
func (r *real) obs() (string, error) {
	b := make([]byte, 0, 32)
	for a := 0; a < NA; a++ {
		st, err := r.bs.GetState(acctAIDs[a])
		if err != nil {
			return "", err
		}
		c := codeOfState(st)
		// GetAccountState must agree (an absent account reads as the empty state)
		st2, err := r.sdb.GetAccountState(acctAIDs[a])
		if err != nil {
			return "", err
		}
		if c2 := codeOfState(st2); !(c2 == c || (c == '0' && c2 == '3')) {
			c = '!'
		}
		b = append(b, c)
	}
	for c := 0; c < NC; c++ {
		b = append(b, ' ')
		cs, err := statedb.OpenContractStateAccount(acctIDs[2+c], r.sdb)
		if err != nil {
			return "", err
		}
		if b, err = appendView(b, cs); err != nil {
			return "", err
		}
	}
	for c := 0; c < NC; c++ {
		b = append(b, ' ')
		if r.hnd[c] == nil {
			b = append(b, "...."[:2*NK]...)
			continue
		}
		var err error
		if b, err = appendView(b, r.hnd[c]); err != nil {
			return "", err
		}
	}
	return string(b), nil
}

// storeDigest: digest of the complete persisted key-value content.
func (r *real) storeDigest() (string, int) {
	m := db.VerifHandleSnapshot(r.store)
	keys := make([]string, 0, len(m))
	for k := range m {
		keys = append(keys, k)
	}
	sort.Strings(keys)
	h := sha256.New()
	for _, k := range keys {
		fmt.Fprintf(h, "%d:%s=%d:", len(k), k, len(m[k]))
		h.Write(m[k])
	}
	return fmt.Sprintf("%x", h.Sum(nil)[:12]), len(keys)
}
