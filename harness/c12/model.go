package main

// The reference model: plain logs with an explicit snapshot stack. It is only
// the oracle; the thing explored is the real state / statedb code (real.go).

import (
	"fmt"
	"strconv"
	"strings"
)

const (
	NA = 4 // accounts: 0 A, 1 B (plain), 2 X, 3 Y (contracts)
	NC = 2 // contracts: c=0 is account 2 (X), c=1 is account 3 (Y)
	NK = 2 // storage keys k1,k2 ; values 0 absent/delete, 1 v1, 2 v2
)

var acctName = [NA]string{"A", "B", "X", "Y"}
var ctrName = [NC]string{"X", "Y"}

// ---- operations

const (
	kPut    = iota // A=account, B=state code 1|2
	kOpen          // A=contract
	kSet           // A=contract, B=key, C=value 1|2
	kDel           // A=contract, B=key
	kStage         // A=contract
	kSnapS         // StateDB.Snapshot (account buffer only)
	kSnapB         // BlockState.Snapshot (account buffer + storage cache)
	kSnapC         // ContractState.Snapshot on the open handle of contract A
	kRev           // A=index into the stack of live snapshots
	kUpdate        // Update
	kCommit        // Commit, then reopen a fresh StateDB at the new root
)

type op struct{ K, A, B, C int8 }

func (o op) String() string {
	switch o.K {
	case kPut:
		return fmt.Sprintf("put %s s%d", acctName[o.A], o.B)
	case kOpen:
		return "open " + ctrName[o.A]
	case kSet:
		return fmt.Sprintf("set %s k%d v%d", ctrName[o.A], o.B+1, o.C)
	case kDel:
		return fmt.Sprintf("del %s k%d", ctrName[o.A], o.B+1)
	case kStage:
		return "stage " + ctrName[o.A]
	case kSnapS:
		return "snapS"
	case kSnapB:
		return "snapB"
	case kSnapC:
		return "snapC " + ctrName[o.A]
	case kRev:
		return fmt.Sprintf("rev %d", o.A)
	case kUpdate:
		return "update"
	case kCommit:
		return "commit"
	}
	return "?"
}

func idx(names []string, s string) int8 {
	for i, n := range names {
		if n == s {
			return int8(i)
		}
	}
	panic("bad name " + s)
}

func parseOp(s string) op {
	f := strings.Fields(s)
	num := func(x string) int8 {
		n, err := strconv.Atoi(strings.TrimLeft(x, "skv"))
		if err != nil {
			panic("bad op " + s)
		}
		return int8(n)
	}
	switch f[0] {
	case "put":
		return op{K: kPut, A: idx(acctName[:], f[1]), B: num(f[2])}
	case "open":
		return op{K: kOpen, A: idx(ctrName[:], f[1])}
	case "set":
		return op{K: kSet, A: idx(ctrName[:], f[1]), B: num(f[2]) - 1, C: num(f[3])}
	case "del":
		return op{K: kDel, A: idx(ctrName[:], f[1]), B: num(f[2]) - 1}
	case "stage":
		return op{K: kStage, A: idx(ctrName[:], f[1])}
	case "snapS":
		return op{K: kSnapS}
	case "snapB":
		return op{K: kSnapB}
	case "snapC":
		return op{K: kSnapC, A: idx(ctrName[:], f[1])}
	case "rev":
		return op{K: kRev, A: num(f[1])}
	case "update":
		return op{K: kUpdate}
	case "commit":
		return op{K: kCommit}
	}
	panic("bad op " + s)
}

func seqStrings(seq []op) []string {
	r := make([]string, len(seq))
	for i, o := range seq {
		r[i] = o.String()
	}
	return r
}

// ---- model state

type ment struct {
	key, val int8 // account log: key=account, val=state code ; storage log: key, value (0 = delete)
	op       int16
}

// mstor models one bufferedStorage: the content of its trie plus the write log.
type mstor struct {
	base    [NK]int8
	log     []ment
	dirty   bool
	stageOp int16 // op that put it into the cache (-1 = never staged)
}

func (s *mstor) get(k int8) int8 {
	for i := len(s.log) - 1; i >= 0; i-- {
		if s.log[i].key == k {
			return s.log[i].val
		}
	}
	return s.base[k]
}

// has mirrors ContractState.HasKey: "touched in the buffer (a delete counts) or present in the trie".
func (s *mstor) has(k int8) bool {
	for i := range s.log {
		if s.log[i].key == k {
			return true
		}
	}
	return s.base[k] != 0
}

type mhandle struct {
	st     *mstor
	shared bool // opened on a storage that was already staged in the cache
	openOp int16
}

type msnap struct {
	level   int8 // kSnapS | kSnapB | kSnapC
	c       int8
	h       *mhandle
	acctLen int
	has     [NC]bool
	storLen [NC]int
	hLen    int
	op      int16
	id      int
	view    string // what the snapshot promises to restore (model self-check)
}

// account value codes: 0 absent, 1 s1, 2 s2, 3 present with zero nonce/balance
type model struct {
	acctBase [NA]int8 // content of the account trie
	acctLog  []ment
	rootStor [NC][NK]int8 // storage content at the contract account's current StorageRoot
	cache    [NC]*mstor
	hnd      [NC]*mhandle
	snaps    []msnap
	nextSnap int
	updated  bool // Update already ran on this StateDB instance (one Update per Commit)

	kinds   []int8  // per executed op
	openOf  []int16 // for stage ops: the open op of the staged handle
	dead    []bool  // per executed op: write/open/stage whose effect was reverted or never became visible
	effRev  int     // reverts that removed at least one write
	maxSnap int
}

func newModel(maxSnap int) *model { return &model{maxSnap: maxSnap} }

func (m *model) acct(a int8) int8 {
	for i := len(m.acctLog) - 1; i >= 0; i-- {
		if m.acctLog[i].key == a {
			return m.acctLog[i].val
		}
	}
	return m.acctBase[a]
}

// enabled lists the operations of the alphabet that the usage protocol allows now, simplest first.
func (m *model) enabled() []op {
	var r []op
	if m.updated {
		// between Update and Commit the chain code does nothing else
		return append(r, op{K: kCommit})
	}
	for a := int8(0); a < NA; a++ {
		for s := int8(1); s <= 2; s++ {
			if a >= 2 && s == 2 {
				continue // contract accounts: one state value
			}
			r = append(r, op{K: kPut, A: a, B: s})
		}
	}
	for c := int8(0); c < NC; c++ {
		r = append(r, op{K: kOpen, A: c})
	}
	for c := int8(0); c < NC; c++ {
		if m.hnd[c] == nil {
			continue
		}
		for k := int8(0); k < NK; k++ {
			for v := int8(1); v <= 2; v++ {
				r = append(r, op{K: kSet, A: c, B: k, C: v})
			}
		}
		for k := int8(0); k < NK; k++ {
			r = append(r, op{K: kDel, A: c, B: k})
		}
		r = append(r, op{K: kStage, A: c})
	}
	if len(m.snaps) < m.maxSnap {
		r = append(r, op{K: kSnapS}, op{K: kSnapB})
		for c := int8(0); c < NC; c++ {
			if m.hnd[c] != nil {
				r = append(r, op{K: kSnapC, A: c})
			}
		}
	}
	for i := range m.snaps {
		r = append(r, op{K: kRev, A: int8(i)})
	}
	if !m.updated {
		r = append(r, op{K: kUpdate})
	}
	r = append(r, op{K: kCommit})
	return r
}

func (m *model) isEnabled(o op) bool {
	if m.updated {
		return o.K == kCommit
	}
	switch o.K {
	case kPut, kOpen, kCommit:
		return true
	case kUpdate:
		return !m.updated
	case kSet, kDel, kStage:
		return m.hnd[o.A] != nil
	case kSnapS, kSnapB:
		return len(m.snaps) < m.maxSnap
	case kSnapC:
		return len(m.snaps) < m.maxSnap && m.hnd[o.A] != nil
	case kRev:
		return int(o.A) < len(m.snaps)
	}
	return false
}

func (m *model) killLog(log []ment, from int) bool {
	any := false
	for i := from; i < len(log); i++ {
		m.dead[log[i].op] = true
		any = true
	}
	return any
}

// closeHandle forgets the handle of contract c (and the handle-level snapshots taken on it).
// A private (never staged) storage disappears with its writes.
func (m *model) closeHandle(c int8, discardWrites bool) {
	h := m.hnd[c]
	if h == nil {
		return
	}
	if discardWrites && !h.shared {
		m.killLog(h.st.log, 0)
	}
	w := m.snaps[:0]
	for _, s := range m.snaps {
		if !(s.level == kSnapC && s.h == h) {
			w = append(w, s)
		}
	}
	m.snaps = w
	m.hnd[c] = nil
}

// viewFor renders what a snapshot of the given level promises to restore.
func (m *model) viewFor(level int8, c int8) string {
	var b []byte
	switch level {
	case kSnapS:
		for a := int8(0); a < NA; a++ {
			b = append(b, '0'+byte(m.acct(a)))
		}
	case kSnapB:
		b = m.obsWorking(b)
	case kSnapC:
		st := m.hnd[c].st
		for k := int8(0); k < NK; k++ {
			b = append(b, '0'+byte(st.get(k)))
			if st.has(k) {
				b = append(b, 'h')
			} else {
				b = append(b, '-')
			}
		}
	}
	return string(b)
}

func (m *model) apply(o op) {
	if !m.isEnabled(o) {
		panic("model: operation not enabled: " + o.String())
	}
	me := int16(len(m.kinds))
	m.kinds = append(m.kinds, o.K)
	m.openOf = append(m.openOf, -1)
	m.dead = append(m.dead, false)
	switch o.K {
	case kPut:
		m.acctLog = append(m.acctLog, ment{o.A, o.B, me})
	case kOpen:
		m.closeHandle(o.A, true)
		if st := m.cache[o.A]; st != nil {
			m.hnd[o.A] = &mhandle{st: st, shared: true, openOp: me}
		} else {
			m.hnd[o.A] = &mhandle{st: &mstor{base: m.rootStor[o.A], stageOp: -1}, openOp: me}
		}
	case kSet:
		st := m.hnd[o.A].st
		st.log = append(st.log, ment{o.B, o.C, me})
	case kDel:
		st := m.hnd[o.A].st
		st.log = append(st.log, ment{o.B, 0, me})
	case kStage:
		h := m.hnd[o.A]
		m.openOf[me] = h.openOp
		if !h.shared {
			if m.cache[o.A] != nil {
				panic("model: private handle staged over an existing cache entry")
			}
			h.st.stageOp = me
			m.cache[o.A] = h.st
		}
		m.closeHandle(o.A, false)
	case kSnapS, kSnapB, kSnapC:
		s := msnap{level: o.K, c: o.A, acctLen: len(m.acctLog), op: me, id: m.nextSnap}
		m.nextSnap++
		if o.K == kSnapB {
			for c := 0; c < NC; c++ {
				if m.cache[c] != nil {
					s.has[c] = true
					s.storLen[c] = len(m.cache[c].log)
				}
			}
		}
		if o.K == kSnapC {
			s.h = m.hnd[o.A]
			s.hLen = len(s.h.st.log)
		}
		s.view = m.viewFor(o.K, o.A)
		m.snaps = append(m.snaps, s)
	case kRev:
		s := m.snaps[o.A]
		any := false
		switch s.level {
		case kSnapS:
			any = m.killLog(m.acctLog, s.acctLen)
			m.acctLog = m.acctLog[:s.acctLen]
		case kSnapB:
			for c := int8(0); c < NC; c++ {
				st := m.cache[c]
				if st == nil {
					continue
				}
				if s.has[c] {
					any = m.killLog(st.log, s.storLen[c]) || any
					st.log = st.log[:s.storLen[c]]
				} else {
					// staged after the snapshot: dropped from the cache with everything in it
					any = m.killLog(st.log, 0) || any
					m.dead[st.stageOp] = true
					m.cache[c] = nil
				}
			}
			any = m.killLog(m.acctLog, s.acctLen) || any
			m.acctLog = m.acctLog[:s.acctLen]
			// handles opened after the snapshot belong to the reverted span
			for c := int8(0); c < NC; c++ {
				if h := m.hnd[c]; h != nil && h.openOp > s.op {
					any = (!h.shared && len(h.st.log) > 0) || any
					m.closeHandle(c, true)
				}
			}
			for j := int(s.op) + 1; j < int(me); j++ {
				if m.kinds[j] == kOpen {
					m.dead[j] = true
				}
			}
			for j := int(s.op) + 1; j < int(me); j++ {
				if m.kinds[j] == kStage && m.dead[m.openOf[j]] {
					m.dead[j] = true
				}
			}
		case kSnapC:
			st := s.h.st
			any = m.killLog(st.log, s.hLen)
			st.log = st.log[:s.hLen]
		}
		if any {
			m.effRev++
		}
		// snapshots taken after the target are gone; the target stays usable
		w := m.snaps[:0]
		for _, x := range m.snaps {
			if x.id <= s.id {
				w = append(w, x)
			}
		}
		m.snaps = w
		if got := m.viewFor(s.level, s.c); got != s.view {
			panic(fmt.Sprintf("model self-check: view after revert %q != view at snapshot %q", got, s.view))
		}
	case kUpdate:
		m.doUpdate(me)
	case kCommit:
		if !m.updated {
			m.doUpdate(me) // Apply = Update + Commit
		}
		for c := int8(0); c < NC; c++ {
			m.closeHandle(c, true)
			m.cache[c] = nil
		}
		m.acctLog = nil
		m.snaps = m.snaps[:0]
		m.updated = false
	}
}

func (m *model) doUpdate(me int16) {
	for c := int8(0); c < NC; c++ {
		st := m.cache[c]
		if st == nil {
			continue
		}
		nb := st.base
		for _, e := range st.log {
			nb[e.key] = e.val
		}
		if nb != st.base {
			st.dirty = true
		}
		st.base = nb
		if st.dirty {
			v := m.acct(2 + c)
			if v == 0 {
				v = 3
			}
			m.acctLog = append(m.acctLog, ment{2 + c, v, me})
			m.rootStor[c] = nb
		}
	}
	for _, e := range m.acctLog {
		m.acctBase[e.key] = e.val
	}
	m.snaps = m.snaps[:0]
	m.updated = true
}

// obsWorking: accounts + what a freshly opened contract handle sees (the working state).
func (m *model) obsWorking(b []byte) []byte {
	for a := int8(0); a < NA; a++ {
		b = append(b, '0'+byte(m.acct(a)))
	}
	for c := 0; c < NC; c++ {
		b = append(b, ' ')
		st := m.cache[c]
		if st == nil {
			st = &mstor{base: m.rootStor[c]}
		}
		for k := int8(0); k < NK; k++ {
			b = append(b, '0'+byte(st.get(k)))
			if st.has(k) {
				b = append(b, 'h')
			} else {
				b = append(b, '-')
			}
		}
	}
	return b
}

// obs: the full observation vector, same layout as real.obs.
func (m *model) obs() string {
	b := m.obsWorking(make([]byte, 0, 32))
	for c := int8(0); c < NC; c++ {
		b = append(b, ' ')
		h := m.hnd[c]
		for k := int8(0); k < NK; k++ {
			if h == nil {
				b = append(b, '.', '.')
				continue
			}
			b = append(b, '0'+byte(h.st.get(k)))
			if h.st.has(k) {
				b = append(b, 'h')
			} else {
				b = append(b, '-')
			}
		}
	}
	return string(b)
}

// canon: canonical description of the whole model state (logs, cache, handles, stack shape).
func (m *model) canon() []byte {
	b := make([]byte, 0, 128)
	b = append(b, m.obs()...)
	b = append(b, '|')
	for a := 0; a < NA; a++ {
		b = append(b, '0'+byte(m.acctBase[a]))
	}
	for _, e := range m.acctLog {
		b = append(b, 'a'+byte(e.key), '0'+byte(e.val))
	}
	for c := 0; c < NC; c++ {
		b = append(b, '|')
		var priv *mstor
		if m.hnd[c] != nil && !m.hnd[c].shared {
			priv = m.hnd[c].st
		}
		for _, st := range []*mstor{m.cache[c], priv} {
			if st == nil {
				b = append(b, '-', ';')
				continue
			}
			for k := 0; k < NK; k++ {
				b = append(b, '0'+byte(st.base[k]))
			}
			if st.dirty {
				b = append(b, 'd')
			}
			for _, e := range st.log {
				b = append(b, 'a'+byte(e.key), '0'+byte(e.val))
			}
			b = append(b, ';')
		}
		for k := 0; k < NK; k++ {
			b = append(b, '0'+byte(m.rootStor[c][k]))
		}
	}
	for _, s := range m.snaps {
		b = append(b, '|', '0'+byte(s.level), '0'+byte(s.c), byte(s.acctLen), byte(s.hLen))
		for c := 0; c < NC; c++ {
			if s.has[c] {
				b = append(b, byte(s.storLen[c]))
			} else {
				b = append(b, 0xff)
			}
		}
	}
	if m.updated {
		b = append(b, 'U')
	}
	return b
}

// reduced returns the sequence with every reverted / never visible write removed and without
// any snapshot or revert operation.
func (m *model) reduced(seq []op) (r []op, changed bool) {
	for i, o := range seq {
		switch o.K {
		case kSnapS, kSnapB, kSnapC, kRev:
			changed = true
			continue
		}
		if m.dead[i] {
			changed = true
			continue
		}
		r = append(r, o)
	}
	return
}
