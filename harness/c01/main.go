// C01: ledger conservation - executing blocks never mints or burns native coin.
package main

import (
	"encoding/json"
	"fmt"
	"math/big"
	"time"

	lx "github.com/aergoio/aergo/v2/verif_h/ledgerx"
	nk "github.com/aergoio/aergo/v2/verif_h/nodekit"
	"github.com/aergoio/aergo/v2/verif_h/xplor"
)

const shardsPerNet = 12

func words(n, k int) [][]int {
	out := [][]int{{}}
	var rec func(w []int)
	rec = func(w []int) {
		if len(w) > 0 {
			out = append(out, append([]int{}, w...))
		}
		if len(w) == k {
			return
		}
		for i := 0; i < n; i++ {
			rec(append(w, i))
		}
	}
	rec(nil)
	return out
}

// check evaluates conservation for one produced block and for its validation on the same pre-state.
func check(p *lx.Prepared, net nk.Net, word []int, alpha []lx.Gen) (string, string) {
	txs, names := p.MakeTxs(word, alpha)
	x, err := p.ProduceDump(txs, names)
	if err != nil {
		return "", "HARNESS " + err.Error()
	}
	pre, post := x.PreDump.Total(), x.Dump.Total()
	fees := x.SumFees()
	desc := x.Describe()
	if net.Coinbase {
		if pre.Cmp(post) != 0 {
			return desc, fmt.Sprintf("producer path: total supply %s -> %s (delta %s) with a coinbase account; block %s", pre, post, new(big.Int).Sub(post, pre), desc)
		}
	} else {
		if new(big.Int).Sub(pre, post).Cmp(fees) != 0 {
			return desc, fmt.Sprintf("producer path: supply shrank by %s but receipts record fees %s (no coinbase); block %s", new(big.Int).Sub(pre, post), fees, desc)
		}
	}
	// per-tx payer relation: an ERROR tx changes the payer by exactly the witness fee (checked in C03);
	// here: the coinbase account receives exactly the recorded fees
	if net.Coinbase {
		cb := nk.UserAddrs[4]
		got := new(big.Int).Sub(x.Dump.Bal(cb), x.PreDump.Bal(cb))
		if got.Cmp(fees) != 0 {
			return desc, fmt.Sprintf("coinbase account credited %s, receipts record fees %s; block %s", got, fees, desc)
		}
	}
	// validator path on the same pre-state
	if x.ForgedIncluded(alpha, word) {
		// the block carries a tx with a bad signature: validators must refuse it (judged by C04)
		return desc, ""
	}
	if err := p.Node.Deliver(x.Built.Block); err != nil {
		return desc, fmt.Sprintf("validator rejects the produced block: %v; block %s", err, desc)
	}
	vd, err := p.Node.DumpState(p.Node.CS.SDB().GetRoot())
	if err != nil {
		return desc, "validator state unreadable: " + err.Error()
	}
	if d := vd.Diff(x.Dump); len(d) > 0 {
		return desc, fmt.Sprintf("validator state differs from producer state in %v; block %s", d, desc)
	}
	vt := vd.Total()
	if net.Coinbase && vt.Cmp(pre) != 0 || !net.Coinbase && new(big.Int).Sub(pre, vt).Cmp(fees) != 0 {
		return desc, fmt.Sprintf("validator path: total supply %s -> %s, fees %s; block %s", pre, vt, fees, desc)
	}
	return desc, ""
}

type replay struct {
	Net  int   `json:"net"`
	Pre  int   `json:"pre"`
	Word []int `json:"word"`
}

func run(ctx *xplor.Ctx) {
	defer nk.Cleanup()
	nets := lx.Nets(ctx.Tier)
	alpha := lx.Alphabet()
	k := 2
	doCase := func(p *lx.Prepared, r replay) {
		desc, msg := check(p, nets[r.Net], r.Word, alpha)
		ctx.Eval(1)
		if msg != "" {
			ctx.Violation("", fmt.Sprintf("net{%v} pre=%d: %s", nets[r.Net], r.Pre, msg), r)
		} else if len(r.Word) > 0 {
			ctx.Distinct(xplor.Hash(r.Net, r.Pre, desc, fmt.Sprint(r.Word)))
		}
		if err := p.Reset(); err != nil {
			panic(err)
		}
	}
	if ctx.Replay != nil {
		var r replay
		if err := json.Unmarshal(ctx.Replay, &r); err != nil {
			panic(err)
		}
		p, err := lx.Prepare(nets[r.Net], r.Pre, "p")
		if err != nil {
			panic(err)
		}
		doCase(p, r)
		return
	}
	ni := ctx.Shard % len(nets)
	sub, nsub := ctx.Shard/len(nets), ctx.NShards/len(nets)
	ws := words(len(alpha), k)
	for pre := 0; pre < 2; pre++ {
		p, err := lx.Prepare(nets[ni], pre, fmt.Sprintf("p%d", pre))
		if err != nil {
			panic(err)
		}
		for i, w := range ws {
			if i%nsub != sub {
				continue
			}
			if ctx.Expired() {
				return
			}
			doCase(p, replay{ni, pre, w})
		}
		p.Node.Stop()
	}
	if sub == 0 && ni == 0 {
		w := ws[len(ws)/2]
		var names []string
		for _, i := range w {
			names = append(names, alpha[i].Name)
		}
		ctx.Sample(map[string]interface{}{"net": nets[ni].String(), "pre_state": "warm (stakes, votes, a name, a deployed contract)", "block": names})
	}
}

func main() {
	xplor.Main(xplor.Check{
		ID:    "C01",
		Level: "exploration",
		Rule:  "every block of <= 2 transactions over the 42-letter alphabet (transfers incl. 0/all/all+1/self/new account, stake/unstake/vote/DAO vote/name create/update/setOwner, contract deploy/call with storage writes, runtime failure, system failure, gas, fee delegation, and signature/chain-id/nonce faults) x pre-state {genesis, warm} x network configuration {fork version, public|private fee regime, coinbase set|unset, reward vault funded|empty}, produced through the real BlockGenerator/TxExecutor and then validated through ChainService.addBlock on the same pre-state; oracle: sum of all balances of the full state dump (every account reachable in the state trie) before = after (or before - after = sum of receipt fees without coinbase), coinbase credit = recorded fees, validator state = producer state. distinct_nontrivial = distinct (net, pre-state, word, outcome vector) with at least one tx",
		Assumptions: []string{
			"contract transactions run on the stub VM (contract-internal transfers by Lua code are outside)",
			"the fee a transaction paid is taken from its receipt (witness); the fee schedule itself is not re-derived",
		},
		Shards: func(tier string) int { return shardsPerNet * len(lx.Nets(tier)) },
		Budget: func(tier string) time.Duration {
			if tier == "thorough" {
				return 25 * time.Minute
			}
			return 6 * time.Minute
		},
		Run: run,
	})
}
