// Package vsched is a hand-written cooperative scheduler for stateless
// exploration of thread interleavings (engine SCHED of DESIGN §1.2).
//
// The code under test is compiled against package vsync instead of sync (import
// rewrite done by tools/mkoverlay); every vsync operation calls Yield before it
// takes effect. While a Run is active exactly one thread goroutine executes at
// a time: a thread runs from one Yield to the next, announces the operation it
// is about to perform together with an `enabled` predicate (e.g. "mutex is
// free"), and parks. The scheduler (the goroutine that called Run) then picks
// one thread whose pending operation is enabled and resumes it. A schedule is
// the sequence of picks; Run replays a given prefix of picks and continues with
// pick 0 (canonical order: the thread that ran last first, if still enabled,
// then ascending thread ids), so "prefix + default continuation" identifies one
// execution and executions are reproducible.
//
// Explore does depth-first search over schedules with iterative preemption
// bounding: a preemption is a switch away from a thread that could have
// continued. Deadlock (threads remain, none enabled) is reported in Exec.
package vsched

import (
	"fmt"
	"runtime"
	"strings"
)

// Point is one scheduling decision.
type Point struct {
	Enabled        []int8 // thread ids that could be resumed, canonical order
	Chosen         int8   // index into Enabled
	RunningEnabled bool   // Enabled[0] is the thread that ran last (switching away = preemption)
}

// Exec is the record of one complete execution.
type Exec struct {
	Points   []Point
	Deadlock bool
	Blocked  []string // at deadlock: "T<id>:<pending op>"
	Panics   []string // "T<id>:<value>" for thread bodies that panicked
	Horizon  bool     // step horizon exceeded (execution aborted)
}

// Choices returns the pick sequence of the execution.
func (x *Exec) Choices() []int {
	c := make([]int, len(x.Points))
	for i, p := range x.Points {
		c[i] = int(p.Chosen)
	}
	return c
}

// Preemptions counts the preemptive switches in the execution.
func (x *Exec) Preemptions() int {
	n := 0
	for _, p := range x.Points {
		if p.RunningEnabled && p.Chosen != 0 {
			n++
		}
	}
	return n
}

type thread struct {
	id      int
	wake    chan struct{}
	enabled func() bool
	desc    string
	done    bool
	panicv  string
}

type sched struct {
	threads []*thread
	cur     *thread
	back    chan struct{}
	abort   bool
}

var active *sched

// Active reports whether a Run is in progress (vsync then uses its model state
// instead of the real sync primitives).
func Active() bool { return active != nil }

// Aborting reports whether the active run is being torn down after a deadlock
// or horizon overflow (vsync operations then become no-ops).
func Aborting() bool { s := active; return s != nil && s.abort }

// MaxSteps is the per-execution horizon.
var MaxSteps = 20000

// Yield is called by vsync before every operation. enabled == nil means
// "always enabled". Outside a Run it returns immediately.
func Yield(desc string, enabled func() bool) {
	s := active
	if s == nil || s.abort {
		return
	}
	t := s.cur
	t.desc, t.enabled = desc, enabled
	s.back <- struct{}{}
	<-t.wake
	if s.abort {
		runtime.Goexit()
	}
}

// Go starts body as a new cooperating thread of the active run (the rewrite kind `vgo`
// turns `go f(x)` of a package into vsched.Go(func() { f(x) })). Outside a run it is a
// plain goroutine. Spawning is a scheduling point.
func Go(body func()) {
	s := active
	if s == nil || s.abort {
		go body()
		return
	}
	t := &thread{id: len(s.threads), wake: make(chan struct{}), desc: "start"}
	s.threads = append(s.threads, t)
	go func() {
		defer func() {
			if r := recover(); r != nil {
				t.panicv = fmt.Sprint(r)
			}
			t.done = true
			s.back <- struct{}{}
		}()
		<-t.wake
		if s.abort {
			return
		}
		body()
	}()
	Yield("spawn", nil)
}

// Recv is `<-ch` as a cooperative blocking operation: the thread is enabled when the
// channel holds a value (the rewritten packages only use buffered result channels that are
// written once, so sends never block).
func Recv[T any](ch chan T) T {
	Yield("recv", func() bool { return len(ch) > 0 })
	return <-ch
}

// Run executes bodies as cooperating threads under the schedule prefix.
// A prefix entry that is out of range for the enabled set at its point panics
// (the explorer never produces one; it would mean the code is not deterministic
// under the scheduler).
func Run(prefix []int, bodies []func()) *Exec {
	if active != nil {
		panic("vsched: nested Run")
	}
	s := &sched{back: make(chan struct{})}
	x := &Exec{}
	for i, b := range bodies {
		t := &thread{id: i, wake: make(chan struct{}), desc: "start"}
		s.threads = append(s.threads, t)
		body := b
		go func() {
			defer func() {
				if r := recover(); r != nil {
					t.panicv = fmt.Sprint(r)
				}
				t.done = true
				s.back <- struct{}{}
			}()
			<-t.wake
			if s.abort {
				return
			}
			body()
		}()
	}
	active = s
	var last *thread
	en := make([]*thread, 0, len(bodies))
	for {
		en = en[:0]
		runEn := false
		if last != nil && !last.done && (last.enabled == nil || last.enabled()) {
			en = append(en, last)
			runEn = true
		}
		left := 0
		for _, t := range s.threads {
			if t.done {
				continue
			}
			left++
			if t == last {
				continue
			}
			if t.enabled == nil || t.enabled() {
				en = append(en, t)
			}
		}
		if left == 0 {
			break
		}
		if len(en) == 0 {
			x.Deadlock = true
			for _, t := range s.threads {
				if !t.done {
					x.Blocked = append(x.Blocked, fmt.Sprintf("T%d:%s", t.id, t.desc))
				}
			}
			s.teardown()
			break
		}
		if len(x.Points) >= MaxSteps {
			x.Horizon = true
			s.teardown()
			break
		}
		c := 0
		if k := len(x.Points); k < len(prefix) {
			c = prefix[k]
			if c < 0 || c >= len(en) {
				active = nil
				panic(fmt.Sprintf("vsched: schedule prefix not replayable: point %d choice %d but %d enabled", k, c, len(en)))
			}
		}
		p := Point{Chosen: int8(c), RunningEnabled: runEn, Enabled: make([]int8, len(en))}
		for i, t := range en {
			p.Enabled[i] = int8(t.id)
		}
		x.Points = append(x.Points, p)
		t := en[c]
		last, s.cur = t, t
		t.wake <- struct{}{}
		<-s.back
	}
	active = nil
	for _, t := range s.threads {
		if t.panicv != "" {
			x.Panics = append(x.Panics, fmt.Sprintf("T%d:%s", t.id, t.panicv))
		}
	}
	return x
}

// teardown unwinds every parked thread (runtime.Goexit runs their deferred
// unlocks, which are no-ops while aborting).
func (s *sched) teardown() {
	s.abort = true
	for _, t := range s.threads {
		if !t.done {
			s.cur = t
			t.wake <- struct{}{}
			<-s.back
		}
	}
}

// Stats of one Explore call.
type Stats struct {
	Executions int64 // schedules visited (each distinct schedule once)
	Points     int64 // scheduling points of the visited schedules
	MaxPoints  int
	BoundDone  int  // highest preemption bound fully explored (-1 if none)
	Stopped    bool // the visit callback asked to stop
}

// Explore enumerates every schedule of a scenario with at most `bound`
// preemptions by iterative preemption bounding: iteration b = 0,1,..,bound walks
// the tree of schedules with <= b preemptions and passes to visit exactly the
// executions with b preemptions (the ones that are new at this bound), so each
// schedule is visited once and BoundDone tells which bounds are complete if
// visit stops the search (it returns false, e.g. on a deadline).
//
// mk must build a fresh, deterministic instance of the scenario (new objects,
// same behaviour) each time it is called and return the thread bodies.
//
// Enumeration: explore(prefix) runs prefix + default continuation; then for
// every point i at or after len(prefix) and every alternative pick alt >= 1
// there, whose cost (preemptions among the first i picks, +1 if the running
// thread was still enabled at i) is within the bound, it recurses on
// choices[:i]+[alt]. The default continuation never preempts, so every
// schedule within the bound is the default continuation of exactly one such
// prefix.
func Explore(bound int, mk func() []func(), visit func(x *Exec, bound int) bool) Stats {
	st := Stats{BoundDone: -1}
	for b := 0; b <= bound; b++ {
		if !explore(nil, b, mk, visit, &st) {
			st.Stopped = true
			return st
		}
		st.BoundDone = b
	}
	return st
}

func explore(prefix []int, b int, mk func() []func(), visit func(*Exec, int) bool, st *Stats) bool {
	x := Run(prefix, mk())
	if x.Preemptions() == b {
		st.Executions++
		st.Points += int64(len(x.Points))
		if len(x.Points) > st.MaxPoints {
			st.MaxPoints = len(x.Points)
		}
		if !visit(x, b) {
			return false
		}
	}
	ch := x.Choices()
	pre := 0
	for i, p := range x.Points {
		if i >= len(prefix) {
			cost := pre
			if p.RunningEnabled {
				cost++
			}
			if cost <= b {
				for alt := 1; alt < len(p.Enabled); alt++ {
					np := make([]int, i+1)
					copy(np, ch[:i])
					np[i] = alt
					if !explore(np, b, mk, visit, st) {
						return false
					}
				}
			}
		}
		if p.RunningEnabled && p.Chosen != 0 {
			pre++
		}
	}
	return true
}

// Describe renders a schedule compactly: the thread id run at each point where
// more than one thread was enabled.
func (x *Exec) Describe() string {
	var sb strings.Builder
	for _, p := range x.Points {
		if len(p.Enabled) > 1 {
			fmt.Fprintf(&sb, "%d", p.Enabled[p.Chosen])
		} else {
			sb.WriteByte('.')
		}
	}
	return sb.String()
}
