// C02: deterministic execution - same block + same prior state => same roots everywhere.
package main

import (
	"bytes"
	"encoding/json"
	"fmt"
	"os"
	"strconv"
	"time"

	"github.com/aergoio/aergo/v2/types"
	lx "github.com/aergoio/aergo/v2/verif_h/ledgerx"
	nk "github.com/aergoio/aergo/v2/verif_h/nodekit"
	"github.com/aergoio/aergo/v2/verif_h/vorder"
	"github.com/aergoio/aergo/v2/verif_h/xplor"
)

const shardsPerNet = 16

// letters of the ledgerx alphabet used here (several governance txs touching the
// same tallies and the ranking, names, contract storage, plain transfers)
var letters = []string{
	"A->B 1", "B->fresh 7", "A stake min", "A unstake min", "A voteBP [0]", "A voteBP [1,2]", "D voteBP [1]",
	"A voteDAO gasprice", "D voteDAO gasprice other", "B createName b", "C createName c", "B updateName b->C", "C deploy",
	"D call set,set", "D call set,del,event +3", "D call set,fail", "A feedeleg ok",
	// a transaction the producer drops after it ran (system error): what the producer keeps of it
	// must be nothing, or the validator, which never sees it, computes another state
	"D call set,sysfail",
}

func nets(tier string) []nk.Net {
	all := lx.Nets("quick")
	if tier == "thorough" {
		return all
	}
	return []nk.Net{all[0], all[1], all[2]}
}

func words(n, k int) [][]int {
	var out [][]int
	var rec func(w []int)
	rec = func(w []int) {
		if len(w) > 0 {
			out = append(out, append([]int{}, w...))
		}
		if len(w) == k {
			return
		}
		for i := 0; i < n; i++ {
			rec(append(w, i))
		}
	}
	rec(nil)
	return out
}

type outcome struct {
	root, rroot, txroot []byte
	receipts            []byte
	ntx                 int
}

func outcomeOf(b *nk.Built) outcome {
	rb, _ := b.BState.Receipts().MarshalBinary()
	h := b.Block.GetHeader()
	return outcome{h.GetBlocksRootHash(), h.GetReceiptsRootHash(), h.GetTxsRootHash(), rb, len(b.Block.GetBody().GetTxs())}
}

func (o outcome) diff(p outcome) string {
	switch {
	case o.ntx != p.ntx:
		return fmt.Sprintf("number of included txs %d vs %d", o.ntx, p.ntx)
	case !bytes.Equal(o.root, p.root):
		return fmt.Sprintf("state root %x vs %x", o.root[:6], p.root[:6])
	case !bytes.Equal(o.rroot, p.rroot):
		return fmt.Sprintf("receipts root %x vs %x", o.rroot[:6], p.rroot[:6])
	case !bytes.Equal(o.receipts, p.receipts):
		return "receipts bytes differ"
	}
	return ""
}

type replay struct {
	Net  int   `json:"net"`
	Pre  int   `json:"pre"`
	Word []int `json:"word"`
}

func produce(p *lx.Prepared, txs []*types.Tx, dev map[int]int) (*nk.Built, []int, error) {
	p.Node.ResetGlobals()
	vorder.Begin(dev)
	b, err := p.Node.Produce(p.Parent, txs, 1, 1, 1)
	sizes := vorder.End()
	p.Node.ResetGlobals()
	return b, sizes, err
}

func checkCase(ctx *xplor.Ctx, p *lx.Prepared, alpha []lx.Gen, word []int, maxDev int) string {
	txs, _ := p.MakeTxs(word, alpha)
	b0, sizes, err := produce(p, txs, nil)
	if err != nil {
		return "HARNESS " + err.Error()
	}
	o0 := outcomeOf(b0)
	ctx.Count("map_range_visits_producer", int64(len(sizes)))
	// repeated execution
	b1, _, err := produce(p, txs, nil)
	if err != nil {
		return "HARNESS " + err.Error()
	}
	if d := o0.diff(outcomeOf(b1)); d != "" {
		return "a repeated execution of the producer differs: " + d
	}
	// every single deviation of one map walk in the producer
	type dv struct{ i, a int }
	var devs []dv
	for i, n := range sizes {
		for a := 1; a <= vorder.Alternatives(n); a++ {
			devs = append(devs, dv{i, a})
		}
	}
	for _, d := range devs {
		b, _, err := produce(p, txs, map[int]int{d.i: d.a})
		ctx.Count("executions_with_deviating_map_order", 1)
		if err != nil {
			return fmt.Sprintf("producer fails when map walk #%d (size %d) takes order %d: %v", d.i, sizes[d.i], d.a, err)
		}
		if df := o0.diff(outcomeOf(b)); df != "" {
			return fmt.Sprintf("producer result depends on the order of map walk #%d (size %d, order %d): %s", d.i, sizes[d.i], d.a, df)
		}
	}
	if maxDev >= 2 {
		for x := 0; x < len(devs); x++ {
			for y := x + 1; y < len(devs); y++ {
				if devs[x].i == devs[y].i {
					continue
				}
				b, _, err := produce(p, txs, map[int]int{devs[x].i: devs[x].a, devs[y].i: devs[y].a})
				ctx.Count("executions_with_deviating_map_order", 1)
				if err != nil {
					return fmt.Sprintf("producer fails under two deviating map walks: %v", err)
				}
				if df := o0.diff(outcomeOf(b)); df != "" {
					return fmt.Sprintf("producer result depends on the order of map walks #%d and #%d: %s", devs[x].i, devs[y].i, df)
				}
			}
		}
	}
	// validator: accepts what the producer built, under the default and under every deviating order
	forged := false
	for i, w := range word {
		_ = i
		if alpha[w].Fault == "sig" {
			forged = true
		}
	}
	if forged {
		return ""
	}
	deliver := func(dev map[int]int) ([]int, error, string) {
		p.Node.ResetGlobals()
		vorder.Begin(dev)
		err := p.Node.Deliver(b0.Block)
		sz := vorder.End()
		dig := ""
		if err == nil {
			dig = p.Node.StoreDigest()
		}
		if e := p.Reset(); e != nil {
			panic(e)
		}
		return sz, err, dig
	}
	vs, err, dig0 := deliver(nil)
	if err != nil {
		return fmt.Sprintf("a fresh validator refuses the block the producer built: %v", err)
	}
	ctx.Count("map_range_visits_validator", int64(len(vs)))
	for i, n := range vs {
		for a := 1; a <= vorder.Alternatives(n); a++ {
			_, err, dig := deliver(map[int]int{i: a})
			ctx.Count("executions_with_deviating_map_order", 1)
			if err != nil {
				return fmt.Sprintf("the validator refuses the block when its map walk #%d (size %d) takes order %d: %v", i, n, a, err)
			}
			if dig != dig0 {
				return fmt.Sprintf("the validator's stores after the block depend on the order of map walk #%d (size %d, order %d)", i, n, a)
			}
		}
	}
	return ""
}

func run(ctx *xplor.Ctx) {
	defer nk.Cleanup()
	ns := nets(ctx.Tier)
	full := lx.Alphabet()
	var alpha []lx.Gen
	for _, l := range letters {
		for _, g := range full {
			if g.Name == l {
				alpha = append(alpha, g)
			}
		}
	}
	if len(alpha) != len(letters) {
		panic("alphabet letters missing")
	}
	k, maxDev := 2, 1
	if ctx.Tier == "thorough" {
		k, maxDev = 2, 2
	}
	limit, _ := strconv.Atoi(os.Getenv("VERIF_LIMIT"))
	doCase := func(p *lx.Prepared, r replay) {
		msg := checkCase(ctx, p, alpha, r.Word, maxDev)
		ctx.Eval(1)
		if msg != "" {
			var names []string
			for _, w := range r.Word {
				names = append(names, alpha[w].Name)
			}
			ctx.Violation("", fmt.Sprintf("net{%v} pre=%d block %v: %s", ns[r.Net], r.Pre, names, msg), r)
			if err := p.Reset(); err != nil {
				panic(err)
			}
		} else {
			ctx.Distinct(xplor.Hash(r.Net, r.Pre, fmt.Sprint(r.Word)))
		}
	}
	if ctx.Replay != nil {
		var r replay
		if err := json.Unmarshal(ctx.Replay, &r); err != nil {
			panic(err)
		}
		p, err := lx.Prepare(ns[r.Net], r.Pre, "p")
		if err != nil {
			panic(err)
		}
		doCase(p, r)
		return
	}
	ni := ctx.Shard % len(ns)
	sub, nsub := ctx.Shard/len(ns), ctx.NShards/len(ns)
	ws := words(len(alpha), k)
	done := 0
	for pre := 0; pre < 2; pre++ {
		p, err := lx.Prepare(ns[ni], pre, fmt.Sprintf("p%d", pre))
		if err != nil {
			panic(err)
		}
		for i, w := range ws {
			if i%nsub != sub || ctx.Expired() {
				continue
			}
			if limit > 0 && done >= limit {
				ctx.Incomplete("VERIF_LIMIT")
				break
			}
			done++
			doCase(p, replay{ni, pre, w})
		}
		p.Node.Stop()
	}
	if sub == 0 && ni == 0 {
		ctx.Sample(map[string]interface{}{"net": ns[ni].String(), "pre_state": "warm", "block": []string{"A voteBP [0]", "D voteBP [1]"},
			"what": "producer twice, producer under every single deviation of every map walk, validator under the default and every deviating order"})
	}
}

func main() {
	xplor.Main(xplor.Check{
		ID:    "C02",
		Level: "exploration",
		Rule:  "every block of <= 2 transactions over an 18-letter alphabet (transfers, a contract call that fails with a system error and is dropped by the producer, stake/unstake, three producer votes that touch the same tallies and the ranking, a parameter vote, names, contract deploy/calls with storage writes and a run-time failure, fee delegation) x pre-state {genesis, warm} x 3 (thorough 6) network configurations; the packages contract/system, types, state, state/statedb and chain are compiled with every `range` over a map rewritten to vorder.Map (the compiler decides which operands are maps), so each walk of a map with >= 2 entries during block execution is a choice point: default = ascending key order, alternatives = all permutations for <= 3 entries, else reverse / two rotations / swap of the first two. Per block: the producer is run twice under the default order and once per (walk, alternative) (thorough: also every pair of deviations); state root, receipts root, receipts bytes and the set of included txs must be identical; then a validator (ChainService.addBlock from the same pre-state) must accept the block under the default order and under every single deviation of its own walks, with byte-identical stores. distinct_nontrivial = distinct (net, pre-state, word) cases that passed",
		Assumptions: []string{
			"goroutine scheduling inside pkg/trie (parallel subtree updates) runs free and is not enumerated; pkg/trie is not rewritten (the order in which it walks its node cache does not enter the root, see C10)",
			"map walks on goroutines other than the executing one would also be counted as choice points (none were seen)",
			"nondeterminism that is neither map order nor scheduling (e.g. wall-clock reads) is only met by the repeated execution",
		},
		Shards: func(tier string) int { return shardsPerNet * len(nets(tier)) },
		Budget: func(tier string) time.Duration {
			if tier == "thorough" {
				return 25 * time.Minute
			}
			return 6 * time.Minute
		},
		Run: run,
	})
}
