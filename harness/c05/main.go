package main

import (
	"fmt"

	nk "github.com/aergoio/aergo/v2/verif_h/nodekit"
)

func main() {
	n, err := nk.NewNode(nk.DefaultNet(), "n0")
	fmt.Println(err)
	g := n.Genesis()
	fmt.Println(g.ID(), g.BlockNo())
	d, err := n.DumpState(g.GetHeader().GetBlocksRootHash())
	fmt.Println(err)
	fmt.Print(d.Canon())
	cid := n.ChainIDHashFor(1)
	tx := nk.MakeTx(nk.TxSpec{From: 0, Nonce: 1, To: nk.UserAddrs[1], Amount: nil, Type: 4}, cid)
	b, err := n.Produce(g, nil, 1, 0, 1)
	fmt.Println(err, b.Block.ID(), b.Skipped)
	_ = tx
}
