// Package fakec is a pure-Go stand-in for the cgo pseudo package "C" as it is
// used by the Go half of /repo/contract (vm.go, vm_callback.go, hook.go).
//
// The overlay generator (tools/mkoverlay, rewrite kind "fakec") rewrites every
// `C.xyz` of those files into the package-local identifier `C_xyz`; the file
// overlay/contract_c20/zz_cgo_fake_verif.go binds those identifiers to the
// types and functions below. Nothing here knows anything about read-only
// contexts: the guards that C20 is about are executed from the real sources.
//
// What is faked:
//   - C scalar types and C strings (NUL terminated, living in Go memory);
//   - the Lua state: an inert record (service slot, hard-fork version,
//     "uncatchable"/"system" error flags, instruction counter, gas, the value
//     stack as a list of pushed Go values, the loaded chunk);
//   - running a Lua function (vm_pcall): a package-level hook that the harness
//     sets. The hook is "the contract program": it calls host callbacks.
//   - the Lua compiler (luac): a "source" is a JSON document
//     {"abi":{...},"prog":"..."}; anything else does not compile, unless the
//     harness registered the text with RegisterSource.
package fakec

import (
	"encoding/json"
	"errors"
	"unsafe"

	"github.com/aergoio/aergo/v2/cmd/aergoluac/util"
)

// C scalar types (sizes as cgo maps them on linux/amd64).
type (
	Int         int32
	Char        int8
	Size_t      uint64
	Ulonglong   uint64
	Double      float64
	Lua_Integer int64
)

const (
	ERR_BF_TIMEOUT = "contract timeout" // vm.h
	RLP_TSTRING    = 0                  // preamble of vm_callback.go
	RLP_TLIST      = 1
)

// Sqlite3 stands for a `sqlite3*` connection handle.
type Sqlite3 struct {
	Name     string
	ReadOnly bool
}

// ---------------------------------------------------------------------------
// C strings and buffers

// CString returns a NUL terminated copy of s in Go memory.
func CString(s string) *Char {
	b := make([]byte, len(s)+1)
	copy(b, s)
	return (*Char)(unsafe.Pointer(&b[0]))
}

// GoString reads a NUL terminated string. nil reads as "" (as in cgo).
func GoString(p *Char) string {
	if p == nil {
		return ""
	}
	n := 0
	for *(*byte)(unsafe.Add(unsafe.Pointer(p), n)) != 0 {
		n++
	}
	return string(unsafe.Slice((*byte)(unsafe.Pointer(p)), n))
}

func GoStringN(p *Char, n Int) string {
	if p == nil || n <= 0 {
		return ""
	}
	return string(unsafe.Slice((*byte)(unsafe.Pointer(p)), int(n)))
}

func GoBytes(p unsafe.Pointer, n Int) []byte {
	if p == nil || n <= 0 {
		return []byte{}
	}
	return append([]byte{}, unsafe.Slice((*byte)(p), int(n))...)
}

// CBytes returns a copy of b (one spare byte so that an empty slice still has
// an address).
func CBytes(b []byte) unsafe.Pointer {
	c := make([]byte, len(b)+1)
	copy(c, b)
	return unsafe.Pointer(&c[0])
}

func Free(p unsafe.Pointer) {}

// ---------------------------------------------------------------------------
// Lua state

// LState is the fake `struct lua_State`.
type LState struct {
	Service     Int
	HardFork    Int
	Uncatchable bool
	SysError    bool
	InstCount   Int
	InstLimit   Int
	Gas         uint64
	Code        []byte
	ChunkID     string
	Loaded      bool   // vm_loadcall was executed
	Fname       string // function selected by vm_autoload / vm_get_abi_function
	Stack       []interface{}
	JSONRet     string
	Closed      bool
}

var (
	// Pcall is the contract program: it is run by Vm_pcall. errmsg != "" makes
	// the Lua call fail with that message. nil = empty function body.
	Pcall func(L *LState, nargs int) (nret int, errmsg string)
	// NewStates counts the states handed out (a measured number for evidence).
	NewStates int
)

func NewLState(hardfork Int) *LState {
	NewStates++
	return &LState{HardFork: hardfork, InstCount: 1 << 30}
}

func LuaL_setuncatchablerror(L *LState) { L.Uncatchable = true }
func LuaL_setsyserror(L *LState)        { L.SysError = true }
func LuaL_hasuncatchablerror(L *LState) Int {
	if L != nil && L.Uncatchable {
		return 1
	}
	return 0
}
func LuaL_hassyserror(L *LState) Int {
	if L != nil && L.SysError {
		return 1
	}
	return 0
}
func LuaL_set_hardforkversion(L *LState, v Int) { L.HardFork = v }
func LuaL_hardforkversion(L *LState) Int        { return L.HardFork }
func LuaL_set_service(L *LState, s Int)         { L.Service = s }
func Vm_is_hardfork(L *LState, v Int) bool      { return L.HardFork >= v }
func Vm_instcount(L *LState) Int                { return L.InstCount }
func Vm_setinstcount(L *LState, n Int)          { L.InstCount = n }
func Lua_gasget(L *LState) Ulonglong            { return Ulonglong(L.Gas) }
func Lua_gasset(L *LState, g Ulonglong)         { L.Gas = uint64(g) }
func Vm_set_timeout_hook(L *LState)             {}
func Vm_set_count_hook(L *LState, n Int) {
	if L != nil {
		L.InstLimit = n
	}
}
func Vm_set_timeout_count_hook(L *LState, n Int) {
	if L != nil {
		L.InstLimit = n
	}
}

func Vm_loadbuff(L *LState, code *Char, sz Size_t, chunk *Char, service Int) *Char {
	L.Code = GoBytes(unsafe.Pointer(code), Int(sz))
	L.ChunkID = GoString(chunk)
	L.Service = service
	return nil
}
func Vm_loadcall(L *LState) *Char { L.Loaded = true; return nil }
func Vm_autoload(L *LState, fname *Char) Int {
	L.Fname = GoString(fname)
	return 1
}
func Vm_remove_constructor(L *LState)            {}
func Vm_get_abi_function(L *LState, fname *Char) { L.Fname = GoString(fname) }
func Vm_copy_service(L, parent *LState) *Char    { L.Service = parent.Service; return nil }
func Vm_copy_result(L, target *LState, n Int) *Char {
	return nil
}
func Vm_get_json_ret(L *LState, n Int, errRet *Int) *Char {
	*errRet = 0
	return CString(L.JSONRet)
}

// Vm_pcall runs the contract program.
func Vm_pcall(L *LState, nargs Int, nret *Int) *Char {
	*nret = 0
	if Pcall == nil {
		return nil
	}
	n, msg := Pcall(L, int(nargs))
	if msg != "" {
		return CString(msg)
	}
	*nret = Int(n)
	return nil
}

// the value stack: only what the Go side pushes is recorded
func push(L *LState, v interface{})                { L.Stack = append(L.Stack, v) }
func Lua_pushlstring(L *LState, s *Char, n Size_t) { push(L, GoStringN(s, Int(n))) }
func Lua_pushstring(L *LState, s *Char)            { push(L, GoString(s)) }
func Lua_pushinteger(L *LState, v Lua_Integer)     { push(L, int64(v)) }
func Lua_pushnumber(L *LState, v Double)           { push(L, float64(v)) }
func Lua_pushboolean(L *LState, v Int)             { push(L, v != 0) }
func Lua_pushnil(L *LState)                        { push(L, nil) }
func Lua_createtable(L *LState, narr, nrec Int)    { push(L, "table") }
func Lua_gettop(L *LState) Int                     { return Int(len(L.Stack)) }
func Lua_settop(L *LState, idx Int) {
	n := int(idx)
	if n < 0 {
		n = len(L.Stack) + 1 + n
	}
	if n >= 0 && n <= len(L.Stack) {
		L.Stack = L.Stack[:n]
	}
}
func pop(L *LState, k int) {
	if k <= len(L.Stack) {
		L.Stack = L.Stack[:len(L.Stack)-k]
	}
}
func Lua_rawseti(L *LState, t, i Int) { pop(L, 1) }
func Lua_rawset(L *LState, t Int)     { pop(L, 2) }
func Lua_set_bignum(L *LState, s *Char) *Char {
	push(L, "bignum:"+GoString(s))
	return nil
}

// ---------------------------------------------------------------------------
// luac

// Source is what the fake compiler understands.
type Source struct {
	ABI  json.RawMessage `json:"abi"`
	Prog string          `json:"prog"`
}

var registered = map[string]util.LuaCode{}

// RegisterSource makes Compile accept the literal text src.
func RegisterSource(src string, abi []byte, prog string) {
	registered[src] = util.NewLuaCode([]byte("FAKE:"+prog), abi)
}

// MakeCode is the code (bytecode+ABI) the fake compiler produces for a Source.
func MakeCode(abi []byte, prog string) util.LuaCode {
	return util.NewLuaCode([]byte("FAKE:"+prog), abi)
}

func Compile(L *LState, code string) (util.LuaCode, error) {
	if c, ok := registered[code]; ok {
		return c, nil
	}
	var s Source
	if err := json.Unmarshal([]byte(code), &s); err != nil || len(s.ABI) == 0 {
		return nil, errors.New("fakec: not a compilable source")
	}
	return MakeCode(s.ABI, s.Prog), nil
}
