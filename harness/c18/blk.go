package main

// Part 3: content addressing of blocks received from the network. A block whose
// wire `Hash` field announces the genuine/requested id but whose header or body
// was altered is delivered through the real p2p receiving code (chunk receiver,
// single get-block response, block-produced notice) into a real ChainService,
// before or after the genuine block.

import (
	"bytes"
	"crypto/sha256"
	"encoding/binary"
	"fmt"
	"math/big"
	"os"
	"strings"
	"time"

	"github.com/aergoio/aergo/v2/account/key"
	"github.com/aergoio/aergo/v2/internal/enc/proto"
	"github.com/aergoio/aergo/v2/p2p"
	"github.com/aergoio/aergo/v2/p2p/p2pcommon"
	"github.com/aergoio/aergo/v2/p2p/p2putil"
	"github.com/aergoio/aergo/v2/p2p/subproto"
	"github.com/aergoio/aergo/v2/types"
	"github.com/aergoio/aergo/v2/types/message"
	"github.com/aergoio/aergo/v2/verif_h/xplor"
	"github.com/libp2p/go-libp2p/core/crypto"
)

// headerDigest is the reference: sha256 over the header fields in declaration
// order, integers little endian (types/blockchain.go:writeBlockHeader).
func headerDigest(h *types.BlockHeader) []byte {
	d := sha256.New()
	le := func(v uint64) { var b [8]byte; binary.LittleEndian.PutUint64(b[:], v); d.Write(b[:]) }
	d.Write(h.ChainID)
	d.Write(h.PrevBlockHash)
	le(h.BlockNo)
	le(uint64(h.Timestamp))
	d.Write(h.BlocksRootHash)
	d.Write(h.TxsRootHash)
	d.Write(h.ReceiptsRootHash)
	le(h.Confirms)
	d.Write(h.PubKey)
	d.Write(h.CoinbaseAccount)
	d.Write(h.Sign)
	d.Write(h.Consensus)
	return d.Sum(nil)
}

func cloneBlock(b *types.Block) *types.Block { return proto.Clone(b).(*types.Block) }

// ---- fake remote peer ----

type fakePeer struct {
	p2pcommon.RemotePeer
	id   types.PeerID
	recv p2pcommon.ResponseReceiver
}

func (p *fakePeer) ID() types.PeerID                 { return p.id }
func (p *fakePeer) Name() string                     { return "remote" }
func (p *fakePeer) AcceptedRole() types.PeerRole     { return types.PeerRole_Watcher }
func (p *fakePeer) RemoteInfo() p2pcommon.RemoteInfo { return p2pcommon.RemoteInfo{} }
func (p *fakePeer) GetReceiver(id p2pcommon.MsgID) p2pcommon.ResponseReceiver {
	if p.recv != nil {
		return p.recv
	}
	return func(p2pcommon.Message, p2pcommon.MessageBody) bool { return false }
}
func (p *fakePeer) ConsumeRequest(id p2pcommon.MsgID) p2pcommon.MsgOrder            { return nil }
func (p *fakePeer) UpdateLastNotice(blkHash types.BlockID, blkNumber types.BlockNo) {}

// ---- alphabet of alterations ----

type blkMut struct {
	name   string
	resign bool // alteration is signed again by the (forger's) key, so the block signature verifies
	// f alters blk (a clone of the genuine block); the wire Hash is set afterwards.
	f func(blk *types.Block, w *world)
	// hash decides the announced id (default: the genuine id)
	hash func(genuine []byte) []byte
	// keepsHeader: the header is untouched (digest == genuine id), only the body differs
	bodyOnly bool
}

type world struct {
	n       *node
	genesis *types.Block
	b1      *types.Block
	target  *types.Block // genuine block 2 with three transfers
	extraTx *types.Tx    // a valid 4th transfer
	actor   *fakeActor   // receives what the p2p layer sends to syncer / chain service
	sm      p2pcommon.SyncManager
}

func highS(sig []byte) []byte {
	// DER: 30 len 02 lr r 02 ls s ; replace s by N - s
	if len(sig) < 8 || sig[0] != 0x30 || sig[2] != 0x02 {
		return nil
	}
	lr := int(sig[3])
	if 4+lr+2 > len(sig) || sig[4+lr] != 0x02 {
		return nil
	}
	ls := int(sig[5+lr])
	s := new(big.Int).SetBytes(sig[6+lr : 6+lr+ls])
	n, _ := new(big.Int).SetString("FFFFFFFFFFFFFFFFFFFFFFFFFFFFFFFEBAAEDCE6AF48A03BBFD25E8CD0364141", 16)
	s.Sub(n, s)
	sb := s.Bytes()
	if sb[0]&0x80 != 0 {
		sb = append([]byte{0}, sb...)
	}
	out := append([]byte{}, sig[:4+lr]...)
	out = append(out, 0x02, byte(len(sb)))
	out = append(out, sb...)
	out[1] = byte(len(out) - 2)
	return out
}

func blkMutations() []blkMut {
	hm := func(name string, f func(h *types.BlockHeader, w *world)) []blkMut {
		g := func(b *types.Block, w *world) { f(b.Header, w) }
		return []blkMut{{name: "header." + name, f: g}, {name: "header." + name + "+resigned", f: g, resign: true}}
	}
	var m []blkMut
	m = append(m, hm("chainid-version", func(h *types.BlockHeader, w *world) { h.ChainID = types.MakeChainId(h.ChainID, 3) })...)
	m = append(m, hm("chainid-magic", func(h *types.BlockHeader, w *world) { h.ChainID = flip(h.ChainID, -1) })...)
	m = append(m, hm("prevhash-unknown", func(h *types.BlockHeader, w *world) { h.PrevBlockHash = flip(h.PrevBlockHash, 0) })...)
	m = append(m, hm("prevhash-genesis", func(h *types.BlockHeader, w *world) { h.PrevBlockHash = w.genesis.BlockHash() })...)
	m = append(m, hm("blockno+1", func(h *types.BlockHeader, w *world) { h.BlockNo++ })...)
	m = append(m, hm("blockno-1", func(h *types.BlockHeader, w *world) { h.BlockNo-- })...)
	m = append(m, hm("timestamp+1", func(h *types.BlockHeader, w *world) { h.Timestamp++ })...)
	m = append(m, hm("stateroot", func(h *types.BlockHeader, w *world) { h.BlocksRootHash = flip(h.BlocksRootHash, 5) })...)
	m = append(m, hm("txsroot", func(h *types.BlockHeader, w *world) { h.TxsRootHash = flip(h.TxsRootHash, 5) })...)
	m = append(m, hm("receiptsroot", func(h *types.BlockHeader, w *world) { h.ReceiptsRootHash = flip(h.ReceiptsRootHash, 5) })...)
	m = append(m, hm("confirms+1", func(h *types.BlockHeader, w *world) { h.Confirms++ })...)
	m = append(m, hm("coinbase", func(h *types.BlockHeader, w *world) { h.CoinbaseAccount = append([]byte{}, rcptAddr...) })...)
	m = append(m, hm("consensus", func(h *types.BlockHeader, w *world) { h.Consensus = append(append([]byte{}, h.Consensus...), 1) })...)
	m = append(m,
		blkMut{name: "header.pubkey-other", f: func(b *types.Block, w *world) {
			b.Header.PubKey, _ = crypto.MarshalPublicKey(otherKey.GetPublic())
		}},
		blkMut{name: "header.pubkey-other+resigned", resign: true, f: func(b *types.Block, w *world) {
			b.Header.PubKey, _ = crypto.MarshalPublicKey(otherKey.GetPublic())
		}},
		blkMut{name: "header.sign-bitflip", f: func(b *types.Block, w *world) { b.Header.Sign = flip(b.Header.Sign, -1) }},
		blkMut{name: "header.sign-truncated", f: func(b *types.Block, w *world) { b.Header.Sign = b.Header.Sign[:len(b.Header.Sign)-1] }},
		blkMut{name: "header.sign-empty", f: func(b *types.Block, w *world) { b.Header.Sign = nil }},
		blkMut{name: "header.sign-high-s", f: func(b *types.Block, w *world) {
			if s := highS(b.Header.Sign); s != nil {
				b.Header.Sign = s
			} else {
				b.Header.Sign = flip(b.Header.Sign, 8)
			}
		}},
	)
	bm := func(name string, f func(b *types.BlockBody, w *world)) blkMut {
		return blkMut{name: "body." + name, bodyOnly: true, f: func(b *types.Block, w *world) { f(b.Body, w) }}
	}
	m = append(m,
		bm("drop-last-tx", func(b *types.BlockBody, w *world) { b.Txs = b.Txs[:2] }),
		bm("drop-first-tx", func(b *types.BlockBody, w *world) { b.Txs = b.Txs[1:] }),
		bm("swap-txs", func(b *types.BlockBody, w *world) { b.Txs[0], b.Txs[1] = b.Txs[1], b.Txs[0] }),
		bm("duplicate-tail-tx", func(b *types.BlockBody, w *world) { b.Txs = append(b.Txs, proto.Clone(b.Txs[2]).(*types.Tx)) }),
		bm("no-txs", func(b *types.BlockBody, w *world) { b.Txs = nil }),
		bm("extra-tx", func(b *types.BlockBody, w *world) { b.Txs = append(b.Txs, proto.Clone(w.extraTx).(*types.Tx)) }),
		bm("tx-amount-resigned", func(b *types.BlockBody, w *world) {
			b.Txs[1].Body.Amount = []byte{9}
			if err := key.SignTx(b.Txs[1], userKey); err != nil {
				panic(err)
			}
		}),
		bm("tx-amount-id-kept", func(b *types.BlockBody, w *world) { b.Txs[1].Body.Amount = []byte{9} }),
		bm("tx-id-field", func(b *types.BlockBody, w *world) { b.Txs[1].Hash = flip(b.Txs[1].Hash, 0) }),
	)
	m = append(m,
		blkMut{name: "id.other-value", f: func(*types.Block, *world) {}, hash: func(g []byte) []byte { return flip(g, 7) }},
		blkMut{name: "id.truncated", f: func(*types.Block, *world) {}, hash: func(g []byte) []byte { return g[:31] }},
		blkMut{name: "id.of-parent", f: func(*types.Block, *world) {}, hash: nil}, // set in forge()
		blkMut{name: "id.absent", f: func(*types.Block, *world) {}, hash: func(g []byte) []byte { return nil }},
	)
	return m
}

var blkPaths = []string{"direct", "chunk", "single", "bpnotice"}
var blkOrders = []string{"forged,genuine", "genuine,forged", "forged,forged,genuine", "forged,genuine,forged"}

const blkOrdersQuick = 3 // the 4th order is thorough-tier only

// blkPathPair decodes caseT.B: 0..3 = forged and genuine block come by the same
// path; 4.. = forged by path (b-4)/4, genuine by path (b-4)%4 (thorough tier).
func blkPathPair(b int) (string, string) {
	if b < len(blkPaths) {
		return blkPaths[b], blkPaths[b]
	}
	return blkPaths[(b-4)/4], blkPaths[(b-4)%4]
}

func newWorld() *world {
	n := newNode()
	w := &world{n: n}
	w.actor = &fakeActor{ca: n.cs}
	w.sm = p2p.VerifC18NewSyncManager(w.actor, &fakePM{}, logger)
	w.genesis, _ = n.cs.CDB().GetBlockByNo(0)
	w.b1 = n.buildBlock(w.genesis, nil, bpKey)
	if err := n.cs.VerifC18AddBlock(cloneBlock(w.b1), peerIDOf(bpKey)); err != nil {
		panic(fmt.Sprintf("world: block 1 refused: %v", err))
	}
	w.target = n.buildBlock(w.b1, []*types.Tx{transferTx(1, 1), transferTx(2, 2), transferTx(3, 3)}, bpKey)
	w.extraTx = transferTx(4, 4)
	w.extraTx.Body.ChainIdHash = w.target.Body.Txs[0].Body.ChainIdHash
	if err := key.SignTx(w.extraTx, userKey); err != nil {
		panic(err)
	}
	return w
}

func (w *world) forge(mu blkMut) *types.Block {
	f := cloneBlock(w.target)
	mu.f(f, w)
	if mu.resign {
		k := bpKey
		if bytes.Contains([]byte(mu.name), []byte("pubkey-other")) {
			k = otherKey
		}
		pk := f.Header.PubKey
		if err := f.Sign(k); err != nil {
			panic(err)
		}
		_ = pk
	}
	switch {
	case mu.name == "id.of-parent":
		f.Hash = append([]byte{}, w.b1.BlockHash()...)
	case mu.hash != nil:
		f.Hash = mu.hash(append([]byte{}, w.target.Hash...))
	default:
		f.Hash = append([]byte{}, w.target.Hash...) // announce the genuine id
	}
	return f
}

// deliver sends blk through the given receiving path. requested = id the node
// asked for (chunk path). It returns what reached the chain service and its answers.
type delivery struct {
	reached  int      // blocks handed to the chain service
	errs     []string // chain service answers ("" = accepted)
	p2pNote  string   // why the p2p layer dropped it, if it did
	panicked string
}

func (w *world) deliver(path string, blk *types.Block, requested []byte) (d delivery) {
	defer func() {
		if r := recover(); r != nil {
			d.panicked = fmt.Sprint(r)
		}
	}()
	bpid := peerIDOf(bpKey)
	if id, err := blk.BPID(); err == nil {
		bpid = id // the forger connects under the identity it signs with
	}
	peer := &fakePeer{id: bpid}
	actor, sm := w.actor, w.sm
	actor.sent = nil
	pm := &fakePM{}
	toChain := func(b *types.Block) {
		d.reached++
		if err := w.n.cs.VerifC18AddBlock(b, peer.id); err != nil {
			d.errs = append(d.errs, err.Error())
		} else {
			d.errs = append(d.errs, "")
		}
	}
	var reqID, msgID [16]byte
	lfsrFill(reqID[:], 11)
	lfsrFill(msgID[:], 12)
	switch path {
	case "direct":
		raw, err := proto.Encode(blk)
		if err != nil {
			panic(err)
		}
		rb := &types.Block{}
		if err := proto.Decode(raw, rb); err != nil {
			panic(err)
		}
		toChain(rb)
	case "chunk", "single":
		if path == "chunk" {
			br := p2p.NewBlockReceiver(actor, peer, 1, []message.BlockHash{message.BlockHash(requested)}, time.Hour)
			peer.recv = br.ReceiveResp
		}
		h := subproto.NewBlockRespHandler(pm, peer, logger, actor, sm)
		raw, err := p2putil.MarshalMessageBody(&types.GetBlockResponse{Status: types.ResultStatus_OK, Blocks: []*types.Block{blk}, HasNext: false})
		if err != nil {
			panic(err)
		}
		body, err := h.ParsePayload(raw)
		if err != nil {
			d.p2pNote = "payload does not parse"
			return
		}
		msg := p2pcommon.NewMessageValue(p2pcommon.GetBlocksResponse, p2pcommon.MsgID(msgID), p2pcommon.MsgID(reqID), genesisTs, raw)
		h.Handle(msg, body)
		for _, s := range actor.sent {
			switch m := s.msg.(type) {
			case *message.GetBlockChunksRsp:
				if m.Err != nil {
					d.p2pNote = "chunk receiver: " + m.Err.Error()
					continue
				}
				// mechanism named by the property: chunks are compared with the requested ids
				if len(m.Blocks) != 1 || !bytes.Equal(m.Blocks[0].GetHash(), requested) {
					d.p2pNote = "RECEIVER-FORWARDED-UNREQUESTED"
				}
				for _, b := range m.Blocks {
					toChain(b)
				}
			case *message.AddBlock:
				toChain(m.Block)
			}
		}
		if d.reached == 0 && d.p2pNote == "" {
			d.p2pNote = "dropped by the p2p layer"
		}
	case "bpnotice":
		is := &fakeIS{pm: pm, ca: w.n.cs}
		h := subproto.NewBlockProducedNoticeHandler(is, pm, peer, logger, actor, sm)
		raw, err := p2putil.MarshalMessageBody(&types.BlockProducedNotice{ProducerID: []byte(bpid), BlockNo: blk.GetHeader().GetBlockNo(), Block: blk})
		if err != nil {
			panic(err)
		}
		body, err := h.ParsePayload(raw)
		if err != nil {
			d.p2pNote = "payload does not parse"
			return
		}
		msg := p2pcommon.NewMessageValue(p2pcommon.BlockProducedNotice, p2pcommon.MsgID(msgID), p2pcommon.EmptyID, genesisTs, raw)
		h.Handle(msg, body)
		for _, s := range actor.sent {
			if m, ok := s.msg.(*message.AddBlock); ok {
				toChain(m.Block)
			}
		}
		if d.reached == 0 {
			d.p2pNote = "dropped by the p2p layer"
		}
	}
	return
}

// audit checks invariant I1 on everything the node will hand out: every block
// retrievable by an id or by number carries an id equal to the digest of its own
// header, and is found under exactly that id.
func (w *world) audit(ids [][]byte) string {
	cs := w.n.cs
	chk := func(how string, key []byte, b *types.Block) string {
		if b == nil {
			return ""
		}
		dg := headerDigest(b.Header)
		if !bytes.Equal(b.Hash, dg) {
			return fmt.Sprintf("block obtained %s carries the %d-byte id %x.. but its header digests to %x..", how, len(b.Hash), b.Hash[:min(8, len(b.Hash))], dg[:8])
		}
		if key != nil && !bytes.Equal(key, dg) {
			return fmt.Sprintf("block obtained %s (%x..) has header digest %x..", how, key[:min(8, len(key))], dg[:8])
		}
		return ""
	}
	for _, id := range ids {
		if len(id) == 0 {
			continue
		}
		b, err := cs.GetBlock(id)
		if err != nil {
			continue
		}
		if s := chk("by id", id, b); s != "" {
			return s
		}
	}
	best, err := cs.GetBestBlock()
	if err != nil {
		return "no best block: " + err.Error()
	}
	if s := chk("as best block", nil, best); s != "" {
		return s
	}
	for no := uint64(0); no <= best.BlockNo(); no++ {
		b, err := cs.CDB().GetBlockByNo(no)
		if err != nil {
			return fmt.Sprintf("main chain has no block %d: %v", no, err)
		}
		if s := chk(fmt.Sprintf("by number %d", no), nil, b); s != "" {
			return s
		}
		if h, err := cs.GetHashByNo(no); err != nil || !bytes.Equal(h, headerDigest(b.Header)) {
			return fmt.Sprintf("number index %d points to %x.. but that block's header digests to %x..", no, h[:min(4, len(h))], headerDigest(b.Header)[:4])
		}
	}
	return ""
}

// sink is the part of *xplor.Ctx the handshake and block cases use; probeSink
// lets a case be evaluated without recording anything.
type sink interface {
	Eval(n int64)
	Distinct(h uint64) bool
	Count(k string, n int64)
	Violation(sig, desc string, replay interface{})
}

type probeSink struct{ sig string }

func (p *probeSink) Eval(int64)           {}
func (p *probeSink) Distinct(uint64) bool { return false }
func (p *probeSink) Count(string, int64)  {}
func (p *probeSink) Violation(sig, desc string, replay interface{}) {
	if p.sig == "" {
		p.sig = sig
	}
}

// Every signature of a defect of the code under verification has one canonical
// case (the simplest input showing it). Other occurrences of the same signature
// are only counted while the canonical case itself still violates, so that one
// defect gives one VIOLATION / KNOWN-FINDING example instead of hundreds; as soon
// as the canonical case is repaired, remaining occurrences are reported again.
var canonical = map[string]caseT{
	"F9":  {"blk", 12, 0, 0}, // header.timestamp+1, direct, forged->genuine
	"F16": {"blk", 32, 0, 0}, // body.drop-last-tx
	"F13": {"blk", 35, 0, 0}, // body.duplicate-tail-tx
	"F17": {"blk", 39, 0, 0}, // body.tx-amount-id-kept
	"F15": {"hs", 0, 0, 12},  // p2p 0.3.1 inbound, genesis.first-byte
}

var (
	sigCount   = map[string]int{}
	canonCache = map[string]bool{}
)

func canonicalViolates(sig string) bool {
	if v, ok := canonCache[sig]; ok {
		return v
	}
	p := &probeSink{}
	c := canonical[sig]
	switch c.Part {
	case "blk":
		blkCase(p, c)
	case "hs":
		hsCase(p, c)
	}
	canonCache[sig] = p.sig == sig
	return canonCache[sig]
}

func report(ctx sink, sig, desc string, c caseT) {
	if _, probing := ctx.(*probeSink); probing {
		ctx.Violation(sig, desc, c)
		return
	}
	if os.Getenv("C18_TRACE") != "" {
		fmt.Fprintf(os.Stderr, "TRACE %s | %s\n", sig, desc)
	}
	ctx.Count("violations_sig_"+sig, 1)
	if canon, ok := canonical[sig]; ok {
		if c != canon && canonicalViolates(sig) {
			ctx.Count("occurrences_counted_under_canonical_case_"+sig, 1)
			return
		}
		// canonical case repaired but the signature still occurs: report, a few per shard
		sigCount[sig]++
		if sigCount[sig] > 2 {
			return
		}
	}
	ctx.Violation(sig, desc, c)
}

// blkCase: a = mutation, b = path, c = order.
func blkCase(ctx sink, c caseT) {
	mu := blkMutations()[c.A]
	pathF, pathG := blkPathPair(c.B)
	path := pathF
	if pathG != pathF {
		path = pathF + " (genuine block via " + pathG + ")"
	}
	order := blkOrders[c.C]
	w := newWorld()
	defer w.n.close()
	gid := w.target.Hash
	forged := w.forge(mu)
	announced := forged.Hash
	forgedDigest := headerDigest(forged.Header)
	mismatch := !bytes.Equal(announced, forgedDigest) // the announced id is not the digest of what is delivered
	what := fmt.Sprintf("block 2 altered in [%s], announced under %s, delivered via %s, order %s", mu.name,
		map[bool]string{true: "the genuine id", false: "an id different from the genuine one"}[bytes.Equal(announced, gid)], path, order)
	ctx.Eval(1)
	ctx.Distinct(xplor.Hash("blk", mu.name, path, order))
	// signature of a consequence of delivering the forged block
	fsig := func(dflt string) string {
		switch {
		case mismatch:
			return "F9" // the wire id is trusted although the header does not digest to it
		case mu.name == "body.duplicate-tail-tx":
			return "F13" // same tx root by the merkle duplication rule
		case mu.name == "body.tx-amount-id-kept":
			return "F17" // tx root computed over wire tx ids; tx id not recomputed before the root check
		case mu.bodyOnly:
			return "F16" // body that fails the header's tx root is negatively cached under the header's id
		}
		return dflt
	}
	genuineStored := func() (bool, *types.Block) {
		stored, err := w.n.cs.GetBlock(gid)
		return err == nil && stored != nil && proto.Equal(stored.Header, w.target.Header) && proto.Equal(stored.Body, w.target.Body), stored
	}

	genuineDelivered := false
	for si, st := range strings.Split(order, ",") {
		isForged := st == "forged"
		blk := w.target
		if isForged {
			blk = forged
		}
		via := pathG
		if isForged {
			via = pathF
		}
		d := w.deliver(via, cloneBlock(blk), gid)
		if d.panicked != "" {
			report(ctx, "blk-panic", fmt.Sprintf("%s: step %d panicked: %s", what, si, d.panicked), c)
			return
		}
		if d.p2pNote == "RECEIVER-FORWARDED-UNREQUESTED" {
			report(ctx, "blk-receiver-unrequested", what+": the chunk receiver forwarded a block whose announced id is not the requested one", c)
			return
		}
		if isForged && d.reached == 0 {
			ctx.Count("forged_discarded_by_p2p_layer", 1)
		}
		if !isForged && d.reached == 0 {
			// the p2p layer dropped the genuine announcement (duplicate-announcement cache keyed
			// by the wire id); the node can still fetch the block by sync: hand it over directly
			ctx.Count("genuine_notice_dropped_by_p2p_dedup", 1)
			d = w.deliver("direct", cloneBlock(blk), gid)
		}
		// I1: storage is content addressed
		if s := w.audit([][]byte{gid, announced, forgedDigest}); s != "" {
			report(ctx, fsig("blk-store"), fmt.Sprintf("%s: after step %d (%s): %s", what, si, st, s), c)
			return
		}
		// I2: no negative reference under an id the delivered content does not hash to
		if isForged && mismatch && len(announced) > 0 && w.n.cs.VerifC18InErrCache(announced) {
			if ok, _ := genuineStored(); !ok && bytes.Equal(announced, gid) {
				// show the consequence right away: the genuine block is now refused
				err := w.n.cs.VerifC18AddBlock(cloneBlock(w.target), peerIDOf(bpKey))
				report(ctx, "F9", fmt.Sprintf("%s: after step %d the altered block (header digest differs from the announced id) is negatively cached under the announced id; delivering the genuine block then answers: %v", what, si, err), c)
				return
			}
			report(ctx, "F9", fmt.Sprintf("%s: after step %d the altered block is negatively cached under the announced id although its header does not digest to it", what, si), c)
			return
		}
		// I3: the genuine block is accepted and stored under its id
		if !isForged {
			genuineDelivered = true
			ok, stored := genuineStored()
			if !ok || (d.reached > 0 && d.errs[len(d.errs)-1] != "") {
				ans := "<not delivered>"
				if d.reached > 0 {
					ans = d.errs[len(d.errs)-1]
				}
				sig := "blk-genuine-refused"
				if si > 0 {
					sig = fsig(sig)
				}
				report(ctx, sig, fmt.Sprintf("%s: the genuine block delivered at step %d is not accepted/stored under its id (chain service answered %q, a block is stored under the id: %v)", what, si, ans, stored != nil), c)
				return
			}
		}
		// I4: a forged block processed after the genuine one does not displace it
		if isForged && genuineDelivered {
			if ok, _ := genuineStored(); !ok {
				report(ctx, fsig("blk-displaced"), fmt.Sprintf("%s: after step %d the genuine block is no longer what is stored under its id", what, si), c)
				return
			}
		}
	}
	// the node keeps working: block 3 on top of the genuine block 2 is accepted
	if best, _ := w.n.cs.GetBestBlock(); best != nil && bytes.Equal(best.Hash, gid) {
		b3 := w.n.buildBlock(w.target, nil, bpKey)
		if err := w.n.cs.VerifC18AddBlock(b3, peerIDOf(bpKey)); err != nil {
			report(ctx, fsig("blk-followup"), fmt.Sprintf("%s: block 3 on top of the genuine block refused: %v", what, err), c)
		}
	} else {
		ctx.Count("genuine_not_best_at_end", 1)
	}
}
