// C18: P2P boundary — bounded framing, same-chain peers only, content-addressed blocks.
//
// Part 1 (frame.go): p2p/v030 message framing against a reference codec.
// Part 2 (hs.go):    wire + versioned handshakes (0.3.1, 0.3.2, 0.3.3, 2.0.0), single-field status mutations.
// Part 3 (blk.go):   blocks whose announced id, header or body was altered, delivered through the
//
//	real p2p receiving code into a real ChainService, before/after the genuine block.
package main

import (
	"encoding/json"
	"fmt"
	"time"

	"github.com/aergoio/aergo/v2/verif_h/xplor"
)

// caseT identifies one enumerated case; it is also the replay object.
type caseT struct {
	Part string `json:"part"`
	A    int    `json:"a"`
	B    int    `json:"b"`
	C    int    `json:"c"`
}

func allCases(tier string) []caseT {
	var cs []caseT
	// part 3 first: these are the slowest cases, spread them over the shards
	for a := range blkMutations() {
		for b := range blkPaths {
			for c := 0; c < blkOrdersQuick; c++ {
				cs = append(cs, caseT{"blk", a, b, c})
			}
		}
		if tier == "thorough" {
			for b := range blkPaths {
				cs = append(cs, caseT{"blk", a, b, 3})
			}
			for pf := range blkPaths {
				for pg := range blkPaths {
					if pf != pg {
						cs = append(cs, caseT{"blk", a, 4 + pf*4 + pg, 0})
					}
				}
			}
		}
	}
	// part 2
	nm := len(hsMutations())
	for a := range hsVersions {
		for b := 0; b < 2; b++ {
			for c := 0; c < nm; c++ {
				cs = append(cs, caseT{"hs", a, b, c})
			}
			for c := range wireMutations() {
				cs = append(cs, caseT{"wire", a, b, c})
			}
		}
	}
	// part 1
	for a := range subProtocols {
		cs = append(cs, caseT{"rt", a, 0, 0})
	}
	alpha := streamAlphabetQuick
	if tier == "thorough" {
		alpha = streamAlphabetThorough
	}
	for a := range alpha {
		cs = append(cs, caseT{"stream", a, 0, 0})
	}
	for a := 0; a <= 16; a++ {
		cs = append(cs, caseT{"trunc", a, 0, 0})
	}
	for a := 0; a <= 16; a++ {
		cs = append(cs, caseT{"split", a, -1, 0})
	}
	second := []int{0, 1, 16}
	if tier == "thorough" {
		second = []int{0, 1, 2, 3, 4, 7, 8, 15, 16}
	}
	for _, a := range second {
		for _, b := range second {
			cs = append(cs, caseT{"split", a, b, 0})
		}
	}
	blocks := 64 // x 256 seeds
	big := 1
	if tier == "thorough" {
		blocks, big = 4096, 16
	}
	for a := 0; a < blocks; a++ {
		cs = append(cs, caseT{"arb", a, 0, 0}, caseT{"arb", a, 1, 0})
		if a < 32 {
			cs = append(cs, caseT{"arb", a, 2, 0})
		}
		if a < big {
			cs = append(cs, caseT{"arb", a, 3, 0})
		}
	}
	cs = append(cs, caseT{"oversize", 0, 0, 0})
	return cs
}

func runCase(ctx *xplor.Ctx, c caseT) {
	defer func() {
		if r := recover(); r != nil {
			// a panic outside the per-case guards is a harness problem, not a verdict
			panic(fmt.Sprintf("case %+v: %v", c, r))
		}
	}()
	switch c.Part {
	case "rt":
		rtCase(ctx, c)
	case "stream":
		streamCase(ctx, c)
	case "trunc":
		truncCase(ctx, c)
	case "split":
		splitCase(ctx, c)
	case "arb":
		arbCase(ctx, c)
	case "oversize":
		oversizeCase(ctx, c)
	case "hs":
		hsCase(ctx, c)
	case "wire":
		wireCase(ctx, c)
	case "blk":
		blkCase(ctx, c)
	default:
		panic("unknown part " + c.Part)
	}
	ctx.Count("cases_"+c.Part, 1)
}

func run(ctx *xplor.Ctx) {
	if ctx.Replay != nil {
		var c caseT
		if err := json.Unmarshal(ctx.Replay, &c); err != nil {
			panic(err)
		}
		runCase(ctx, c)
		return
	}
	allocCanary()
	cs := allCases(ctx.Tier)
	sampled := false
	for i, c := range cs {
		if !ctx.Mine(i) {
			continue
		}
		if ctx.Expired() {
			break
		}
		runCase(ctx, c)
		if !sampled && c.Part == "blk" {
			sampled = true
			ctx.Sample(map[string]interface{}{"part": "blk", "alteration": blkMutations()[c.A].name, "path": func() string { f, g := blkPathPair(c.B); return f + "/" + g }(), "order": blkOrders[c.C]})
		}
	}
	if ctx.Shard == 0 {
		ctx.Sample(map[string]interface{}{"part": "hs", "version": hsVersions[3].String(), "direction": "inbound", "mutation": hsMutations()[1].name})
		ctx.Sample(map[string]interface{}{"part": "frame", "family": "roundtrip", "sub_protocol": uint32(subProtocols[10]), "sizes": len(rtSizes(ctx.Tier)), "limit": limit})
	}
}

func main() {
	xplor.Main(xplor.Check{
		ID:    "C18",
		Level: "exploration",
		Rule: "framing: every sub-protocol id (27 defined + 4 undefined) x payload sizes {0..64} u {2^k±1, k=7..23} u {limit-2..limit+1} written by the real writer must equal the reference frame and be read back identically AFTER the whole connection was consumed; every sequence of <=3 (thorough <=4) messages over a size alphabet on one connection; every truncation offset of every frame with payload 0..16 (alone / after a complete frame, both EOF conventions); every delivery of 1-2 frame streams in pieces with <=2 cut points; fixed LFSR byte strings (raw, 6-bit and 24-bit announced lengths, every single-bit flip of a header) against a reference parser; headers announcing limit+1 .. 2^32-1 bytes with no payload must fail with TotalAlloc growth below the limit (a one-read canary per worker skips the multi-gigabyte announcements when the guard is missing, the designated case reports it). " +
			"handshake: real wire + versioned handshakers for p2p 0.3.1/0.3.2/0.3.3/2.0.0, inbound and outbound, remote status = local view with exactly one field changed (chain id magic/consensus/public/mainnet/version/encoding, genesis hash, peer id, sender, best hash, height, role, address ...) plus the (height,version) grid for the hardfork rule, plus malformed wire headers/messages; verdict three-valued (must fail / must succeed / not decided by the property). " +
			"blocks: block 2 (3 transfers) with each header field altered (unsigned and re-signed), 9 body alterations, 4 id alterations, announced under the genuine id, via direct/chunk receiver/single response/BP notice, in orders forged->genuine, genuine->forged, forged->forged->genuine (thorough: also forged->genuine->forged and every pair of different paths for forged/genuine); invariants: everything retrievable is stored under the digest of its own header, no negative cache entry under an id the content does not hash to, genuine block accepted and stored afterwards. " +
			"distinct_nontrivial = distinct (family, parameters) cases executed on the real code.",
		Assumptions: []string{
			"sha256 collision freedom; secp256k1 signatures unforgeable (forger re-signs only with keys it owns)",
			"consensus is a stub that really verifies the block signature but accepts any producer/timestamp (producer legitimacy is C09's subject); contract VM is the overlay stub (blocks carry plain transfers only)",
			"peers of part 2/3 are scripted byte streams / fake RemotePeer objects; libp2p transport security (that the connection identity is authentic) is trusted",
			"allocation is measured as runtime.MemStats.TotalAlloc delta in a single-goroutine worker with >= 1 MiB slack; no verdict depends on time",
			"the syncer between chunk receiver and chain service is replaced by handing the received blocks to ChainService.addBlock in order",
		},
		Shards: func(tier string) int { return 48 },
		Budget: func(tier string) time.Duration {
			if tier == "thorough" {
				return 25 * time.Minute
			}
			// safety net only: ~20 s of work on an idle 16-core machine
			return 10 * time.Minute
		},
		Run: run,
	})
}
