package main

// Single-node kit for part 3 (and the local side of part 2): a real
// chain.ChainService over in-memory "verifdb" stores with a fixed custom
// genesis, a signature-checking consensus stub and a deterministic block
// builder. Everything is derived from constants, so two runs build the same
// blocks bit for bit.

import (
	"fmt"
	"os"
	"path/filepath"
	"sync/atomic"

	"github.com/aergoio/aergo-lib/db"
	"github.com/aergoio/aergo/v2/account/key"
	"github.com/aergoio/aergo/v2/chain"
	"github.com/aergoio/aergo/v2/config"
	"github.com/aergoio/aergo/v2/consensus"
	"github.com/aergoio/aergo/v2/state"
	"github.com/aergoio/aergo/v2/types"
	"github.com/btcsuite/btcd/btcec/v2"
	"github.com/libp2p/go-libp2p/core/crypto"
)

const genesisTs = int64(1577836800) * 1e9 // 2020-01-01, far in the local past

func fixedKey(b byte) (*btcec.PrivateKey, crypto.PrivKey) {
	raw := make([]byte, 32)
	for i := range raw {
		raw[i] = b
	}
	bk, _ := btcec.PrivKeyFromBytes(raw)
	lk, err := crypto.UnmarshalSecp256k1PrivateKey(raw)
	if err != nil {
		panic(err)
	}
	return bk, lk
}

var (
	userKey, _  = fixedKey(0x11) // funded account A
	_, bpKey    = fixedKey(0x22) // block producer / remote peer identity
	_, otherKey = fixedKey(0x33) // another identity
	_, selfKey  = fixedKey(0x44) // identity of the local node
	userAddr    = userKey.PubKey().SerializeCompressed()
	rcptAddr    = func() []byte { k, _ := fixedKey(0x55); return k.PubKey().SerializeCompressed() }()
)

func peerIDOf(k crypto.PrivKey) types.PeerID {
	id, err := types.IDFromPrivateKey(k)
	if err != nil {
		panic(err)
	}
	return id
}

// stubConsensus: like the repo's test StubConsensus, except that the block
// signature is really verified (types.Block.VerifySign, as dpos.VerifySign does)
// and IsConnectedBlock looks the id up in the chain db (as dpos/sbp do). Producer
// schedule, timestamps and LIB are not C18's subject.
type stubConsensus struct{ cdb consensus.ChainDB }

func (stubConsensus) SetStateDB(sdb *state.ChainStateDB)      {}
func (stubConsensus) IsTransactionValid(tx *types.Tx) bool    { return true }
func (stubConsensus) VerifyTimestamp(block *types.Block) bool { return true }
func (stubConsensus) VerifySign(block *types.Block) error {
	ok, err := block.VerifySign()
	if err != nil {
		return err
	}
	if !ok {
		return fmt.Errorf("block signature does not verify")
	}
	return nil
}
func (stubConsensus) IsBlockValid(block *types.Block, bestBlock *types.Block) error { return nil }
func (stubConsensus) Update(block *types.Block)                                     {}
func (stubConsensus) Save(tx consensus.TxWriter) error                              { return nil }
func (stubConsensus) NeedReorganization(rootNo types.BlockNo) bool                  { return true }
func (stubConsensus) Info() string                                                  { return "" }
func (stubConsensus) GetType() consensus.ConsensusType                              { return consensus.ConsensusSBP }
func (stubConsensus) NeedNotify() bool                                              { return false }
func (stubConsensus) HasWAL() bool                                                  { return false }

// as dpos and sbp do: a block whose (announced) id is already in the chain db is "connected"
func (s stubConsensus) IsConnectedBlock(block *types.Block) bool {
	_, err := s.cdb.GetBlock(block.BlockHash())
	return err == nil
}
func (stubConsensus) IsForkEnable() bool { return true }
func (stubConsensus) MakeConfChangeProposal(req *types.MembershipChange) (*consensus.ConfChangePropose, error) {
	return nil, consensus.ErrNotSupportedMethod
}

var nodeSeq int64

type node struct {
	cs  *chain.ChainService
	cfg *config.Config
	dir string
}

func testGenesis() *types.Genesis {
	return &types.Genesis{
		ID:        types.ChainID{Version: 0, Magic: "c18.verif", PublicNet: false, MainNet: false, Consensus: "sbp"},
		Timestamp: genesisTs,
		Balance:   map[string]string{types.EncodeAddress(userAddr): "1000000000000000000000"},
	}
}

// hardfork heights: short chains cross the version switches (v2 from block 2, v3 from 4).
func testHardfork() *config.HardforkConfig {
	return &config.HardforkConfig{V2: 2, V3: 4, V4: 1000, V5: 2000}
}

func newNode() *node {
	// absolute and unique: the stores are in memory (verifdb) but chain.NewCore creates the
	// directories, which must not land in the caller's working directory
	dir := filepath.Join(os.TempDir(), fmt.Sprintf("verif-c18-%d-%d", os.Getpid(), atomic.AddInt64(&nodeSeq, 1)))
	sc := config.NewServerContext("", "")
	cfg := sc.GetDefaultConfig().(*config.Config)
	cfg.DbType = "verifdb"
	cfg.DataDir = dir
	cfg.Hardfork = testHardfork()
	core, err := chain.NewCore(cfg.DbType, cfg.DataDir, false, 0, cfg.DB)
	if err != nil {
		panic(err)
	}
	if err := core.InitGenesisBlock(testGenesis(), false); err != nil {
		panic(err)
	}
	core.Close()
	cs := chain.NewChainService(cfg)
	cs.SetChainConsensus(stubConsensus{cdb: cs.CDB()})
	cs.VerifC18SkipMempool()
	os.RemoveAll(dir) // every store is in memory; the directories are only created, never used
	return &node{cs: cs, cfg: cfg, dir: dir}
}

func (n *node) close() {
	// not BeforeStop(): stopping the sign verifier while a refused block's tx
	// verification is still in flight panics in its workers (send on closed channel)
	n.cs.Close()
	db.VerifDrop(n.dir + string(filepath.Separator))
	os.RemoveAll(n.dir)
}

func transferTx(nonce uint64, amount int64) *types.Tx {
	tx := &types.Tx{Body: &types.TxBody{
		Nonce:       nonce,
		Account:     userAddr,
		Recipient:   rcptAddr,
		Amount:      []byte{byte(amount)},
		GasLimit:    0,
		GasPrice:    []byte{0},
		Type:        types.TxType_TRANSFER,
		ChainIdHash: nil,
	}}
	return tx
}

// buildBlock builds the block a producer would build on top of prev with the
// given txs: state and receipts roots come from a dry run of the real executor.
func (n *node) buildBlock(prev *types.Block, txs []*types.Tx, signer crypto.PrivKey) *types.Block {
	bi := types.NewBlockHeaderInfoFromPrevBlock(prev, genesisTs+int64(prev.BlockNo()+1)*1e9, n.cfg.Hardfork)
	for _, tx := range txs {
		tx.Body.ChainIdHash = bi.ChainIdHash()
		if err := key.SignTx(tx, userKey); err != nil {
			panic(err)
		}
	}
	blk := types.NewBlock(bi, prev.GetHeader().GetBlocksRootHash(), nil, txs, nil, nil)
	if err := blk.Sign(signer); err != nil {
		panic(err)
	}
	root, rroot, _ := n.cs.VerifC18DryRun(blk)
	blk.Header.BlocksRootHash = root
	blk.Header.ReceiptsRootHash = rroot
	if err := blk.Sign(signer); err != nil {
		panic(err)
	}
	blk.Hash = nil
	blk.BlockHash() // fills Hash with the digest of the header, as a producer does
	return blk
}
