package main

// Part 2: handshake strictness. The real Inbound/OutboundWireHandshaker, the real
// version manager and the real versioned handshakers (0.3.1, 0.3.2, 0.3.3, 2.0.0)
// run against a scripted remote whose status differs from what the local node
// itself would present in exactly one field.

import (
	"bytes"
	"encoding/binary"
	"fmt"
	"os"
	"path/filepath"
	"time"

	"github.com/aergoio/aergo-lib/log"
	"github.com/aergoio/aergo/v2/chain"
	"github.com/aergoio/aergo/v2/config"
	"github.com/aergoio/aergo/v2/p2p"
	"github.com/aergoio/aergo/v2/p2p/p2pcommon"
	"github.com/aergoio/aergo/v2/p2p/p2pkey"
	"github.com/aergoio/aergo/v2/p2p/p2putil"
	"github.com/aergoio/aergo/v2/types"
	"github.com/aergoio/aergo/v2/verif_h/xplor"
	"github.com/libp2p/go-libp2p/core/crypto"
)

var logger = log.NewLogger("c18")

// ---- fakes: only the methods the handshake / receiving paths use; anything
// else panics on the embedded nil interface and is reported as a harness error.

type fakePM struct {
	p2pcommon.PeerManager
	self p2pcommon.PeerMeta
}

func (f *fakePM) SelfMeta() p2pcommon.PeerMeta { return f.self }
func (f *fakePM) SelfNodeID() types.PeerID     { return f.self.ID }

type sentMsg struct {
	to  string
	msg interface{}
}

type fakeActor struct {
	p2pcommon.ActorService
	ca   types.ChainAccessor
	sent []sentMsg
}

func (f *fakeActor) TellRequest(a string, m interface{})   { f.sent = append(f.sent, sentMsg{a, m}) }
func (f *fakeActor) SendRequest(a string, m interface{})   { f.sent = append(f.sent, sentMsg{a, m}) }
func (f *fakeActor) GetChainAccessor() types.ChainAccessor { return f.ca }

type fakeIS struct {
	p2pcommon.InternalService
	pm *fakePM
	ca types.ChainAccessor
}

func (f *fakeIS) SelfMeta() p2pcommon.PeerMeta                     { return f.pm.self }
func (f *fakeIS) SelfNodeID() types.PeerID                         { return f.pm.self.ID }
func (f *fakeIS) GetChainAccessor() types.ChainAccessor            { return f.ca }
func (f *fakeIS) CertificateManager() p2pcommon.CertificateManager { return nil }
func (f *fakeIS) LocalSettings() p2pcommon.LocalSettings           { return p2pcommon.LocalSettings{} }
func (f *fakeIS) PeerManager() p2pcommon.PeerManager               { return f.pm }

// scriptConn is the connection: reads come from the remote's prepared bytes,
// writes of the local node are collected.
type scriptConn struct {
	in  *bytes.Reader
	out bytes.Buffer
}

func (s *scriptConn) Read(p []byte) (int, error)  { return s.in.Read(p) }
func (s *scriptConn) Write(p []byte) (int, error) { return s.out.Write(p) }
func (s *scriptConn) Close() error                { return nil }

var p2pkeyInit bool

func initP2PKey() {
	if p2pkeyInit {
		return
	}
	p2pkeyInit = true
	dir, err := os.MkdirTemp("", "c18-key-")
	if err != nil {
		panic(err)
	}
	defer os.RemoveAll(dir)
	raw, err := crypto.MarshalPrivateKey(selfKey)
	if err != nil {
		panic(err)
	}
	kf := filepath.Join(dir, "node.key")
	if err := os.WriteFile(kf, raw, 0o600); err != nil {
		panic(err)
	}
	p2pkey.InitNodeInfo(&config.BaseConfig{}, &config.P2PConfig{NPKey: kf}, "v2.0.0", logger)
}

// hsEnv is the local node of the handshake cases: a real chain service with best
// block 5 (hardfork heights 2 and 4 passed, so the local chain id version is 3).
type hsEnv struct {
	n       *node
	best    *types.Block
	genesis []byte
	pm      *fakePM
	actor   *fakeActor
	is      *fakeIS
	vm      p2pcommon.VersionedManager
	gcid    *types.ChainID
}

const hsBest = 5

var theHsEnv *hsEnv

func getHsEnv() *hsEnv {
	if theHsEnv != nil {
		return theHsEnv
	}
	initP2PKey()
	n := newNode()
	prev, _ := n.cs.CDB().GetBlockByNo(0)
	for i := 1; i <= hsBest; i++ {
		b := n.buildBlock(prev, nil, bpKey)
		if err := n.cs.VerifC18AddBlock(b, peerIDOf(bpKey)); err != nil {
			panic(fmt.Sprintf("hs env: block %d refused: %v", i, err))
		}
		prev = b
	}
	best, _ := n.cs.GetBestBlock()
	self := p2pcommon.NewMetaWith1Addr(peerIDOf(selfKey), "192.168.1.1", 7846, "v2.0.0")
	self.Role = types.PeerRole_Watcher
	e := &hsEnv{n: n, best: best, genesis: chain.Genesis.Block().Hash}
	e.pm = &fakePM{self: self}
	e.actor = &fakeActor{ca: n.cs}
	e.is = &fakeIS{pm: e.pm, ca: n.cs}
	gb, err := n.cs.CDB().GetGenesisInfo().ChainID()
	if err != nil {
		panic(err)
	}
	e.gcid = types.NewChainID()
	if err := e.gcid.Read(gb); err != nil {
		panic(err)
	}
	e.vm = p2p.VerifC18NewVersionManager(e.is, e.actor, e.pm, n.cs, logger, e.gcid)
	theHsEnv = e
	return e
}

// ---- the alphabet ----

var hsVersions = []p2pcommon.P2PVersion{p2pcommon.P2PVersion031, p2pcommon.P2PVersion032, p2pcommon.P2PVersion033, p2pcommon.P2PVersion200}

type expect int

const (
	mustSucceed expect = iota
	mustFail
	free // not decided by the property text (well-formedness details); recorded only
)

func (e expect) String() string { return [...]string{"must succeed", "must fail", "free"}[e] }

type hsMut struct {
	name   string
	clause string // which clause of the property decides it
	exp    expect
	// apply edits the honest remote status / chain id; cid is serialised after apply.
	apply func(st *types.Status, cid *types.ChainID, env *hsEnv, legacy bool)
	// rawCID, when set, replaces the chain id bytes after serialisation
	rawCID func(b []byte) []byte
}

func flip(b []byte, i int) []byte {
	r := append([]byte{}, b...)
	if i < 0 {
		i += len(r)
	}
	r[i] ^= 0x01
	return r
}

// local chain id version in force at height h under testHardfork().
func versionAt(h uint64) int32 { return testHardfork().Version(h) }

func hsMutations() []hsMut {
	type S = types.Status
	type C = types.ChainID
	m := []hsMut{
		{name: "identical", exp: mustSucceed, apply: func(*S, *C, *hsEnv, bool) {}},
		// --- compatible chain identifier
		{name: "chainid.magic", clause: "chain id", exp: mustFail, apply: func(_ *S, c *C, _ *hsEnv, _ bool) { c.Magic = "c18.verig" }},
		{name: "chainid.magic-prefix", clause: "chain id", exp: mustFail, apply: func(_ *S, c *C, _ *hsEnv, _ bool) { c.Magic = "c18.veri" }},
		{name: "chainid.consensus", clause: "chain id", exp: mustFail, apply: func(_ *S, c *C, _ *hsEnv, _ bool) { c.Consensus = "dpos" }},
		{name: "chainid.public", clause: "chain id", exp: mustFail, apply: func(_ *S, c *C, _ *hsEnv, _ bool) { c.PublicNet = !c.PublicNet }},
		{name: "chainid.mainnet", clause: "chain id", exp: mustFail, apply: func(_ *S, c *C, _ *hsEnv, _ bool) { c.MainNet = !c.MainNet }},
		{name: "chainid.version+1", clause: "chain id", exp: mustFail, apply: func(_ *S, c *C, _ *hsEnv, _ bool) { c.Version++ }},
		{name: "chainid.version-1", clause: "chain id", exp: mustFail, apply: func(_ *S, c *C, _ *hsEnv, _ bool) { c.Version-- }},
		{name: "chainid.version=99", clause: "chain id", exp: mustFail, apply: func(_ *S, c *C, _ *hsEnv, _ bool) { c.Version = 99 }},
		{name: "chainid.empty", clause: "chain id", exp: mustFail, apply: func(*S, *C, *hsEnv, bool) {}, rawCID: func([]byte) []byte { return nil }},
		{name: "chainid.truncated", clause: "chain id", exp: mustFail, apply: func(*S, *C, *hsEnv, bool) {}, rawCID: func(b []byte) []byte { return b[:5] }},
		{name: "chainid.no-separator", clause: "chain id", exp: mustFail, apply: func(*S, *C, *hsEnv, bool) {}, rawCID: func(b []byte) []byte { return bytes.Replace(b, []byte("/"), []byte("_"), 1) }},
		// --- same genesis block
		{name: "genesis.first-byte", clause: "genesis", exp: mustFail, apply: func(s *S, _ *C, _ *hsEnv, _ bool) { s.Genesis = flip(s.Genesis, 0) }},
		{name: "genesis.last-byte", clause: "genesis", exp: mustFail, apply: func(s *S, _ *C, _ *hsEnv, _ bool) { s.Genesis = flip(s.Genesis, -1) }},
		{name: "genesis.empty", clause: "genesis", exp: mustFail, apply: func(s *S, _ *C, _ *hsEnv, _ bool) { s.Genesis = nil }},
		{name: "genesis.truncated", clause: "genesis", exp: mustFail, apply: func(s *S, _ *C, _ *hsEnv, _ bool) { s.Genesis = s.Genesis[:31] }},
		{name: "genesis.extended", clause: "genesis", exp: mustFail, apply: func(s *S, _ *C, _ *hsEnv, _ bool) { s.Genesis = append(append([]byte{}, s.Genesis...), 0) }},
		{name: "genesis.is-best-hash", clause: "genesis", exp: mustFail, apply: func(s *S, _ *C, e *hsEnv, _ bool) { s.Genesis = e.best.BlockHash() }},
		// --- peer identity of the connection
		{name: "peerid.other", clause: "peer id", exp: mustFail, apply: func(s *S, _ *C, _ *hsEnv, _ bool) { s.Sender.PeerID = []byte(peerIDOf(otherKey)) }},
		{name: "peerid.local-node", clause: "peer id", exp: mustFail, apply: func(s *S, _ *C, _ *hsEnv, _ bool) { s.Sender.PeerID = []byte(peerIDOf(selfKey)) }},
		{name: "peerid.empty", clause: "peer id", exp: mustFail, apply: func(s *S, _ *C, _ *hsEnv, _ bool) { s.Sender.PeerID = nil }},
		{name: "peerid.truncated", clause: "peer id", exp: mustFail, apply: func(s *S, _ *C, _ *hsEnv, _ bool) { s.Sender.PeerID = s.Sender.PeerID[:len(s.Sender.PeerID)-1] }},
		{name: "peerid.last-byte", clause: "peer id", exp: mustFail, apply: func(s *S, _ *C, _ *hsEnv, _ bool) { s.Sender.PeerID = flip(s.Sender.PeerID, -1) }},
		{name: "sender.absent", clause: "peer id", exp: mustFail, apply: func(s *S, _ *C, _ *hsEnv, _ bool) { s.Sender = nil }},
		// --- differences every honest peer shows: must not be refused
		{name: "bestheight.4", exp: mustSucceed, apply: func(s *S, _ *C, _ *hsEnv, _ bool) { s.BestHeight = 4 }},
		{name: "bestheight.999", exp: mustSucceed, apply: func(s *S, _ *C, _ *hsEnv, _ bool) { s.BestHeight = 999 }},
		{name: "besthash.other", exp: mustSucceed, apply: func(s *S, _ *C, _ *hsEnv, _ bool) { s.BestBlockHash = flip(s.BestBlockHash, 3) }},
		{name: "noexpose", exp: mustSucceed, apply: func(s *S, _ *C, _ *hsEnv, _ bool) { s.NoExpose = !s.NoExpose }},
		{name: "version-string", exp: mustSucceed, apply: func(s *S, _ *C, _ *hsEnv, _ bool) { s.Version = "v2.4.9"; s.Sender.Version = "v2.4.9" }},
		{name: "port", exp: mustSucceed, apply: func(s *S, _ *C, _ *hsEnv, _ bool) {
			s.Sender.Port = 7847
			s.Sender.Addresses = []string{"/ip4/192.168.1.2/tcp/7847"}
		}},
		// --- well-formedness details the property text does not decide
		{name: "besthash.len31", exp: free, apply: func(s *S, _ *C, _ *hsEnv, _ bool) { s.BestBlockHash = s.BestBlockHash[:31] }},
		{name: "besthash.len33", exp: free, apply: func(s *S, _ *C, _ *hsEnv, _ bool) { s.BestBlockHash = append(append([]byte{}, s.BestBlockHash...), 7) }},
		{name: "besthash.empty", exp: free, apply: func(s *S, _ *C, _ *hsEnv, _ bool) { s.BestBlockHash = nil }},
		{name: "address.malformed", exp: free, apply: func(s *S, _ *C, _ *hsEnv, _ bool) { s.Sender.Address = "not an address!" }},
		{name: "address.fqdn", exp: free, apply: func(s *S, _ *C, _ *hsEnv, _ bool) { s.Sender.Address = "node.example.org" }},
		{name: "addresses.garbage", exp: free, apply: func(s *S, _ *C, _ *hsEnv, _ bool) { s.Sender.Addresses = []string{"///"} }},
		{name: "role.agent-without-producers", exp: free, apply: func(s *S, _ *C, _ *hsEnv, _ bool) { s.Sender.Role = types.PeerRole_Agent }},
		{name: "role.producer", exp: free, apply: func(s *S, _ *C, _ *hsEnv, _ bool) {
			s.Sender.Role = types.PeerRole_Producer
			s.Sender.ProducerIDs = [][]byte{s.Sender.PeerID}
		}},
	}
	// --- chain id version vs announced height: the version must be the one the
	// local node has in force at that height (the "allowed version difference").
	for _, h := range []uint64{0, 1, 2, 3, 4, 1000, 2000} {
		for _, v := range []int32{0, 2, 3, 4, 5} {
			h, v := h, v
			mm := hsMut{name: fmt.Sprintf("fork.height=%d.version=%d", h, v), clause: "chain id",
				apply: func(s *S, c *C, _ *hsEnv, _ bool) { s.BestHeight = h; c.Version = v }}
			m = append(m, mm) // expectation depends on the handshake version: see hsExpect
		}
	}
	return m
}

// versionOffered: is ver a p2p version the node accepts (inbound) / offers (outbound)?
// For a version outside the list nothing may succeed, whatever the status says.
func versionOffered(ver p2pcommon.P2PVersion, inbound bool) bool {
	list := p2pcommon.AttemptingOutboundVersions
	if inbound {
		list = p2pcommon.AcceptedInboundVersions
	}
	for _, v := range list {
		if v == ver {
			return true
		}
	}
	return false
}

// hsExpect refines the expectation for the fork.* family.
func hsExpect(mu hsMut, ver p2pcommon.P2PVersion, env *hsEnv) expect {
	var h uint64
	var v int32
	if n, _ := fmt.Sscanf(mu.name, "fork.height=%d.version=%d", &h, &v); n != 2 {
		return mu.exp
	}
	legacy := ver == p2pcommon.P2PVersion031 || ver == p2pcommon.P2PVersion032
	if legacy {
		// 0.3.1/0.3.2 know nothing of hardforks: the only compatible id is the genesis one
		if v == env.gcid.Version {
			return mustSucceed
		}
		return mustFail
	}
	if v == versionAt(h) {
		return mustSucceed
	}
	return mustFail
}

// honestStatus is what a peer on the same chain with the connection's identity presents.
func honestStatus(env *hsEnv, ver p2pcommon.P2PVersion) (*types.Status, *types.ChainID) {
	legacy := ver == p2pcommon.P2PVersion031 || ver == p2pcommon.P2PVersion032
	cid := *env.gcid
	if !legacy {
		cid.Version = versionAt(hsBest)
	}
	rid := peerIDOf(bpKey)
	st := &types.Status{
		Sender: &types.PeerAddress{
			Address: "192.168.1.2", Port: 7846, PeerID: []byte(rid),
			Addresses: []string{"/ip4/192.168.1.2/tcp/7846"}, Version: "v2.0.0", Role: types.PeerRole_Watcher,
		},
		BestBlockHash: append([]byte{}, env.best.BlockHash()...),
		BestHeight:    hsBest,
		Genesis:       append([]byte{}, env.genesis...),
		Version:       "v2.0.0",
	}
	return st, &cid
}

func statusFrame(sp p2pcommon.SubProtocol, body p2pcommon.MessageBody) []byte {
	pl, err := p2putil.MarshalMessageBody(body)
	if err != nil {
		panic(err)
	}
	var id, org [16]byte
	lfsrFill(id[:], 0x4242)
	return refMsg{sp: uint32(sp), ts: genesisTs, id: id, org: org, payload: pl}.frame()
}

type hsOutcome struct {
	ok       bool
	panicked string
	res      *p2pcommon.HandshakeResult
	out      []byte
}

func runHandshake(env *hsEnv, inbound bool, wire []byte, frame []byte) (o hsOutcome) {
	conn := &scriptConn{in: bytes.NewReader(append(append([]byte{}, wire...), frame...))}
	defer func() {
		if r := recover(); r != nil {
			o.panicked = fmt.Sprint(r)
		}
		o.out = conn.out.Bytes()
	}()
	connID := peerIDOf(bpKey)
	var h p2pcommon.HSHandler
	if inbound {
		h = p2p.NewInboundHSHandler(env.pm, env.actor, env.vm, logger, env.gcid, connID)
	} else {
		h = p2p.NewOutboundHSHandler(env.pm, env.actor, env.vm, logger, env.gcid, connID)
	}
	res, err := h.Handle(conn, time.Hour)
	o.ok = err == nil && res != nil
	o.res = res
	return
}

func wireHeader(inbound bool, magic uint32, vers []p2pcommon.P2PVersion) []byte {
	if inbound { // the remote connects to us and sends the request header
		return p2pcommon.HSHeadReq{Magic: magic, Versions: vers}.Marshal()
	}
	return p2pcommon.HSHeadResp{Magic: magic, RespCode: vers[0].Uint32()}.Marshal()
}

// hsCase: a = version index, b = 0 inbound / 1 outbound, c = mutation index.
func hsCase(ctx sink, c caseT) {
	env := getHsEnv()
	ver := hsVersions[c.A]
	inbound := c.B == 0
	muts := hsMutations()
	mu := muts[c.C]
	legacy := ver == p2pcommon.P2PVersion031 || ver == p2pcommon.P2PVersion032
	st, cid := honestStatus(env, ver)
	mu.apply(st, cid, env, legacy)
	cb, err := cid.Bytes()
	if err != nil {
		panic(err)
	}
	if mu.rawCID != nil {
		cb = mu.rawCID(cb)
	}
	st.ChainID = cb
	exp := hsExpect(mu, ver, env)
	if !versionOffered(ver, inbound) {
		exp = mustFail
		if mu.clause == "" {
			mu.clause = "supported p2p version"
		}
	}
	dir := map[bool]string{true: "inbound", false: "outbound"}[inbound]
	o := runHandshake(env, inbound, wireHeader(inbound, p2pcommon.MAGICMain, []p2pcommon.P2PVersion{ver}), statusFrame(p2pcommon.StatusRequest, st))
	ctx.Eval(1)
	ctx.Distinct(xplor.Hash("hs", ver.String(), dir, mu.name))
	what := fmt.Sprintf("%s handshake, p2p version %s, remote status differs from the local one in [%s]", dir, ver, mu.name)
	if o.panicked != "" {
		report(ctx, "hs-panic", what+": handshake code panicked: "+o.panicked, c)
		return
	}
	switch {
	case exp == mustFail && o.ok:
		sig := "hs-accept:" + mu.name
		if ver == p2pcommon.P2PVersion031 && mu.clause == "genesis" {
			sig = "F15"
		}
		report(ctx, sig, fmt.Sprintf("%s: handshake SUCCEEDED although the %s clause is not met (a handshake may succeed only with the same genesis block, a compatible chain id and the peer identity of the connection)", what, mu.clause), c)
		return
	case exp == mustSucceed && !o.ok:
		report(ctx, "hs-reject:"+mu.name, what+": handshake FAILED although genesis, chain id (version in force at the announced height) and peer identity all match", c)
		return
	case exp == free:
		if o.ok {
			ctx.Count("hs_free_accepted", 1)
		} else {
			ctx.Count("hs_free_rejected", 1)
		}
	}
	if o.ok {
		ctx.Count("hs_succeeded", 1)
		// what the handshake reports must be what the remote presented
		r := o.res
		bad := ""
		switch {
		case r.Meta.ID != peerIDOf(bpKey):
			bad = "result carries a peer id different from the connection's"
		case r.BestBlockNo != st.BestHeight:
			bad = fmt.Sprintf("result best block no %d, remote announced %d", r.BestBlockNo, st.BestHeight)
		case r.Hidden != st.NoExpose:
			bad = "result hidden flag differs from the announced one"
		case r.MsgRW == nil:
			bad = "result has no message reader/writer"
		case len(st.BestBlockHash) == 32 && !bytes.Equal(r.BestBlockHash[:], st.BestBlockHash):
			bad = "result best block hash differs from the announced one"
		}
		// and the local node must have presented itself
		if bad == "" {
			bad = checkLocalStatus(env, ver, inbound, o.out)
		}
		if bad != "" {
			report(ctx, "hs-result:"+mu.name, what+": succeeded, but "+bad, c)
		}
	} else {
		ctx.Count("hs_failed", 1)
		if o.res != nil {
			report(ctx, "hs-result:"+mu.name, what+": failed but returned a result", c)
		}
	}
}

// checkLocalStatus parses what the local node wrote and checks it presented its
// own identity, genesis and the chain id in force at its best block.
func checkLocalStatus(env *hsEnv, ver p2pcommon.P2PVersion, inbound bool, out []byte) string {
	if inbound {
		if len(out) < 8 || binary.BigEndian.Uint32(out) != p2pcommon.MAGICMain || binary.BigEndian.Uint32(out[4:]) != ver.Uint32() {
			return "the local node did not answer the wire header with the negotiated version"
		}
		out = out[8:]
	} else {
		want := p2pcommon.HSHeadReq{Magic: p2pcommon.MAGICMain, Versions: p2pcommon.AttemptingOutboundVersions}.Marshal()
		if !bytes.HasPrefix(out, want) {
			return "the local node did not open with the wire header request"
		}
		out = out[len(want):]
	}
	ms := refParse(out)
	if len(ms) != 1 || ms[0].sp != uint32(p2pcommon.StatusRequest) {
		return fmt.Sprintf("the local node wrote %d frames, want exactly one status frame", len(ms))
	}
	st := &types.Status{}
	if err := p2putil.UnmarshalMessageBody(ms[0].payload, st); err != nil {
		return "local status does not decode: " + err.Error()
	}
	if st.Sender == nil || types.PeerID(st.Sender.PeerID) != peerIDOf(selfKey) {
		return "local status does not carry the local peer id"
	}
	if ver != p2pcommon.P2PVersion031 && !bytes.Equal(st.Genesis, env.genesis) {
		return "local status does not carry the local genesis hash"
	}
	if st.BestHeight != hsBest || !bytes.Equal(st.BestBlockHash, env.best.BlockHash()) {
		return "local status does not carry the local best block"
	}
	return ""
}

// ---- message-level and wire-level cases (a = version index, b = direction, c = index) ----

type wireMut struct {
	name string
	exp  expect
	// returns the full remote byte script
	script func(env *hsEnv, ver p2pcommon.P2PVersion, inbound bool) []byte
}

func wireMutations() []wireMut {
	honest := func(env *hsEnv, ver p2pcommon.P2PVersion) []byte {
		st, cid := honestStatus(env, ver)
		st.ChainID, _ = cid.Bytes()
		return statusFrame(p2pcommon.StatusRequest, st)
	}
	hdr := func(inbound bool, magic uint32, vers ...p2pcommon.P2PVersion) []byte {
		return wireHeader(inbound, magic, vers)
	}
	cat := func(a ...[]byte) []byte { return bytes.Join(a, nil) }
	return []wireMut{
		{"wire.honest", mustSucceed, func(e *hsEnv, v p2pcommon.P2PVersion, in bool) []byte {
			return cat(hdr(in, p2pcommon.MAGICMain, v), honest(e, v))
		}},
		{"wire.magic-test", mustFail, func(e *hsEnv, v p2pcommon.P2PVersion, in bool) []byte {
			return cat(hdr(in, p2pcommon.MAGICTest, v), honest(e, v))
		}},
		{"wire.magic-zero", mustFail, func(e *hsEnv, v p2pcommon.P2PVersion, in bool) []byte {
			return cat(hdr(in, 0, v), honest(e, v))
		}},
		{"wire.version-0.3.0", mustFail, func(e *hsEnv, v p2pcommon.P2PVersion, in bool) []byte {
			return cat(hdr(in, p2pcommon.MAGICMain, p2pcommon.P2PVersion030), honest(e, v))
		}},
		{"wire.version-unknown", mustFail, func(e *hsEnv, v p2pcommon.P2PVersion, in bool) []byte {
			return cat(hdr(in, p2pcommon.MAGICMain, p2pcommon.P2PVersion(0x00030000)), honest(e, v))
		}},
		{"wire.header-only", mustFail, func(e *hsEnv, v p2pcommon.P2PVersion, in bool) []byte {
			return hdr(in, p2pcommon.MAGICMain, v)
		}},
		{"wire.empty", mustFail, func(e *hsEnv, v p2pcommon.P2PVersion, in bool) []byte { return nil }},
		{"wire.header-truncated", mustFail, func(e *hsEnv, v p2pcommon.P2PVersion, in bool) []byte {
			return hdr(in, p2pcommon.MAGICMain, v)[:6]
		}},
		{"wire.no-versions", mustFail, func(e *hsEnv, v p2pcommon.P2PVersion, in bool) []byte {
			if !in {
				return hdr(in, p2pcommon.HSError, p2pcommon.P2PVersion(p2pcommon.HSCodeNoMatchedVersion))
			}
			return cat(p2pcommon.HSHeadReq{Magic: p2pcommon.MAGICMain}.Marshal(), honest(e, v))
		}},
		{"wire.17-versions", mustFail, func(e *hsEnv, v p2pcommon.P2PVersion, in bool) []byte {
			if !in {
				return hdr(in, p2pcommon.HSError, p2pcommon.P2PVersion(p2pcommon.HSCodeWrongHSReq))
			}
			vs := make([]p2pcommon.P2PVersion, 17)
			for i := range vs {
				vs[i] = v
			}
			return cat(p2pcommon.HSHeadReq{Magic: p2pcommon.MAGICMain, Versions: vs}.Marshal(), honest(e, v))
		}},
		{"wire.version-count-2^31", mustFail, func(e *hsEnv, v p2pcommon.P2PVersion, in bool) []byte {
			if !in {
				return hdr(in, p2pcommon.HSError, p2pcommon.P2PVersion(p2pcommon.HSCodeAuthFail))
			}
			b := p2pcommon.HSHeadReq{Magic: p2pcommon.MAGICMain, Versions: []p2pcommon.P2PVersion{v}}.Marshal()
			binary.BigEndian.PutUint32(b[4:], 1<<31)
			return cat(b, honest(e, v))
		}},
		{"msg.not-a-status", mustFail, func(e *hsEnv, v p2pcommon.P2PVersion, in bool) []byte {
			return cat(hdr(in, p2pcommon.MAGICMain, v), statusFrame(p2pcommon.PingRequest, &types.Ping{BestBlockHash: e.best.BlockHash(), BestHeight: hsBest}))
		}},
		{"msg.status-under-other-subprotocol", mustFail, func(e *hsEnv, v p2pcommon.P2PVersion, in bool) []byte {
			f := honest(e, v)
			binary.BigEndian.PutUint32(f, uint32(p2pcommon.NewBlockNotice))
			return cat(hdr(in, p2pcommon.MAGICMain, v), f)
		}},
		{"msg.goaway", mustFail, func(e *hsEnv, v p2pcommon.P2PVersion, in bool) []byte {
			return cat(hdr(in, p2pcommon.MAGICMain, v), statusFrame(p2pcommon.GoAway, &types.GoAwayNotice{Message: "bye"}))
		}},
		{"msg.garbage-payload", mustFail, func(e *hsEnv, v p2pcommon.P2PVersion, in bool) []byte {
			var id [16]byte
			return cat(hdr(in, p2pcommon.MAGICMain, v), refMsg{sp: uint32(p2pcommon.StatusRequest), id: id, payload: lfsrBytes(40, 99)}.frame())
		}},
		{"msg.empty-payload", mustFail, func(e *hsEnv, v p2pcommon.P2PVersion, in bool) []byte {
			var id [16]byte
			return cat(hdr(in, p2pcommon.MAGICMain, v), refMsg{sp: uint32(p2pcommon.StatusRequest), id: id}.frame())
		}},
		{"msg.truncated-frame", mustFail, func(e *hsEnv, v p2pcommon.P2PVersion, in bool) []byte {
			f := honest(e, v)
			return cat(hdr(in, p2pcommon.MAGICMain, v), f[:len(f)-1])
		}},
		{"msg.oversized-announcement", mustFail, func(e *hsEnv, v p2pcommon.P2PVersion, in bool) []byte {
			f := honest(e, v)
			binary.BigEndian.PutUint32(f[4:], 1<<31)
			return cat(hdr(in, p2pcommon.MAGICMain, v), f)
		}},
	}
}

func wireCase(ctx *xplor.Ctx, c caseT) {
	env := getHsEnv()
	ver := hsVersions[c.A]
	inbound := c.B == 0
	mu := wireMutations()[c.C]
	dir := map[bool]string{true: "inbound", false: "outbound"}[inbound]
	if allocBroken && mu.name == "msg.oversized-announcement" {
		ctx.Count("skipped_after_alloc_canary", 1)
		return
	}
	script := mu.script(env, ver, inbound)
	if !versionOffered(ver, inbound) {
		mu.exp = mustFail
	}
	before := totalAlloc()
	o := runHandshake(env, inbound, script, nil)
	delta := totalAlloc() - before
	ctx.Eval(1)
	ctx.Distinct(xplor.Hash("wire", ver.String(), dir, mu.name))
	what := fmt.Sprintf("%s handshake, p2p version %s, remote script [%s]", dir, ver, mu.name)
	switch {
	case o.panicked != "":
		ctx.Violation("hs-panic", what+": handshake code panicked: "+o.panicked, c)
	case mu.exp == mustFail && o.ok:
		ctx.Violation("hs-accept:"+mu.name, what+": handshake SUCCEEDED without a well-formed status of a same-chain peer", c)
	case mu.exp == mustSucceed && !o.ok:
		ctx.Violation("hs-reject:"+mu.name, what+": handshake FAILED for an honest same-chain peer", c)
	case delta > uint64(limit):
		ctx.Violation("hs-alloc:"+mu.name, what+": allocated more than the maximum payload while handling the script", c)
	}
}
