package main

// Part 1: message framing (p2p/v030/v030io.go). The reference model is a plain
// re-statement of the wire format: 48-byte header = BE32 sub-protocol, BE32
// payload length, BE64 timestamp, 16-byte message id, 16-byte original id,
// followed by the payload.

import (
	"bufio"
	"bytes"
	"encoding/binary"
	"fmt"
	"io"
	"math"
	"runtime"

	"github.com/aergoio/aergo/v2/p2p/p2pcommon"
	v030 "github.com/aergoio/aergo/v2/p2p/v030"
	"github.com/aergoio/aergo/v2/verif_h/xplor"
)

const hdrLen = 48

var limit = int(p2pcommon.MaxPayloadLength)

// every sub-protocol id the node defines, plus ids it does not define (the
// frame layer must be agnostic).
var subProtocols = []p2pcommon.SubProtocol{
	p2pcommon.StatusRequest, p2pcommon.PingRequest, p2pcommon.PingResponse, p2pcommon.GoAway,
	p2pcommon.AddressesRequest, p2pcommon.AddressesResponse, p2pcommon.IssueCertificateRequest,
	p2pcommon.IssueCertificateResponse, p2pcommon.CertificateRenewedNotice,
	p2pcommon.GetBlocksRequest, p2pcommon.GetBlocksResponse, p2pcommon.GetBlockHeadersRequest,
	p2pcommon.GetBlockHeadersResponse, p2pcommon.NewBlockNotice, p2pcommon.GetAncestorRequest,
	p2pcommon.GetAncestorResponse, p2pcommon.GetHashesRequest, p2pcommon.GetHashesResponse,
	p2pcommon.GetHashByNoRequest, p2pcommon.GetHashByNoResponse,
	p2pcommon.GetTXsRequest, p2pcommon.GetTXsResponse, p2pcommon.NewTxNotice,
	p2pcommon.BlockProducedNotice,
	p2pcommon.GetClusterRequest, p2pcommon.GetClusterResponse, p2pcommon.RaftWrapperMessage,
	0, 0x14, 0x7fffffff, 0xffffffff,
}

// ---- deterministic bytes ----

// lfsrFill fills b from a 32-bit Galois LFSR (taps 0x80200003) started at seed.
func lfsrFill(b []byte, seed uint32) {
	s := seed
	if s == 0 {
		s = 0xace1ace1
	}
	for i := range b {
		var o byte
		for k := 0; k < 8; k++ {
			lsb := s & 1
			s >>= 1
			if lsb != 0 {
				s ^= 0x80200003
			}
			o = o<<1 | byte(lsb)
		}
		b[i] = o
	}
}

func lfsrBytes(n int, seed uint32) []byte {
	b := make([]byte, n)
	lfsrFill(b, seed)
	return b
}

var master []byte // limit+64 bytes of LFSR output; payloads are windows of it

func payloadOf(size, k int) []byte {
	if master == nil {
		// cheap to fill: a 64 KiB LFSR block repeated with a running xor
		blk := lfsrBytes(1<<16, 0x5eed0018)
		master = make([]byte, limit+64)
		for i := range master {
			master[i] = blk[i&0xffff] ^ byte(i>>16)
		}
	}
	off := (k * 13) % 61
	return master[off : off+size : off+size]
}

var tsAlphabet = []int64{0, 1, -1, math.MaxInt64, math.MinInt64, genesisTs, 0x0102030405060708}

type refMsg struct {
	sp      uint32
	ts      int64
	id, org [16]byte
	payload []byte
}

func mkMsg(sp p2pcommon.SubProtocol, size, k int) refMsg {
	m := refMsg{sp: uint32(sp), ts: tsAlphabet[k%len(tsAlphabet)] + int64(k/len(tsAlphabet)), payload: payloadOf(size, k)}
	lfsrFill(m.id[:], uint32(0x1000+k))
	if k%3 != 0 { // requests/notices carry the all-zero original id
		lfsrFill(m.org[:], uint32(0x2000+k))
	}
	return m
}

func (m refMsg) value() *p2pcommon.MessageValue {
	return p2pcommon.NewMessageValue(p2pcommon.SubProtocol(m.sp), p2pcommon.MsgID(m.id), p2pcommon.MsgID(m.org), m.ts, m.payload)
}

// refFrame is the reference encoder.
func refHeader(sp uint32, length uint32, ts int64, id, org [16]byte) []byte {
	b := make([]byte, hdrLen)
	binary.BigEndian.PutUint32(b[0:], sp)
	binary.BigEndian.PutUint32(b[4:], length)
	binary.BigEndian.PutUint64(b[8:], uint64(ts))
	copy(b[16:], id[:])
	copy(b[32:], org[:])
	return b
}

func (m refMsg) frame() []byte {
	return append(refHeader(m.sp, uint32(len(m.payload)), m.ts, m.id, m.org), m.payload...)
}

// refParse is the reference decoder of a finite byte stream: the messages a
// correct reader returns before its first (and final) error.
func refParse(s []byte) (out []refMsg) {
	for {
		if len(s) < hdrLen {
			return
		}
		l := binary.BigEndian.Uint32(s[4:])
		if uint64(l) > uint64(limit) || uint64(len(s)-hdrLen) < uint64(l) {
			return
		}
		m := refMsg{sp: binary.BigEndian.Uint32(s[0:]), ts: int64(binary.BigEndian.Uint64(s[8:])), payload: s[hdrLen : hdrLen+int(l)]}
		copy(m.id[:], s[16:32])
		copy(m.org[:], s[32:48])
		out = append(out, m)
		s = s[hdrLen+int(l):]
	}
}

func sameMsg(got p2pcommon.Message, want refMsg) string {
	if got == nil {
		return "nil message"
	}
	if got.Subprotocol().Uint32() != want.sp {
		return fmt.Sprintf("sub-protocol %#x, want %#x", got.Subprotocol().Uint32(), want.sp)
	}
	if got.Length() != uint32(len(want.payload)) {
		return fmt.Sprintf("length %d, want %d", got.Length(), len(want.payload))
	}
	if got.Timestamp() != want.ts {
		return fmt.Sprintf("timestamp %d, want %d", got.Timestamp(), want.ts)
	}
	if got.ID() != p2pcommon.MsgID(want.id) {
		return "message id differs"
	}
	if got.OriginalID() != p2pcommon.MsgID(want.org) {
		return "original id differs"
	}
	if !bytes.Equal(got.Payload(), want.payload) {
		p := got.Payload()
		i := 0
		for i < len(p) && i < len(want.payload) && p[i] == want.payload[i] {
			i++
		}
		return fmt.Sprintf("payload (%d bytes, want %d) differs from byte %d", len(p), len(want.payload), i)
	}
	return ""
}

// ---- readers ----

// chunkReader delivers data in pieces ending at the given cut points; eofWithData
// makes the last piece come back together with io.EOF.
type chunkReader struct {
	data        []byte
	cuts        []int
	pos         int
	eofWithData bool
}

func (c *chunkReader) Read(p []byte) (int, error) {
	if c.pos >= len(c.data) {
		return 0, io.EOF
	}
	end := len(c.data)
	for _, k := range c.cuts {
		if k > c.pos && k < end {
			end = k
		}
	}
	n := copy(p, c.data[c.pos:end])
	c.pos += n
	if c.eofWithData && c.pos >= len(c.data) {
		return n, io.EOF
	}
	return n, nil
}

var (
	sharedBR = bufio.NewReader(nil)
	sharedBW = bufio.NewWriter(nil)
)

type panicErr struct{ v interface{} }

// safeRead calls ReadMsg and converts a panic into a value.
func safeRead(rw *v030.V030ReadWriter) (m p2pcommon.Message, err error, pv *panicErr) {
	defer func() {
		if r := recover(); r != nil {
			pv = &panicErr{r}
		}
	}()
	m, err = rw.ReadMsg()
	return
}

// readAll reads until the first error and checks the sequence against want.
// Messages are compared only after the whole stream has been consumed (a
// receiver may keep a message while the read loop goes on).
func readAll(r io.Reader, want []refMsg) string {
	// same objects NewV030ReadWriter would create (bufio with the default 4096-byte
	// buffer), reused between cases to keep the harness from churning memory
	sharedBR.Reset(r)
	rw := v030.NewV030ReadWriter(sharedBR, sharedBW, nil)
	var got []p2pcommon.Message
	for i := 0; i <= len(want)+1; i++ {
		m, err, pv := safeRead(rw)
		if pv != nil {
			return fmt.Sprintf("ReadMsg #%d panicked: %v", i, pv.v)
		}
		if err != nil {
			if m != nil {
				return fmt.Sprintf("ReadMsg #%d returned a message together with an error", i)
			}
			break
		}
		if m == nil {
			return fmt.Sprintf("ReadMsg #%d returned neither message nor error", i)
		}
		if m.Length() != uint32(len(m.Payload())) || int(m.Length()) > limit {
			return fmt.Sprintf("ReadMsg #%d: Length()=%d len(payload)=%d limit=%d", i, m.Length(), len(m.Payload()), limit)
		}
		got = append(got, m)
	}
	if len(got) != len(want) {
		return fmt.Sprintf("reader delivered %d messages before failing, the stream holds %d complete frames", len(got), len(want))
	}
	for i := range want {
		if d := sameMsg(got[i], want[i]); d != "" {
			return fmt.Sprintf("message #%d of %d (payload %d bytes) not read back identically after the stream was consumed: %s", i, len(want), len(want[i].payload), d)
		}
	}
	return ""
}

// ---- case families ----

func rtSizes(tier string) []int {
	var s []int
	for i := 0; i <= 64; i++ {
		s = append(s, i)
	}
	for k := 7; (1<<k)-1 <= limit+1; k++ {
		s = append(s, (1<<k)-1, (1<<k)+1)
	}
	for d := -2; d <= 1; d++ {
		s = append(s, limit+d)
	}
	return s
}

var bigBuf bytes.Buffer

const bigSize = 1 << 17 // sizes >= bigSize travel on their own connection (memory bound)

// rtCase: write -> read round trip for one sub-protocol id and every size.
// a = index into subProtocols.
func rtCase(ctx *xplor.Ctx, c caseT) {
	sp := subProtocols[c.A]
	sizes := rtSizes(ctx.Tier)
	fail := func(f string, a ...interface{}) {
		ctx.Violation("frame-roundtrip", fmt.Sprintf("round trip sub-protocol %#x: ", uint32(sp))+fmt.Sprintf(f, a...), c)
	}
	// (a) all small sizes on ONE connection
	var wire bytes.Buffer
	wr := v030.NewV030ReadWriter(nil, &wire, nil)
	var sent []refMsg
	writeOne := func(w *v030.V030ReadWriter, buf *bytes.Buffer, size, k int) (refMsg, bool) {
		m := mkMsg(sp, size, k)
		before := buf.Len()
		err := w.WriteMsg(m.value())
		if size > limit {
			if err == nil || buf.Len() != before {
				fail("WriteMsg of %d bytes (limit %d): err=%v, %d bytes put on the wire; an oversized message must be refused and nothing written", size, limit, err, buf.Len()-before)
			}
			return m, false
		}
		if err != nil {
			fail("WriteMsg of %d bytes failed: %v", size, err)
			return m, false
		}
		got := buf.Bytes()[before:]
		if len(got) != hdrLen+size || !bytes.Equal(got[:hdrLen], refHeader(m.sp, uint32(size), m.ts, m.id, m.org)) || !bytes.Equal(got[hdrLen:], m.payload) {
			fail("WriteMsg of %d bytes: wire bytes differ from the documented frame layout (48-byte header BE32 proto, BE32 len, BE64 ts, id, orig id + payload)", size)
			return m, false
		}
		return m, true
	}
	k := c.A * 7
	for _, sz := range sizes {
		if sz >= bigSize {
			continue
		}
		if m, ok := writeOne(wr, &wire, sz, k); ok {
			sent = append(sent, m)
		}
		k++
		ctx.Eval(1)
		ctx.Distinct(xplor.Hash("rt", uint32(sp), sz))
	}
	if d := readAll(bytes.NewReader(wire.Bytes()), sent); d != "" {
		fail("%d messages with payload sizes 0..64 and 2^k±1 < %d on one connection: %s", len(sent), bigSize, d)
	}
	// (b) big sizes, one connection each, read through a reader that hands out at most 64 KiB per call
	for _, sz := range sizes {
		if sz < bigSize {
			continue
		}
		if ctx.Tier == "quick" && sz < limit-2 && c.A%4 != 0 {
			// quick tier: sizes 2^17..2^23 only for every 4th sub-protocol id
			continue
		}
		big := &bigBuf
		big.Reset()
		big.Grow(sz + hdrLen)
		w := v030.NewV030ReadWriter(nil, big, nil)
		m, ok := writeOne(w, big, sz, k)
		k++
		ctx.Eval(1)
		ctx.Distinct(xplor.Hash("rt", uint32(sp), sz))
		if !ok {
			continue
		}
		if d := readAll(bytes.NewReader(big.Bytes()), []refMsg{m}); d != "" {
			fail("payload %d bytes: %s", sz, d)
		}
	}
}

var streamAlphabetQuick = []int{0, 1, 16, 48, 1024, 1025}
var streamAlphabetThorough = []int{0, 1, 2, 16, 47, 48, 49, 1023, 1024, 1025, 4096, 4097}

// streamCase: every sequence of message sizes of length <= depth over the
// alphabet on one connection. a = first size index; the rest is enumerated here.
func streamCase(ctx *xplor.Ctx, c caseT) {
	alpha, depth := streamAlphabetQuick, 3
	if ctx.Tier == "thorough" {
		alpha, depth = streamAlphabetThorough, 4
	}
	failed := false
	var rec func(seq []int)
	rec = func(seq []int) {
		var wire bytes.Buffer
		wr := v030.NewV030ReadWriter(nil, &wire, nil)
		var sent []refMsg
		for i, ai := range seq {
			m := mkMsg(subProtocols[(c.A+i*5)%len(subProtocols)], alpha[ai], c.A*31+i*3+len(seq))
			if err := wr.WriteMsg(m.value()); err != nil {
				ctx.Violation("frame-stream", fmt.Sprintf("stream %v: WriteMsg failed: %v", sizesOf(alpha, seq), err), c)
				failed = true
				return
			}
			sent = append(sent, m)
		}
		ctx.Eval(1)
		ctx.Distinct(xplor.Hash("stream", fmt.Sprint(sizesOf(alpha, seq))))
		if d := readAll(bytes.NewReader(wire.Bytes()), sent); d != "" {
			ctx.Violation("frame-stream", fmt.Sprintf("messages with payload sizes %v written to and read from one connection: %s", sizesOf(alpha, seq), d), c)
			failed = true
			return
		}
		if len(seq) < depth {
			for ai := range alpha {
				rec(append(append([]int{}, seq...), ai))
				if failed {
					return
				}
			}
		}
	}
	rec([]int{c.A})
}

func sizesOf(alpha []int, seq []int) []int {
	r := make([]int, len(seq))
	for i, a := range seq {
		r[i] = alpha[a]
	}
	return r
}

// truncCase: a = payload size (0..16). Every proper prefix of the frame, alone
// and after one complete frame, with both EOF conventions.
func truncCase(ctx *xplor.Ctx, c caseT) {
	m := mkMsg(subProtocols[(c.A*3)%len(subProtocols)], c.A, c.A)
	first := mkMsg(p2pcommon.PingRequest, 5, 99)
	f := m.frame()
	for t := 0; t < len(f); t++ {
		for v := 0; v < 4; v++ {
			var data []byte
			var want []refMsg
			if v&1 == 1 {
				data = append(first.frame(), f[:t]...)
				want = []refMsg{first}
			} else {
				data = f[:t:t]
			}
			ctx.Eval(1)
			ctx.Distinct(xplor.Hash("trunc", c.A, t, v))
			if d := readAll(&chunkReader{data: data, eofWithData: v&2 != 0}, want); d != "" {
				ctx.Violation("frame-trunc", fmt.Sprintf("frame with %d payload bytes truncated at offset %d (variant %d: after-complete-frame=%v eof-with-data=%v): %s", c.A, t, v, v&1 == 1, v&2 != 0, d), c)
				return
			}
		}
	}
}

// splitCase: a = payload size of the first frame, b = payload size of a second
// frame (-1 = none); the reader delivers the stream in every split with <= 2 cuts.
func splitCase(ctx *xplor.Ctx, c caseT) {
	msgs := []refMsg{mkMsg(subProtocols[(c.A+c.B+5)%len(subProtocols)], c.A, c.A+1)}
	if c.B >= 0 {
		msgs = append(msgs, mkMsg(p2pcommon.NewTxNotice, c.B, c.B+40))
	}
	var data []byte
	for _, m := range msgs {
		data = append(data, m.frame()...)
	}
	L := len(data)
	for c1 := 0; c1 <= L; c1++ {
		for c2 := c1; c2 <= L; c2++ {
			ctx.Eval(1)
			if d := readAll(&chunkReader{data: data, cuts: []int{c1, c2}, eofWithData: (c1+c2)%2 == 1}, msgs); d != "" {
				ctx.Violation("frame-split", fmt.Sprintf("frames with payload sizes %d,%d (stream of %d bytes) delivered in pieces cut at %d and %d: %s", c.A, c.B, L, c1, c2, d), c)
				return
			}
		}
	}
	ctx.Distinct(xplor.Hash("split", c.A, c.B))
}

// arbCase: fixed pseudo-random byte strings as streams. a = block of seeds,
// b = variant: 0 raw, 1 length fields reduced to 6 bits (frames chain), 2 single-bit
// flips of the header of a valid 3-frame stream, 3 length fields reduced to 24 bits.
func arbCase(ctx *xplor.Ctx, c caseT) {
	const perBlock = 256
	if allocBroken {
		ctx.Count("skipped_after_alloc_canary", 1)
		return
	}
	check := func(tag string, s []byte) bool {
		want := refParse(s)
		ctx.Eval(1)
		ctx.Count("arb_frames_decoded", int64(len(want)))
		if d := readAll(&chunkReader{data: s, cuts: []int{len(s) / 3, len(s) / 2}}, want); d != "" {
			ctx.Violation("frame-arbitrary", fmt.Sprintf("arbitrary stream %s (%d bytes): %s", tag, len(s), d), c)
			return false
		}
		return true
	}
	switch c.B {
	case 0, 1, 3:
		for i := 0; i < perBlock; i++ {
			seed := uint32(c.A*perBlock + i + 1)
			n := 40 + int(seed%217)
			s := lfsrBytes(n, seed*2654435761)
			if c.B == 1 || c.B == 3 {
				// walk the frames like a parser and shrink each announced length
				for p := 0; p+hdrLen <= len(s); {
					l := binary.BigEndian.Uint32(s[p+4:])
					if c.B == 1 {
						l &= 0x3f
					} else {
						l &= 0xffffff
					}
					binary.BigEndian.PutUint32(s[p+4:], l)
					p += hdrLen + int(l)
				}
			}
			if !check(fmt.Sprintf("lfsr seed %d variant %d", seed, c.B), s) {
				return
			}
		}
		ctx.Distinct(xplor.Hash("arb", c.A, c.B))
	case 2:
		var base []byte
		for i := 0; i < 3; i++ {
			base = append(base, mkMsg(subProtocols[(c.A+i)%len(subProtocols)], 3+c.A%9+i, c.A+i).frame()...)
		}
		for bit := 0; bit < hdrLen*8; bit++ {
			s := append([]byte{}, base...)
			s[bit/8] ^= 1 << uint(7-bit%8)
			if !check(fmt.Sprintf("3 valid frames, bit %d of the first header flipped (base %d)", bit, c.A), s) {
				return
			}
		}
		ctx.Distinct(xplor.Hash("arb", c.A, c.B))
	}
}

// allocBroken is set by the canary below when the reader allocates in proportion
// to an announced length beyond the limit. The cases that feed multi-gigabyte
// announcements are then skipped in this worker (the designated oversize case
// reports the violation), so that a tree without the length guard cannot make
// the check itself exhaust the machine.
var allocBroken bool

func allocCanary() {
	var id [16]byte
	s := refHeader(uint32(p2pcommon.GetBlocksResponse), uint32(limit+1), genesisTs, id, id)
	before := totalAlloc()
	rw := v030.NewV030ReadWriter(bytes.NewReader(s), nil, nil)
	m, err, pv := safeRead(rw)
	if pv != nil || err == nil || m != nil || totalAlloc()-before >= uint64(limit) {
		allocBroken = true
	}
}

func totalAlloc() uint64 {
	var ms runtime.MemStats
	runtime.ReadMemStats(&ms)
	return ms.TotalAlloc
}

// oversizeCase: headers announcing a payload that never arrives. Allocation is
// measured as the TotalAlloc delta of this (single-goroutine) worker around the
// ReadMsg call; bounds are sizes, never times.
func oversizeCase(ctx *xplor.Ctx, c caseT) {
	type ann struct {
		l     uint64
		bound uint64 // allocation allowed while failing
	}
	slack := uint64(1 << 20)
	anns := []ann{
		{0x10, slack}, {0x1000, slack},
		{uint64(limit) - 1, uint64(limit) + slack}, {uint64(limit), uint64(limit) + slack},
		// beyond the limit nothing proportional to the announcement may be allocated
		{uint64(limit) + 1, uint64(limit) - 1}, {uint64(limit) + 2, uint64(limit) - 1}, {1 << 24, uint64(limit) - 1},
		{1<<31 - 1, uint64(limit) - 1}, {1 << 31, uint64(limit) - 1}, {1<<32 - 1, uint64(limit) - 1},
	}
	for _, a := range anns {
		for _, tail := range []int{0, 16} {
			var id [16]byte
			s := append(refHeader(uint32(p2pcommon.GetBlocksResponse), uint32(a.l), genesisTs, id, id), lfsrBytes(tail, 7)...)
			if uint64(tail) >= a.l {
				continue
			}
			runtime.GC()
			before := totalAlloc()
			rw := v030.NewV030ReadWriter(bytes.NewReader(s), nil, nil)
			m, err, pv := safeRead(rw)
			delta := totalAlloc() - before
			ctx.Eval(1)
			ctx.Distinct(xplor.Hash("oversize", a.l, tail))
			ctx.Max("max_alloc_on_oversized_header", int64(deltaIf(a.l > uint64(limit), delta)))
			desc := ""
			switch {
			case pv != nil:
				desc = fmt.Sprintf("panicked: %v", pv.v)
			case err == nil || m != nil:
				desc = "did not fail (a message was returned although the payload never arrived)"
			case delta > a.bound:
				allowed := "less than the maximum payload"
				if a.l <= uint64(limit) {
					allowed = "at most the announced payload + 1 MiB"
				}
				desc = fmt.Sprintf("failed, but allocated %s while doing so (allowed: %s; configured maximum payload %d)", roughly(delta), allowed, limit)
			}
			if desc != "" {
				ctx.Violation("frame-oversize", fmt.Sprintf("header announcing %d payload bytes followed by %d bytes and EOF: ReadMsg %s", a.l, tail, desc), c)
				return // larger announcements would only allocate more
			}
		}
	}
}

func deltaIf(b bool, d uint64) uint64 {
	if b {
		return d
	}
	return 0
}

// roughly keeps descriptions deterministic: allocation totals are reported by magnitude only.
func roughly(n uint64) string {
	switch {
	case n < 1<<20:
		return "< 1 MiB"
	case n < uint64(limit):
		return ">= 1 MiB and below the payload limit"
	case n < 1<<30:
		return ">= the payload limit"
	default:
		return ">= 1 GiB"
	}
}
