// C11: Merkle proofs (plain and compressed) are complete and sound.
// Layer 1 drives pkg/trie proof generation/verification over every trie content
// of the C10 key universe; layer 2 drives the statedb proof assembly
// (GetAccountAndProof / GetVarAndProof) incl. historical roots.
// Soundness oracle = claim truth: whenever a verifier accepts (proof, claim),
// the claim must be true for the map content at that root.
package main

import (
	"bytes"
	"encoding/json"
	"fmt"
	"time"

	"github.com/aergoio/aergo-lib/db"
	"github.com/aergoio/aergo/v2/internal/common"
	"github.com/aergoio/aergo/v2/pkg/trie"
	"github.com/aergoio/aergo/v2/state/statedb"
	"github.com/aergoio/aergo/v2/types"
	tk "github.com/aergoio/aergo/v2/verif_h/triekit"
	"github.com/aergoio/aergo/v2/verif_h/xplor"
)

const NQ = 9 // query keys: the whole universe (keys >= n are always absent)

type replay struct {
	Layer int `json:"layer"`
	N     int `json:"n"`
	State int `json:"state"`
}

func bit(b []byte, i int) bool { return b[i/8]&(1<<uint(7-i%8)) != 0 }

// indepRoot recomputes the root from a full audit path, bottom-up.
func indepRoot(ap [][]byte, key, leaf []byte) []byte {
	cur := leaf
	for d := len(ap) - 1; d >= 0; d-- {
		sib := ap[len(ap)-1-d]
		if bit(key, d) {
			cur = common.Hasher(sib, cur)
		} else {
			cur = common.Hasher(cur, sib)
		}
	}
	return cur
}

// expand turns a compressed proof into a full audit path (strict: the number
// of set bits must equal the number of nodes).
func expand(bitmap []byte, mp [][]byte, length int) ([][]byte, bool) {
	if length < 0 || length > 256 || len(bitmap)*8 < length {
		return nil, false
	}
	full := make([][]byte, length)
	j := 0
	for i := 0; i < length; i++ {
		if bit(bitmap, i) {
			if j >= len(mp) {
				return nil, false
			}
			full[i] = mp[j]
			j++
		} else {
			full[i] = trie.DefaultLeaf
		}
	}
	return full, j == len(mp)
}

func indepVerify(root []byte, ap [][]byte, key []byte, incl bool, value, proofKey []byte) bool {
	if len(ap) > 256 {
		return false
	}
	h := []byte{byte(256 - len(ap))}
	if incl {
		return bytes.Equal(root, indepRoot(ap, key, common.Hasher(key, value, h)))
	}
	if len(proofKey) == 0 {
		return bytes.Equal(root, indepRoot(ap, key, trie.DefaultLeaf))
	}
	if bytes.Equal(proofKey, key) || len(proofKey) != 32 {
		return false
	}
	for b := 0; b < len(ap); b++ {
		if bit(key, b) != bit(proofKey, b) {
			return false
		}
	}
	return bytes.Equal(root, indepRoot(ap, proofKey, common.Hasher(proofKey, value, h)))
}

type claim struct {
	key      int // universe index
	incl     bool
	val      []byte
	proofKey []byte
}

func (c claim) String() string {
	if c.incl {
		return fmt.Sprintf("incl(%s,%x..)", tk.Names[c.key], c.val[:min(2, len(c.val))])
	}
	pk := "nil"
	if len(c.proofKey) > 0 {
		pk = fmt.Sprintf("%x..%x", c.proofKey[:1], c.proofKey[31:])
	}
	return fmt.Sprintf("nonincl(%s,proofKey=%s,val=%x..)", tk.Names[c.key], pk, c.val[:min(2, len(c.val))])
}

// truth: is the claim true for content c (value codes mapped through vals)?
func truth(c tk.Content, cl claim, valOf func(int) []byte) bool {
	present := cl.key < len(c) && c[cl.key] != 0
	if cl.incl {
		return present && bytes.Equal(valOf(c[cl.key]), cl.val)
	}
	return !present
}

type proofP struct { // plain
	ap [][]byte
}
type proofC struct { // compressed
	bitmap []byte
	ap     [][]byte
	length int
}

func cloneAP(ap [][]byte) [][]byte {
	r := make([][]byte, len(ap))
	for i := range ap {
		r[i] = append([]byte{}, ap[i]...)
	}
	return r
}

// apMutations returns structural single-field corruptions of an audit path.
func apMutations(ap [][]byte) (out [][][]byte, names []string) {
	add := func(n string, a [][]byte) { out = append(out, a); names = append(names, n) }
	add("orig", cloneAP(ap))
	if len(ap) > 0 {
		add("dropfirst", cloneAP(ap[1:]))
		add("droplast", cloneAP(ap[:len(ap)-1]))
		add("dupfirst", append([][]byte{append([]byte{}, ap[0]...)}, cloneAP(ap)...))
		add("duplast", append(cloneAP(ap), append([]byte{}, ap[len(ap)-1]...)))
		m := cloneAP(ap)
		m[0] = trie.DefaultLeaf
		add("first=default", m)
		m = cloneAP(ap)
		m[len(m)-1] = trie.DefaultLeaf
		add("last=default", m)
		m = cloneAP(ap)
		m[0][len(m[0])-1] ^= 1
		add("flipfirst", m)
		m = cloneAP(ap)
		m[len(m)-1][0] ^= 0x80
		add("fliplast", m)
		if len(ap) > 1 {
			m = cloneAP(ap)
			m[0], m[1] = m[1], m[0]
			add("swap01", m)
		}
	} else {
		add("adddefault", [][]byte{trie.DefaultLeaf})
		add("addnode", [][]byte{bytes.Repeat([]byte{0x5a}, 32)})
	}
	return
}

// layer1 checks one content. Returns a description of the first failure or "".
func layer1(ctx *xplor.Ctx, store string, n, id int) string {
	c := tk.ContentFromID(id, n)
	st := tk.Open(store)
	t, err := tk.Build(st, c)
	if err != nil {
		return "build: " + err.Error()
	}
	root := append([]byte{}, t.Root...)
	// move the latest root away so that the R variants are exercised on a historical root
	// (only when the content is non-empty: an empty root has no R variant in statedb either)
	hist := trie.NewTrie(root, common.Hasher, st)
	if len(root) != 0 {
		extra := tk.Batch{{K: 0, V: 3 - c[0]}}
		if c[0] == 0 {
			extra = tk.Batch{{K: 0, V: 1}}
		}
		k, v := extra.KV()
		if _, err := hist.Update(k, v); err != nil {
			return "hist update: " + err.Error()
		}
		if err := hist.Commit(); err != nil {
			return "hist commit: " + err.Error()
		}
	}
	vt := trie.NewTrie(root, common.Hasher, nil) // verifier instance: only Root and hash are used
	valOf := func(code int) []byte { return tk.Val(code) }
	claimVals := [][]byte{tk.Val(1), tk.Val(2)}

	type honest struct {
		p    proofP
		pc   proofC
		incl bool
		pk   []byte
		pv   []byte
	}
	hs := make([]honest, NQ)
	for q := 0; q < NQ; q++ {
		key := tk.Key(q)
		var h honest
		var err error
		// plain: latest root on t, historical root through hist (MerkleProofR)
		ap, incl, pk, pv, err := t.MerkleProof(key)
		if err != nil {
			return fmt.Sprintf("MerkleProof(%s): %v", tk.Names[q], err)
		}
		if len(root) != 0 {
			ap2, incl2, pk2, pv2, err := hist.MerkleProofR(key, root)
			if err != nil {
				return fmt.Sprintf("MerkleProofR(%s): %v", tk.Names[q], err)
			}
			if fmt.Sprint(ap, incl, pk, pv) != fmt.Sprint(ap2, incl2, pk2, pv2) {
				return fmt.Sprintf("MerkleProofR(%s) at historical root differs from MerkleProof at that root", tk.Names[q])
			}
		}
		h.p, h.incl, h.pk, h.pv = proofP{ap}, incl, pk, pv
		bm, apc, length, inclc, pkc, pvc, err := t.MerkleProofCompressed(key)
		if err != nil {
			return fmt.Sprintf("MerkleProofCompressed(%s): %v", tk.Names[q], err)
		}
		if len(root) != 0 {
			bm2, apc2, l2, i2, pk2, pv2, err := hist.MerkleProofCompressedR(key, root)
			if err != nil || fmt.Sprint(bm, apc, length, inclc, pkc, pvc) != fmt.Sprint(bm2, apc2, l2, i2, pk2, pv2) {
				return fmt.Sprintf("MerkleProofCompressedR(%s) at historical root differs (%v)", tk.Names[q], err)
			}
		}
		if inclc != incl || !bytes.Equal(pkc, pk) || !bytes.Equal(pvc, pv) {
			return fmt.Sprintf("compressed and plain proofs of %s disagree on inclusion/proof leaf", tk.Names[q])
		}
		h.pc = proofC{bm, apc, length}
		hs[q] = h
		present := q < n && c[q] != 0
		if incl != present {
			return fmt.Sprintf("proof of %s says included=%v but model says %v", tk.Names[q], incl, present)
		}
		// ---- completeness
		ctx.Eval(1)
		if incl {
			if !bytes.Equal(pv, valOf(c[q])) {
				return fmt.Sprintf("proof of %s returns value %x, model %x", tk.Names[q], pv, valOf(c[q]))
			}
			if !vt.VerifyInclusion(ap, key, pv) || !indepVerify(root, ap, key, true, pv, nil) {
				return fmt.Sprintf("completeness: honest inclusion proof of %s rejected", tk.Names[q])
			}
			full, ok := expand(bm, apc, length)
			if !vt.VerifyInclusionC(bm, key, pv, apc, length) || !ok || !indepVerify(root, full, key, true, pv, nil) {
				return fmt.Sprintf("completeness: honest compressed inclusion proof of %s rejected", tk.Names[q])
			}
		} else if len(root) != 0 {
			if !vt.VerifyNonInclusion(ap, key, pv, pk) || !indepVerify(root, ap, key, false, pv, pk) {
				return fmt.Sprintf("completeness: honest non-inclusion proof of %s rejected (proofKey %x)", tk.Names[q], pk)
			}
			full, ok := expand(bm, apc, length)
			if !vt.VerifyNonInclusionC(apc, length, bm, key, pv, pk) || !ok || !indepVerify(root, full, key, false, pv, pk) {
				return fmt.Sprintf("completeness: honest compressed non-inclusion proof of %s rejected", tk.Names[q])
			}
		} else {
			// empty trie: there is no root hash to verify against; recorded, not judged
			ctx.Count("empty_trie_nonincl_skipped", 1)
		}
	}
	if len(root) == 0 {
		return ""
	}
	// ---- soundness: every (audit path of any query key, mutated) x every claim
	fail := ""
	judge := func(accepted bool, cl claim, how string) {
		ctx.Eval(1)
		if accepted {
			ctx.Count("accepted_claims", 1)
			if !truth(c, cl, valOf) && fail == "" {
				fail = fmt.Sprintf("soundness: content %v: verifier accepted false claim %v with %s", c, cl, how)
			}
		}
	}
	for q0 := 0; q0 < NQ; q0++ {
		muts, mnames := apMutations(hs[q0].p.ap)
		for mi, ap := range muts {
			if mi > 0 && q0 >= n && q0 != NQ-1 {
				continue // structural mutations only for proofs of the first n keys and one always-absent key
			}
			how := fmt.Sprintf("plain path of %s (%s)", tk.Names[q0], mnames[mi])
			for q := 0; q < NQ; q++ {
				key := tk.Key(q)
				for _, v := range claimVals {
					judge(safeC(func() bool { return vt.VerifyInclusion(ap, key, v) }), claim{key: q, incl: true, val: v}, how)
				}
				judge(safeC(func() bool { return vt.VerifyNonInclusion(ap, key, nil, nil) }), claim{key: q}, how)
				for pk := 0; pk < NQ; pk++ {
					for _, v := range claimVals {
						judge(safeC(func() bool { return vt.VerifyNonInclusion(ap, key, v, tk.Key(pk)) }), claim{key: q, val: v, proofKey: tk.Key(pk)}, how)
					}
				}
			}
		}
		// compressed: original plus bitmap/length/ap mutations
		pc := hs[q0].pc
		type cm struct {
			name string
			p    proofC
		}
		cms := []cm{{"orig", pc}}
		if q0 < n || q0 == NQ-1 {
			cms = append(cms, cm{"length+1", proofC{growBitmap(pc.bitmap, pc.length+1), pc.ap, pc.length + 1}})
			if pc.length > 0 {
				cms = append(cms, cm{"length-1", proofC{pc.bitmap, pc.ap, pc.length - 1}})
				for _, i := range []int{0, pc.length - 1} {
					b := append([]byte{}, pc.bitmap...)
					b[i/8] ^= 1 << uint(7-i%8)
					cms = append(cms, cm{fmt.Sprintf("bitmapflip%d", i), proofC{b, pc.ap, pc.length}})
				}
			}
			muts, mnames := apMutations(pc.ap)
			for mi := 1; mi < len(muts); mi++ {
				cms = append(cms, cm{"ap:" + mnames[mi], proofC{pc.bitmap, muts[mi], pc.length}})
			}
		}
		for _, m := range cms {
			how := fmt.Sprintf("compressed path of %s (%s)", tk.Names[q0], m.name)
			for q := 0; q < NQ; q++ {
				key := tk.Key(q)
				for _, v := range claimVals {
					judge(safeC(func() bool { return vt.VerifyInclusionC(m.p.bitmap, key, v, m.p.ap, m.p.length) }), claim{key: q, incl: true, val: v}, how)
				}
				judge(safeC(func() bool { return vt.VerifyNonInclusionC(m.p.ap, m.p.length, m.p.bitmap, key, nil, nil) }), claim{key: q}, how)
				for pk := 0; pk < NQ; pk++ {
					for _, v := range claimVals {
						pkb := tk.Key(pk)
						judge(safeC(func() bool { return vt.VerifyNonInclusionC(m.p.ap, m.p.length, m.p.bitmap, key, v, pkb) }), claim{key: q, val: v, proofKey: pkb}, how)
					}
				}
			}
		}
		// a proof for this root must not verify against another root
		other := trie.NewTrie(hist.Root, common.Hasher, nil)
		if hs[q0].incl && q0 != 0 {
			ctx.Eval(1)
			if other.VerifyInclusion(hs[q0].p.ap, tk.Key(q0), hs[q0].pv) {
				fail = fmt.Sprintf("inclusion proof of %s for root %x verifies against root %x", tk.Names[q0], root, hist.Root)
			}
		}
	}
	return fail
}

func growBitmap(b []byte, length int) []byte {
	r := append([]byte{}, b...)
	for len(r)*8 < length+1 {
		r = append(r, 0)
	}
	return r
}

// safeC runs a verification on a possibly malformed proof; an index panic on
// a malformed proof is counted as a rejection (C11 does not speak about panics).
func safeC(f func() bool) (ok bool) {
	defer func() {
		if r := recover(); r != nil {
			ok = false
		}
	}()
	return f()
}

// ---- layer 2: statedb proof assembly
func stateOf(code int) *types.State {
	if code == 1 {
		return &types.State{Nonce: 1, Balance: []byte{1}}
	}
	return &types.State{Nonce: 2, Balance: []byte{2, 0}}
}

func stateHash(s *types.State) []byte {
	b, _ := statedb.Marshal(s)
	return common.Hasher(b)
}

func verifyAccountProof(root []byte, key []byte, p *types.AccountProof, compressed bool) (repo, indep bool) {
	vt := trie.NewTrie(root, common.Hasher, nil)
	var val []byte
	if p.Inclusion {
		if p.State == nil {
			return false, false
		}
		val = stateHash(p.State)
	} else {
		val = p.ProofVal
	}
	if compressed {
		full, ok := expand(p.Bitmap, p.AuditPath, int(p.Height))
		if p.Inclusion {
			repo = safeC(func() bool { return vt.VerifyInclusionC(p.Bitmap, key, val, p.AuditPath, int(p.Height)) })
		} else {
			repo = safeC(func() bool { return vt.VerifyNonInclusionC(p.AuditPath, int(p.Height), p.Bitmap, key, val, p.ProofKey) })
		}
		indep = ok && indepVerify(root, full, key, p.Inclusion, val, p.ProofKey)
		return
	}
	if p.Inclusion {
		repo = safeC(func() bool { return vt.VerifyInclusion(p.AuditPath, key, val) })
	} else {
		repo = safeC(func() bool { return vt.VerifyNonInclusion(p.AuditPath, key, val, p.ProofKey) })
	}
	indep = indepVerify(root, p.AuditPath, key, p.Inclusion, val, p.ProofKey)
	return
}

func layer2(ctx *xplor.Ctx, store string, n, id int) string {
	c := tk.ContentFromID(id, n)
	if c[0] != 0 {
		return "" // the all-zero key is statedb.EmptyAccountID: no account can live there
	}
	st := tk.Open(store)
	sdb := statedb.NewStateDB(st, nil, false)
	any := false
	for i, v := range c {
		if v != 0 {
			any = true
			var aid types.AccountID
			copy(aid[:], tk.Key(i))
			if err := sdb.PutState(aid, stateOf(v)); err != nil {
				return err.Error()
			}
		}
	}
	if !any {
		return ""
	}
	if err := sdb.Update(); err != nil {
		return err.Error()
	}
	if err := sdb.Commit(); err != nil {
		return err.Error()
	}
	root := append([]byte{}, sdb.GetRoot()...)
	// advance the latest state so `root` is historical for the second StateDB
	sdb2 := statedb.NewStateDB(st, root, false)
	var aid0 types.AccountID
	copy(aid0[:], tk.Key(NQ-1))
	sdb2.PutState(aid0, &types.State{Nonce: 9, Balance: []byte{9}})
	// every account of the content changes after `root`: a proof at the historical root must still
	// carry the state the account had there
	for i, v := range c {
		if v != 0 {
			var aid types.AccountID
			copy(aid[:], tk.Key(i))
			sdb2.PutState(aid, &types.State{Nonce: uint64(20 + i), Balance: []byte{byte(20 + i)}})
		}
	}
	if err := sdb2.Update(); err != nil {
		return err.Error()
	}
	if err := sdb2.Commit(); err != nil {
		return err.Error()
	}
	valOf := func(code int) []byte { return stateHash(stateOf(code)) }
	for q := 0; q < NQ; q++ {
		key := tk.Key(q)
		present := q < n && c[q] != 0
		for _, compressed := range []bool{false, true} {
			for _, historical := range []bool{false, true} {
				var p *types.AccountProof
				var err error
				if historical {
					p, err = sdb2.GetAccountAndProof(key, root, compressed)
				} else {
					p, err = sdb.GetAccountAndProof(key, nil, compressed)
				}
				if err != nil {
					return fmt.Sprintf("GetAccountAndProof(%s,hist=%v,c=%v): %v", tk.Names[q], historical, compressed, err)
				}
				ctx.Eval(1)
				if p.Inclusion != present {
					return fmt.Sprintf("GetAccountAndProof(%s): inclusion=%v, model %v", tk.Names[q], p.Inclusion, present)
				}
				if present && !bytes.Equal(stateHash(p.State), valOf(c[q])) {
					return fmt.Sprintf("GetAccountAndProof(%s): state %v differs from model", tk.Names[q], p.State)
				}
				r, i := verifyAccountProof(root, key, p, compressed)
				if !r || !i {
					return fmt.Sprintf("completeness: account proof of %s (hist=%v,compressed=%v) rejected: repo=%v indep=%v", tk.Names[q], historical, compressed, r, i)
				}
				// single-field corruptions of the returned message: the claim
				// (key, state|absence) it then makes must be true whenever accepted
				type mut struct {
					name string
					f    func(*types.AccountProof)
					key  int
				}
				muts := []mut{}
				for q2 := 0; q2 < NQ; q2++ {
					if q2 != q {
						muts = append(muts, mut{"key:=" + tk.Names[q2], func(*types.AccountProof) {}, q2})
					}
				}
				muts = append(muts,
					mut{"inclusion flipped", func(m *types.AccountProof) {
						m.Inclusion = !m.Inclusion
						if m.Inclusion && m.State == nil {
							m.State = stateOf(1)
						}
					}, q},
					mut{"state:=other", func(m *types.AccountProof) {
						if m.State != nil {
							m.State = &types.State{Nonce: m.State.Nonce + 1, Balance: m.State.Balance}
						} else {
							m.State = stateOf(1)
						}
					}, q},
					mut{"absence via own leaf", func(m *types.AccountProof) {
						// present the key's own leaf as the "other leaf on the path"
						if m.Inclusion {
							m.Inclusion = false
							m.ProofKey = key
							m.ProofVal = stateHash(m.State)
						}
					}, q},
					mut{"height+1", func(m *types.AccountProof) { m.Height++; m.Bitmap = growBitmap(m.Bitmap, int(m.Height)) }, q},
					mut{"height-1", func(m *types.AccountProof) {
						if m.Height > 0 {
							m.Height--
						}
					}, q},
					mut{"proofkey:=nil", func(m *types.AccountProof) { m.ProofKey = nil }, q},
				)
				for q2 := 0; q2 < NQ; q2++ {
					k2 := tk.Key(q2)
					muts = append(muts, mut{"proofkey:=" + tk.Names[q2], func(m *types.AccountProof) { m.ProofKey = k2; if len(m.ProofVal) == 0 { m.ProofVal = valOf(1) } }, q})
				}
				for _, v := range []int{1, 2} {
					vv := valOf(v)
					muts = append(muts, mut{fmt.Sprintf("proofval:=state%d", v), func(m *types.AccountProof) { m.ProofVal = vv }, q})
				}
				apm, apn := apMutations(p.AuditPath)
				for mi := 1; mi < len(apm); mi++ {
					a := apm[mi]
					muts = append(muts, mut{"auditpath " + apn[mi], func(m *types.AccountProof) { m.AuditPath = a }, q})
				}
				for _, m := range muts {
					cp := &types.AccountProof{State: p.State, Inclusion: p.Inclusion, ProofKey: p.ProofKey, ProofVal: p.ProofVal,
						Bitmap: append([]byte{}, p.Bitmap...), Height: p.Height, AuditPath: cloneAP(p.AuditPath)}
					m.f(cp)
					ctx.Eval(1)
					acc, _ := verifyAccountProof(root, tk.Key(m.key), cp, compressed)
					if !acc {
						continue
					}
					ctx.Count("accepted_claims", 1)
					mp := m.key < n && c[m.key] != 0
					ok := false
					if cp.Inclusion {
						ok = mp && cp.State != nil && bytes.Equal(stateHash(cp.State), valOf(c[m.key]))
					} else {
						ok = !mp
					}
					if !ok {
						return fmt.Sprintf("soundness: content %v: account proof of %s (compressed=%v) with %s is accepted for key %s but claims inclusion=%v which is false",
							c, tk.Names[q], compressed, m.name, tk.Names[m.key], cp.Inclusion)
					}
				}
			}
		}
	}
	return ""
}

// layer2var: contract variable proofs through ContractState + GetVarAndProof.
func layer2var(ctx *xplor.Ctx, store string, mask int) string {
	st := tk.Open(store)
	sdb := statedb.NewStateDB(st, nil, false)
	cid := []byte("contract-under-test")
	cs, err := statedb.OpenContractStateAccount(cid, sdb)
	if err != nil {
		return err.Error()
	}
	names := []string{"a", "b", "c", "d"}
	model := map[string][]byte{}
	for i, nm := range names {
		switch (mask >> (2 * uint(i))) & 3 {
		case 1:
			model[nm] = []byte("v1-" + nm)
		case 2:
			model[nm] = []byte("v2")
		}
	}
	if len(model) == 0 {
		return ""
	}
	for _, nm := range names {
		if v, ok := model[nm]; ok {
			if err := cs.SetData([]byte(nm), v); err != nil {
				return err.Error()
			}
		}
	}
	if err := statedb.StageContractState(cs, sdb); err != nil {
		return err.Error()
	}
	if err := sdb.Update(); err != nil {
		return err.Error()
	}
	if err := sdb.Commit(); err != nil {
		return err.Error()
	}
	ast, err := sdb.GetAccountState(types.ToAccountID(cid))
	if err != nil {
		return err.Error()
	}
	sroot := ast.StorageRoot
	// a second contract state opened on the committed storage root, like the chain service does
	cs2, err := statedb.OpenContractState(cid, ast, sdb)
	if err != nil {
		return err.Error()
	}
	_ = cs2
	storage := statedb.NewStateDB(st, sroot, false)
	for _, nm := range append(names, "zz", "yy") {
		tkey := common.Hasher([]byte(nm))
		for _, compressed := range []bool{false, true} {
			p, err := storage.GetVarAndProof(tkey, sroot, compressed)
			if err != nil {
				return fmt.Sprintf("GetVarAndProof(%s): %v", nm, err)
			}
			ctx.Eval(1)
			want, present := model[nm]
			if p.Inclusion != present || (present && !bytes.Equal(p.Value, want)) {
				return fmt.Sprintf("GetVarAndProof(%s): inclusion=%v value=%q, model present=%v %q", nm, p.Inclusion, p.Value, present, want)
			}
			check := func(key []byte, m *types.ContractVarProof) bool {
				ap := &types.AccountProof{Inclusion: m.Inclusion, ProofKey: m.ProofKey, ProofVal: m.ProofVal, Bitmap: m.Bitmap, Height: m.Height, AuditPath: m.AuditPath}
				vt := trie.NewTrie(sroot, common.Hasher, nil)
				val := m.ProofVal
				if m.Inclusion {
					val = common.Hasher(m.Value)
				}
				if compressed {
					if m.Inclusion {
						return safeC(func() bool { return vt.VerifyInclusionC(ap.Bitmap, key, val, ap.AuditPath, int(ap.Height)) })
					}
					return safeC(func() bool { return vt.VerifyNonInclusionC(ap.AuditPath, int(ap.Height), ap.Bitmap, key, val, ap.ProofKey) })
				}
				if m.Inclusion {
					return safeC(func() bool { return vt.VerifyInclusion(ap.AuditPath, key, val) })
				}
				return safeC(func() bool { return vt.VerifyNonInclusion(ap.AuditPath, key, val, ap.ProofKey) })
			}
			if !check(tkey, p) {
				return fmt.Sprintf("completeness: variable proof of %q (compressed=%v) rejected", nm, compressed)
			}
			// corruptions: other value, other key, flipped inclusion, own leaf as absence witness
			for _, nm2 := range append(names, "zz", "yy") {
				for _, mname := range []string{"asis", "value:=x", "flip", "ownleaf"} {
					cp := &types.ContractVarProof{Value: p.Value, Inclusion: p.Inclusion, ProofKey: p.ProofKey, ProofVal: p.ProofVal, Bitmap: p.Bitmap, Height: p.Height, AuditPath: p.AuditPath}
					switch mname {
					case "value:=x":
						cp.Value = []byte("x")
					case "flip":
						cp.Inclusion = !cp.Inclusion
					case "ownleaf":
						if !cp.Inclusion {
							continue
						}
						cp.Inclusion = false
						cp.ProofKey = tkey
						cp.ProofVal = common.Hasher(cp.Value)
					}
					if nm2 == nm && mname == "asis" {
						continue
					}
					ctx.Eval(1)
					if !check(common.Hasher([]byte(nm2)), cp) {
						continue
					}
					ctx.Count("accepted_claims", 1)
					w2, pres2 := model[nm2]
					ok := (!cp.Inclusion && !pres2) || (cp.Inclusion && pres2 && bytes.Equal(cp.Value, w2))
					if !ok {
						return fmt.Sprintf("soundness: storage %v: proof of %q with %s accepted for %q claiming inclusion=%v value=%q", model, nm, mname, nm2, cp.Inclusion, cp.Value)
					}
				}
			}
		}
	}
	return ""
}

func sigOf(msg string) string {
	return ""
}

func run(ctx *xplor.Ctx) {
	tk.Use(tk.Z, tk.L01, tk.L08, tk.L10, tk.B8, tk.B4, tk.B3, tk.B1, tk.B0)
	store := fmt.Sprintf("c11-%d", ctx.Shard)
	defer db.VerifDrop(store)
	do := func(r replay) {
		var msg string
		switch r.Layer {
		case 1:
			msg = layer1(ctx, store, r.N, r.State)
		case 2:
			msg = layer2(ctx, store, r.N, r.State)
		case 3:
			msg = layer2var(ctx, store, r.State)
		}
		if msg != "" {
			ctx.Violation(sigOf(msg), msg, r)
		} else {
			ctx.Distinct(xplor.Hash(r.Layer, r.N, r.State))
		}
	}
	if ctx.Replay != nil {
		var r replay
		if err := json.Unmarshal(ctx.Replay, &r); err != nil {
			panic(err)
		}
		do(r)
		return
	}
	n1, n2 := 4, 5
	if ctx.Tier == "thorough" {
		n1, n2 = 7, 8
	}
	pow := func(n int) int {
		r := 1
		for i := 0; i < n; i++ {
			r *= 3
		}
		return r
	}
	for id := 0; id < pow(n1); id++ {
		if ctx.Mine(id) && !ctx.Expired() {
			do(replay{1, n1, id})
		}
	}
	for id := 0; id < pow(n2); id++ {
		if ctx.Mine(id) && !ctx.Expired() {
			do(replay{2, n2, id})
		}
	}
	for id := 0; id < 256; id++ {
		if (id&3) == 3 || (id>>2&3) == 3 || (id>>4&3) == 3 || (id>>6&3) == 3 {
			continue
		}
		if ctx.Mine(id) && !ctx.Expired() {
			do(replay{3, 4, id})
		}
	}
	ctx.Sample(map[string]interface{}{"layer": 1, "content": tk.ContentFromID(pow(n1)-2, n1).String(),
		"what": "proofs of all 9 universe keys, both encodings, latest+historical root; every audit path (and 9 structural corruptions, length±1, bitmap flips) x every claim (key, value, proofKey) fed to the verifiers"})
}

func main() {
	xplor.Main(xplor.Check{
		ID:    "C11",
		Level: "exploration",
		Rule: "layer 1: for every trie content over the first n collision-prone keys (all 3^n assignments): honest plain and compressed proofs of all 9 universe keys at the latest root and (via the R variants) at a historical root must verify with the repo verifier and with an independent bottom-up verifier (completeness); then every audit path (original and structurally corrupted: drop/dup/swap/default/bit-flip nodes, length +-1, bitmap flips) is combined with EVERY claim (key in universe, inclusion with v1|v2, non-inclusion with proofKey in {nil} u universe and value v1|v2) and whenever the repo verifier accepts, the claim must be true of the content (soundness by claim truth); proofs must not verify against another root. " +
			"layer 2: the same through statedb.GetAccountAndProof (accounts placed at the universe keys; latest and historical root; single-field corruptions of the returned message incl. presenting the key's own leaf as absence witness) and GetVarAndProof on contract storage (all 3^4 storages). distinct_nontrivial = distinct contents whose full proof matrix passed.",
		Assumptions: []string{
			"sha256 collision freedom",
			"keys, proof keys and values handed to the verifier are 32 bytes long (length-confusion between a leaf preimage and an interior preimage is outside the alphabet)",
			"the empty trie has no root hash; non-inclusion against an empty root is recorded (empty_trie_nonincl_skipped) and not judged",
		},
		Shards: func(tier string) int { return 64 },
		Budget: func(tier string) time.Duration {
			if tier == "thorough" {
				return 25 * time.Minute
			}
			return 4 * time.Minute
		},
		Run: run,
	})
}
