// Package triekit: key universe, plain-map model, independent reference root
// and batch enumeration shared by the C10 (trie) and C11 (proof) checks.
package triekit

import (
	"bytes"
	"fmt"
	"sort"

	"github.com/aergoio/aergo-lib/db"
	"github.com/aergoio/aergo/v2/internal/common"
	"github.com/aergoio/aergo/v2/pkg/trie"
)

// Universe: 32-byte keys chosen to collide on long prefixes. Universe key u
// differs from the all-zero key first at bit ubits[u] (bit 0 = most significant
// bit). L* keys live in the last byte (two adjacent 4-bit node batches at the
// bottom of the tree), b* keys split near the top.
var ubits = []int{-1, 255, 254, 252, 251, 250, 248, 8, 4, 3, 1, 0}
var unames = []string{"z", "L01", "L02", "L08", "L10", "L20", "L80", "b8", "b4", "b3", "b1", "b0"}

// Sel maps content index -> universe index; all of Key/Names/Content work on
// the selected keys. It must be ascending (universe order is ascending byte order).
var Sel = []int{0, 1, 2, 3, 4, 5, 6, 7, 8, 9, 10, 11}
var Names = append([]string{}, unames...)

// Use selects the key set (ascending universe indexes).
func Use(sel ...int) {
	Sel = append([]int{}, sel...)
	Names = Names[:0]
	for _, u := range sel {
		Names = append(Names, unames[u])
	}
}

// Universe index constants.
const (
	Z = iota
	L01
	L02
	L08
	L10
	L20
	L80
	B8
	B4
	B3
	B1
	B0
	NU
)

func Key(i int) []byte {
	k := make([]byte, 32)
	if b := ubits[Sel[i]]; b >= 0 {
		k[b/8] |= 1 << uint(7-b%8)
	}
	return k
}

// Sorted order of universe indexes by key bytes (ascending): z < b255 < b252 < ... < b0.
// (Bits ascending value => keys descending bit index; the table above is already sorted.)

var (
	V1 = bytes.Repeat([]byte{0x11}, 32)
	V2 = bytes.Repeat([]byte{0x22}, 32)
)

// Val: 0 = delete/absent, 1 = V1, 2 = V2
func Val(v int) []byte {
	switch v {
	case 1:
		return append([]byte{}, V1...)
	case 2:
		return append([]byte{}, V2...)
	}
	return append([]byte{}, trie.DefaultLeaf...)
}

// Content is the model: Content[i] ∈ {0 absent, 1, 2} for universe key i (first n keys used).
type Content []int

func (c Content) Clone() Content { return append(Content{}, c...) }
func (c Content) ID() int {
	id := 0
	for i := len(c) - 1; i >= 0; i-- {
		id = id*3 + c[i]
	}
	return id
}
func ContentFromID(id, n int) Content {
	c := make(Content, n)
	for i := 0; i < n; i++ {
		c[i] = id % 3
		id /= 3
	}
	return c
}
func (c Content) String() string {
	s := ""
	for i, v := range c {
		if v != 0 {
			s += fmt.Sprintf("%s=%d ", Names[i], v)
		}
	}
	if s == "" {
		return "{}"
	}
	return "{" + s[:len(s)-1] + "}"
}

// BatchOp is one element of a batch: universe key index and value code.
type BatchOp struct {
	K int `json:"k"`
	V int `json:"v"`
}
type Batch []BatchOp

func (b Batch) String() string {
	s := "["
	for i, o := range b {
		if i > 0 {
			s += " "
		}
		if o.V == 0 {
			s += "del " + Names[o.K]
		} else {
			s += fmt.Sprintf("%s:=%d", Names[o.K], o.V)
		}
	}
	return s + "]"
}

func (c Content) Apply(b Batch) Content {
	n := c.Clone()
	for _, o := range b {
		n[o.K] = o.V
	}
	return n
}

// KV returns the sorted keys/values of a batch the way stateBuffer.export does.
func (b Batch) KV() (keys, vals [][]byte) {
	idx := make([]int, len(b))
	for i := range b {
		idx[i] = i
	}
	sort.Slice(idx, func(x, y int) bool { return bytes.Compare(Key(b[idx[x]].K), Key(b[idx[y]].K)) < 0 })
	for _, i := range idx {
		keys = append(keys, Key(b[i].K))
		vals = append(vals, Val(b[i].V))
	}
	return
}

// Batches enumerates every batch over the first n universe keys with 1..maxk
// distinct keys, each with a value code in {0,1,2}; simplest first.
func Batches(n, maxk int) []Batch {
	var out []Batch
	var rec func(start int, cur Batch, k int)
	rec = func(start int, cur Batch, k int) {
		if len(cur) == k {
			out = append(out, append(Batch{}, cur...))
			return
		}
		for i := start; i < n; i++ {
			for v := 0; v < 3; v++ {
				rec(i+1, append(cur, BatchOp{i, v}), k)
			}
		}
	}
	for k := 1; k <= maxk; k++ {
		rec(0, nil, k)
	}
	return out
}

func bitIsSet(bits []byte, i int) bool { return bits[i/8]&(1<<uint(7-i%8)) != 0 }

// RefRoot is an independent specification of the root: a subtree holding one
// key is the leaf H(key,value,byte(height)) placed at the subtree root; an
// empty subtree is default; otherwise H(left|default, right|default).
func RefRoot(c Content) []byte {
	var keys, vals [][]byte
	for i, v := range c {
		if v != 0 {
			keys = append(keys, Key(i))
			vals = append(vals, Val(v))
		}
	}
	// keys are produced in universe order, which is ascending byte order
	return refRoot(keys, vals, 0)
}

func refRoot(keys, vals [][]byte, depth int) []byte {
	if len(keys) == 0 {
		return nil
	}
	height := 256 - depth
	if len(keys) == 1 {
		return common.Hasher(keys[0], vals[0], []byte{byte(height)})
	}
	split := len(keys)
	for i, k := range keys {
		if bitIsSet(k, depth) {
			split = i
			break
		}
	}
	l := refRoot(keys[:split], vals[:split], depth+1)
	r := refRoot(keys[split:], vals[split:], depth+1)
	if l == nil {
		l = trie.DefaultLeaf
	}
	if r == nil {
		r = trie.DefaultLeaf
	}
	return common.Hasher(l, r)
}

var handles = map[string]db.DB{}

// Open returns an empty verifdb store with the given name. The handle is
// created once per name (db.NewDB builds a logger, which is slow) and the
// content is reset on every call.
func Open(name string) db.DB {
	h, ok := handles[name]
	if !ok {
		h = db.NewDB(db.VerifImpl, name)
		handles[name] = h
	}
	db.VerifRestore(name, nil)
	return h
}

// Reset replaces the content of a store opened with Open by snapshot snap.
func Reset(name string, snap map[string][]byte) { db.VerifRestore(name, snap) }

// Build applies content c as one batch to an empty trie on store and commits.
func Build(store db.DB, c Content) (*trie.Trie, error) {
	t := trie.NewTrie(nil, common.Hasher, store)
	var b Batch
	for i, v := range c {
		if v != 0 {
			b = append(b, BatchOp{i, v})
		}
	}
	if len(b) == 0 {
		return t, nil
	}
	k, v := b.KV()
	if _, err := t.Update(k, v); err != nil {
		return nil, err
	}
	if err := t.Commit(); err != nil {
		return nil, err
	}
	return t, nil
}

// CheckReads compares Get of every universe key with the model.
func CheckReads(t *trie.Trie, c Content) error {
	for i := range c {
		got, err := t.Get(Key(i))
		if err != nil {
			return fmt.Errorf("Get(%s): %v", Names[i], err)
		}
		want := []byte(nil)
		if c[i] != 0 {
			want = Val(c[i])
		}
		if !bytes.Equal(got, want) {
			return fmt.Errorf("Get(%s)=%x want %x", Names[i], got, want)
		}
	}
	return nil
}
