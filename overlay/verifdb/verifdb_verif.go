//go:build verif

// Package db: "verifdb" — an in-memory, journaling key-value store registered
// next to badgerdb/leveldb/memorydb. It is injected into the module-cache copy
// of github.com/aergoio/aergo-lib/db by the /verif overlay (never written to
// disk there). Stores are kept in a process-global registry keyed by directory
// name so that "closing and reopening" a store (a node restart) finds the same
// data, and every durable unit (single Set/Delete, committed transaction,
// flushed bulk) is appended to one global journal shared by all stores.
package db

import (
	"bytes"
	"sort"
	"sync"
	"sync/atomic"
)

const VerifImpl ImplType = "verifdb"

// VerifOp is one key-level write inside a durable unit.
type VerifOp struct {
	Del bool
	Key string
	Val []byte
}

// VerifUnit is one durable write unit.
type VerifUnit struct {
	Store string // directory the store was opened with
	Kind  string // "set" | "del" | "tx" | "bulk"
	Ops   []VerifOp
}

type verifStore struct {
	mu   sync.Mutex
	name string
	m    map[string][]byte
}

var (
	verifMu      sync.Mutex
	verifStores  = map[string]*verifStore{}
	verifJournal []VerifUnit
	verifJournalOn bool
	verifJournalFast int32 // mirrors verifJournalOn, read without the lock
)

func init() {
	registerDBConstructor(VerifImpl, func(dir string, opts ...Option) (DB, error) {
		return verifOpen(dir), nil
	})
}

func verifOpen(dir string) *verifStore {
	verifMu.Lock()
	defer verifMu.Unlock()
	s := verifStores[dir]
	if s == nil {
		s = &verifStore{name: dir, m: map[string][]byte{}}
		verifStores[dir] = s
	}
	return s
}

// VerifReset drops every store and the journal.
func VerifReset() {
	verifMu.Lock()
	defer verifMu.Unlock()
	verifStores = map[string]*verifStore{}
	verifJournal = nil
	verifJournalOn = false
	atomic.StoreInt32(&verifJournalFast, 0)
}

// VerifDrop forgets all stores whose directory starts with prefix.
func VerifDrop(prefix string) {
	verifMu.Lock()
	defer verifMu.Unlock()
	for k := range verifStores {
		if len(k) >= len(prefix) && k[:len(prefix)] == prefix {
			delete(verifStores, k)
		}
	}
}

// VerifStoreNames lists the open stores.
func VerifStoreNames() []string {
	verifMu.Lock()
	defer verifMu.Unlock()
	var r []string
	for k := range verifStores {
		r = append(r, k)
	}
	sort.Strings(r)
	return r
}

// VerifSnapshot returns a deep copy of one store's content.
func VerifSnapshot(dir string) map[string][]byte {
	s := verifOpen(dir)
	s.mu.Lock()
	defer s.mu.Unlock()
	r := make(map[string][]byte, len(s.m))
	for k, v := range s.m {
		r[k] = append([]byte{}, v...)
	}
	return r
}

// VerifRestore replaces one store's content by a deep copy of m.
func VerifRestore(dir string, m map[string][]byte) {
	s := verifOpen(dir)
	s.mu.Lock()
	defer s.mu.Unlock()
	s.m = make(map[string][]byte, len(m))
	for k, v := range m {
		s.m[k] = append([]byte{}, v...)
	}
}

// VerifHandleSnapshot / VerifHandleRestore work on a DB handle returned by NewDB(VerifImpl,..).
func VerifHandleSnapshot(d DB) map[string][]byte {
	s := d.(*verifStore)
	s.mu.Lock()
	defer s.mu.Unlock()
	r := make(map[string][]byte, len(s.m))
	for k, v := range s.m {
		r[k] = v
	}
	return r
}

// VerifHandleRestore replaces the content by m (values are shared, never mutated by the store).
func VerifHandleRestore(d DB, m map[string][]byte) {
	s := d.(*verifStore)
	s.mu.Lock()
	defer s.mu.Unlock()
	s.m = make(map[string][]byte, len(m))
	for k, v := range m {
		s.m[k] = v
	}
}

// VerifApply applies ops of a unit (or a prefix of them) to its store.
func VerifApply(dir string, ops []VerifOp) {
	s := verifOpen(dir)
	s.mu.Lock()
	defer s.mu.Unlock()
	for _, op := range ops {
		if op.Del {
			delete(s.m, op.Key)
		} else {
			s.m[op.Key] = append([]byte{}, op.Val...)
		}
	}
}

// VerifJournalStart clears the journal and starts recording.
func VerifJournalStart() {
	verifMu.Lock()
	defer verifMu.Unlock()
	verifJournal = nil
	verifJournalOn = true
	atomic.StoreInt32(&verifJournalFast, 1)
}

// VerifJournalStop stops recording and returns the journal.
func VerifJournalStop() []VerifUnit {
	verifMu.Lock()
	defer verifMu.Unlock()
	verifJournalOn = false
	atomic.StoreInt32(&verifJournalFast, 0)
	j := verifJournal
	verifJournal = nil
	return j
}

// VerifJournalLen returns the current number of recorded units.
func VerifJournalLen() int {
	verifMu.Lock()
	defer verifMu.Unlock()
	return len(verifJournal)
}

func (s *verifStore) record(kind string, ops []VerifOp) {
	if atomic.LoadInt32(&verifJournalFast) == 0 {
		return
	}
	verifMu.Lock()
	if verifJournalOn {
		verifJournal = append(verifJournal, VerifUnit{Store: s.name, Kind: kind, Ops: ops})
	}
	verifMu.Unlock()
}

func (s *verifStore) Type() string { return "verifdb" }

func (s *verifStore) Set(key, value []byte) {
	key = convNilToBytes(key)
	value = convNilToBytes(value)
	v := append([]byte{}, value...)
	s.mu.Lock()
	s.m[string(key)] = v
	s.mu.Unlock()
	s.record("set", []VerifOp{{Key: string(key), Val: v}})
}

func (s *verifStore) Delete(key []byte) {
	key = convNilToBytes(key)
	s.mu.Lock()
	delete(s.m, string(key))
	s.mu.Unlock()
	s.record("del", []VerifOp{{Del: true, Key: string(key)}})
}

func (s *verifStore) Get(key []byte) []byte {
	key = convNilToBytes(key)
	s.mu.Lock()
	defer s.mu.Unlock()
	v, ok := s.m[string(key)]
	if !ok {
		return []byte{}
	}
	return append([]byte{}, v...)
}

func (s *verifStore) Exist(key []byte) bool {
	key = convNilToBytes(key)
	s.mu.Lock()
	defer s.mu.Unlock()
	_, ok := s.m[string(key)]
	return ok
}

func (s *verifStore) Close() {}

func (s *verifStore) NewTx() Transaction { return &verifTx{s: s, kind: "tx"} }
func (s *verifStore) NewBulk() Bulk       { return &verifTx{s: s, kind: "bulk"} }

type verifTx struct {
	mu   sync.Mutex
	s    *verifStore
	kind string
	ops  []VerifOp
	done bool
}

func (t *verifTx) Set(key, value []byte) {
	key = convNilToBytes(key)
	value = convNilToBytes(value)
	t.mu.Lock()
	t.ops = append(t.ops, VerifOp{Key: string(key), Val: append([]byte{}, value...)})
	t.mu.Unlock()
}

func (t *verifTx) Delete(key []byte) {
	key = convNilToBytes(key)
	t.mu.Lock()
	t.ops = append(t.ops, VerifOp{Del: true, Key: string(key)})
	t.mu.Unlock()
}

func (t *verifTx) apply() {
	t.mu.Lock()
	defer t.mu.Unlock()
	if t.done {
		panic("verifdb: commit/flush after commit or discard")
	}
	t.done = true
	t.s.mu.Lock()
	for _, op := range t.ops {
		if op.Del {
			delete(t.s.m, op.Key)
		} else {
			t.s.m[op.Key] = op.Val
		}
	}
	t.s.mu.Unlock()
	t.s.record(t.kind, t.ops)
}

func (t *verifTx) Commit()      { t.apply() }
func (t *verifTx) Flush()       { t.apply() }
func (t *verifTx) Discard()     { t.mu.Lock(); t.done = true; t.mu.Unlock() }
func (t *verifTx) DiscardLast() { t.mu.Lock(); t.done = true; t.mu.Unlock() }

type verifIter struct {
	s    *verifStore
	keys []string
	i    int
}

func (s *verifStore) Iterator(start, end []byte) Iterator {
	s.mu.Lock()
	defer s.mu.Unlock()
	reverse := bytes.Compare(start, end) == 1
	var keys sort.StringSlice
	for k := range s.m {
		if isKeyInRange([]byte(k), start, end, reverse) {
			keys = append(keys, k)
		}
	}
	if reverse {
		sort.Sort(sort.Reverse(keys))
	} else {
		sort.Strings(keys)
	}
	return &verifIter{s: s, keys: keys}
}

func (it *verifIter) Next()         { it.i++ }
func (it *verifIter) Valid() bool   { return it.i >= 0 && it.i < len(it.keys) }
func (it *verifIter) Key() []byte   { return []byte(it.keys[it.i]) }
func (it *verifIter) Value() []byte { return it.s.Get([]byte(it.keys[it.i])) }
