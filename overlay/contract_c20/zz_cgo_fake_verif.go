//go:build verif

// Binding of the `C_xyz` identifiers (produced by mkoverlay's "fakec" rewrite
// from the `C.xyz` selectors of vm.go, vm_callback.go, hook.go) to the pure-Go
// fake in verif_h/fakec, plus minimal stand-ins for the files of this package
// that are pure C glue and stay deleted (lstate_factory.go, statesql.go,
// sqlite3*.go). No guard logic lives here.
package contract

import (
	"fmt"
	"sort"
	"unsafe"

	"github.com/aergoio/aergo-lib/log"
	"github.com/aergoio/aergo/v2/cmd/aergoluac/util"
	"github.com/aergoio/aergo/v2/state"
	"github.com/aergoio/aergo/v2/verif_h/fakec"
)

// ---- types ---------------------------------------------------------------

type (
	C_int              = fakec.Int
	C_char             = fakec.Char
	C_size_t           = fakec.Size_t
	C_ulonglong        = fakec.Ulonglong
	C_double           = fakec.Double
	C_lua_Integer      = fakec.Lua_Integer
	C_sqlite3          = fakec.Sqlite3
	C_struct_lua_State = fakec.LState
)

// declared in the cgo preamble of vm_callback.go
type C_struct_proof struct {
	data unsafe.Pointer
	len  C_size_t
}

type C_struct_rlp_obj struct {
	rlp_obj_type C_int
	data         unsafe.Pointer
	size         C_size_t
}

const (
	C_ERR_BF_TIMEOUT = fakec.ERR_BF_TIMEOUT
	C_RLP_TSTRING    = fakec.RLP_TSTRING
	C_RLP_TLIST      = fakec.RLP_TLIST
)

// ---- functions -----------------------------------------------------------

var (
	C_CString  = fakec.CString
	C_GoString = fakec.GoString
	C_GoBytes  = fakec.GoBytes
	C_CBytes   = fakec.CBytes
	C_free     = fakec.Free

	C_luaL_setuncatchablerror   = fakec.LuaL_setuncatchablerror
	C_luaL_hasuncatchablerror   = fakec.LuaL_hasuncatchablerror
	C_luaL_setsyserror          = fakec.LuaL_setsyserror
	C_luaL_hassyserror          = fakec.LuaL_hassyserror
	C_luaL_set_hardforkversion  = fakec.LuaL_set_hardforkversion
	C_luaL_hardforkversion      = fakec.LuaL_hardforkversion
	C_luaL_set_service          = fakec.LuaL_set_service
	C_vm_is_hardfork            = fakec.Vm_is_hardfork
	C_vm_instcount              = fakec.Vm_instcount
	C_vm_setinstcount           = fakec.Vm_setinstcount
	C_lua_gasget                = fakec.Lua_gasget
	C_lua_gasset                = fakec.Lua_gasset
	C_vm_set_timeout_hook       = fakec.Vm_set_timeout_hook
	C_vm_set_count_hook         = fakec.Vm_set_count_hook
	C_vm_set_timeout_count_hook = fakec.Vm_set_timeout_count_hook
	C_vm_loadbuff               = fakec.Vm_loadbuff
	C_vm_loadcall               = fakec.Vm_loadcall
	C_vm_autoload               = fakec.Vm_autoload
	C_vm_remove_constructor     = fakec.Vm_remove_constructor
	C_vm_get_abi_function       = fakec.Vm_get_abi_function
	C_vm_copy_service           = fakec.Vm_copy_service
	C_vm_copy_result            = fakec.Vm_copy_result
	C_vm_get_json_ret           = fakec.Vm_get_json_ret
	C_vm_pcall                  = fakec.Vm_pcall
	C_lua_pushlstring           = fakec.Lua_pushlstring
	C_lua_pushstring            = fakec.Lua_pushstring
	C_lua_pushinteger           = fakec.Lua_pushinteger
	C_lua_pushnumber            = fakec.Lua_pushnumber
	C_lua_pushboolean           = fakec.Lua_pushboolean
	C_lua_pushnil               = fakec.Lua_pushnil
	C_lua_createtable           = fakec.Lua_createtable
	C_lua_gettop                = fakec.Lua_gettop
	C_lua_settop                = fakec.Lua_settop
	C_lua_rawseti               = fakec.Lua_rawseti
	C_lua_rawset                = fakec.Lua_rawset
	C_lua_set_bignum            = fakec.Lua_set_bignum
)

// ---- cmd/aergoluac/luac (cgo) ----------------------------------------------

type fakeLuac struct{}

var luac fakeLuac

func (fakeLuac) NewLState() *fakec.LState    { return fakec.NewLState(0) }
func (fakeLuac) CloseLState(L *fakec.LState) { L.Closed = true }
func (fakeLuac) Compile(L *fakec.LState, code string) (util.LuaCode, error) {
	return fakec.Compile(L, code)
}

// ---- lstate_factory.go -----------------------------------------------------

type LState = C_struct_lua_State

func StartLStateFactory(numLStates, numClosers, numCloseLimit int) {}
func GetLState() *LState                                           { return fakec.NewLState(C_int(currentForkVersion)) }
func FreeLState(s *LState) {
	if s != nil {
		s.Closed = true
	}
}
func FlushLStates() {}

// ---- statesql.go / sqlite3.go ----------------------------------------------
//
// The SQL engine is C. What is kept is the interface the Go host API programs
// against, with an implementation that records which kind of transaction was
// opened and which savepoints were taken.

var sqlLgr = log.NewLogger("statesql")

type sqlTx interface {
	commit() error
	rollback() error
	savepoint() error
	release() error
	rollbackToSavepoint() error
	subSavepoint(string) error
	subRelease(string) error
	rollbackToSubSavepoint(string) error
	getHandle() *C_sqlite3
	close() error
	begin() error
}

// VerifSQLTx is the recording transaction.
type VerifSQLTx struct {
	Name     string
	RP       uint64
	ReadOnly bool
	Log      []string
	handle   *C_sqlite3
}

// VerifSQLOpened lists every transaction opened since the last VerifSQLReset.
var VerifSQLOpened []*VerifSQLTx

func VerifSQLReset() { VerifSQLOpened = nil }

func (t *VerifSQLTx) rec(s string) error { t.Log = append(t.Log, s); return nil }

func (t *VerifSQLTx) commit() error                         { return t.rec("commit") }
func (t *VerifSQLTx) rollback() error                       { return t.rec("rollback") }
func (t *VerifSQLTx) savepoint() error                      { return t.rec("savepoint") }
func (t *VerifSQLTx) release() error                        { return t.rec("release") }
func (t *VerifSQLTx) rollbackToSavepoint() error            { return t.rec("rollbackToSavepoint") }
func (t *VerifSQLTx) subSavepoint(n string) error           { return t.rec("subSavepoint") }
func (t *VerifSQLTx) subRelease(n string) error             { return t.rec("subRelease") }
func (t *VerifSQLTx) rollbackToSubSavepoint(n string) error { return t.rec("rollbackToSubSavepoint") }
func (t *VerifSQLTx) getHandle() *C_sqlite3                 { return t.handle }
func (t *VerifSQLTx) close() error                          { return t.rec("close") }
func (t *VerifSQLTx) begin() error                          { return t.rec("begin") }

func verifOpenSQL(dbName string, rp uint64, ro bool) (sqlTx, error) {
	t := &VerifSQLTx{Name: dbName, RP: rp, ReadOnly: ro, handle: &C_sqlite3{Name: dbName, ReadOnly: ro}}
	VerifSQLOpened = append(VerifSQLOpened, t)
	return t, nil
}

func beginTx(dbName string, rp uint64) (sqlTx, error)       { return verifOpenSQL(dbName, rp, false) }
func beginReadOnly(dbName string, rp uint64) (sqlTx, error) { return verifOpenSQL(dbName, rp, true) }

func LoadDatabase(dataDir string) error            { return nil }
func LoadTestDatabase(dataDir string) error        { return nil }
func CloseDatabase()                               {}
func SaveRecoveryPoint(bs *state.BlockState) error { return nil }

// VerifSQLDigest is a canonical rendering of the opened transactions.
func VerifSQLDigest() string {
	var l []string
	for _, t := range VerifSQLOpened {
		l = append(l, fmt.Sprintf("%s/rp%d/ro=%v/%v", t.Name, t.RP, t.ReadOnly, t.Log))
	}
	sort.Strings(l)
	return fmt.Sprint(l)
}
