//go:build verif

// Pure-Go stand-in for the cgo/LuaJIT half of package contract. It exists so
// that chain, mempool, syncer, consensus and p2p compile in a sandbox without
// LuaJIT and so that contract-type transactions write storage, fail half-way
// and charge fees through the *real* contract.Execute / chain.executeTx /
// state code. Nothing is concluded about the Lua VM from it.
//
// Mini-VM: the call payload is JSON {"ops":[[op,args...],...],"fd":bool};
// a deploy payload is {"code":"...","ctor":[ops]} and is stored as the code.
// ops: ["set",k,v] ["del",k] ["event",name] ["ret",v] ["gas",n]
//
//	["fail"] (runtime error) ["sysfail"] (system error)
package contract

import (
	"context"
	"encoding/json"
	"errors"
	"fmt"
	"math/big"
	"os"

	"github.com/aergoio/aergo-lib/log"
	"github.com/aergoio/aergo/v2/fee"
	"github.com/aergoio/aergo/v2/state"
	"github.com/aergoio/aergo/v2/state/statedb"
	"github.com/aergoio/aergo/v2/types"
	"github.com/aergoio/aergo/v2/types/dbkey"
)

const (
	stateSQLMaxDBSize = 4 * 1024 * 1024
	stateSQLMinDBSize = 10
	maxCallDepth      = 64
	maxCallDepthOld   = 5
)

var ctrLgr = log.NewLogger("contract")

type ChainAccessor interface {
	GetBlockByNo(blockNo types.BlockNo) (*types.Block, error)
	GetBestBlock() (*types.Block, error)
}

type vmContext struct {
	bs        *state.BlockState
	blockInfo *types.BlockHeaderInfo
	sender    []byte
	receiver  *state.AccountState
	txHash    []byte
	isQuery   bool
	gasUsed   uint64
	traceFile *os.File
	events    []*types.Event
}

func MaxCallDepth(version int32) int32 {
	if version >= 3 {
		return maxCallDepth
	}
	return maxCallDepthOld
}

func InitContext(numCtx int, logInternalOps bool)                  {}
func StartLStateFactory(numLStates, numClosers, numCloseLimit int) {}
func LoadDatabase(dataDir string) error                            { return nil }
func CloseDatabase()                                               {}
func SaveRecoveryPoint(bs *state.BlockState) error                 { return nil }

func NewVmContext(
	execCtx context.Context,
	blockState *state.BlockState,
	cdb ChainAccessor,
	sender, receiver *state.AccountState,
	contractState *statedb.ContractState,
	senderID, txHash []byte,
	bi *types.BlockHeaderInfo,
	node string,
	confirmed, query bool,
	rp uint64,
	executionMode int,
	amount *big.Int,
	gasLimit uint64,
	feeDelegation, isMultiCall bool,
) *vmContext {
	return &vmContext{bs: blockState, blockInfo: bi, sender: senderID, receiver: receiver, txHash: txHash, isQuery: query}
}

func (ctx *vmContext) usedFee() *big.Int {
	if fee.IsZeroFee() {
		return fee.NewZeroFee()
	}
	return fee.TxExecuteFee(ctx.blockInfo.ForkVersion, ctx.bs.GasPrice, ctx.gasUsed, 0)
}

type stubProg struct {
	Code string          `json:"code,omitempty"`
	Ctor [][]interface{} `json:"ctor,omitempty"`
	Ops  [][]interface{} `json:"ops,omitempty"`
	Fd   bool            `json:"fd,omitempty"`
	// FdOps is the body of the contract's check_delegation function (the real VM runs that
	// function, not the called one, to decide whether the contract pays the fee)
	FdOps [][]interface{} `json:"fdops,omitempty"`
}

type stubSysErr struct{ error }

func (e *stubSysErr) System() bool { return true }

func str(v interface{}) string { return fmt.Sprint(v) }

func (ctx *vmContext) run(cs *statedb.ContractState, addr []byte, ops [][]interface{}) (ret string, err error) {
	for i, op := range ops {
		if len(op) == 0 {
			continue
		}
		switch str(op[0]) {
		case "set":
			if len(op) < 3 {
				return "", errors.New("stub: set needs k v")
			}
			if err = cs.SetData([]byte(str(op[1])), []byte(str(op[2]))); err != nil {
				return "", err
			}
		case "del":
			if len(op) < 2 {
				return "", errors.New("stub: del needs k")
			}
			if err = cs.DeleteData([]byte(str(op[1]))); err != nil {
				return "", err
			}
		case "event":
			name := "ev"
			if len(op) > 1 {
				name = str(op[1])
			}
			ctx.events = append(ctx.events, &types.Event{
				ContractAddress: addr, EventIdx: int32(len(ctx.events)), EventName: name, JsonArgs: "[]",
			})
		case "ret":
			if len(op) > 1 {
				ret = str(op[1])
			}
		case "gas":
			if len(op) > 1 {
				if f, ok := op[1].(float64); ok && f >= 0 {
					ctx.gasUsed += uint64(f)
				}
			}
		case "fail":
			return "", fmt.Errorf("stub: runtime error at op %d", i)
		case "sysfail":
			return "", &stubSysErr{fmt.Errorf("stub: system error at op %d", i)}
		default:
			return "", fmt.Errorf("stub: unknown op %q", str(op[0]))
		}
	}
	return ret, nil
}

func hasCode(cs *statedb.ContractState) bool {
	c, err := cs.GetCode()
	return err == nil && len(c) > 0
}

func Create(contractState *statedb.ContractState, payload, contractAddress []byte, ctx *vmContext) (string, []*types.Event, string, *big.Int, error) {
	if len(payload) == 0 {
		return "", nil, "", ctx.usedFee(), errors.New("contract code is required")
	}
	var p stubProg
	if err := json.Unmarshal(payload, &p); err != nil || p.Code == "" {
		return "", nil, "", ctx.usedFee(), errors.New("stub: invalid deploy payload")
	}
	if err := contractState.SetCode(nil, payload); err != nil {
		return "", nil, "", ctx.usedFee(), err
	}
	if err := contractState.SetData(dbkey.CreatorMeta(), []byte(types.EncodeAddress(ctx.sender))); err != nil {
		return "", nil, "", ctx.usedFee(), err
	}
	ret, err := ctx.run(contractState, contractAddress, p.Ctor)
	if err != nil {
		return "", ctx.events, "", ctx.usedFee(), err
	}
	return ret, ctx.events, "", ctx.usedFee(), nil
}

func Call(contractState *statedb.ContractState, payload, contractAddress []byte, ctx *vmContext) (string, []*types.Event, string, *big.Int, error) {
	if !hasCode(contractState) {
		return "", nil, "", ctx.usedFee(), fmt.Errorf("not found contract %s", types.EncodeAddress(contractAddress))
	}
	var p stubProg
	if len(payload) > 0 {
		if err := json.Unmarshal(payload, &p); err != nil {
			return "", nil, "", ctx.usedFee(), errors.New("stub: invalid call payload")
		}
	}
	ret, err := ctx.run(contractState, contractAddress, p.Ops)
	if err != nil {
		return "", ctx.events, "", ctx.usedFee(), err
	}
	return ret, ctx.events, "", ctx.usedFee(), nil
}

// Query runs the ops without any read-only guard of its own: what protects the
// committed state on this path is the throw-away block state of the caller.
func Query(contractAddress []byte, bs *state.BlockState, cdb ChainAccessor, contractState *statedb.ContractState, queryInfo []byte) ([]byte, error) {
	if !hasCode(contractState) {
		return nil, fmt.Errorf("not found contract %s", types.EncodeAddress(contractAddress))
	}
	var p stubProg
	if err := json.Unmarshal(queryInfo, &p); err != nil {
		return nil, errors.New("stub: invalid query")
	}
	bb, err := cdb.GetBestBlock()
	if err != nil {
		return nil, err
	}
	ctx := &vmContext{bs: bs, blockInfo: types.NewBlockHeaderInfo(bb), isQuery: true}
	ret, err := ctx.run(contractState, contractAddress, p.Ops)
	if err != nil {
		return nil, err
	}
	return []byte(ret), nil
}

func CheckFeeDelegation(contractAddress []byte, bs *state.BlockState, bi *types.BlockHeaderInfo, cdb ChainAccessor,
	contractState *statedb.ContractState, payload, txHash, sender, amount []byte) error {
	if !hasCode(contractState) {
		return fmt.Errorf("not found contract %s", types.EncodeAddress(contractAddress))
	}
	var p stubProg
	if err := json.Unmarshal(payload, &p); err != nil {
		return errors.New("stub: invalid call payload")
	}
	if !p.Fd {
		return errors.New("function is not declared of fee delegation")
	}
	// like the real check this runs contract code on the caller's state
	ctx := &vmContext{bs: bs, blockInfo: bi, isQuery: true}
	if _, err := ctx.run(contractState, contractAddress, p.FdOps); err != nil {
		return err
	}
	return nil
}

func GetABI(contractState *statedb.ContractState, bs *state.BlockState) (*types.ABI, error) {
	if !hasCode(contractState) {
		return nil, errors.New("cannot find contract")
	}
	return &types.ABI{Version: "0.2", Language: "stub"}, nil
}
