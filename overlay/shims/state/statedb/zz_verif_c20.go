//go:build verif

package statedb

import (
	"fmt"
	"sort"
	"strings"

	"github.com/aergoio/aergo/v2/internal/enc/proto"
	"github.com/aergoio/aergo/v2/types"
)

func verifC20Buffer(b *stateBuffer) string {
	if b == nil {
		return "nil"
	}
	var l []string
	for k, st := range b.indexes {
		idx := st.peek()
		if idx < 0 {
			continue
		}
		var v string
		switch x := b.entries[idx].Value().(type) {
		case nil:
			v = "<deleted>"
		case []byte:
			v = fmt.Sprintf("%x", x)
		case *types.State:
			enc, _ := proto.Encode(x)
			v = fmt.Sprintf("state:%x", enc)
		default:
			v = fmt.Sprintf("%T:%v", x, x)
		}
		l = append(l, fmt.Sprintf("%x=%s", k[:6], v))
	}
	sort.Strings(l)
	return fmt.Sprintf("puts=%d{%s}", b.nextIdx, strings.Join(l, ","))
}

func verifC20Storage(s *bufferedStorage) string {
	if s == nil {
		return "staged-or-nil"
	}
	return fmt.Sprintf("root=%x dirty=%v %s", s.Trie.Root, s.dirty, verifC20Buffer(s.Buffer))
}

// VerifC20Digest renders everything of a contract state that a write changes:
// the account state record (incl. code hash) and the storage (trie root plus
// the effective content and the number of puts of the write buffer).
func (cs *ContractState) VerifC20Digest() string {
	if cs == nil {
		return "nil"
	}
	enc, _ := proto.Encode(cs.State)
	return fmt.Sprintf("state=%x storage=[%s]", enc, verifC20Storage(cs.storage))
}

// VerifC20Digest renders the account buffer, the staged storages and the trie
// root of a state DB.
func (states *StateDB) VerifC20Digest() string {
	var l []string
	for aid, s := range states.Cache.storages {
		l = append(l, fmt.Sprintf("%x:[%s]", aid[:6], verifC20Storage(s)))
	}
	sort.Strings(l)
	return fmt.Sprintf("root=%x accounts=%s staged={%s}", states.Trie.Root, verifC20Buffer(states.Buffer), strings.Join(l, ";"))
}

// VerifC20Puts returns the effective account records of the account buffer
// (account id -> encoded state).
func (states *StateDB) VerifC20Puts() map[types.AccountID][]byte {
	out := map[types.AccountID][]byte{}
	for k, st := range states.Buffer.indexes {
		idx := st.peek()
		if idx < 0 {
			continue
		}
		if x, ok := states.Buffer.entries[idx].Value().(*types.State); ok {
			enc, _ := proto.Encode(x)
			out[types.AccountID(k)] = enc
		}
	}
	return out
}
