//go:build verif

package statedb

import (
	"bytes"
	"fmt"

	"github.com/aergoio/aergo/v2/internal/common"
	"github.com/aergoio/aergo/v2/pkg/trie"
)

// VerifLeaves walks the trie stored under root in this state DB's store and
// returns key -> raw stored value (the data the leaf's value hash points to).
// Every unreadable node or missing value is an error.
func (states *StateDB) VerifLeaves(root []byte) (map[string][]byte, error) {
	t := trie.NewTrie(root, common.Hasher, states.Store)
	leaves, err := t.VerifLeaves()
	if err != nil {
		return nil, err
	}
	out := make(map[string][]byte, len(leaves))
	for _, kv := range leaves {
		raw := states.Store.Get(kv[1])
		if len(raw) == 0 && !bytes.Equal(kv[1], common.Hasher(nil)) {
			return nil, fmt.Errorf("value %x of key %x is not in the store", kv[1], kv[0])
		}
		out[string(kv[0])] = raw
	}
	return out, nil
}
