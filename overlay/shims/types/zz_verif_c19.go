//go:build verif

package types

// VerifC19HeaderDigest returns the exact byte string a block signature covers.
func VerifC19HeaderDigest(bh *BlockHeader) ([]byte, error) { return bh.bytesForDigest() }
