//go:build verif

package mempool

// Shim for check C13 (add-only): builds the real MemPool on a real state DB
// without the actor system and exposes the unexported entry points that the
// actor's Receive() dispatches to. Nothing here re-implements pool logic.

import (
	"encoding/json"
	"sort"
	"time"

	cfg "github.com/aergoio/aergo/v2/config"
	"github.com/aergoio/aergo/v2/state"
	"github.com/aergoio/aergo/v2/types"
)

// VerifC13New = NewMemPoolService(cfg, nil) (the constructor path the package's
// own tests use: no ChainService, fee.EnableZeroFee) + the state wiring that
// NewMemPoolService(cs)/AfterStart() do: sdb set, setStateDB(best block).
// testConfig stays false: account state is read from the real state DB.
func VerifC13New(c *cfg.Config, sdb *state.ChainStateDB, best *types.Block) *MemPool {
	mp := NewMemPoolService(c, nil)
	mp.sdb = sdb
	mp.setStateDB(best)
	return mp
}

// VerifC13Clock owns the two wall-clock knobs of evictTransactions.
func VerifC13Clock(period, workTimeout time.Duration) {
	evictPeriod = period
	evictWorkTimeout = workTimeout
}

func (mp *MemPool) VerifC13Put(tx types.Transaction) error              { return mp.put(tx) }
func (mp *MemPool) VerifC13VerifyTx(tx types.Transaction) error         { return mp.verifyTx(tx) }
func (mp *MemPool) VerifC13Get(max uint32) ([]types.Transaction, error) { return mp.get(max) }
func (mp *MemPool) VerifC13Block(b *types.Block) error                  { return mp.removeOnBlockArrival(b) }
func (mp *MemPool) VerifC13RemoveTx(tx *types.Tx) error                 { return mp.removeTx(tx) }
func (mp *MemPool) VerifC13Evict()                                      { mp.evictTransactions() }
func (mp *MemPool) VerifC13Exist(h []byte) *types.Tx                    { return mp.exist(h) }
func (mp *MemPool) VerifC13ListHash(n int) ([]types.TxID, bool)         { return mp.listHash(n) }

// VerifC13Unconfirmed = the MemPoolTxStat / MemPoolTx handlers of Receive().
func (mp *MemPool) VerifC13Unconfirmed(accounts []types.Address, countOnly bool) ([]byte, error) {
	return json.Marshal(mp.getUnconfirmed(accounts, countOnly))
}

// VerifC13Age makes the list of acc look long unmodified (lastTime = epoch).
func (mp *MemPool) VerifC13Age(acc []byte) bool {
	l := mp.pool[types.ToAccountID(acc)]
	if l == nil {
		return false
	}
	l.lastTime = time.Unix(0, 0)
	return true
}

type VerifC13List struct {
	Account   []byte
	BaseNonce uint64
	BaseBal   []byte
	Ready     int
	Nonces    []uint64
	Hashes    [][]byte
	Aged      bool // lastTime older than one day
}

type VerifC13Dump struct {
	Length, Orphan int
	Lists          []VerifC13List // sorted by account bytes
	Cache          [][]byte       // sorted tx ids in the hash index
	CacheHashOK    bool           // every cached value's hash equals its key
	BestRoot       []byte
}

// VerifC13Snapshot reads the pool's private bookkeeping without any lock
// (call it only at quiescence).
func (mp *MemPool) VerifC13Snapshot() VerifC13Dump {
	d := VerifC13Dump{Length: mp.length, Orphan: mp.orphan, CacheHashOK: true}
	for _, l := range mp.pool {
		e := VerifC13List{Account: l.account, BaseNonce: l.base.GetNonce(), BaseBal: l.base.GetBalance(),
			Ready: l.ready, Aged: time.Since(l.lastTime) > 24*time.Hour}
		for _, tx := range l.list {
			e.Nonces = append(e.Nonces, tx.GetBody().GetNonce())
			e.Hashes = append(e.Hashes, tx.GetHash())
		}
		d.Lists = append(d.Lists, e)
	}
	sort.Slice(d.Lists, func(i, j int) bool { return string(d.Lists[i].Account) < string(d.Lists[j].Account) })
	mp.cache.Range(func(k, v interface{}) bool {
		id := k.(types.TxID)
		d.Cache = append(d.Cache, append([]byte(nil), id[:]...))
		if types.ToTxID(v.(types.Transaction).GetHash()) != id {
			d.CacheHashOK = false
		}
		return true
	})
	sort.Slice(d.Cache, func(i, j int) bool { return string(d.Cache[i]) < string(d.Cache[j]) })
	if mp.stateDB != nil {
		d.BestRoot = mp.stateDB.GetRoot()
	}
	return d
}
