//go:build verif

package mempool

// Shim for check C14 (add-only): the real MemPool built by the real constructor
// on a real ChainService (so that fee.zeroFee and chain.IsPublic() keep the
// values NewChainService gave them), without starting the actor; plus the two
// admission entry points TxVerifier.Receive calls. No pool logic here.

import (
	"github.com/aergoio/aergo/v2/chain"
	cfg "github.com/aergoio/aergo/v2/config"
	"github.com/aergoio/aergo/v2/pkg/component"
	"github.com/aergoio/aergo/v2/types"
)

// VerifC14New = NewMemPoolService(cfg, cs) + SetHub + what AfterStart does with
// the best block (setStateDB).
func VerifC14New(c *cfg.Config, cs *chain.ChainService, hub *component.ComponentHub, best *types.Block) *MemPool {
	mp := NewMemPoolService(c, cs)
	mp.SetHub(hub)
	mp.setStateDB(best)
	return mp
}

func (mp *MemPool) VerifC14VerifyTx(tx types.Transaction) error { return mp.verifyTx(tx) }
func (mp *MemPool) VerifC14Put(tx types.Transaction) error      { return mp.put(tx) }

// VerifC14Clear empties the pool (the real resetAll) so that the next case starts from an empty pool.
func (mp *MemPool) VerifC14Clear() { mp.Lock(); mp.resetAll(); mp.Unlock() }
