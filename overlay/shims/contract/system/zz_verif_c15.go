//go:build verif

package system

// Read-only views of the package-global voting power rank for check C15.
// Add-only; nothing here is reachable from repo code.

import (
	"container/list"
	"encoding/hex"
	"fmt"
	"math/big"
	"reflect"
	"sort"
	"strings"
	"unsafe"

	"github.com/aergoio/aergo/v2/types"
	"github.com/aergoio/aergo/v2/types/dbkey"
	rb "github.com/emirpasic/gods/trees/redblacktree"
)

func verifC15vp(vp *votingPower) string {
	if vp == nil {
		return "-"
	}
	return hex.EncodeToString(vp.id[:4]) + "/" + hex.EncodeToString(vp.addr[:4]) + "=" + vp.getPower().String()
}

// verifC15Sem describes what a user of the rank can observe: total power,
// the ranked members in order (what DumpVotingPowerRankers prints), the
// id->power table and the ordered buckets (what pickVotingRewardWinner walks).
func verifC15Sem(v *vpr) string {
	if v == nil {
		return "nil"
	}
	var b strings.Builder
	fmt.Fprintf(&b, "total=%s size=%d members=[", v.totalPower.String(), v.voters.members.Size())
	// (Values() sizes its result by the tree's size field, which can disagree
	// with the number of nodes; walk the nodes instead)
	n := 0
	for it := v.voters.members.Iterator(); it.Next(); n++ {
		if n > v.voters.members.Size()+8 {
			b.WriteString("<walk does not end> ")
			break
		}
		if m, ok := it.Value().(*votingPower); ok {
			b.WriteString(verifC15vp(m) + " ")
		} else {
			b.WriteString("<not a votingPower> ")
		}
	}
	b.WriteString("] powers=[")
	ids := make([]string, 0, len(v.voters.powers))
	for id, vp := range v.voters.powers {
		ids = append(ids, hex.EncodeToString(id[:4])+":"+verifC15vp(vp))
	}
	sort.Strings(ids)
	b.WriteString(strings.Join(ids, " "))
	b.WriteString("] buckets=[")
	idx := make([]int, 0, len(v.store.buckets))
	for i, l := range v.store.buckets {
		if l != nil && l.Len() > 0 {
			idx = append(idx, int(i))
		}
	}
	sort.Ints(idx)
	for _, i := range idx {
		fmt.Fprintf(&b, "%d:(", i)
		for e := v.store.buckets[uint8(i)].Front(); e != nil; e = e.Next() {
			b.WriteString(verifC15vp(toVotingPower(e)) + " ")
		}
		b.WriteString(") ")
	}
	b.WriteString("]")
	return b.String()
}

func verifC15Tree(n *rb.Node, b *strings.Builder) {
	if n == nil {
		b.WriteString(".")
		return
	}
	if b.Len() > 1<<14 {
		b.WriteString("<too deep>")
		return
	}
	c := "r"
	if reflect.ValueOf(n).Elem().FieldByName("color").Bool() {
		c = "b"
	}
	k, _ := n.Key.(*votingPower)
	b.WriteString("(" + c + verifC15vp(k) + " ")
	verifC15Tree(n.Left, b)
	verifC15Tree(n.Right, b)
	b.WriteString(")")
}

// VerifC15VprState returns (observable description, hidden structure) of the
// live in-memory rank. The second string adds what only influences future
// transitions: tree shape/colours, the lowest pointer and pending deltas.
func VerifC15VprState() (sem string, hidden string) {
	v := votingPowerRank
	sem = verifC15Sem(v)
	if v == nil {
		return sem, ""
	}
	var b strings.Builder
	verifC15Tree(v.voters.members.Root, &b)
	b.WriteString(" lowest=" + verifC15vp(v.lowest) + " changes=[")
	ch := make([]string, 0, len(v.changes))
	for id, d := range v.changes {
		ch = append(ch, hex.EncodeToString(id[:4])+":"+d.getAmount().String())
	}
	sort.Strings(ch)
	b.WriteString(strings.Join(ch, " ") + "]")
	return sem, b.String()
}

// VerifC15VprReload runs the real InitVotingPowerRank on s, describes the
// result and puts the live rank back, so the caller can compare "rebuilt from
// persisted state" with "maintained in memory" without disturbing the latter.
func VerifC15VprReload(s dataGetter) (string, error) {
	live := votingPowerRank
	defer func() { votingPowerRank = live }()
	if err := InitVotingPowerRank(s); err != nil {
		return "", err
	}
	return verifC15Sem(votingPowerRank), nil
}

// VerifC15VprFresh installs an empty rank, field for field what newVpr()
// builds, except that the pending-changes map is created without the
// 50,000-entry capacity hint (a hint does not change behaviour; allocating and
// iterating 8192 empty buckets per call dominated the run time otherwise).
func VerifC15VprFresh() {
	votingPowerRank = &vpr{
		voters:     newTopVoters(vprMax),
		store:      newVprStore(vprBucketsMax),
		totalPower: new(big.Int),
		changes:    make(map[types.AccountID]*deltaVP),
	}
}

// VerifC15VprRaw returns the persisted bucket rows of the given accounts'
// buckets exactly as stored (the rank can only ever write the bucket of a
// voter, getBucketIdx(id)).
func VerifC15VprRaw(s dataGetter, ids []types.AccountID) (string, error) {
	var b strings.Builder
	done := map[uint8]bool{}
	for _, id := range ids {
		i := getBucketIdx(id)
		if done[i] {
			continue
		}
		done[i] = true
		row, err := s.GetData(dbkey.SystemVpr(i))
		if err != nil {
			return "", err
		}
		if len(row) > 0 {
			fmt.Fprintf(&b, "%d:%x;", i, row)
		}
	}
	return b.String(), nil
}

// ---- exact snapshot / restore of the two mutable package globals
// (votingPowerRank, systemParams) so that the explorer can return to a state it
// has already built without re-executing the history. The copy preserves
// everything a later transition can depend on: tree shape and colours, the
// aliasing of *votingPower objects between tree / table / buckets / lowest, the
// aliasing of *big.Int power values, and the pending deltas. The harness
// asserts after every restore that VerifC15VprState() is unchanged.

type VerifC15Snap struct {
	v      *vpr
	params map[string]*big.Int
}

type verifC15cloner struct {
	vps   map[*votingPower]*votingPower
	ints  map[*big.Int]*big.Int
	nodes map[*rb.Node]*rb.Node
}

func (c *verifC15cloner) bi(x *big.Int) *big.Int {
	if x == nil {
		return nil
	}
	if y, ok := c.ints[x]; ok {
		return y
	}
	y := new(big.Int).Set(x)
	c.ints[x] = y
	return y
}

func (c *verifC15cloner) vp(x *votingPower) *votingPower {
	if x == nil {
		return nil
	}
	if y, ok := c.vps[x]; ok {
		return y
	}
	y := &votingPower{id: x.id, addr: append(types.Address{}, x.addr...), power: c.bi(x.power)}
	c.vps[x] = y
	return y
}

func verifC15field(p interface{}, name string) reflect.Value {
	f := reflect.ValueOf(p).Elem().FieldByName(name)
	return reflect.NewAt(f.Type(), unsafe.Pointer(f.UnsafeAddr())).Elem()
}

func (c *verifC15cloner) node(n, parent *rb.Node) *rb.Node {
	if n == nil {
		return nil
	}
	if m, ok := c.nodes[n]; ok { // a node reachable twice: keep the sharing
		return m
	}
	m := &rb.Node{Parent: parent}
	c.nodes[n] = m
	if n.Key != nil {
		m.Key = c.vp(n.Key.(*votingPower))
	}
	if n.Value != nil {
		m.Value = c.vp(n.Value.(*votingPower))
	}
	verifC15field(m, "color").SetBool(verifC15field(n, "color").Bool())
	m.Left = c.node(n.Left, m)
	m.Right = c.node(n.Right, m)
	return m
}

func verifC15Clone(v *vpr) *vpr {
	if v == nil {
		return nil
	}
	c := &verifC15cloner{vps: map[*votingPower]*votingPower{}, ints: map[*big.Int]*big.Int{}, nodes: map[*rb.Node]*rb.Node{}}
	tv := newTopVoters(v.voters.max)
	tv.members.Root = c.node(v.voters.members.Root, nil)
	verifC15field(tv.members, "size").SetInt(int64(v.voters.members.Size()))
	for id, p := range v.voters.powers {
		tv.powers[id] = c.vp(p)
	}
	st := newVprStore(vprBucketsMax)
	for i, l := range v.store.buckets {
		nl := list.New()
		if l != nil {
			for e := l.Front(); e != nil; e = e.Next() {
				nl.PushBack(c.vp(toVotingPower(e)))
			}
		}
		st.buckets[i] = nl
	}
	n := &vpr{voters: tv, store: st, totalPower: c.bi(v.totalPower), lowest: c.vp(v.lowest),
		changes: make(map[types.AccountID]*deltaVP, len(v.changes))}
	for id, d := range v.changes {
		n.changes[id] = &deltaVP{addr_: append(types.Address{}, d.addr_...), amount: c.bi(d.amount)}
	}
	return n
}

func VerifC15Snapshot() *VerifC15Snap {
	s := &VerifC15Snap{v: verifC15Clone(votingPowerRank), params: map[string]*big.Int{}}
	systemParams.mutex.Lock()
	for k, v := range systemParams.params {
		s.params[k] = v
	}
	systemParams.mutex.Unlock()
	return s
}

func VerifC15Restore(s *VerifC15Snap) {
	votingPowerRank = verifC15Clone(s.v)
	p := map[string]*big.Int{}
	for k, v := range s.params {
		p[k] = v
	}
	systemParams = &parameters{params: p}
}

// VerifC15ParamsState describes the in-memory parameter table (current and
// pending next-block values).
func VerifC15ParamsState() string {
	systemParams.mutex.Lock()
	defer systemParams.mutex.Unlock()
	ks := make([]string, 0, len(systemParams.params))
	for k, v := range systemParams.params {
		ks = append(ks, k+"="+v.String())
	}
	sort.Strings(ks)
	return strings.Join(ks, ",")
}

// VerifC15VprReloadCheap is loadVpr's body on a rank created without the
// 50,000-entry capacity hint (every method it calls is the real one). The
// harness uses it only after it has been checked equal to the real
// InitVotingPowerRank on the same rows (see vprReload in harness/c15).
func VerifC15VprReloadCheap(s dataGetter) (string, error) {
	v := &vpr{
		voters:     newTopVoters(vprMax),
		store:      newVprStore(vprBucketsMax),
		totalPower: new(big.Int),
		changes:    make(map[types.AccountID]*deltaVP),
	}
	for i := uint8(0); i < vprBucketsMax; i++ {
		vps, err := v.store.read(s, i)
		if err != nil {
			return "", err
		}
		for _, vp := range vps {
			rv := v.voters.update(vp)
			v.store.addTail(i, rv)
			v.updateLowest(vp)
			v.addTotal(rv.getPower())
		}
	}
	return verifC15Sem(v), nil
}
