//go:build verif

// Add-only shim for check C17: exports the unexported step functions of the
// finder / block fetcher / block processor so that the harness can drive them
// synchronously, and a canonical dump of their state. Nothing here is used by
// the repo code itself.
package syncer

import (
	"container/list"

	"fmt"
	"strings"
	"time"

	"github.com/aergoio/aergo-actor/actor"
	"github.com/aergoio/aergo/v2/pkg/component"
	"github.com/aergoio/aergo/v2/types"
	"github.com/aergoio/aergo/v2/types/message"
)

// VerifC17Cfg builds a SyncerConfig (all fields are unexported).
func VerifC17Cfg(hashReq uint64, blockReq, pendingConn, reqTasks int, fetchTimeout time.Duration, fullScanOnly bool) *SyncerConfig {
	return &SyncerConfig{maxHashReqSize: hashReq, maxBlockReqSize: blockReq, maxPendingConn: pendingConn,
		maxBlockReqTasks: reqTasks, fetchTimeOut: fetchTimeout, useFullScanOnly: fullScanOnly}
}

// VerifC17SetSchedTick sets the block fetcher's scheduler tick (package var) and returns the old value.
func VerifC17SetSchedTick(d time.Duration) time.Duration { o := schedTick; schedTick = d; return o }

// VerifC17SetHashTimeout sets the hash fetcher's default timeout (package var).
func VerifC17SetHashTimeout(d time.Duration) time.Duration {
	o := dfltTimeout
	dfltTimeout = d
	return o
}

// ---------------------------------------------------------------- Finder

// VerifC17NewFinder = newFinder with 1-buffered answer channels, so that a
// synchronous stub requester can deposit the peer's answer inside TellTo.
func VerifC17NewFinder(ctx *types.SyncContext, rq component.IComponentRequester, ch types.ChainAccessor, cfg *SyncerConfig) *Finder {
	f := newFinder(ctx, rq, ch, cfg)
	f.lScanCh = make(chan *types.BlockInfo, 1)
	f.fScanCh = make(chan *message.GetHashByNoRsp, 1)
	return f
}
func (finder *Finder) VerifC17Light() (*types.BlockInfo, error)  { return finder.lightscan() }
func (finder *Finder) VerifC17Full() (*types.BlockInfo, error)   { return finder.fullscan() }
func (finder *Finder) VerifC17PutAncestor(bi *types.BlockInfo)   { finder.lScanCh <- bi }
func (finder *Finder) VerifC17PutHash(r *message.GetHashByNoRsp) { finder.fScanCh <- r }
func (finder *Finder) VerifC17SetTimeout(d time.Duration)        { finder.dfltTimeout = d }
func (finder *Finder) VerifC17Quit()                             { close(finder.quitCh) }
func (finder *Finder) VerifC17LastAnchor() types.BlockNo         { return finder.ctx.LastAnchor }
func (finder *Finder) VerifC17Pending() (int, int)               { return len(finder.lScanCh), len(finder.fScanCh) }

// ---------------------------------------------------------------- Syncer

// verifC17Ctx is an actor context of which only Message() is ever used by Syncer.Receive.
type verifC17Ctx struct {
	actor.Context
	m interface{}
}

func (c verifC17Ctx) Message() interface{} { return c.m }

// VerifC17Receive delivers a message exactly as the actor system does (real Receive, incl. its
// not-running filter, then handleMessage).
func (syncer *Syncer) VerifC17Receive(msg interface{}) { syncer.Receive(verifC17Ctx{m: msg}) }

// VerifC17BufferLight gives the running finder a 1-buffered light-scan answer channel. It must be
// called on the finder's own goroutine before it sends GetSyncAncestor (the harness calls it from
// inside the GetAnchors future): Syncer.handleAncestorRsp uses a non-blocking send and would drop
// an answer that arrives before the finder reaches its select.
func (syncer *Syncer) VerifC17BufferLight() {
	if f := syncer.finder; f != nil {
		f.lScanCh = make(chan *types.BlockInfo, 1)
	}
}
func (syncer *Syncer) VerifC17Running() bool { return syncer.isRunning }
func (syncer *Syncer) VerifC17Parts() (finder, hf, bf bool) {
	return syncer.finder != nil, syncer.hashFetcher != nil, syncer.blockFetcher != nil
}

// ---------------------------------------------------------------- BlockFetcher / BlockProcessor

// VerifC17NewBF = newBlockFetcher with a 1-buffered hash set channel (models the
// hash fetcher blocked in its send: the set is on offer until the fetcher polls).
func VerifC17NewBF(ctx *types.SyncContext, rq component.IComponentRequester, cfg *SyncerConfig) *BlockFetcher {
	bf := newBlockFetcher(ctx, rq, cfg)
	bf.hfCh = make(chan *HashSet, 1)
	return bf
}
func (bf *BlockFetcher) VerifC17Init() error { return bf.init() }

// VerifC17Offer puts the next hash set on offer; false when one is still on offer.
func (bf *BlockFetcher) VerifC17Offer(hs *HashSet) bool {
	select {
	case bf.hfCh <- hs:
		return true
	default:
		return false
	}
}
func (bf *BlockFetcher) VerifC17Offered() int     { return len(bf.hfCh) }
func (bf *BlockFetcher) VerifC17HasHashSet() bool { return bf.curHashSet != nil }
func (bf *BlockFetcher) VerifC17RunningLen() int  { return bf.runningQueue.Len() }

// VerifC17Step is one iteration of the select loop of BlockFetcher.Start
// (blockfetcher.go, func run): either a scheduler tick or one message from
// responseCh, followed by schedule(). exited = the goroutine would have returned.
func (bf *BlockFetcher) VerifC17Step(tick bool, msg interface{}) (exited bool) {
	if tick {
		if err := bf.checkTaskTimeout(); err != nil {
			stopSyncer(bf.compRequester, bf.GetSeq(), bf.name, err)
			return true
		}
	} else {
		if err := bf.blockProcessor.run(msg); err != nil {
			stopSyncer(bf.compRequester, bf.GetSeq(), bf.name, err)
			return true
		}
	}
	if err := bf.schedule(); err != nil {
		if err == ErrQuitBlockFetcher {
			return true
		}
		stopSyncer(bf.compRequester, bf.GetSeq(), bf.name, err)
		return true
	}
	return false
}

// VerifC17Expire makes the first k running tasks (oldest first) look started
// long ago, so that the next tick times them out.
func (bf *BlockFetcher) VerifC17Expire(k int) {
	for e := bf.runningQueue.Front(); e != nil && k > 0; e = e.Next() {
		e.Value.(*FetchTask).started = time.Time{}
		k--
	}
}

// VerifC17Task describes a running task.
type VerifC17Task struct {
	StartNo types.BlockNo
	Count   int
	PeerNo  int
	PeerID  types.PeerID
	Retry   int
}

func (bf *BlockFetcher) VerifC17Running() []VerifC17Task {
	var r []VerifC17Task
	for e := bf.runningQueue.Front(); e != nil; e = e.Next() {
		t := e.Value.(*FetchTask)
		if t.syncPeer == nil { // cannot happen in the repo code; keeps a broken variant observable
			r = append(r, VerifC17Task{t.startNo, t.count, -1, "", t.retry})
			continue
		}
		r = append(r, VerifC17Task{t.startNo, t.count, t.syncPeer.No, t.syncPeer.ID, t.retry})
	}
	return r
}

func verifC17Blk(b *types.Block) string {
	if b == nil {
		return "-"
	}
	return fmt.Sprintf("%d/%.4x<%.4x", b.GetHeader().GetBlockNo(), b.GetHash(), b.GetHeader().GetPrevBlockHash())
}

// VerifC17Dump is a canonical rendering of everything the fetcher/processor
// transition functions read (stat counters and time stamps excluded; an expired
// start time is rendered because checkTaskTimeout reads it).
func (bf *BlockFetcher) VerifC17Dump() string {
	var sb strings.Builder
	q := func(name string, l *list.List) {
		sb.WriteString(name + "[")
		for e := l.Front(); e != nil; e = e.Next() {
			t := e.Value.(*FetchTask)
			p := -1
			if t.syncPeer != nil {
				p = t.syncPeer.No
			}
			x := ""
			if name == "run" && t.started.IsZero() {
				x = "!"
			}
			fmt.Fprintf(&sb, "(%d+%d p%d r%d %.3x%s)", t.startNo, t.count, p, t.retry, []byte(t.hashes[0]), x)
		}
		sb.WriteString("]")
	}
	q("run", &bf.runningQueue.List)
	q("pend", &bf.pendingQueue.List)
	q("retry", &bf.retryQueue.List)
	fmt.Fprintf(&sb, " peers{t%d f%d b%d free[", bf.peers.total, bf.peers.free, bf.peers.bad)
	for e := bf.peers.freePeers.Front(); e != nil; e = e.Next() {
		p := e.Value.(*SyncPeer)
		fmt.Fprintf(&sb, "%d:%d ", p.No, p.FailCnt)
	}
	sb.WriteString("] bad[")
	for e := bf.peers.badPeers.Front(); e != nil; e = e.Next() {
		p := e.Value.(*SyncPeer)
		fmt.Fprintf(&sb, "%d:%d ", p.No, p.FailCnt)
	}
	sb.WriteString("]}")
	if bf.curHashSet != nil {
		fmt.Fprintf(&sb, " hs(%d+%d)", bf.curHashSet.StartNo, bf.curHashSet.Count)
	}
	fmt.Fprintf(&sb, " offer%d", len(bf.hfCh))
	bp := bf.blockProcessor
	fmt.Fprintf(&sb, " bp{prev %s cur %s", verifC17Blk(bp.prevBlock), verifC17Blk(bp.curBlock))
	if bp.curConnRequest != nil {
		fmt.Fprintf(&sb, " req(%d@%d/%d)", bp.curConnRequest.firstNo, bp.curConnRequest.cur, len(bp.curConnRequest.Blocks))
		for _, b := range bp.curConnRequest.Blocks {
			sb.WriteString(" " + verifC17Blk(b))
		}
	}
	sb.WriteString(" q[")
	for _, c := range bp.connQueue {
		fmt.Fprintf(&sb, "(%d:", c.firstNo)
		for _, b := range c.Blocks {
			sb.WriteString(" " + verifC17Blk(b))
		}
		sb.WriteString(")")
	}
	sb.WriteString("]}")
	return sb.String()
}

// VerifC17Clone returns an independent deep copy of the fetcher and its processor
// that talks to rq. Immutable data (hash slices, blocks, hash sets, config, sync
// context) is shared. The harness cross-checks clones against replays from
// scratch (equal VerifC17Dump, sampled equal successor digests).
func (bf *BlockFetcher) VerifC17Clone(rq component.IComponentRequester) *BlockFetcher {
	n := &BlockFetcher{compRequester: rq, ctx: bf.ctx, curHashSet: bf.curHashSet, name: bf.name,
		maxFetchSize: bf.maxFetchSize, maxFetchTasks: bf.maxFetchTasks, maxPendingConn: bf.maxPendingConn,
		debug: bf.debug, isRunning: bf.isRunning, cfg: bf.cfg}
	n.quitCh = make(chan interface{})
	n.hfCh = make(chan *HashSet, 1)
	if len(bf.hfCh) > 0 {
		hs := <-bf.hfCh
		bf.hfCh <- hs
		n.hfCh <- hs
	}
	n.responseCh = make(chan interface{}, cap(bf.responseCh))
	pm := map[*SyncPeer]*SyncPeer{}
	cp := func(p *SyncPeer) *SyncPeer {
		if p == nil {
			return nil
		}
		if q, ok := pm[p]; ok {
			return q
		}
		q := *p
		pm[p] = &q
		return &q
	}
	n.peers = &PeerSet{total: bf.peers.total, free: bf.peers.free, bad: bf.peers.bad, freePeers: list.New(), badPeers: list.New()}
	for e := bf.peers.freePeers.Front(); e != nil; e = e.Next() {
		n.peers.freePeers.PushBack(cp(e.Value.(*SyncPeer)))
	}
	for e := bf.peers.badPeers.Front(); e != nil; e = e.Next() {
		n.peers.badPeers.PushBack(cp(e.Value.(*SyncPeer)))
	}
	tm := map[*FetchTask]*FetchTask{} // pointer identity is preserved across the queues
	cq := func(dst, src *list.List) {
		dst.Init()
		for e := src.Front(); e != nil; e = e.Next() {
			o := e.Value.(*FetchTask)
			t, ok := tm[o]
			if !ok {
				c := *o
				c.syncPeer = cp(o.syncPeer)
				t = &c
				tm[o] = t
			}
			dst.PushBack(t)
		}
	}
	cq(&n.runningQueue.List, &bf.runningQueue.List)
	cq(&n.pendingQueue.List, &bf.pendingQueue.List)
	cq(&n.retryQueue.List, &bf.retryQueue.List)
	if b := bf.stat.getMaxChunkRsp(); b != nil {
		n.stat.maxRspBlock.Store(b)
	}
	if b := bf.stat.getLastAddBlock(); b != nil {
		n.stat.lastAddBlock.Store(b)
	}
	op := bf.blockProcessor
	np := &BlockProcessor{compRequester: rq, blockFetcher: n, prevBlock: op.prevBlock, curBlock: op.curBlock,
		targetBlockNo: op.targetBlockNo, name: op.name}
	cm := map[*ConnectTask]*ConnectTask{}
	cc := func(o *ConnectTask) *ConnectTask {
		if o == nil {
			return nil
		}
		if c, ok := cm[o]; ok {
			return c
		}
		c := *o
		cm[o] = &c
		return &c
	}
	np.curConnRequest = cc(op.curConnRequest)
	np.connQueue = make([]*ConnectTask, 0, 16)
	for _, c := range op.connQueue {
		np.connQueue = append(np.connQueue, cc(c))
	}
	n.blockProcessor = np
	return n
}
