//go:build verif

package p2p

import (
	"github.com/aergoio/aergo-lib/log"
	"github.com/aergoio/aergo/v2/p2p/p2pcommon"
	"github.com/aergoio/aergo/v2/types"
)

// Shim for check C18 (add-only): constructors of unexported p2p components.

func VerifC18NewVersionManager(is p2pcommon.InternalService, actor p2pcommon.ActorService, pm p2pcommon.PeerManager, ca types.ChainAccessor, logger *log.Logger, localChainID *types.ChainID) p2pcommon.VersionedManager {
	return newDefaultVersionManager(is, actor, pm, ca, logger, localChainID)
}

func VerifC18NewSyncManager(actor p2pcommon.ActorService, pm p2pcommon.PeerManager, logger *log.Logger) p2pcommon.SyncManager {
	return newSyncManager(actor, pm, logger)
}
