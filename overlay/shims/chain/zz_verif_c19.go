//go:build verif

package chain

import (
	"github.com/aergoio/aergo-lib/db"
	"github.com/aergoio/aergo/v2/config"
	"github.com/aergoio/aergo/v2/types"
)

// VerifC19OpenCDB opens a ChainDB on the in-memory verifdb store called name
// (no directory is created, nothing is loaded); opening the same name again
// models a restart on the same data.
func VerifC19OpenCDB(name string) *ChainDB {
	st := verifC19Stores[name]
	if st == nil {
		st = db.NewDB(db.ImplType("verifdb"), name)
		verifC19Stores[name] = st
	}
	cdb := NewChainDB()
	cdb.store = st
	return cdb
}

// the verifdb handle of a name is the same object on every open anyway; it is
// cached only because db.NewDB builds a logger on each call.
var verifC19Stores = map[string]db.DB{}

// VerifC19Clear empties the store called name.
func VerifC19Clear(name string) {
	if st := verifC19Stores[name]; st != nil {
		db.VerifHandleRestore(st, nil)
	}
}

func (cdb *ChainDB) VerifC19WriteReceipts(block *types.Block, rs *types.Receipts) {
	cdb.writeReceiptsAndOperations(block, rs, "")
}

func (cdb *ChainDB) VerifC19GetReceipts(hash []byte, no types.BlockNo, hf *config.HardforkConfig) (*types.Receipts, error) {
	return cdb.getReceipts(hash, no, hf)
}

func (cdb *ChainDB) VerifC19GetReceipt(hash []byte, no types.BlockNo, idx int32, hf *config.HardforkConfig) (*types.Receipt, error) {
	return cdb.getReceipt(hash, no, idx, hf)
}

func (cdb *ChainDB) VerifC19AddGenesis(g *types.Genesis) error { return cdb.addGenesisBlock(g) }
