//go:build verif

// Shim for the /verif harnesses (nodekit): exports the unexported entry points
// of ChainService that the checks drive. Add-only; never compiled without
// -tags verif.
package chain

import (
	"sort"
	"time"

	"github.com/aergoio/aergo-lib/db"
	"github.com/aergoio/aergo/v2/state"
	"github.com/aergoio/aergo/v2/types"
)

// VerifAddBlock is ChainService.addBlock (the body of the AddBlock message handler).
func (cs *ChainService) VerifAddBlock(b *types.Block, bs *state.BlockState, peer types.PeerID) error {
	return cs.addBlock(b, bs, peer)
}

func (cs *ChainService) VerifGetTx(h []byte) (*types.Tx, *types.TxIdx, error) { return cs.getTx(h) }
func (cs *ChainService) VerifGetReceipt(h []byte) (*types.Receipt, error)     { return cs.getReceipt(h) }
func (cs *ChainService) VerifGetReceipts(bh []byte) (*types.Receipts, error)  { return cs.getReceipts(bh) }
func (cs *ChainService) VerifGetReceiptsByNo(no types.BlockNo) (*types.Receipts, error) {
	return cs.getReceiptsByNo(no)
}
func (cs *ChainService) VerifGetBlock(h []byte) (*types.Block, error) { return cs.getBlock(h) }
func (cs *ChainService) VerifGetBlockByNo(no types.BlockNo) (*types.Block, error) {
	return cs.getBlockByNo(no)
}
func (cs *ChainService) VerifGetHashByNo(no types.BlockNo) ([]byte, error) { return cs.getHashByNo(no) }
func (cs *ChainService) VerifFindAncestor(hs [][]byte) (*types.BlockInfo, error) {
	return cs.findAncestor(hs)
}
func (cs *ChainService) VerifBestNo() types.BlockNo { return cs.cdb.getBestBlockNo() }

// VerifSkipMempool makes the tx signature verifier verify every signature itself
// instead of asking a mempool actor whether it already did.
func (cs *ChainService) VerifSkipMempool(v bool) { cs.validator.signVerifier.SetSkipMempool(v) }

// VerifOrphans lists the orphan pool as "parentHash>blockHash" strings, sorted.
func (cs *ChainService) VerifOrphans() []string {
	var r []string
	cs.op.RLock()
	for id, ob := range cs.op.cache {
		r = append(r, id.String()+">"+ob.Block.ID())
	}
	cs.op.RUnlock()
	sort.Strings(r)
	return r
}

// VerifErrBlocks lists the ids in the bad-block cache, sorted.
func (cs *ChainService) VerifErrBlocks() []string {
	var r []string
	for _, k := range cs.errBlocks.Keys() {
		if id, ok := k.(types.HashID); ok {
			r = append(r, id.String())
		}
	}
	sort.Strings(r)
	return r
}

// VerifQuiesce waits until a signature verification that was started for the last
// block but never awaited (the block failed earlier) has delivered its result, so that
// the next delivery does not race with it. It owns a piece of nondeterminism (the
// verifier's goroutines); it is not an oracle. Bounded at 60 s.
func (cs *ChainService) VerifQuiesce() {
	bv := cs.validator
	for i := 0; bv.isNeedWait && len(bv.signVerifier.resultCh) == 0 && i < 60000; i++ {
		time.Sleep(time.Millisecond)
	}
}

// VerifStores returns the raw chain DB and state DB handles.
func (cs *ChainService) VerifStores() (chainStore db.DB, stateStore db.DB) {
	return cs.cdb.store, cs.sdb.GetStateDB().Store
}

// VerifStop stops the sub-actors and the signature verifier (no DB close:
// verifdb stores are owned by the harness).
func (cs *ChainService) VerifStop() {
	defer func() { recover() }()
	cs.chainManager.Stop()
	cs.chainWorker.Stop()
	// the signature verifier is deliberately not stopped: Stop() closes its
	// channels, and a verification that is still in flight for a block that
	// failed early would panic with "send on closed channel" (one parked
	// worker goroutine per stopped node is leaked instead).
}

// VerifReorgMarker reports whether a reorg marker is present in the chain DB.
func (cs *ChainService) VerifReorgMarker() bool {
	m, err := cs.cdb.getReorgMarker()
	return err == nil && m != nil
}

// VerifQuery runs a contract query the way ChainWorker does for message.GetQuery.
func (cs *ChainService) VerifIsRecovered() bool { return cs.isRecovered() }
