//go:build verif

package chain

import "github.com/aergoio/aergo/v2/types"

// Shim for check C18 (add-only): reaches the network-block entry point of the
// chain service and the bad-block cache.

// VerifC18AddBlock delivers a block exactly as the ChainManager actor does for
// message.AddBlock coming from p2p/syncer (no block state = not produced here).
func (cs *ChainService) VerifC18AddBlock(b *types.Block, peer types.PeerID) error {
	return cs.addBlock(b, nil, peer)
}

// VerifC18InErrCache reports whether id is in the negative (errored blocks) cache.
func (cs *ChainService) VerifC18InErrCache(id []byte) bool {
	return cs.errBlocks.Contains(types.ToHashID(id))
}

// VerifC18SkipMempool makes tx signature verification self-contained (no hub).
func (cs *ChainService) VerifC18SkipMempool() { cs.validator.signVerifier.SetSkipMempool(true) }

// VerifC18DryRun executes b on top of the current state without committing and
// returns the resulting state root and receipts root (used by the harness to
// build a block that is valid after execution, like a producer would).
func (cs *ChainService) VerifC18DryRun(b *types.Block) (root, receiptsRoot []byte, err error) {
	ex, err := newBlockExecutor(cs, nil, b, true)
	if err != nil {
		return nil, nil, err
	}
	err = ex.execute()
	return ex.BlockState.GetRoot(), ex.BlockState.Receipts().MerkleRoot(), err
}
