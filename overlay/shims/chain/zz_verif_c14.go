//go:build verif

package chain

// Shim for check C14 (add-only): the body of ChainWorker.Receive for
// *message.CheckFeeDelegation (chainservice.go), callable synchronously, so that
// the mempool's fee-delegation admission step gets the answer the chain service
// actor would give.

import (
	"github.com/aergoio/aergo/v2/contract"
	"github.com/aergoio/aergo/v2/state"
	"github.com/aergoio/aergo/v2/state/statedb"
	"github.com/aergoio/aergo/v2/types/message"
)

func (cs *ChainService) VerifC14CheckFeeDelegation(msg *message.CheckFeeDelegation) message.CheckFeeDelegationRsp {
	sdb := cs.sdb.OpenNewStateDB(cs.sdb.GetRoot())
	ctrState, err := statedb.OpenContractStateAccount(msg.Contract, sdb)
	if err != nil {
		return message.CheckFeeDelegationRsp{Err: err}
	}
	bs := state.NewBlockState(sdb)
	err = contract.CheckFeeDelegation(msg.Contract, bs, nil, cs.cdb, ctrState, msg.Payload, msg.TxHash, msg.Sender, msg.Amount)
	return message.CheckFeeDelegationRsp{Err: err}
}
