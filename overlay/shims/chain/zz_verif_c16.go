//go:build verif

package chain

import (
	"github.com/aergoio/aergo-lib/db"
	"github.com/aergoio/aergo/v2/types"
)

// VerifC16OpenChainDB builds a ChainDB on an already opened store exactly as
// ChainDB.Init does for a store it opened itself (load chain data, recover
// from a reorg marker) - without a ChainService and without touching the disk.
func VerifC16OpenChainDB(store db.DB) (*ChainDB, error) {
	cdb := NewChainDB()
	cdb.store = store
	if err := cdb.Init("", "", nil); err != nil {
		return nil, err
	}
	return cdb, nil
}

// VerifC16AddGenesis stores a genesis block (so that GetBestBlock works).
func VerifC16AddGenesis(cdb *ChainDB, g *types.Genesis) error {
	return cdb.addGenesisBlock(g)
}

// VerifC16MemState returns the in-memory (non-store) state of a ChainDB.
func VerifC16MemState(cdb *ChainDB) (uint64, []byte) {
	var h []byte
	if b, _ := cdb.GetBestBlock(); b != nil {
		h = b.BlockHash()
	}
	return uint64(cdb.getBestBlockNo()), h
}
