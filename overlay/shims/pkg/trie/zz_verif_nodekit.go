//go:build verif

package trie

import "fmt"

// VerifLeaves walks the whole trie under the current Root and returns every
// (key, value) leaf. Unlike GetKeys it reports unreadable nodes as an error.
func (s *Trie) VerifLeaves() ([][2][]byte, error) {
	s.lock.RLock()
	defer s.lock.RUnlock()
	s.atomicUpdate = false
	var out [][2][]byte
	var walk func(root []byte, batch [][]byte, iBatch, height int) error
	walk = func(root []byte, batch [][]byte, iBatch, height int) error {
		if len(root) == 0 {
			return nil
		}
		if height < 0 {
			return fmt.Errorf("trie deeper than its height")
		}
		batch, iBatch, lnode, rnode, isShortcut, err := s.loadChildren(root, height, iBatch, batch)
		if err != nil {
			return err
		}
		if isShortcut {
			out = append(out, [2][]byte{append([]byte{}, lnode[:HashLength]...), append([]byte{}, rnode[:HashLength]...)})
			return nil
		}
		if err := walk(lnode, batch, 2*iBatch+1, height-1); err != nil {
			return err
		}
		return walk(rnode, batch, 2*iBatch+2, height-1)
	}
	if err := walk(s.Root, nil, 0, s.TrieHeight); err != nil {
		return nil, err
	}
	return out, nil
}
