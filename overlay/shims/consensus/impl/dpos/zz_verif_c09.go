//go:build verif

package dpos

import (
	"github.com/aergoio/aergo/v2/consensus"
	"github.com/aergoio/aergo/v2/consensus/impl/dpos/bp"
	"github.com/aergoio/aergo/v2/types"
)

// VerifC09New builds a DPoS object the way New does (real bp.Cluster loaded
// from the genesis BP list of cdb, real Status via NewStatus, Init(size)), but
// without block factory, voting-power rank, state DB and actor hub. The
// interval used by Init is consensus.BlockIntervalSec (set it beforehand).
func VerifC09New(cdb consensus.ChainDB) (*DPoS, error) {
	bpc, err := bp.NewCluster(cdb)
	if err != nil {
		return nil, err
	}
	Init(bpc.Size())
	return &DPoS{
		Status:  NewStatus(bpc, cdb, nil, 0),
		ChainDB: cdb,
		bpc:     bpc,
		quit:    make(chan interface{}),
	}, nil
}

// VerifC09BpIndex exposes bpc.BpID2Index (65535 = the "not a member" value).
func (dpos *DPoS) VerifC09BpIndex(id types.PeerID) uint16 {
	return uint16(dpos.bpc.BpID2Index(id))
}

// VerifC09BpCount exposes bpc.Size().
func (dpos *DPoS) VerifC09BpCount() uint16 { return dpos.bpc.Size() }

// VerifC09LibNo exposes the LIB number VerifyTimestamp compares with.
func (dpos *DPoS) VerifC09LibNo() types.BlockNo { return dpos.libNo() }

// VerifC09Update replaces the producer set the way Status.Update does after an
// election or a reorganisation (bp.Snapshots.UpdateCluster -> Cluster.Update).
func (dpos *DPoS) VerifC09Update(ids []string) error { return dpos.bpc.Update(ids) }

// VerifC09BpID exposes bpc.BpIndex2ID.
func (dpos *DPoS) VerifC09BpID(i uint16) (types.PeerID, bool) { return dpos.bpc.BpIndex2ID(bp.Index(i)) }

// VerifC09Has exposes bpc.Has.
func (dpos *DPoS) VerifC09Has(id types.PeerID) bool { return dpos.bpc.Has(id) }
