//go:build verif

// Shim for the /verif harnesses: builds the real DPoS consensus object
// (Status + producer cluster) without block factory, hub or p2p key.
package dpos

import (
	"fmt"
	"sort"
	"sync"

	"github.com/aergoio/aergo/v2/chain"
	"github.com/aergoio/aergo/v2/consensus"
	"github.com/aergoio/aergo/v2/consensus/impl/dpos/bp"
	"github.com/aergoio/aergo/v2/internal/enc/gob"
	"github.com/aergoio/aergo/v2/state"
	"github.com/aergoio/aergo/v2/types"
)

// VerifNew is dpos.New minus NewBlockFactory. bpid is the identity this node
// would produce with ("" = none); it only feeds libStatus.LpbNo.
func VerifNew(cdb consensus.ChainDB, sdb *state.ChainStateDB, bpid string) (*DPoS, error) {
	chain.DecorateBlockRewardFn(sendVotingReward)
	bpc, err := bp.NewCluster(cdb)
	if err != nil {
		return nil, err
	}
	if err = InitVPR(sdb.GetStateDB()); err != nil {
		return nil, err
	}
	Init(bpc.Size())
	d := &DPoS{
		Status:  NewStatus(bpc, cdb, sdb, 0),
		ChainDB: cdb,
		bpc:     bpc,
	}
	// bind the boot loader now: bsLoader is a package global that the next
	// VerifNew (another simulated node) overwrites.
	d.Status.Lock()
	d.Status.load()
	d.Status.libState.bpid = bpid
	d.Status.Unlock()
	verifLoaders.Store(d, bsLoader)
	return d, nil
}

// verifLoaders remembers the boot loader (chain DB handle + genesis) of every
// simulated node: loadPlibStatus reads blocks through the package global bsLoader
// when the status is rolled back, so the harness re-binds it before driving a node.
var verifLoaders sync.Map

// VerifFocus makes this node's boot loader the package-global one.
func (d *DPoS) VerifFocus() {
	if l, ok := verifLoaders.Load(d); ok {
		bsLoader = l.(*bootLoader)
	}
}

// VerifForget drops the remembered boot loader of a stopped node.
func (d *DPoS) VerifForget() { verifLoaders.Delete(d) }

// VerifLIB returns the current LIB (hash, no).
func (d *DPoS) VerifLIB() (string, types.BlockNo) {
	l := d.Status.lib()
	if l == nil {
		return "", 0
	}
	return l.BlockHash, l.BlockNo
}

func (d *DPoS) VerifLpbNo() types.BlockNo {
	d.Status.RLock()
	defer d.Status.RUnlock()
	return d.Status.libState.LpbNo
}

// VerifStatusDigest is a canonical rendering of the whole finality status
// (LIB, last produced block, proposed-LIB map, confirm list).
func (d *DPoS) VerifStatusDigest() string {
	d.Status.RLock()
	defer d.Status.RUnlock()
	ls := d.Status.libState
	s := fmt.Sprintf("lib=%d/%s lpb=%d req=%d best=%s;", ls.Lib.BlockNo, ls.Lib.BlockHash, ls.LpbNo, ls.confirmsRequired, d.Status.bestBlock.ID())
	var ks []string
	for k := range ls.Prpsd {
		ks = append(ks, k)
	}
	sort.Strings(ks)
	for _, k := range ks {
		p := ls.Prpsd[k]
		if p == nil {
			continue
		}
		s += fmt.Sprintf("p[%s]=%d/%s by %d/%s;", k, p.Plib.BlockNo, p.Plib.BlockHash, p.PlibBy.BlockNo, p.PlibBy.BlockHash)
	}
	for e := ls.confirms.Front(); e != nil; e = e.Next() {
		c := cInfo(e)
		s += fmt.Sprintf("c[%d/%s bp=%s r=%d left=%d];", c.BlockNo, c.BlockHash, c.bpid, c.ConfirmRange, c.confirmsLeft)
	}
	return s
}

// VerifSavedStatus decodes the persisted libStatus (what a restart would load): lib no/hash.
func VerifSavedLIB(b []byte) (string, types.BlockNo, error) {
	ls := &libStatus{}
	if err := gob.Decode(b, ls); err != nil {
		return "", 0, err
	}
	if ls.Lib == nil {
		return "", 0, nil
	}
	return ls.Lib.BlockHash, ls.Lib.BlockNo, nil
}

func (d *DPoS) VerifBpCount() uint16 { return d.bpc.Size() }
