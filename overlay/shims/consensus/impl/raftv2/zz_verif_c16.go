//go:build verif

package raftv2

import (
	"context"

	"github.com/aergoio/aergo/v2/consensus"
	raftlib "github.com/aergoio/etcd/raft"
	"github.com/aergoio/etcd/raft/raftpb"
)

// VerifC16Node is a raftlib.Node whose Status() is set by the harness.
type VerifC16Node struct {
	St raftlib.Status
}

func (n *VerifC16Node) Tick()                                                             {}
func (n *VerifC16Node) Campaign(ctx context.Context) error                                { return nil }
func (n *VerifC16Node) Propose(ctx context.Context, data []byte) error                    { return nil }
func (n *VerifC16Node) ProposeConfChange(ctx context.Context, cc raftpb.ConfChange) error { return nil }
func (n *VerifC16Node) Step(ctx context.Context, msg raftpb.Message) error                { return nil }
func (n *VerifC16Node) Ready() <-chan raftlib.Ready                                       { return nil }
func (n *VerifC16Node) Advance()                                                          {}
func (n *VerifC16Node) ApplyConfChange(cc raftpb.ConfChange) *raftpb.ConfState {
	return &raftpb.ConfState{}
}
func (n *VerifC16Node) TransferLeadership(ctx context.Context, lead, transferee uint64) {}
func (n *VerifC16Node) ReadIndex(ctx context.Context, rctx []byte) error                { return nil }
func (n *VerifC16Node) Status() raftlib.Status                                          { return n.St }
func (n *VerifC16Node) ReportUnreachable(id uint64)                                     {}
func (n *VerifC16Node) ReportSnapshot(id uint64, status raftlib.SnapshotStatus)         {}
func (n *VerifC16Node) Stop()                                                           {}

// VerifC16Env is a BlockFactory reduced to what the membership request path
// (BlockFactory.MakeConfChangeProposal -> Cluster.makeProposal ->
// validateChangeMembership, isEnableChangeMembership -> raftServer.GetClusterProgress)
// reads: the cluster, a raftServer with the fake node and a raft MemoryStorage.
type VerifC16Env struct {
	BF   *BlockFactory
	Cl   *Cluster
	Node *VerifC16Node
	rs   *raftServer
}

// VerifC16NewEnv wires cl to a raftServer whose node is the fake node; the
// leader's last log index (raftStorage.LastIndex) is lastIndex.
func VerifC16NewEnv(cl *Cluster, lastIndex uint64) *VerifC16Env {
	st := raftlib.NewMemoryStorage()
	if lastIndex > 0 {
		if err := st.ApplySnapshot(raftpb.Snapshot{Metadata: raftpb.SnapshotMetadata{Index: lastIndex, Term: 1}}); err != nil {
			panic(err)
		}
	}
	node := &VerifC16Node{}
	rs := &raftServer{cluster: cl, raftStorage: st}
	rs.setNodeSync(node)
	cl.rs = rs
	return &VerifC16Env{BF: &BlockFactory{bpc: cl, raftServer: rs}, Cl: cl, Node: node, rs: rs}
}

// VerifC16SetLeader feeds a soft state through the real updateTerm/updateLeader.
func (e *VerifC16Env) VerifC16SetLeader(term, lead uint64) {
	e.rs.updateTerm(term)
	e.rs.updateLeader(&raftlib.SoftState{Lead: lead})
}

func (e *VerifC16Env) VerifC16IsLeader() bool { return e.rs.IsLeader() }

// VerifC16Progress exposes the health classification the code derives.
func (e *VerifC16Env) VerifC16Progress() (n int, state map[uint64]int, err error) {
	cp, err := e.rs.GetClusterProgress()
	if err != nil {
		return 0, nil, err
	}
	state = map[uint64]int{}
	for id, mp := range cp.MemberProgresses {
		state[id] = int(mp.Status)
	}
	return cp.N, state, nil
}

func VerifC16AddMember(cl *Cluster, m *consensus.Member, applied bool) error {
	return cl.addMember(m, applied)
}

func VerifC16RemoveMember(cl *Cluster, m *consensus.Member) error { return cl.removeMember(m) }

// VerifC16Validate is the call made by raftServer.ValidateConfChangeEntry (apply path).
func VerifC16Validate(cl *Cluster, cc *raftpb.ConfChange, m *consensus.Member) error {
	return cl.validateChangeMembership(cc, m, true)
}

func VerifC16IsEnable(cl *Cluster, cc *raftpb.ConfChange) error {
	cl.Lock()
	defer cl.Unlock()
	return cl.isEnableChangeMembership(cc)
}
