#!/bin/bash
# Run once after a fresh restore, offline: builds the overlay generator and
# warms the Go build cache by compiling every check binary exactly the way
# ./check does (incl. the source rewrites a check asks for in harness/cNN/REWRITE).
cd "$(dirname "$0")"
. ./env.sh
mkdir -p build/bin evidence replays
(cd tools/mkoverlay && go build -o ../../build/mkoverlay .) || exit 1
rc=0
for d in harness/c[0-9][0-9]; do
  id=$(basename $d)
  rw=""; [ -f "$d/REWRITE" ] && rw=$(cat "$d/REWRITE")
  ./build/mkoverlay -repo "$REPO" -verif "$VERIF" -out "$VERIF/build" ${rw:+-rewrite "$rw"} || rc=1
  (cd "$REPO" && go build -overlay "$VERIF/build/overlay.json" -tags verif -o "$VERIF/build/bin/$id" ./verif_h/$id) || { echo "setup: $id does not build" >&2; rc=1; }
done
exit $rc
